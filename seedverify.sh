#!/bin/bash
# ./seedverify.sh <id> <pkgdir> <run-regex> <demo files...>   (files relative to /tmp/seed-out/<id>/)
# Confirms in a scratch worktree: demo passes without the patch, fails with it. Prints a JSON fragment.
export GOFLAGS=-mod=mod GOPROXY=off GOSUMDB=off GOTOOLCHAIN=local
ID=$1; PKG=$2; RX=$3; shift 3
SRC=${SEEDSRC:-/tmp/seed-out/$ID}
WT=/var/tmp/verif-mut/seed-$ID-$$
mkdir -p /var/tmp/verif-mut
git -C /repo worktree add --detach "$WT" HEAD -q || exit 2
trap 'git -C /repo worktree remove --force "$WT" >/dev/null 2>&1' EXIT
for f in "$@"; do cp "$SRC/$f" "$WT/$PKG/"; done
(cd "$WT" && go test -tags test -count=1 -vet=off -run "$RX" ./$PKG/ > /var/tmp/verif-mut/seed-$ID-without.log 2>&1); RC0=$?
git -C "$WT" apply "$SRC/patch.diff" || { echo "patch does not apply"; exit 2; }
(cd "$WT" && go build ./... ) || { echo "does not build"; exit 2; }
(cd "$WT" && go test -tags test -count=1 -vet=off -run "$RX" ./$PKG/ > /var/tmp/verif-mut/seed-$ID-with.log 2>&1); RC1=$?
echo "{\"demo_without_patch_rc\": $RC0, \"demo_with_patch_rc\": $RC1}"
