// Package vatomic is the drop-in replacement of "sync/atomic" for
// instrumented files: every operation is preceded by a scheduling point.
package vatomic

import (
	"sync/atomic"
	"unsafe"

	"github.com/spikeekips/mitum/zzverif/vsched"
)

func pt(k string) { vsched.Point(k, nil) }

func AddInt32(a *int32, d int32) int32     { pt("atomic.Add"); return atomic.AddInt32(a, d) }
func AddInt64(a *int64, d int64) int64     { pt("atomic.Add"); return atomic.AddInt64(a, d) }
func AddUint32(a *uint32, d uint32) uint32 { pt("atomic.Add"); return atomic.AddUint32(a, d) }
func AddUint64(a *uint64, d uint64) uint64 { pt("atomic.Add"); return atomic.AddUint64(a, d) }
func LoadInt32(a *int32) int32             { pt("atomic.Load"); return atomic.LoadInt32(a) }
func LoadInt64(a *int64) int64             { pt("atomic.Load"); return atomic.LoadInt64(a) }
func LoadUint32(a *uint32) uint32          { pt("atomic.Load"); return atomic.LoadUint32(a) }
func LoadUint64(a *uint64) uint64          { pt("atomic.Load"); return atomic.LoadUint64(a) }
func StoreInt32(a *int32, v int32)         { pt("atomic.Store"); atomic.StoreInt32(a, v) }
func StoreInt64(a *int64, v int64)         { pt("atomic.Store"); atomic.StoreInt64(a, v) }
func StoreUint32(a *uint32, v uint32)      { pt("atomic.Store"); atomic.StoreUint32(a, v) }
func StoreUint64(a *uint64, v uint64)      { pt("atomic.Store"); atomic.StoreUint64(a, v) }
func SwapInt32(a *int32, v int32) int32    { pt("atomic.Swap"); return atomic.SwapInt32(a, v) }
func SwapInt64(a *int64, v int64) int64    { pt("atomic.Swap"); return atomic.SwapInt64(a, v) }
func CompareAndSwapInt32(a *int32, o, n int32) bool {
	pt("atomic.CAS")
	return atomic.CompareAndSwapInt32(a, o, n)
}
func CompareAndSwapInt64(a *int64, o, n int64) bool {
	pt("atomic.CAS")
	return atomic.CompareAndSwapInt64(a, o, n)
}
func CompareAndSwapUint32(a *uint32, o, n uint32) bool {
	pt("atomic.CAS")
	return atomic.CompareAndSwapUint32(a, o, n)
}
func CompareAndSwapUint64(a *uint64, o, n uint64) bool {
	pt("atomic.CAS")
	return atomic.CompareAndSwapUint64(a, o, n)
}
func LoadPointer(a *unsafe.Pointer) unsafe.Pointer { pt("atomic.Load"); return atomic.LoadPointer(a) }
func StorePointer(a *unsafe.Pointer, v unsafe.Pointer) {
	pt("atomic.Store")
	atomic.StorePointer(a, v)
}

type Int32 struct{ v atomic.Int32 }

func (x *Int32) Load() int32        { pt("atomic.Load"); return x.v.Load() }
func (x *Int32) Store(v int32)      { pt("atomic.Store"); x.v.Store(v) }
func (x *Int32) Add(d int32) int32  { pt("atomic.Add"); return x.v.Add(d) }
func (x *Int32) Swap(v int32) int32 { pt("atomic.Swap"); return x.v.Swap(v) }
func (x *Int32) CompareAndSwap(o, n int32) bool {
	pt("atomic.CAS")
	return x.v.CompareAndSwap(o, n)
}

type Int64 struct{ v atomic.Int64 }

func (x *Int64) Load() int64        { pt("atomic.Load"); return x.v.Load() }
func (x *Int64) Store(v int64)      { pt("atomic.Store"); x.v.Store(v) }
func (x *Int64) Add(d int64) int64  { pt("atomic.Add"); return x.v.Add(d) }
func (x *Int64) Swap(v int64) int64 { pt("atomic.Swap"); return x.v.Swap(v) }
func (x *Int64) CompareAndSwap(o, n int64) bool {
	pt("atomic.CAS")
	return x.v.CompareAndSwap(o, n)
}

type Uint32 struct{ v atomic.Uint32 }

func (x *Uint32) Load() uint32        { pt("atomic.Load"); return x.v.Load() }
func (x *Uint32) Store(v uint32)      { pt("atomic.Store"); x.v.Store(v) }
func (x *Uint32) Add(d uint32) uint32 { pt("atomic.Add"); return x.v.Add(d) }
func (x *Uint32) CompareAndSwap(o, n uint32) bool {
	pt("atomic.CAS")
	return x.v.CompareAndSwap(o, n)
}

type Uint64 struct{ v atomic.Uint64 }

func (x *Uint64) Load() uint64        { pt("atomic.Load"); return x.v.Load() }
func (x *Uint64) Store(v uint64)      { pt("atomic.Store"); x.v.Store(v) }
func (x *Uint64) Add(d uint64) uint64 { pt("atomic.Add"); return x.v.Add(d) }
func (x *Uint64) CompareAndSwap(o, n uint64) bool {
	pt("atomic.CAS")
	return x.v.CompareAndSwap(o, n)
}

type Bool struct{ v atomic.Bool }

func (x *Bool) Load() bool       { pt("atomic.Load"); return x.v.Load() }
func (x *Bool) Store(v bool)     { pt("atomic.Store"); x.v.Store(v) }
func (x *Bool) Swap(v bool) bool { pt("atomic.Swap"); return x.v.Swap(v) }
func (x *Bool) CompareAndSwap(o, n bool) bool {
	pt("atomic.CAS")
	return x.v.CompareAndSwap(o, n)
}

type Value struct{ v atomic.Value }

func (x *Value) Load() any      { pt("atomic.Load"); return x.v.Load() }
func (x *Value) Store(v any)    { pt("atomic.Store"); x.v.Store(v) }
func (x *Value) Swap(v any) any { pt("atomic.Swap"); return x.v.Swap(v) }
func (x *Value) CompareAndSwap(o, n any) bool {
	pt("atomic.CAS")
	return x.v.CompareAndSwap(o, n)
}

type Pointer[T any] struct{ v atomic.Pointer[T] }

func (x *Pointer[T]) Load() *T     { pt("atomic.Load"); return x.v.Load() }
func (x *Pointer[T]) Store(v *T)   { pt("atomic.Store"); x.v.Store(v) }
func (x *Pointer[T]) Swap(v *T) *T { pt("atomic.Swap"); return x.v.Swap(v) }
func (x *Pointer[T]) CompareAndSwap(o, n *T) bool {
	pt("atomic.CAS")
	return x.v.CompareAndSwap(o, n)
}
