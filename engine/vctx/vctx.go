// Package vctx replaces "context" in instrumented files: cancel functions and
// Cause/Err reads become scheduling points, and deadlines run on the virtual
// clock. Context values themselves are the standard library's.
package vctx

import (
	"context"
	"time"

	"github.com/spikeekips/mitum/zzverif/vsched"
)

type (
	Context         = context.Context
	CancelFunc      = context.CancelFunc
	CancelCauseFunc = context.CancelCauseFunc
)

var (
	Canceled         = context.Canceled
	DeadlineExceeded = context.DeadlineExceeded
)

func Background() Context                                { return context.Background() }
func TODO() Context                                      { return context.TODO() }
func WithValue(parent Context, key, val any) Context     { return context.WithValue(parent, key, val) }
func WithoutCancel(parent Context) Context               { return context.WithoutCancel(parent) }
func AfterFunc(ctx Context, f func()) (stop func() bool) { return context.AfterFunc(ctx, f) }

func Cause(c Context) error {
	vsched.Point("ctx.Cause", nil)
	return context.Cause(c)
}

func WithCancel(parent Context) (Context, CancelFunc) {
	ctx, cancel := context.WithCancel(parent)
	return ctx, func() {
		vsched.Point("ctx.cancel", nil)
		cancel()
	}
}

func WithCancelCause(parent Context) (Context, CancelCauseFunc) {
	ctx, cancel := context.WithCancelCause(parent)
	return ctx, func(cause error) {
		vsched.Point("ctx.cancel", nil)
		cancel(cause)
	}
}

// WithTimeout / WithDeadline: on the virtual clock during a controlled
// execution. Deviation: Err() of the expired context is context.Canceled
// (Cause is DeadlineExceeded) and Deadline() reports none.
func WithTimeout(parent Context, d time.Duration) (Context, CancelFunc) {
	if !vsched.Active() {
		return context.WithTimeout(parent, d)
	}
	ctx, cancel := context.WithCancelCause(parent)
	t := vsched.AddTimer(d, 0, func() { cancel(context.DeadlineExceeded) })
	return ctx, func() {
		vsched.Point("ctx.cancel", nil)
		vsched.StopTimer(t)
		cancel(context.Canceled)
	}
}

func WithDeadline(parent Context, dl time.Time) (Context, CancelFunc) {
	if !vsched.Active() {
		return context.WithDeadline(parent, dl)
	}
	return WithTimeout(parent, dl.Sub(vsched.Now()))
}

func WithTimeoutCause(parent Context, d time.Duration, cause error) (Context, CancelFunc) {
	if !vsched.Active() {
		return context.WithTimeoutCause(parent, d, cause)
	}
	ctx, cancel := context.WithCancelCause(parent)
	t := vsched.AddTimer(d, 0, func() { cancel(cause) })
	return ctx, func() {
		vsched.Point("ctx.cancel", nil)
		vsched.StopTimer(t)
		cancel(context.Canceled)
	}
}
