// Package vlib is the small bookkeeping library every harness uses: tiers,
// sharding, replay filtering, deadline, counters (states / transitions /
// executions / distinct outcomes), samples, violations. It writes one result
// JSON per process; /verif/vcheck.py merges shards, classifies violations
// against known_findings.json and writes the evidence file.
package vlib

import (
	"crypto/sha256"
	"encoding/hex"
	"encoding/json"
	"fmt"
	"os"
	"sort"
	"strconv"
	"strings"
	"sync"
	"time"
)

type Violation struct {
	Case   string         `json:"case"`   // deterministic case id; replay filter key
	Sig    map[string]any `json:"sig"`    // structural signature matched against known_findings.json
	Detail string         `json:"detail"` // human readable
	Replay any            `json:"replay,omitempty"`
}

type Run struct {
	mu         sync.Mutex
	Property   string
	tier       string
	shard      int
	nshards    int
	replay     string // case id to replay ("" = none)
	replayData json.RawMessage
	deadline   time.Time
	started    time.Time
	out        string

	evaluations   int64
	transitions   int64
	traces        int64
	states        map[[16]byte]struct{}
	nontrivial    map[[16]byte]struct{}
	outcomes      map[string]int64
	samples       []any
	maxSamples    int
	violations    []Violation
	vioByClass    map[string]int
	extra         map[string]any   // informational, first shard wins
	counters      map[string]int64 // summed over shards
	maxes         map[string]int64 // max over shards
	mins          map[string]int64 // min over shards
	assumptions   []string
	capsHit       []string
	expired       bool
	rule          string
	skippedReplay int64
}

type TB interface {
	Helper()
	Fatalf(string, ...any)
	Logf(string, ...any)
}

func Start(property string) *Run {
	r := &Run{
		Property:   property,
		tier:       "quick",
		nshards:    1,
		started:    time.Now(),
		states:     map[[16]byte]struct{}{},
		nontrivial: map[[16]byte]struct{}{},
		outcomes:   map[string]int64{},
		vioByClass: map[string]int{},
		extra:      map[string]any{},
		counters:   map[string]int64{},
		maxes:      map[string]int64{},
		mins:       map[string]int64{},
		maxSamples: 6,
	}
	if v := os.Getenv("VERIF_TIER"); v != "" {
		r.tier = v
	}
	if v := os.Getenv("VERIF_SHARD"); v != "" {
		var a, b int
		if _, err := fmt.Sscanf(v, "%d/%d", &a, &b); err == nil && b > 0 {
			r.shard, r.nshards = a, b
		}
	}
	if v := os.Getenv("VERIF_DEADLINE_S"); v != "" {
		if f, err := strconv.ParseFloat(v, 64); err == nil && f > 0 {
			r.deadline = r.started.Add(time.Duration(f * float64(time.Second)))
		}
	}
	r.out = os.Getenv("VERIF_OUT")
	if v := os.Getenv("VERIF_REPLAY"); v != "" {
		b, err := os.ReadFile(v)
		if err != nil {
			panic(fmt.Sprintf("vlib: cannot read replay file %s: %v", v, err))
		}
		var rec struct {
			Case   string          `json:"case"`
			Replay json.RawMessage `json:"replay"`
		}
		if err := json.Unmarshal(b, &rec); err != nil {
			panic(fmt.Sprintf("vlib: bad replay file %s: %v", v, err))
		}
		r.replay = rec.Case
		r.replayData = rec.Replay
	}
	return r
}

func (r *Run) Tier() string      { return r.tier }
func (r *Run) Thorough() bool    { return r.tier == "thorough" }
func (r *Run) Shard() (int, int) { return r.shard, r.nshards }

// Pick returns q in quick tier and t in thorough tier.
func Pick[T any](r *Run, q, t T) T {
	if r.Thorough() {
		return t
	}
	return q
}

// Mine says whether top-level work item i belongs to this shard.
func (r *Run) Mine(i int) bool {
	if r.nshards <= 1 {
		return true
	}
	return i%r.nshards == r.shard
}

// Replaying reports whether a replay file is given, and its case id.
func (r *Run) Replaying() (string, bool) { return r.replay, r.replay != "" }
func (r *Run) ReplayData(v any) error    { return json.Unmarshal(r.replayData, v) }

// Want filters cases in replay mode (only the recorded case runs). In a normal
// run it is always true.
func (r *Run) Want(caseID string) bool {
	if r.replay == "" {
		return true
	}
	if caseID == r.replay {
		return true
	}
	r.skippedReplay++
	return false
}

// WantPrefix is for sequence searches: in replay mode only prefixes of the
// recorded case (a '/'-joined event path) are expanded.
func (r *Run) WantPrefix(path string) bool {
	if r.replay == "" {
		return true
	}
	return strings.HasPrefix(r.replay, path) || strings.HasPrefix(path, r.replay)
}

func key16(s string) [16]byte {
	h := sha256.Sum256([]byte(s))
	var k [16]byte
	copy(k[:], h[:16])
	return k
}

func (r *Run) Eval()               { r.mu.Lock(); r.evaluations++; r.mu.Unlock() }
func (r *Run) EvalN(n int64)       { r.mu.Lock(); r.evaluations += n; r.mu.Unlock() }
func (r *Run) Transition()         { r.mu.Lock(); r.transitions++; r.mu.Unlock() }
func (r *Run) TransitionN(n int64) { r.mu.Lock(); r.transitions += n; r.mu.Unlock() }
func (r *Run) Trace()              { r.mu.Lock(); r.traces++; r.mu.Unlock() }
func (r *Run) TraceN(n int64)      { r.mu.Lock(); r.traces += n; r.mu.Unlock() }

// State registers a canonical state key; true if it was not seen before.
func (r *Run) State(key string) bool {
	k := key16(key)
	r.mu.Lock()
	defer r.mu.Unlock()
	if _, ok := r.states[k]; ok {
		return false
	}
	r.states[k] = struct{}{}
	return true
}

// StatesN adds n states that the harness itself knows to be distinct (pure
// input grids, where hashing 10^7 keys would dominate the run time).
func (r *Run) StatesN(n int64) {
	r.mu.Lock()
	r.extraInt("states_counted_directly", n)
	r.mu.Unlock()
}

func (r *Run) extraInt(k string, n int64) { r.counters[k] += n }

// Max / Min keep the largest / smallest value reported (also across shards).
func (r *Run) Max(k string, n int64) {
	r.mu.Lock()
	if v, ok := r.maxes[k]; !ok || n > v {
		r.maxes[k] = n
	}
	r.mu.Unlock()
}
func (r *Run) Min(k string, n int64) {
	r.mu.Lock()
	if v, ok := r.mins[k]; !ok || n < v {
		r.mins[k] = n
	}
	r.mu.Unlock()
}

// Nontrivial registers a distinct non-trivial case (by the harness's rule).
func (r *Run) Nontrivial(key string) {
	k := key16(key)
	r.mu.Lock()
	r.nontrivial[k] = struct{}{}
	r.mu.Unlock()
}
func (r *Run) NontrivialN(n int64) {
	r.mu.Lock()
	r.extraInt("nontrivial_counted_directly", n)
	r.mu.Unlock()
}

// Outcome counts an observed outcome class (vacuity guard).
func (r *Run) Outcome(key string) {
	r.mu.Lock()
	r.outcomes[key]++
	r.mu.Unlock()
}

func (r *Run) Sample(v any) {
	r.mu.Lock()
	if len(r.samples) < r.maxSamples {
		r.samples = append(r.samples, v)
	}
	r.mu.Unlock()
}

func (r *Run) Rule(s string)   { r.rule = s }
func (r *Run) Assume(s string) { r.assumptions = append(r.assumptions, s) }
func (r *Run) Set(k string, v any) {
	r.mu.Lock()
	r.extra[k] = v
	r.mu.Unlock()
}
func (r *Run) Add(k string, n int64) {
	r.mu.Lock()
	r.extraInt(k, n)
	r.mu.Unlock()
}
func (r *Run) Cap(s string) {
	r.mu.Lock()
	r.capsHit = append(r.capsHit, s)
	r.mu.Unlock()
}

// Expired reports whether the internal deadline passed. The harness must stop
// and the run is reported as not exhaustive; never a verdict.
func (r *Run) Expired() bool {
	if r.deadline.IsZero() {
		return false
	}
	if r.expired {
		return true
	}
	if time.Now().After(r.deadline) {
		r.mu.Lock()
		if !r.expired {
			r.expired = true
			r.capsHit = append(r.capsHit, "deadline")
		}
		r.mu.Unlock()
		return true
	}
	return false
}

// Violation records a violation. At most 20 per signature class keep their
// full record; all are counted.
func (r *Run) Violation(caseID string, sig map[string]any, detail string, replay any) {
	r.mu.Lock()
	defer r.mu.Unlock()
	cls := SigString(sig)
	r.vioByClass[cls]++
	if r.vioByClass[cls] <= 20 {
		r.violations = append(r.violations, Violation{Case: caseID, Sig: sig, Detail: detail, Replay: replay})
	}
}

func (r *Run) Violations() int {
	r.mu.Lock()
	defer r.mu.Unlock()
	n := 0
	for _, c := range r.vioByClass {
		n += c
	}
	return n
}

func SigString(sig map[string]any) string {
	ks := make([]string, 0, len(sig))
	for k := range sig {
		ks = append(ks, k)
	}
	sort.Strings(ks)
	var sb strings.Builder
	for _, k := range ks {
		fmt.Fprintf(&sb, "%s=%v;", k, sig[k])
	}
	return sb.String()
}

type result struct {
	Property    string           `json:"property"`
	Tier        string           `json:"tier"`
	Shard       int              `json:"shard"`
	NShards     int              `json:"nshards"`
	Evaluations int64            `json:"evaluations"`
	Transitions int64            `json:"transitions"`
	Traces      int64            `json:"traces"`
	States      int64            `json:"states"`
	Nontrivial  int64            `json:"nontrivial"`
	Outcomes    map[string]int64 `json:"outcomes"`
	Samples     []any            `json:"samples"`
	Violations  []Violation      `json:"violations"`
	VioByClass  map[string]int   `json:"violations_by_class"`
	Extra       map[string]any   `json:"extra"`
	Counters    map[string]int64 `json:"counters"`
	Maxes       map[string]int64 `json:"maxes"`
	Mins        map[string]int64 `json:"mins"`
	Assumptions []string         `json:"assumptions"`
	CapsHit     []string         `json:"caps_hit"`
	Exhaustive  bool             `json:"exhaustive"`
	Rule        string           `json:"rule"`
	WallS       float64          `json:"wall_s"`
	Replay      string           `json:"replay,omitempty"`
	Finished    bool             `json:"finished"`
}

// Finish writes the result file. A harness that does not reach Finish (panic,
// kill) leaves no finished result and the driver reports HARNESS-ERROR, not a
// verdict.
func (r *Run) Finish() {
	r.mu.Lock()
	defer r.mu.Unlock()
	states := int64(len(r.states))
	states += r.counters["states_counted_directly"]
	delete(r.counters, "states_counted_directly")
	nt := int64(len(r.nontrivial))
	nt += r.counters["nontrivial_counted_directly"]
	delete(r.counters, "nontrivial_counted_directly")
	res := result{
		Property: r.Property, Tier: r.tier, Shard: r.shard, NShards: r.nshards,
		Evaluations: r.evaluations, Transitions: r.transitions, Traces: r.traces,
		States: states, Nontrivial: nt, Outcomes: r.outcomes, Samples: r.samples,
		Violations: r.violations, VioByClass: r.vioByClass, Extra: r.extra, Counters: r.counters, Maxes: r.maxes, Mins: r.mins,
		Assumptions: r.assumptions, CapsHit: r.capsHit,
		Exhaustive: len(r.capsHit) == 0, Rule: r.rule,
		WallS: time.Since(r.started).Seconds(), Replay: r.replay, Finished: true,
	}
	b, err := json.MarshalIndent(res, "", " ")
	if err != nil {
		panic(err)
	}
	if r.out == "" {
		fmt.Println(string(b))
		return
	}
	if err := os.WriteFile(r.out, b, 0o644); err != nil {
		panic(err)
	}
}

// H is a short stable hex digest for building state keys.
func H(parts ...any) string {
	h := sha256.New()
	for _, p := range parts {
		fmt.Fprintf(h, "%v|", p)
	}
	return hex.EncodeToString(h.Sum(nil)[:12])
}

// Catch runs f and converts a panic into an error string.
func Catch(f func()) (panicked bool, msg string) {
	defer func() {
		if e := recover(); e != nil {
			panicked = true
			msg = fmt.Sprint(e)
		}
	}()
	f()
	return false, ""
}
