// instr rewrites Go source files so that their synchronisation goes through the
// vsched shims. It works on the AST only (no type information); every rewrite
// is generic (type-inferred helper calls), and anything it cannot rewrite
// soundly is a hard error naming the site.
//
//	instr -repo /repo -out DIR -mod github.com/spikeekips/mitum [-time] [-chanrange file:line,...] files...
//
// files are repo-relative paths (or absolute paths, e.g. module-cache files).
// Output (stdout): JSON object {original absolute path: rewritten copy}.
package main

import (
	"bytes"
	"encoding/json"
	"flag"
	"fmt"
	"go/ast"
	"go/format"
	"go/parser"
	"go/token"
	"os"
	"path/filepath"
	"reflect"
	"strconv"
	"strings"
)

var (
	repo      = flag.String("repo", "/repo", "")
	outDir    = flag.String("out", "", "")
	mod       = flag.String("mod", "github.com/spikeekips/mitum", "")
	doTime    = flag.Bool("time", false, "route time.Now/NewTicker/... through the virtual clock")
	chanRange = flag.String("chanrange", "", "comma separated file:line or file:expr of `for range <channel>` statements")
	mapRange  = flag.String("maprange", "", "comma separated file:line of `for range <map>` statements to iterate in sorted key order")
)

type rewriter struct {
	fset     *token.FileSet
	file     *ast.File
	path     string
	rel      string
	syncName string // local name of the sync import ("" if none)
	timeName string
	tmp      int
	usedV    bool // vsched referenced
	usedVT   bool // vtime referenced
	errs     []string
	chanRng  map[int]bool
	chanRngX map[string]bool // range expressions (source text) that are channels
	mapRng   map[int]bool
	mapRngX  map[string]bool // range expressions (source text) to iterate in sorted key order
}

func main() {
	flag.Parse()
	if *outDir == "" {
		fmt.Fprintln(os.Stderr, "instr: -out required")
		os.Exit(2)
	}
	out := map[string]string{}
	for _, f := range flag.Args() {
		abs := f
		if !filepath.IsAbs(f) {
			abs = filepath.Join(*repo, f)
		}
		dst, err := instrument(abs, f)
		if err != nil {
			fmt.Fprintf(os.Stderr, "instr: %s: %v\n", f, err)
			os.Exit(1)
		}
		out[abs] = dst
	}
	b, _ := json.MarshalIndent(out, "", " ")
	fmt.Println(string(b))
}

// exprsFor: entries "file:expr" whose expr is not a number select range statements by their range expression text.
func exprsFor(spec, rel string) map[string]bool {
	m := map[string]bool{}
	for _, s := range strings.Split(spec, ",") {
		i := strings.IndexByte(s, ':')
		if i < 0 || s[:i] != rel {
			continue
		}
		if _, err := strconv.Atoi(s[i+1:]); err != nil {
			m[s[i+1:]] = true
		}
	}
	return m
}

func exprText(e ast.Expr) string {
	var b bytes.Buffer
	_ = format.Node(&b, token.NewFileSet(), e)
	return b.String()
}

func linesFor(spec, rel string) map[int]bool {
	m := map[int]bool{}
	for _, s := range strings.Split(spec, ",") {
		if s == "" {
			continue
		}
		i := strings.LastIndexByte(s, ':')
		if i < 0 || s[:i] != rel {
			continue
		}
		n, _ := strconv.Atoi(s[i+1:])
		m[n] = true
	}
	return m
}

func instrument(abs, rel string) (string, error) {
	fset := token.NewFileSet()
	file, err := parser.ParseFile(fset, abs, nil, parser.ParseComments)
	if err != nil {
		return "", err
	}
	r := &rewriter{fset: fset, file: file, path: abs, rel: rel, chanRng: linesFor(*chanRange, rel), chanRngX: exprsFor(*chanRange, rel), mapRng: linesFor(*mapRange, rel), mapRngX: exprsFor(*mapRange, rel)}
	r.imports()
	r.rewriteNode(file)
	if len(r.errs) > 0 {
		return "", fmt.Errorf("unsupported constructs:\n  %s", strings.Join(r.errs, "\n  "))
	}
	r.fixImports()
	var buf bytes.Buffer
	// comments are dropped on purpose (positions are stale after rewriting); build tags are re-added
	tags := ""
	for _, cg := range file.Comments {
		if cg.Pos() < file.Package {
			for _, c := range cg.List {
				if strings.HasPrefix(c.Text, "//go:build") || strings.HasPrefix(c.Text, "// +build") {
					tags += c.Text + "\n"
				}
			}
		}
	}
	file.Comments = nil
	file.Doc = nil
	stripDocs(file)
	if err := format.Node(&buf, fset, file); err != nil {
		return "", err
	}
	src := buf.Bytes()
	if tags != "" {
		src = append([]byte(tags+"\n"), src...)
	}
	name := strings.NewReplacer("/", "__", "@", "_").Replace(strings.TrimPrefix(rel, "/"))
	dst := filepath.Join(*outDir, name)
	if err := os.WriteFile(dst, src, 0o644); err != nil {
		return "", err
	}
	return dst, nil
}

func stripDocs(f *ast.File) {
	ast.Inspect(f, func(n ast.Node) bool {
		switch x := n.(type) {
		case *ast.FuncDecl:
			// keep //go: directives (none expected in mitum); drop docs
			x.Doc = nil
		case *ast.GenDecl:
			x.Doc = nil
		case *ast.Field:
			x.Doc, x.Comment = nil, nil
		case *ast.ValueSpec:
			x.Doc, x.Comment = nil, nil
		case *ast.TypeSpec:
			x.Doc, x.Comment = nil, nil
		case *ast.ImportSpec:
			x.Doc, x.Comment = nil, nil
		}
		return true
	})
}

func (r *rewriter) errf(pos token.Pos, format string, a ...any) {
	p := r.fset.Position(pos)
	r.errs = append(r.errs, fmt.Sprintf("%s:%d: %s", r.rel, p.Line, fmt.Sprintf(format, a...)))
}

func (r *rewriter) imports() {
	for _, im := range r.file.Imports {
		p, _ := strconv.Unquote(im.Path.Value)
		local := ""
		if im.Name != nil {
			local = im.Name.Name
		}
		switch p {
		case "sync":
			im.Path.Value = strconv.Quote(*mod + "/zzverif/vsync")
			if local == "" {
				im.Name = ast.NewIdent("sync")
			}
		case "sync/atomic":
			im.Path.Value = strconv.Quote(*mod + "/zzverif/vatomic")
			if local == "" {
				im.Name = ast.NewIdent("atomic")
			}
		case "golang.org/x/sync/semaphore":
			im.Path.Value = strconv.Quote(*mod + "/zzverif/vsem")
			if local == "" {
				im.Name = ast.NewIdent("semaphore")
			}
		case "context":
			im.Path.Value = strconv.Quote(*mod + "/zzverif/vctx")
			if local == "" {
				im.Name = ast.NewIdent("context")
			}
		case "time":
			if local == "" {
				local = "time"
			}
			r.timeName = local
		}
	}
}

func (r *rewriter) fixImports() {
	add := func(name, path string) {
		spec := &ast.ImportSpec{Name: ast.NewIdent(name), Path: &ast.BasicLit{Kind: token.STRING, Value: strconv.Quote(path)}}
		for _, d := range r.file.Decls {
			if g, ok := d.(*ast.GenDecl); ok && g.Tok == token.IMPORT {
				g.Specs = append(g.Specs, spec)
				if !g.Lparen.IsValid() {
					g.Lparen = g.Pos()
					g.Rparen = g.End()
				}
				r.file.Imports = append(r.file.Imports, spec)
				return
			}
		}
		g := &ast.GenDecl{Tok: token.IMPORT, Specs: []ast.Spec{spec}}
		r.file.Decls = append([]ast.Decl{g}, r.file.Decls...)
		r.file.Imports = append(r.file.Imports, spec)
	}
	if r.usedV {
		add("vsched", *mod+"/zzverif/vsched")
	}
	if r.usedVT {
		add("vtime", *mod+"/zzverif/vtime")
		// `time` may have become unused
		r.file.Decls = append(r.file.Decls, &ast.GenDecl{Tok: token.VAR, Specs: []ast.Spec{
			&ast.ValueSpec{Names: []*ast.Ident{ast.NewIdent("_")}, Type: sel(r.timeName, "Duration")},
		}})
	}
}

func (r *rewriter) isPkgName(n string) bool {
	for _, im := range r.file.Imports {
		if im.Name != nil && im.Name.Name == n {
			return true
		}
		p, _ := strconv.Unquote(im.Path.Value)
		if im.Name == nil && (p == n || strings.HasSuffix(p, "/"+n)) {
			return true
		}
	}
	return false
}

func sel(x, s string) *ast.SelectorExpr {
	return &ast.SelectorExpr{X: ast.NewIdent(x), Sel: ast.NewIdent(s)}
}

func (r *rewriter) vcall(fn string, args ...ast.Expr) *ast.CallExpr {
	r.usedV = true
	return &ast.CallExpr{Fun: sel("vsched", fn), Args: args}
}

func (r *rewriter) newTmp() string {
	r.tmp++
	return fmt.Sprintf("_vs%d", r.tmp)
}

// isDoneCall: X.Done() with no arguments -> X
func isDoneCall(e ast.Expr) (ast.Expr, bool) {
	c, ok := e.(*ast.CallExpr)
	if !ok || len(c.Args) != 0 {
		return nil, false
	}
	s, ok := c.Fun.(*ast.SelectorExpr)
	if !ok || s.Sel.Name != "Done" {
		return nil, false
	}
	return s.X, true
}

var timeFuncs = map[string]bool{"Now": true, "Since": true, "Until": true, "After": true, "AfterFunc": true,
	"NewTimer": true, "NewTicker": true, "Sleep": true, "Tick": true, "Timer": true, "Ticker": true}

// rewriteExpr rewrites one expression node (children first).
func (r *rewriter) rewriteExpr(e ast.Expr) ast.Expr {
	if e == nil {
		return nil
	}
	r.rewriteNode(e)
	switch x := e.(type) {
	case *ast.UnaryExpr:
		if x.Op == token.ARROW {
			if c, ok := isDoneCall(x.X); ok {
				// RecvDone returns nothing; `<-ctx.Done()` as an expression value is struct{}{} and never used in mitum
				return r.vcall("RecvDoneV", c)
			}
			return r.vcall("Recv", x.X)
		}
	case *ast.CallExpr:
		if id, ok := x.Fun.(*ast.Ident); ok && id.Name == "close" && len(x.Args) == 1 {
			return r.vcall("Close", x.Args[0])
		}
		// X.Err() (context-like reads of shared cancellation state) become scheduling points
		if s, ok := x.Fun.(*ast.SelectorExpr); ok && s.Sel.Name == "Err" && len(x.Args) == 0 {
			if id, isIdent := s.X.(*ast.Ident); !isIdent || id.Obj != nil || !r.isPkgName(id.Name) {
				return r.vcall("PErr", s.X)
			}
		}
	case *ast.SelectorExpr:
		if *doTime && r.timeName != "" {
			if id, ok := x.X.(*ast.Ident); ok && id.Name == r.timeName && id.Obj == nil && timeFuncs[x.Sel.Name] {
				r.usedVT = true
				return sel("vtime", x.Sel.Name)
			}
		}
	}
	return e
}

var exprType = reflect.TypeOf((*ast.Expr)(nil)).Elem()
var stmtType = reflect.TypeOf((*ast.Stmt)(nil)).Elem()

// rewriteNode walks the children of n generically: Expr fields are replaced
// by their rewritten form, statement lists are rewritten statement-wise.
func (r *rewriter) rewriteNode(n ast.Node) {
	if n == nil || reflect.ValueOf(n).IsNil() {
		return
	}
	v := reflect.ValueOf(n).Elem()
	if v.Kind() != reflect.Struct {
		return
	}
	for i := 0; i < v.NumField(); i++ {
		f := v.Field(i)
		if !f.CanSet() {
			continue
		}
		switch f.Kind() {
		case reflect.Interface:
			if f.IsNil() {
				continue
			}
			switch {
			case f.Type() == exprType:
				ne := r.rewriteExpr(f.Interface().(ast.Expr))
				f.Set(reflect.ValueOf(ne))
			case f.Type() == stmtType:
				ns := r.rewriteStmt(f.Interface().(ast.Stmt))
				f.Set(reflect.ValueOf(ns))
			default:
				if nn, ok := f.Interface().(ast.Node); ok {
					r.rewriteNode(nn)
				}
			}
		case reflect.Ptr:
			if f.IsNil() {
				continue
			}
			if nn, ok := f.Interface().(ast.Node); ok {
				if _, isObj := f.Interface().(*ast.Object); isObj {
					continue
				}
				if _, isScope := f.Interface().(*ast.Scope); isScope {
					continue
				}
				if e, ok := nn.(ast.Expr); ok && f.Type().Implements(exprType) {
					ne := r.rewriteExpr(e)
					if reflect.TypeOf(ne) == f.Type() {
						f.Set(reflect.ValueOf(ne))
					} else if ne != e {
						r.errf(e.Pos(), "cannot replace %T in a typed field", e)
					}
					continue
				}
				if s, ok := nn.(ast.Stmt); ok {
					ns := r.rewriteStmt(s)
					if reflect.TypeOf(ns) == f.Type() {
						f.Set(reflect.ValueOf(ns))
					} else if ns != s {
						// e.g. a BlockStmt field: wrap
						if f.Type() == reflect.TypeOf(&ast.BlockStmt{}) {
							f.Set(reflect.ValueOf(&ast.BlockStmt{List: []ast.Stmt{ns}}))
						} else {
							r.errf(s.Pos(), "cannot replace %T in a typed field", s)
						}
					}
					continue
				}
				r.rewriteNode(nn)
			}
		case reflect.Slice:
			for j := 0; j < f.Len(); j++ {
				el := f.Index(j)
				if el.Kind() == reflect.Interface && el.IsNil() {
					continue
				}
				if el.Kind() == reflect.Ptr && el.IsNil() {
					continue
				}
				switch {
				case f.Type().Elem() == exprType:
					el.Set(reflect.ValueOf(r.rewriteExpr(el.Interface().(ast.Expr))))
				case f.Type().Elem() == stmtType:
					el.Set(reflect.ValueOf(r.rewriteStmt(el.Interface().(ast.Stmt))))
				default:
					if nn, ok := el.Interface().(ast.Node); ok {
						r.rewriteNode(nn)
					}
				}
			}
		}
	}
}

func (r *rewriter) rewriteStmt(s ast.Stmt) ast.Stmt {
	switch x := s.(type) {
	case *ast.GoStmt:
		return r.rewriteGo(x)
	case *ast.SendStmt:
		x.Chan = r.rewriteExpr(x.Chan)
		x.Value = r.rewriteExpr(x.Value)
		return &ast.ExprStmt{X: r.vcall("Send", x.Chan, x.Value)}
	case *ast.SelectStmt:
		return r.rewriteSelect(x)
	case *ast.AssignStmt:
		// v, ok := <-ch
		if len(x.Lhs) == 2 && len(x.Rhs) == 1 {
			if u, ok := x.Rhs[0].(*ast.UnaryExpr); ok && u.Op == token.ARROW {
				u.X = r.rewriteExpr(u.X)
				for i := range x.Lhs {
					x.Lhs[i] = r.rewriteExpr(x.Lhs[i])
				}
				x.Rhs[0] = r.vcall("Recv2", u.X)
				return x
			}
		}
	case *ast.ExprStmt:
		// `<-ctx.Done()` / `<-ch` as a statement
		if u, ok := x.X.(*ast.UnaryExpr); ok && u.Op == token.ARROW {
			u.X = r.rewriteExpr(u.X)
			if c, ok := isDoneCall(u.X); ok {
				return &ast.ExprStmt{X: r.vcall("RecvDone", c)}
			}
			return &ast.ExprStmt{X: r.vcall("Recv", u.X)}
		}
	case *ast.LabeledStmt:
		if ss, ok := x.Stmt.(*ast.SelectStmt); ok {
			// the label must stay on a breakable statement: move it onto the generated switch
			blk := r.rewriteSelect(ss).(*ast.BlockStmt)
			last := len(blk.List) - 1
			blk.List[last] = &ast.LabeledStmt{Label: x.Label, Stmt: blk.List[last]}
			return blk
		}
	case *ast.RangeStmt:
		line := r.fset.Position(x.Pos()).Line
		if r.chanRng[line] || (len(r.chanRngX) > 0 && r.chanRngX[exprText(x.X)]) {
			return r.rewriteChanRange(x)
		}
		if r.mapRng[line] || (len(r.mapRngX) > 0 && r.mapRngX[exprText(x.X)]) {
			return r.rewriteMapRange(x)
		}
	}
	r.rewriteNode(s)
	return s
}

// go f(a, b) -> { t0, t1 := a, b; vsched.Go(func() { f(t0, t1) }) }
func (r *rewriter) rewriteGo(g *ast.GoStmt) ast.Stmt {
	call := g.Call
	call.Fun = r.rewriteExpr(call.Fun)
	for i := range call.Args {
		call.Args[i] = r.rewriteExpr(call.Args[i])
	}
	if fl, ok := call.Fun.(*ast.FuncLit); ok && len(call.Args) == 0 {
		return &ast.ExprStmt{X: r.vcall("Go", fl)}
	}
	var pre []ast.Stmt
	for i, a := range call.Args {
		switch v := a.(type) {
		case *ast.BasicLit:
			continue
		case *ast.Ident:
			if v.Name == "nil" || v.Name == "true" || v.Name == "false" {
				continue
			}
		case *ast.FuncLit:
			continue
		}
		t := r.newTmp()
		pre = append(pre, &ast.AssignStmt{Lhs: []ast.Expr{ast.NewIdent(t)}, Tok: token.DEFINE, Rhs: []ast.Expr{a}})
		call.Args[i] = ast.NewIdent(t)
	}
	// a method value / function variable is evaluated now, as `go` does
	if _, isLit := call.Fun.(*ast.FuncLit); !isLit {
		if s, ok := call.Fun.(*ast.SelectorExpr); ok {
			if _, simple := s.X.(*ast.Ident); !simple {
				t := r.newTmp()
				pre = append(pre, &ast.AssignStmt{Lhs: []ast.Expr{ast.NewIdent(t)}, Tok: token.DEFINE, Rhs: []ast.Expr{s.X}})
				s.X = ast.NewIdent(t)
			}
		}
	}
	body := &ast.FuncLit{Type: &ast.FuncType{Params: &ast.FieldList{}}, Body: &ast.BlockStmt{List: []ast.Stmt{&ast.ExprStmt{X: call}}}}
	stmts := append(pre, &ast.ExprStmt{X: r.vcall("Go", body)})
	return &ast.BlockStmt{List: stmts}
}

// select { case ...: } -> { operands hoisted; switch vsched.Select(hasDefault, cases...) { case i: ... } }
func (r *rewriter) rewriteSelect(s *ast.SelectStmt) ast.Stmt {
	var pre []ast.Stmt
	var cases []ast.Expr
	sw := &ast.SwitchStmt{Body: &ast.BlockStmt{}}
	hasDefault := false
	idx := 0
	hoist := func(e ast.Expr) ast.Expr {
		e = r.rewriteExpr(e)
		if id, ok := e.(*ast.Ident); ok {
			return id
		}
		t := r.newTmp()
		pre = append(pre, &ast.AssignStmt{Lhs: []ast.Expr{ast.NewIdent(t)}, Tok: token.DEFINE, Rhs: []ast.Expr{e}})
		return ast.NewIdent(t)
	}
	for _, cl := range s.Body.List {
		cc := cl.(*ast.CommClause)
		var body []ast.Stmt
		for _, b := range cc.Body {
			body = append(body, r.rewriteStmt(b))
		}
		if cc.Comm == nil {
			hasDefault = true
			sw.Body.List = append(sw.Body.List, &ast.CaseClause{Body: body})
			continue
		}
		lit := &ast.BasicLit{Kind: token.INT, Value: strconv.Itoa(idx)}
		idx++
		switch c := cc.Comm.(type) {
		case *ast.SendStmt:
			ch := hoist(c.Chan)
			val := hoist(c.Value)
			cases = append(cases, r.vcall("CaseSend", ch, val))
		case *ast.ExprStmt:
			u, ok := c.X.(*ast.UnaryExpr)
			if !ok || u.Op != token.ARROW {
				r.errf(c.Pos(), "unsupported select comm %T", c.X)
				continue
			}
			if d, ok := isDoneCall(u.X); ok {
				cases = append(cases, r.vcall("CaseDone", hoist(d)))
			} else {
				cases = append(cases, r.vcall("CaseRecv", hoist(u.X)))
			}
		case *ast.AssignStmt:
			u, ok := c.Rhs[0].(*ast.UnaryExpr)
			if !ok || u.Op != token.ARROW || len(c.Rhs) != 1 {
				r.errf(c.Pos(), "unsupported select assignment")
				continue
			}
			ch := hoist(u.X)
			cases = append(cases, r.vcall("CaseRecv", ch))
			fn := "SelRecv"
			if len(c.Lhs) == 2 {
				fn = "SelRecv2"
			}
			for i := range c.Lhs {
				c.Lhs[i] = r.rewriteExpr(c.Lhs[i])
			}
			as := &ast.AssignStmt{Lhs: c.Lhs, Tok: c.Tok, Rhs: []ast.Expr{r.vcall(fn, ch)}}
			body = append([]ast.Stmt{as}, body...)
			// silence "declared and not used" for `case v := <-ch:` whose body ignores v
			if c.Tok == token.DEFINE {
				for _, l := range c.Lhs {
					if id, ok := l.(*ast.Ident); ok && id.Name != "_" {
						body = append(body[:1:1], append([]ast.Stmt{&ast.AssignStmt{Lhs: []ast.Expr{ast.NewIdent("_")}, Tok: token.ASSIGN, Rhs: []ast.Expr{ast.NewIdent(id.Name)}}}, body[1:]...)...)
					}
				}
			}
		default:
			r.errf(cc.Pos(), "unsupported select clause %T", cc.Comm)
			continue
		}
		sw.Body.List = append(sw.Body.List, &ast.CaseClause{List: []ast.Expr{lit}, Body: body})
	}
	hd := "false"
	if hasDefault {
		hd = "true"
	} else {
		// keeps the statement "terminating" exactly when the select was (a switch needs a default for that)
		sw.Body.List = append(sw.Body.List, &ast.CaseClause{Body: []ast.Stmt{&ast.ExprStmt{X: &ast.CallExpr{
			Fun: ast.NewIdent("panic"), Args: []ast.Expr{&ast.BasicLit{Kind: token.STRING, Value: strconv.Quote("vsched: select returned no case")}}}}}})
	}
	args := append([]ast.Expr{ast.NewIdent(hd)}, cases...)
	sw.Tag = r.vcall("Select", args...)
	return &ast.BlockStmt{List: append(pre, sw)}
}

// for x := range ch { body } -> for { x, ok := vsched.Recv2(ch); if !ok { break }; body }
func (r *rewriter) rewriteChanRange(x *ast.RangeStmt) ast.Stmt {
	ch := r.rewriteExpr(x.X)
	r.rewriteNode(x.Body)
	ok := r.newTmp()
	var lhs ast.Expr = ast.NewIdent("_")
	tok := token.DEFINE
	if x.Key != nil {
		lhs = x.Key
		tok = x.Tok
	}
	var recv ast.Stmt
	if tok == token.DEFINE {
		recv = &ast.AssignStmt{Lhs: []ast.Expr{lhs, ast.NewIdent(ok)}, Tok: token.DEFINE, Rhs: []ast.Expr{r.vcall("Recv2", ch)}}
	} else {
		recv = &ast.BlockStmt{List: []ast.Stmt{
			&ast.DeclStmt{Decl: &ast.GenDecl{Tok: token.VAR, Specs: []ast.Spec{&ast.ValueSpec{Names: []*ast.Ident{ast.NewIdent(ok)}, Type: ast.NewIdent("bool")}}}},
		}}
		r.errf(x.Pos(), "range over channel with assignment (not :=) unsupported")
	}
	brk := &ast.IfStmt{Cond: &ast.UnaryExpr{Op: token.NOT, X: ast.NewIdent(ok)}, Body: &ast.BlockStmt{List: []ast.Stmt{&ast.BranchStmt{Tok: token.BREAK}}}}
	body := append([]ast.Stmt{recv, brk}, x.Body.List...)
	return &ast.ForStmt{Body: &ast.BlockStmt{List: body}}
}

// for k, v := range m { body } -> for _, k := range vsched.SortedKeys(m) { v := m[k]; body }
func (r *rewriter) rewriteMapRange(x *ast.RangeStmt) ast.Stmt {
	m := r.rewriteExpr(x.X)
	r.rewriteNode(x.Body)
	if x.Tok != token.DEFINE || x.Key == nil {
		r.errf(x.Pos(), "map range without := unsupported")
		return x
	}
	mt := r.newTmp()
	pre := &ast.AssignStmt{Lhs: []ast.Expr{ast.NewIdent(mt)}, Tok: token.DEFINE, Rhs: []ast.Expr{m}}
	keyName := x.Key
	if id, ok := keyName.(*ast.Ident); ok && id.Name == "_" {
		keyName = ast.NewIdent(r.newTmp())
	}
	body := x.Body.List
	if x.Value != nil {
		if id, ok := x.Value.(*ast.Ident); !ok || id.Name != "_" {
			body = append([]ast.Stmt{
				&ast.AssignStmt{Lhs: []ast.Expr{x.Value}, Tok: token.DEFINE, Rhs: []ast.Expr{&ast.IndexExpr{X: ast.NewIdent(mt), Index: keyName}}},
				&ast.AssignStmt{Lhs: []ast.Expr{ast.NewIdent("_")}, Tok: token.ASSIGN, Rhs: []ast.Expr{x.Value}},
			}, body...)
		}
	}
	loop := &ast.RangeStmt{Key: ast.NewIdent("_"), Value: keyName, Tok: token.DEFINE, X: r.vcall("SortedKeys", ast.NewIdent(mt)), Body: &ast.BlockStmt{List: body}}
	return &ast.BlockStmt{List: []ast.Stmt{pre, loop}}
}
