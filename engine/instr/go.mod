module verifinstr

go 1.22
