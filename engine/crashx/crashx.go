// Package crashx is engine F: a goleveldb storage.Storage that keeps every file
// in memory and logs each file-level mutation (Create, Write, Sync, Remove,
// Rename, SetMeta). After a history has run, Materialize(n, torn) rebuilds the
// storage image a crash would leave behind if only the first n logged
// operations had reached the device (optionally with the n-th operation, if it
// is a Write, torn to its first half). mitum opens leveldb with default
// (unsynced) write options, so for a single journal every prefix of the
// file-write log is a legal post-crash image for process kill and power loss.
package crashx

import (
	"fmt"
	"io"
	"sync"

	"github.com/syndtr/goleveldb/leveldb/storage"
)

type Op struct {
	Kind string // create | write | sync | remove | rename | setmeta
	FD   storage.FileDesc
	To   storage.FileDesc // rename target
	Data []byte
}

func (o Op) String() string {
	switch o.Kind {
	case "write":
		return fmt.Sprintf("write %v %dB", o.FD, len(o.Data))
	case "rename":
		return fmt.Sprintf("rename %v->%v", o.FD, o.To)
	}
	return o.Kind + " " + o.FD.String()
}

type Mark struct {
	Name string
	At   int // number of logged operations when the mark was set
}

type Storage struct {
	mu    sync.Mutex
	inner storage.Storage
	log   []Op
	marks []Mark
}

func New() *Storage { return &Storage{inner: storage.NewMemStorage()} }

// Len is the number of logged operations so far.
func (s *Storage) Len() int {
	s.mu.Lock()
	defer s.mu.Unlock()
	return len(s.log)
}

// Ops returns a copy of the log.
func (s *Storage) Ops() []Op {
	s.mu.Lock()
	defer s.mu.Unlock()
	return append([]Op{}, s.log...)
}

// MarkNow records a named point of the history (e.g. "block 34 merge acknowledged").
func (s *Storage) MarkNow(name string) {
	s.mu.Lock()
	s.marks = append(s.marks, Mark{Name: name, At: len(s.log)})
	s.mu.Unlock()
}

func (s *Storage) Marks() []Mark {
	s.mu.Lock()
	defer s.mu.Unlock()
	return append([]Mark{}, s.marks...)
}

func (s *Storage) add(o Op) {
	s.mu.Lock()
	s.log = append(s.log, o)
	s.mu.Unlock()
}

// storage.Storage

func (s *Storage) Lock() (storage.Locker, error) { return s.inner.Lock() }
func (s *Storage) Log(str string)                { s.inner.Log(str) }
func (s *Storage) SetMeta(fd storage.FileDesc) error {
	if err := s.inner.SetMeta(fd); err != nil {
		return err
	}
	s.add(Op{Kind: "setmeta", FD: fd})
	return nil
}
func (s *Storage) GetMeta() (storage.FileDesc, error) { return s.inner.GetMeta() }
func (s *Storage) List(ft storage.FileType) ([]storage.FileDesc, error) {
	return s.inner.List(ft)
}
func (s *Storage) Open(fd storage.FileDesc) (storage.Reader, error) { return s.inner.Open(fd) }
func (s *Storage) Create(fd storage.FileDesc) (storage.Writer, error) {
	w, err := s.inner.Create(fd)
	if err != nil {
		return nil, err
	}
	s.add(Op{Kind: "create", FD: fd})
	return &writer{s: s, fd: fd, w: w}, nil
}
func (s *Storage) Remove(fd storage.FileDesc) error {
	if err := s.inner.Remove(fd); err != nil {
		return err
	}
	s.add(Op{Kind: "remove", FD: fd})
	return nil
}
func (s *Storage) Rename(oldfd, newfd storage.FileDesc) error {
	if err := s.inner.Rename(oldfd, newfd); err != nil {
		return err
	}
	s.add(Op{Kind: "rename", FD: oldfd, To: newfd})
	return nil
}
func (s *Storage) Close() error { return s.inner.Close() }

type writer struct {
	s  *Storage
	fd storage.FileDesc
	w  storage.Writer
}

func (w *writer) Write(p []byte) (int, error) {
	n, err := w.w.Write(p)
	if n > 0 {
		w.s.add(Op{Kind: "write", FD: w.fd, Data: append([]byte{}, p[:n]...)})
	}
	return n, err
}
func (w *writer) Sync() error {
	if err := w.w.Sync(); err != nil {
		return err
	}
	w.s.add(Op{Kind: "sync", FD: w.fd})
	return nil
}
func (w *writer) Close() error { return w.w.Close() }

var _ io.Writer = (*writer)(nil)

// Materialize builds a fresh in-memory storage holding exactly the effect of
// the first n logged operations. With torn=true and ops[n-1] a write, only the
// first half of that write's bytes is applied.
func Materialize(ops []Op, n int, torn bool) (storage.Storage, error) {
	if n > len(ops) {
		n = len(ops)
	}
	m := storage.NewMemStorage()
	open := map[storage.FileDesc]storage.Writer{}
	closeW := func(fd storage.FileDesc) {
		if w, ok := open[fd]; ok {
			_ = w.Close()
			delete(open, fd)
		}
	}
	for i := 0; i < n; i++ {
		o := ops[i]
		switch o.Kind {
		case "create":
			closeW(o.FD)
			w, err := m.Create(o.FD)
			if err != nil {
				return nil, fmt.Errorf("materialize op %d %v: %w", i, o, err)
			}
			open[o.FD] = w
		case "write":
			w, ok := open[o.FD]
			if !ok {
				return nil, fmt.Errorf("materialize op %d %v: write to a file that is not open", i, o)
			}
			data := o.Data
			if torn && i == n-1 {
				data = data[:len(data)/2]
			}
			if _, err := w.Write(data); err != nil {
				return nil, err
			}
		case "sync":
		case "remove":
			closeW(o.FD)
			if err := m.Remove(o.FD); err != nil {
				return nil, fmt.Errorf("materialize op %d %v: %w", i, o, err)
			}
		case "rename":
			closeW(o.FD)
			closeW(o.To)
			if err := m.Rename(o.FD, o.To); err != nil {
				return nil, fmt.Errorf("materialize op %d %v: %w", i, o, err)
			}
		case "setmeta":
			if err := m.SetMeta(o.FD); err != nil {
				return nil, err
			}
		}
	}
	for fd := range open {
		closeW(fd)
	}
	return m, nil
}
