package vsched

import (
	"cmp"
	"sort"
	"time"
)

// SortedKeys fixes the iteration order of a map range in instrumented code
// (Go starts map iteration at a random position, which would change the
// sequence of synchronisation operations between replays).
func SortedKeys[K cmp.Ordered, V any](m map[K]V) []K {
	ks := make([]K, 0, len(m))
	for k := range m {
		ks = append(ks, k)
	}
	sort.Slice(ks, func(i, j int) bool { return ks[i] < ks[j] })
	if Descending {
		for i, j := 0, len(ks)-1; i < j; i, j = i+1, j-1 {
			ks[i], ks[j] = ks[j], ks[i]
		}
	}
	return ks
}

// Descending flips SortedKeys (explored as a second configuration in thorough tiers).
var Descending bool

// PErr is `x.Err()` in instrumented code: a scheduling point before reading
// cancellation state that another thread may change.
func PErr[T interface{ Err() error }](x T) error {
	Point("Err", nil)
	return x.Err()
}

// RunNative runs the root bodies as ordinary goroutines (no controlled
// execution is active, so every shim behaves like the real primitive) and
// waits for them. It is the free-running pass used under `go test -race` to
// check the assumption that synchronisation operations are the only
// interaction points; it never decides a property.
func RunNative(timeout time.Duration, roots ...func()) (finished bool) {
	done := make(chan struct{}, len(roots))
	for _, f := range roots {
		f := f
		go func() {
			defer func() { _ = recover(); done <- struct{}{} }()
			f()
		}()
	}
	t := time.After(timeout)
	for range roots {
		select {
		case <-done:
		case <-t:
			return false
		}
	}
	return true
}
