// Package vsched is the controlled cooperative scheduler of engine S.
//
// While an execution is active exactly one tracked goroutine ("thread") holds
// the baton; all others are parked on private channels. The shim packages
// (vsync, vatomic, vsem-instrumented semaphore, channel helpers) call Point
// before every synchronisation operation; Point is the only place where the
// baton moves. Which enabled thread runs next is read from a choice list
// (replay prefix) and defaults to choice 0 afterwards (keep running the current
// thread if it is enabled, else the lowest thread id), so a complete execution
// is a deterministic function of the prefix. The DFS in explore.go enumerates
// the prefixes with iterative preemption bounding.
//
// When no execution is active (fixture building, oracle evaluation) every shim
// falls through to the real primitive.
package vsched

import (
	"fmt"
	"runtime"
	"strconv"
	"strings"
	"sync"
	"sync/atomic"
	"time"
)

type tstate int

const (
	tReady tstate = iota // wants to run; enabled iff pred == nil || pred()
	tDone
)

type Thread struct {
	id     int
	name   string
	wake   chan struct{}
	state  tstate
	pred   func() bool // readiness of the pending operation (nil = always)
	kind   string      // pending operation kind (for traces / divergence detection)
	gid    uint64
	root   bool
	daemon bool // blocked-forever is not a deadlock for this thread
	abort  bool
	// channel rendezvous
	waitCh   []chanWait // channels this thread is parked on (unbuffered rendezvous)
	resolved bool
	resCase  int
	resVal   any
	resOK    bool
	yielded  bool // failed a polling wait; disabled until another thread makes a step
}

// PointRec is what the explorer needs to know about one scheduling point.
type PointRec struct {
	NEnabled       int    `json:"n"`
	Chosen         int    `json:"c"`
	RunningEnabled bool   `json:"r"`
	Kind           string `json:"k"`
	Thread         int    `json:"t"` // thread chosen
	Step           bool   `json:"-"`
}

type Exec struct {
	mu         sync.Mutex
	threads    []*Thread
	cur        *Thread
	prefix     []int
	points     []PointRec
	done       chan struct{}
	finished   bool
	Deadlock   bool
	Blocked    []string // descriptions of threads blocked at the end
	Diverged   string   // non-empty: replay divergence / untracked goroutine / other engine error
	HorizonHit bool
	horizon    int
	steps      int
	Panic      any
	PanicStack string
	clock      *vclock
	nextAlt    map[string]int
	aborting   bool
	verify     bool
	chans      map[uintptr]*chanState
	timerSeq   int
	Log        []string
	logOn      bool
}

var (
	active  atomic.Bool
	current *Exec
)

// Active reports whether a controlled execution is running.
func Active() bool { return active.Load() }

func curExec() *Exec {
	if !active.Load() {
		return nil
	}
	return current
}

func goid() uint64 {
	var buf [64]byte
	n := runtime.Stack(buf[:], false)
	// "goroutine 123 ["
	s := string(buf[:n])
	s = strings.TrimPrefix(s, "goroutine ")
	if i := strings.IndexByte(s, ' '); i > 0 {
		v, _ := strconv.ParseUint(s[:i], 10, 64)
		return v
	}
	return 0
}

type engineAbort struct{ msg string }

// Options of one execution.
type Options struct {
	Prefix  []int
	Horizon int  // max scheduling points (0 = 20000)
	Log     bool // record a textual trace of points
}

// Run executes the root functions as threads 0..n-1 under the controlled
// scheduler, following opt.Prefix and then default choices, and returns when no
// thread is enabled any more. It must be called from an untracked goroutine
// (the test goroutine) and is not reentrant.
func Run(opt Options, roots ...func()) *Exec {
	if active.Load() {
		panic("vsched: Run is not reentrant")
	}
	e := &Exec{
		prefix:  opt.Prefix,
		done:    make(chan struct{}),
		horizon: opt.Horizon,
		chans:   map[uintptr]*chanState{},
		logOn:   opt.Log,
	}
	if e.horizon == 0 {
		e.horizon = 20000
	}
	e.clock = newClock()
	execSeq++
	e.verify = execSeq <= 64 || execSeq%16 == 0
	current = e
	active.Store(true)
	for i, f := range roots {
		t := e.newThread(fmt.Sprintf("root%d", i), true)
		e.start(t, f)
	}
	// hand the baton to the first decision
	e.mu.Lock()
	e.cur = nil
	e.dispatch(nil)
	e.mu.Unlock()
	select {
	case <-e.done:
	case <-time.After(120 * time.Second):
		e.Diverged = "HARNESS-STALL: execution did not finish within 120 s of real time (a thread blocked outside the scheduler?)\n" + e.describe()
		active.Store(false)
		current = nil
		return e
	}
	e.cleanup()
	active.Store(false)
	current = nil
	return e
}

func (e *Exec) newThread(name string, root bool) *Thread {
	t := &Thread{id: len(e.threads), name: name, wake: make(chan struct{}, 1), root: root}
	e.threads = append(e.threads, t)
	return t
}

func (e *Exec) start(t *Thread, f func()) {
	go func() {
		t.gid = goid()
		<-t.wake
		if t.abort {
			e.threadExit(t, true)
			return
		}
		defer func() {
			if r := recover(); r != nil {
				if _, ok := r.(engineAbort); !ok && e.Panic == nil {
					e.Panic = r
					buf := make([]byte, 8192)
					e.PanicStack = string(buf[:runtime.Stack(buf, false)])
				}
			}
			e.threadExit(t, false)
		}()
		f()
	}()
}

func (e *Exec) threadExit(t *Thread, aborted bool) {
	e.mu.Lock()
	t.state = tDone
	if e.aborting || aborted {
		e.mu.Unlock()
		abortAck <- struct{}{}
		return
	}
	if e.Panic != nil && !e.finished {
		// a panic in the code under test ends the execution; the harness decides what it means
		e.finish()
		e.mu.Unlock()
		return
	}
	e.dispatch(t)
	e.mu.Unlock()
}

var abortAck = make(chan struct{}, 1)

// Go starts f as a new tracked thread (or a plain goroutine when inactive).
func Go(f func()) {
	e := curExec()
	if e == nil {
		go f()
		return
	}
	e.mu.Lock()
	if e.aborting {
		e.mu.Unlock()
		return
	}
	me := e.me()
	t := e.newThread(fmt.Sprintf("go%d<-%d", len(e.threads), me.id), false)
	t.daemon = true
	e.mu.Unlock()
	e.start(t, f)
	Point("go", nil)
}

// execSeq counts executions; the (1.7 us) goroutine-identity check of me() runs
// in the first 64 executions of a process and in every 16th afterwards.
var execSeq int64

// me returns the calling thread, verifying that the caller holds the baton.
func (e *Exec) me() *Thread {
	if !e.verify && e.cur != nil {
		return e.cur
	}
	g := goid()
	if e.cur != nil && e.cur.gid == g {
		return e.cur
	}
	for _, t := range e.threads {
		if t.gid == g {
			msg := fmt.Sprintf("UNTRACKED: thread %d (%s) executes a shim operation without the baton (holder=%v)", t.id, t.name, e.curID())
			e.Diverged = msg
			panic(engineAbort{msg})
		}
	}
	msg := fmt.Sprintf("UNTRACKED: goroutine %d (not started through vsched.Go) executes a shim operation during a controlled execution\n%s", g, stack())
	e.Diverged = msg
	panic(engineAbort{msg})
}

func stack() string {
	buf := make([]byte, 4096)
	return string(buf[:runtime.Stack(buf, false)])
}

func (e *Exec) curID() int {
	if e.cur == nil {
		return -1
	}
	return e.cur.id
}

// Point is a scheduling point before an operation of kind `kind` whose
// readiness is pred (nil = always ready). It returns when the calling thread
// holds the baton and pred() is true; the caller must then perform the
// operation without any further Point.
func Point(kind string, pred func() bool) {
	e := curExec()
	if e == nil {
		return
	}
	e.mu.Lock()
	if e.aborting {
		e.mu.Unlock()
		return
	}
	me := e.me()
	me.pred = pred
	me.kind = kind
	e.dispatch(me)
	e.mu.Unlock()
	// wait for the baton unless we kept it
	<-me.wake
	if me.abort {
		runtime.Goexit() // unwinds through the deferred functions; cannot be recovered by the code under test
	}
}

// Yield is for polling loops: the caller could not make progress; it is
// disabled until some other thread has taken a step.
func Yield(kind string) {
	e := curExec()
	if e == nil {
		runtime.Gosched()
		return
	}
	e.mu.Lock()
	if e.aborting {
		e.mu.Unlock()
		return
	}
	me := e.me()
	me.yielded = true
	me.pred = func() bool { return !me.yielded }
	me.kind = "yield:" + kind
	e.dispatch(me)
	e.mu.Unlock()
	<-me.wake
	if me.abort {
		runtime.Goexit() // unwinds through the deferred functions; cannot be recovered by the code under test
	}
}

func (t *Thread) enabled() bool {
	if t.state == tDone {
		return false
	}
	if t.resolved {
		return true
	}
	return t.pred == nil || t.pred()
}

// dispatch decides who runs next. Called with e.mu held, by the thread giving
// up the baton (from == the caller, possibly finished) or by Run (from == nil).
func (e *Exec) dispatch(from *Thread) {
	if e.finished {
		return
	}
	// advance virtual time while nothing is enabled
	for {
		en := e.enabledList(from)
		if len(en) > 0 {
			e.choose(from, en)
			return
		}
		if !e.clock.advanceToNext(e) {
			break
		}
	}
	e.finish()
}

func (e *Exec) enabledList(from *Thread) []*Thread {
	var en []*Thread
	if from != nil && from.state != tDone && from.enabled() {
		en = append(en, from)
	}
	for _, t := range e.threads {
		if t == from {
			continue
		}
		if t.enabled() {
			en = append(en, t)
		}
	}
	return en
}

func (e *Exec) choose(from *Thread, en []*Thread) {
	running := from != nil && len(en) > 0 && en[0] == from
	idx := 0
	pos := len(e.points)
	if pos < len(e.prefix) {
		idx = e.prefix[pos]
		if idx < 0 || idx >= len(en) {
			e.Diverged = fmt.Sprintf("NONDETERMINISM: replay choice %d at point %d out of range (enabled=%d)", idx, pos, len(en))
			e.finish()
			return
		}
	}
	e.steps++
	if e.steps > e.horizon {
		e.HorizonHit = true
		e.finish()
		return
	}
	t := en[idx]
	e.points = append(e.points, PointRec{NEnabled: len(en), Chosen: idx, RunningEnabled: running, Kind: t.kind, Thread: t.id})
	if e.logOn {
		e.Log = append(e.Log, fmt.Sprintf("#%d T%d %s (enabled=%d running=%v)", pos, t.id, t.kind, len(en), running))
	}
	// a step by t re-enables pollers other than t
	for _, o := range e.threads {
		if o != t {
			o.yielded = false
		}
	}
	e.cur = t
	t.wake <- struct{}{}
}

func (e *Exec) finish() {
	if e.finished {
		return
	}
	e.finished = true
	for _, t := range e.threads {
		if t.state != tDone {
			d := fmt.Sprintf("T%d(%s) blocked at %s", t.id, t.name, t.kind)
			e.Blocked = append(e.Blocked, d)
			if !t.daemon {
				e.Deadlock = true
			}
		}
	}
	e.cur = nil
	close(e.done)
}

func (e *Exec) describe() string {
	var sb strings.Builder
	for _, t := range e.threads {
		fmt.Fprintf(&sb, "T%d %s state=%d kind=%s\n", t.id, t.name, t.state, t.kind)
	}
	return sb.String()
}

// cleanup unparks every thread that is still blocked and makes it exit
// (runtime.Goexit-like unwinding through a panic caught in start), one at a
// time; shim operations are non-blocking no-ops while aborting.
func (e *Exec) cleanup() {
	e.mu.Lock()
	e.aborting = true
	var left []*Thread
	for _, t := range e.threads {
		if t.state != tDone {
			left = append(left, t)
		}
	}
	e.mu.Unlock()
	for _, t := range left {
		t.abort = true
		t.wake <- struct{}{}
		select {
		case <-abortAck:
		case <-time.After(20 * time.Second):
			e.Diverged = "HARNESS-STALL: a parked thread did not unwind: " + t.name + " at " + t.kind
			return
		}
	}
}

// Points returns the recorded scheduling points of the execution.
func (e *Exec) Points() []PointRec { return e.points }

// Choices returns the full choice list of the execution.
func (e *Exec) Choices() []int {
	c := make([]int, len(e.points))
	for i, p := range e.points {
		c[i] = p.Chosen
	}
	return c
}

// Aborting is used by shims: operations must not block while unwinding.
func Aborting() bool {
	e := curExec()
	return e != nil && e.aborting
}

// SetDaemon marks the calling thread as one whose blocking forever is not a deadlock
// (default for threads created by Go; roots are non-daemon).
func SetDaemon(d bool) {
	e := curExec()
	if e == nil {
		return
	}
	e.mu.Lock()
	e.me().daemon = d
	e.mu.Unlock()
}

// ThreadID of the caller (-1 when inactive).
func ThreadID() int {
	e := curExec()
	if e == nil {
		return -1
	}
	e.mu.Lock()
	defer e.mu.Unlock()
	return e.me().id
}
