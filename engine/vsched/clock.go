package vsched

import (
	"sort"
	"time"
)

// Virtual clock. Time moves only when the harness calls Advance, or — if
// AutoAdvance is switched on for the execution — when no thread is enabled
// (then it jumps to the earliest pending timer).

var baseTime = time.Date(2024, 1, 1, 0, 0, 0, 0, time.UTC)

type VTimer struct {
	when    time.Duration
	period  time.Duration
	C       chan time.Time
	fn      func()
	stopped bool
	seq     int
}

type vclock struct {
	now    time.Duration
	timers []*VTimer
	auto   bool
}

func newClock() *vclock { return &vclock{} }

// SetAutoAdvance: let idle executions jump to the next timer.
func SetAutoAdvance(on bool) {
	if e := curExec(); e != nil {
		e.mu.Lock()
		e.clock.auto = on
		e.mu.Unlock()
	}
}

// Now is the virtual time (real time when inactive).
func Now() time.Time {
	e := curExec()
	if e == nil {
		return time.Now()
	}
	return baseTime.Add(e.clock.now)
}

func VirtualNow() (time.Time, bool) {
	e := curExec()
	if e == nil {
		return time.Time{}, false
	}
	return baseTime.Add(e.clock.now), true
}

// AddTimer registers a virtual timer (called by vtime). period > 0 = ticker.
func AddTimer(d, period time.Duration, fn func()) *VTimer {
	e := curExec()
	if e == nil {
		return nil
	}
	e.mu.Lock()
	defer e.mu.Unlock()
	e.timerSeq++
	if d < 0 {
		d = 0
	}
	t := &VTimer{when: e.clock.now + d, period: period, fn: fn, seq: e.timerSeq}
	if fn == nil {
		t.C = make(chan time.Time, 1)
	}
	e.clock.timers = append(e.clock.timers, t)
	return t
}

// StopTimer reports whether the timer was still pending.
func StopTimer(t *VTimer) bool {
	e := curExec()
	if e == nil || t == nil {
		return false
	}
	e.mu.Lock()
	defer e.mu.Unlock()
	was := !t.stopped && t.pendingIn(e.clock)
	t.stopped = true
	e.clock.remove(t)
	return was
}

func ResetTimer(t *VTimer, d time.Duration) bool {
	e := curExec()
	if e == nil || t == nil {
		return false
	}
	e.mu.Lock()
	defer e.mu.Unlock()
	was := !t.stopped && t.pendingIn(e.clock)
	e.clock.remove(t)
	t.stopped = false
	t.when = e.clock.now + d
	if t.period > 0 {
		t.period = d
	}
	e.clock.timers = append(e.clock.timers, t)
	return was
}

func (t *VTimer) pendingIn(c *vclock) bool {
	for _, x := range c.timers {
		if x == t {
			return true
		}
	}
	return false
}

func (c *vclock) remove(t *VTimer) {
	for i, x := range c.timers {
		if x == t {
			c.timers = append(c.timers[:i:i], c.timers[i+1:]...)
			return
		}
	}
}

// fireDue fires every timer due at or before now, in (when, seq) order.
// Called with e.mu held. Returns whether anything fired.
func (c *vclock) fireDue(e *Exec) bool {
	fired := false
	for {
		sort.SliceStable(c.timers, func(i, j int) bool {
			if c.timers[i].when != c.timers[j].when {
				return c.timers[i].when < c.timers[j].when
			}
			return c.timers[i].seq < c.timers[j].seq
		})
		if len(c.timers) == 0 || c.timers[0].when > c.now {
			return fired
		}
		t := c.timers[0]
		c.timers = c.timers[1:]
		fired = true
		if t.fn != nil {
			th := e.newThread("timerfn", false)
			th.daemon = true
			e.start(th, t.fn)
		} else {
			select {
			case t.C <- baseTime.Add(t.when):
			default: // like the runtime: a slow receiver drops ticks
			}
		}
		if t.period > 0 {
			t.when += t.period
			c.timers = append(c.timers, t)
		}
	}
}

// advanceToNext is used by dispatch when nothing is enabled.
func (c *vclock) advanceToNext(e *Exec) bool {
	if !c.auto || len(c.timers) == 0 {
		return false
	}
	min := c.timers[0].when
	for _, t := range c.timers {
		if t.when < min {
			min = t.when
		}
	}
	if min > c.now {
		c.now = min
	}
	return c.fireDue(e)
}

// Advance moves virtual time forward by d and fires the timers that become due
// (a harness event; itself a scheduling point).
func Advance(d time.Duration) {
	e := curExec()
	if e == nil {
		return
	}
	Point("advance", nil)
	e.mu.Lock()
	target := e.clock.now + d
	for {
		// step to each due time in order so that tickers fire once per period
		var next time.Duration = -1
		for _, t := range e.clock.timers {
			if t.when <= target && (next < 0 || t.when < next) {
				next = t.when
			}
		}
		if next < 0 {
			break
		}
		if next > e.clock.now {
			e.clock.now = next
		}
		e.clock.fireDue(e)
	}
	e.clock.now = target
	e.mu.Unlock()
}

// SleepUntil blocks the calling thread until virtual time reaches now+d.
func Sleep(d time.Duration) {
	e := curExec()
	if e == nil {
		time.Sleep(d)
		return
	}
	if e.aborting {
		return
	}
	e.mu.Lock()
	wake := e.clock.now + d
	// a pending pseudo-timer makes auto-advance see the wake-up time
	e.timerSeq++
	t := &VTimer{when: wake, C: make(chan time.Time, 1), seq: e.timerSeq}
	e.clock.timers = append(e.clock.timers, t)
	e.mu.Unlock()
	Point("sleep", func() bool { return e.clock.now >= wake })
}
