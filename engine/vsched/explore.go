package vsched

import (
	"fmt"
	"strconv"
	"strings"
)

// Scenario is one freshly built closed system: root thread bodies operating on
// fresh real objects, and an oracle evaluated after the execution ended.
type Scenario struct {
	Roots []func()
	// Check returns nil if the property held in this execution.
	Check func(x *Exec) *Fail
	// Outcome (optional) classifies the observable result of the execution
	// (vacuity guard: several outcomes must appear if threads really collide).
	Outcome func(x *Exec) string
}

type Fail struct {
	Sig    map[string]any
	Detail string
}

type Found struct {
	Choices []int
	Fail    *Fail
	Preempt int
}

type Config struct {
	Name              string
	Bound             int // preemption bound (iterated 0..Bound)
	Horizon           int
	Build             func() Scenario
	Expired           func() bool      // internal deadline (nil = never)
	Mine              func(i int) bool // shard filter on first-level subtrees (nil = all)
	MaxFound          int              // stop collecting after this many failing executions (default 5)
	MaxExec           int64            // cap on executions (0 = none)
	DeadlockIsFailure bool             // report a deadlock (non-daemon thread blocked forever) as a failure
	AutoAdvance       bool
	Secondary         bool // not shard 0: do not count the shared root execution
	// DelayBounded: every non-default choice costs 1 (also switches at blocking points and select picks,
	// which preemption bounding explores for free). Needed when a scenario spawns many daemon goroutines.
	DelayBounded bool
}

type Result struct {
	Executions     int64
	Points         int64 // scheduling points over all executions (transitions)
	MaxPoints      int
	BoundCompleted int // highest preemption bound fully explored (-1 = none)
	ByPreemptions  map[int]int64
	Outcomes       map[string]int64
	Found          []Found
	EngineError    string // nondeterminism / stall / untracked goroutine: NOT a verdict
	Capped         string
	Deadlocks      int64
	HorizonHits    int64
	FirstLevel     int
}

type explorer struct {
	cfg   Config
	res   *Result
	bound int
	stop  bool
	lvl1  int
	count bool // whether the execution being run is new in this pass
}

// Explore enumerates all executions of the scenario with at most cfg.Bound
// preemptions (iterating the bound), calling Build afresh for each.
func Explore(cfg Config) *Result {
	if cfg.MaxFound == 0 {
		cfg.MaxFound = 5
	}
	res := &Result{BoundCompleted: -1, ByPreemptions: map[int]int64{}, Outcomes: map[string]int64{}}
	x := &explorer{cfg: cfg, res: res}
	delayBounded = cfg.DelayBounded
	defer func() { delayBounded = false }()

	// determinism self-test: default schedule twice, identical point sequences
	x.count = false
	a := x.runOnce(nil)
	b := x.runOnce(nil)
	if res.EngineError != "" {
		return res
	}
	if d := diffPoints(a.points, b.points, len(a.points)); d != "" || len(a.points) != len(b.points) {
		res.EngineError = fmt.Sprintf("NONDETERMINISM: default schedule replayed twice differs (%d vs %d points) %s", len(a.points), len(b.points), d)
		return res
	}
	for bnd := 0; bnd <= cfg.Bound; bnd++ {
		x.bound = bnd
		x.lvl1 = 0
		x.explore(nil, nil, 0, bnd == 0, 0)
		if x.stop {
			return res
		}
		res.BoundCompleted = bnd
	}
	return res
}

func (x *explorer) expired() bool {
	if x.cfg.Expired != nil && x.cfg.Expired() {
		x.res.Capped = "deadline"
		return true
	}
	if x.cfg.MaxExec > 0 && x.res.Executions >= x.cfg.MaxExec {
		x.res.Capped = "max_exec"
		return true
	}
	return false
}

func (x *explorer) runOnce(prefix []int) *Exec {
	sc := x.cfg.Build()
	roots := sc.Roots
	if x.cfg.AutoAdvance {
		r0 := roots[0]
		roots = append([]func(){func() { SetAutoAdvance(true); r0() }}, roots[1:]...)
	}
	e := Run(Options{Prefix: prefix, Horizon: x.cfg.Horizon}, roots...)
	if e.Diverged != "" {
		x.res.EngineError = e.Diverged + " prefix=" + ChoicesString(prefix)
		x.stop = true
		return e
	}
	if !x.count {
		return e
	}
	x.res.Executions++
	x.res.Points += int64(len(e.points))
	if len(e.points) > x.res.MaxPoints {
		x.res.MaxPoints = len(e.points)
	}
	if e.HorizonHit {
		x.res.HorizonHits++
		if x.res.Capped == "" {
			x.res.Capped = "horizon"
		}
		return e
	}
	if e.Deadlock {
		x.res.Deadlocks++
	}
	var f *Fail
	if e.Panic != nil {
		f = &Fail{Sig: map[string]any{"kind": "panic"}, Detail: fmt.Sprintf("panic in code under test: %v\n%s", e.Panic, e.PanicStack)}
		if sc.Check != nil {
			if cf := sc.Check(e); cf != nil {
				f = cf
			}
		}
	} else if e.Deadlock && x.cfg.DeadlockIsFailure {
		f = &Fail{Sig: map[string]any{"kind": "deadlock"}, Detail: "deadlock: " + strings.Join(e.Blocked, "; ")}
	} else if sc.Check != nil {
		f = sc.Check(e)
	}
	if sc.Outcome != nil {
		x.res.Outcomes[sc.Outcome(e)]++
	}
	if f != nil {
		x.res.Outcomes["FAIL:"+sigString(f.Sig)]++
		if len(x.res.Found) < x.cfg.MaxFound {
			x.res.Found = append(x.res.Found, Found{Choices: e.Choices(), Fail: f, Preempt: preemptions(e.points, len(e.points))})
		}
	}
	return e
}

func sigString(m map[string]any) string {
	var parts []string
	for k, v := range m {
		parts = append(parts, fmt.Sprintf("%s=%v", k, v))
	}
	// small maps; order-insensitive string
	for i := range parts {
		for j := i + 1; j < len(parts); j++ {
			if parts[j] < parts[i] {
				parts[i], parts[j] = parts[j], parts[i]
			}
		}
	}
	return strings.Join(parts, ";")
}

func preemptions(p []PointRec, upto int) int {
	n := 0
	for i := 0; i < upto && i < len(p); i++ {
		if delayBounded {
			if p[i].Chosen != 0 {
				n++
			}
			continue
		}
		if !p[i].Step && p[i].RunningEnabled && p[i].Chosen != 0 {
			n++
		}
	}
	return n
}

// delayBounded is set for the duration of one Explore call (explorations are not concurrent within a process).
var delayBounded bool

func diffPoints(a, b []PointRec, n int) string {
	for i := 0; i < n && i < len(a) && i < len(b); i++ {
		if a[i].NEnabled != b[i].NEnabled || a[i].Kind != b[i].Kind || a[i].Thread != b[i].Thread {
			return fmt.Sprintf("at point %d: %+v vs %+v", i, a[i], b[i])
		}
	}
	return ""
}

// explore runs prefix (then defaults) and branches at every later point.
// In pass `bound` only executions with exactly `bound` preemptions are new;
// executions with fewer were covered by the earlier passes, but they must be
// re-run because their subtrees contain the new ones. count says whether the
// execution of this very prefix is new in this pass.
func (x *explorer) explore(prefix []int, parent []PointRec, depth int, isNew bool, branchDepth int) {
	if x.stop || x.expired() {
		x.stop = true
		return
	}
	// re-runs of executions counted in an earlier pass (or by shard 0) are not counted or checked again
	x.count = isNew && !(x.cfg.Secondary && prefix == nil)
	e := x.runOnce(prefix)
	if x.stop {
		return
	}
	if x.count {
		x.res.ByPreemptions[preemptions(e.points, len(e.points))]++
	}

	if parent != nil {
		if d := diffPoints(parent, e.points, len(prefix)-1); d != "" {
			x.res.EngineError = "NONDETERMINISM: replayed prefix diverged " + d + " prefix=" + ChoicesString(prefix)
			x.stop = true
			return
		}
	}
	if e.HorizonHit {
		return
	}
	pts := e.points
	choices := e.Choices()
	for i := len(prefix); i < len(pts); i++ {
		p := pts[i]
		if p.NEnabled <= 1 {
			continue
		}
		cost := preemptions(pts, i)
		extra := 0
		if x.cfg.DelayBounded || (!p.Step && p.RunningEnabled) {
			extra = 1
		}
		if cost+extra > x.bound {
			continue
		}
		for alt := 1; alt < p.NEnabled; alt++ {
			if branchDepth == 0 {
				x.lvl1++
				x.res.FirstLevel = x.lvl1
				if x.cfg.Mine != nil && !x.cfg.Mine(x.lvl1) {
					continue
				}
			}
			np := append(append([]int{}, choices[:i]...), alt)
			// the child execution is new in this pass iff it uses exactly `bound` preemptions
			// (children continue with default choices, which add no preemption)
			x.explore(np, pts, depth+1, cost+extra == x.bound, branchDepth+1)
			if x.stop {
				return
			}
		}
	}
}

func ChoicesString(c []int) string {
	// trailing zeros are implied
	n := len(c)
	for n > 0 && c[n-1] == 0 {
		n--
	}
	s := make([]string, n)
	for i := 0; i < n; i++ {
		s[i] = strconv.Itoa(c[i])
	}
	return strings.Join(s, ".")
}

func ParseChoices(s string) []int {
	if s == "" {
		return nil
	}
	var out []int
	for _, p := range strings.Split(s, ".") {
		v, _ := strconv.Atoi(p)
		out = append(out, v)
	}
	return out
}
