package vsched

import (
	"context"
	"fmt"
	"reflect"
)

// Channel operations of instrumented code. Buffered channels are operated
// natively but only when the operation cannot block (readiness is decided by
// the scheduler from len/cap and the closed registry). Unbuffered channels are
// pure identities: values are handed over directly between the parked
// partner threads (rendezvous), so a polling sender and a polling receiver
// always meet.

type chanState struct {
	ref    any // keeps the channel alive while registered
	closed bool
	stash  []reflect.Value // values taken from a native (uninstrumented) sender while probing
	recvq  []*chanWait
	sendq  []*chanWait
}

type chanWait struct {
	t     *Thread
	cs    *chanState
	caseI int
	send  bool
	val   any
	done  bool // partner completed this operation
}

func chanPtr(ch any) uintptr { return reflect.ValueOf(ch).Pointer() }

func (e *Exec) cstate(ch any) *chanState {
	p := chanPtr(ch)
	cs := e.chans[p]
	if cs == nil {
		cs = &chanState{ref: ch}
		e.chans[p] = cs
	}
	return cs
}

type selKind int

const (
	selRecv selKind = iota
	selSend
	selDone
)

// Case is one communication clause of a select.
type Case struct {
	kind selKind
	ch   reflect.Value // channel (recv/send)
	raw  any
	val  reflect.Value // value to send
	ctx  interface {
		Done() <-chan struct{}
		Err() error
	}
}

func CaseRecv[T any](ch <-chan T) Case {
	return Case{kind: selRecv, ch: reflect.ValueOf(ch), raw: ch}
}

func CaseSend[T any](ch chan<- T, v T) Case {
	return Case{kind: selSend, ch: reflect.ValueOf(ch), raw: ch, val: reflect.ValueOf(&v).Elem()}
}

// CaseDone is `case <-x.Done():` for a context-like x (the Done channel is
// closed by the standard library, so readiness is x.Err() != nil).
func CaseDone(x interface {
	Done() <-chan struct{}
	Err() error
}) Case {
	return Case{kind: selDone, ctx: x}
}

func (c *Case) isNil() bool {
	if c.kind == selDone {
		return c.ctx == nil || c.ctx.Done() == nil
	}
	return !c.ch.IsValid() || c.ch.IsNil()
}

// ready reports whether the case can complete now (called with e.mu held).
func (e *Exec) caseReady(me *Thread, c *Case) bool {
	if c.isNil() {
		return false
	}
	switch c.kind {
	case selDone:
		return c.ctx.Err() != nil
	case selRecv:
		cs := e.cstate(c.raw)
		if c.ch.Cap() > 0 {
			if c.ch.Len() > 0 {
				return true
			}
			e.probe(c, cs)
			return cs.closed || len(cs.stash) > 0
		}
		e.probe(c, cs)
		if cs.closed || len(cs.stash) > 0 {
			return true
		}
		for _, w := range cs.sendq {
			if w.t != me && !w.done {
				return true
			}
		}
		return false
	case selSend:
		cs := e.cstate(c.raw)
		if cs.closed {
			return true // will panic, as Go does
		}
		if c.ch.Cap() > 0 {
			return c.ch.Len() < c.ch.Cap()
		}
		for _, w := range cs.recvq {
			if w.t != me && !w.done {
				return true
			}
		}
		return false
	}
	return false
}

// probe finds out natively whether an empty channel has been closed by code
// that is not instrumented (the standard library closes ctx.Done() channels).
// A non-blocking native receive on an empty channel succeeds only if the
// channel is closed or an uninstrumented sender is blocked on it; in the second
// case the value is kept and delivered to the next receiver.
func (e *Exec) probe(c *Case, cs *chanState) {
	if cs.closed || c.ch.Type().ChanDir()&reflect.RecvDir == 0 {
		return
	}
	v, ok := c.ch.TryRecv()
	switch {
	case ok:
		cs.stash = append(cs.stash, v)
	case v.IsValid():
		cs.closed = true
	}
}

type selResult struct {
	idx int
	val reflect.Value
	ok  bool
}

// doSelect is the common implementation of Select/Recv/Send.
func doSelect(kind string, hasDefault bool, cases []Case) selResult {
	e := curExec()
	if e == nil || e.aborting {
		return nativeSelect(hasDefault, cases)
	}
	e.mu.Lock()
	me := e.me()
	// park on unbuffered channels so that partners can see us
	var waits []*chanWait
	for i := range cases {
		c := &cases[i]
		if c.kind == selDone || c.isNil() || c.ch.Cap() > 0 {
			continue
		}
		cs := e.cstate(c.raw)
		w := &chanWait{t: me, cs: cs, caseI: i, send: c.kind == selSend}
		if w.send {
			w.val = c.val.Interface()
			cs.sendq = append(cs.sendq, w)
		} else {
			cs.recvq = append(cs.recvq, w)
		}
		waits = append(waits, w)
	}
	me.resolved = false
	e.mu.Unlock()

	Point(kind, func() bool {
		if me.resolved || hasDefault {
			return true
		}
		for i := range cases {
			if e.caseReady(me, &cases[i]) {
				return true
			}
		}
		return false
	})

	e.mu.Lock()
	defer e.mu.Unlock()
	unpark := func() {
		for _, w := range waits {
			w.cs.recvq = removeWait(w.cs.recvq, w)
			w.cs.sendq = removeWait(w.cs.sendq, w)
		}
	}
	if me.resolved {
		// a partner completed one of our unbuffered cases
		me.resolved = false
		unpark()
		r := selResult{idx: me.resCase, ok: me.resOK}
		if me.resVal != nil {
			r.val = reflect.ValueOf(me.resVal)
		}
		me.resVal = nil
		return r
	}
	var ready []int
	for i := range cases {
		if e.caseReady(me, &cases[i]) {
			ready = append(ready, i)
		}
	}
	if len(ready) == 0 {
		unpark()
		if hasDefault {
			return selResult{idx: -1}
		}
		msg := "vsched: select woke up with no ready case (" + kind + ")"
		e.Diverged = msg
		panic(msg)
	}
	pick := 0
	if len(ready) > 1 {
		pick = e.subChoice("select-pick", len(ready))
	}
	i := ready[pick]
	c := &cases[i]
	unpark()
	switch c.kind {
	case selDone:
		return selResult{idx: i}
	case selRecv:
		if cs := e.cstate(c.raw); len(cs.stash) > 0 {
			v := cs.stash[0]
			cs.stash = cs.stash[1:]
			return selResult{idx: i, val: v, ok: true}
		}
		if c.ch.Cap() > 0 {
			if c.ch.Len() > 0 {
				v, ok := c.ch.TryRecv()
				if !ok && v.IsValid() == false {
					panic("vsched: buffered receive would block")
				}
				return selResult{idx: i, val: v, ok: ok}
			}
			return selResult{idx: i, ok: false} // closed and drained
		}
		cs := e.cstate(c.raw)
		for _, w := range cs.sendq {
			if w.t != me && !w.done {
				w.done = true
				cs.sendq = removeWait(cs.sendq, w)
				// the sender's other parked cases are void now
				for _, ow := range allWaits(e, w.t) {
					ow.cs.recvq = removeWait(ow.cs.recvq, ow)
					ow.cs.sendq = removeWait(ow.cs.sendq, ow)
				}
				w.t.resolved = true
				w.t.resCase = w.caseI
				w.t.resVal = nil
				w.t.resOK = true
				var rv reflect.Value
				if w.val != nil {
					rv = reflect.ValueOf(w.val)
				}
				return selResult{idx: i, val: rv, ok: true}
			}
		}
		return selResult{idx: i, ok: false} // closed
	case selSend:
		cs := e.cstate(c.raw)
		if cs.closed {
			panic("send on closed channel")
		}
		if c.ch.Cap() > 0 {
			if !c.ch.TrySend(c.val) {
				panic("vsched: buffered send would block")
			}
			return selResult{idx: i}
		}
		for _, w := range cs.recvq {
			if w.t != me && !w.done {
				w.done = true
				for _, ow := range allWaits(e, w.t) {
					ow.cs.recvq = removeWait(ow.cs.recvq, ow)
					ow.cs.sendq = removeWait(ow.cs.sendq, ow)
				}
				w.t.resolved = true
				w.t.resCase = w.caseI
				w.t.resVal = c.val.Interface()
				w.t.resOK = true
				return selResult{idx: i}
			}
		}
		panic("vsched: unbuffered send without receiver")
	}
	return selResult{idx: i}
}

func allWaits(e *Exec, t *Thread) []*chanWait {
	var out []*chanWait
	for _, cs := range e.chans {
		for _, w := range cs.recvq {
			if w.t == t {
				out = append(out, w)
			}
		}
		for _, w := range cs.sendq {
			if w.t == t {
				out = append(out, w)
			}
		}
	}
	return out
}

func removeWait(q []*chanWait, w *chanWait) []*chanWait {
	for i, x := range q {
		if x == w {
			return append(q[:i:i], q[i+1:]...)
		}
	}
	return q
}

// subChoice is an explorer choice that is not a thread switch (which of several
// ready select cases / due timers is taken). Called with e.mu held.
func (e *Exec) subChoice(kind string, n int) int {
	idx := 0
	pos := len(e.points)
	if pos < len(e.prefix) {
		idx = e.prefix[pos]
		if idx < 0 || idx >= n {
			e.Diverged = fmt.Sprintf("NONDETERMINISM: replay sub-choice %d at point %d out of range (%s, n=%d)", idx, pos, kind, n)
			idx = 0
		}
	}
	tid := -1
	if e.cur != nil {
		tid = e.cur.id
	}
	e.points = append(e.points, PointRec{NEnabled: n, Chosen: idx, RunningEnabled: false, Kind: kind, Thread: tid, Step: true})
	return idx
}

func nativeSelect(hasDefault bool, cases []Case) selResult {
	rc := make([]reflect.SelectCase, 0, len(cases)+1)
	for i := range cases {
		c := &cases[i]
		switch c.kind {
		case selDone:
			var ch reflect.Value
			if c.ctx != nil {
				ch = reflect.ValueOf(c.ctx.Done())
			}
			rc = append(rc, reflect.SelectCase{Dir: reflect.SelectRecv, Chan: ch})
		case selRecv:
			rc = append(rc, reflect.SelectCase{Dir: reflect.SelectRecv, Chan: c.ch})
		case selSend:
			rc = append(rc, reflect.SelectCase{Dir: reflect.SelectSend, Chan: c.ch, Send: c.val})
		}
	}
	if hasDefault {
		rc = append(rc, reflect.SelectCase{Dir: reflect.SelectDefault})
	}
	i, v, ok := reflect.Select(rc)
	if hasDefault && i == len(cases) {
		return selResult{idx: -1}
	}
	return selResult{idx: i, val: v, ok: ok}
}

// Select is the rewritten `select`: it returns the index of the case that was
// taken (-1 = default). The received value of a receive case is fetched with
// SelRecv/SelRecv2 right afterwards.
func Select(hasDefault bool, cases ...Case) int {
	r := doSelect("select", hasDefault, cases)
	lastSel.set(r)
	return r.idx
}

// the result of the last Select of the running thread; only one thread runs at
// a time and SelRecv follows Select immediately, so one slot per goroutine is
// kept keyed by goroutine id for the inactive (native) mode.
type selSlot struct {
	m map[uint64]selResult
}

var lastSel = &selSlot{m: map[uint64]selResult{}}
var lastSelMu = make(chan struct{}, 1)

func (s *selSlot) set(r selResult) {
	lastSelMu <- struct{}{}
	s.m[goid()] = r
	<-lastSelMu
}

func (s *selSlot) take() selResult {
	lastSelMu <- struct{}{}
	g := goid()
	r := s.m[g]
	delete(s.m, g)
	<-lastSelMu
	return r
}

func SelRecv[T any](ch <-chan T) T {
	v, _ := SelRecv2(ch)
	return v
}

func SelRecv2[T any](ch <-chan T) (T, bool) {
	r := lastSel.take()
	var zero T
	if !r.ok || !r.val.IsValid() {
		return zero, r.ok
	}
	return r.val.Interface().(T), true
}

func valueOf[T any](r selResult) (T, bool) {
	var zero T
	if !r.ok {
		return zero, false
	}
	if !r.val.IsValid() {
		return zero, true
	}
	if v, ok := r.val.Interface().(T); ok {
		return v, true
	}
	return zero, true // nil interface value
}

// Recv is `<-ch`.
func Recv[T any](ch <-chan T) T {
	v, _ := Recv2(ch)
	return v
}

// Recv2 is `v, ok := <-ch`.
func Recv2[T any](ch <-chan T) (T, bool) {
	if e := curExec(); e == nil || e.aborting {
		v, ok := <-ch
		return v, ok
	}
	r := doSelect("recv", false, []Case{CaseRecv(ch)})
	return valueOf[T](r)
}

// Send is `ch <- v`.
func Send[T any](ch chan<- T, v T) {
	if e := curExec(); e == nil || e.aborting {
		ch <- v
		return
	}
	doSelect("send", false, []Case{CaseSend(ch, v)})
}

// RecvDone is `<-x.Done()`.
func RecvDone(x interface {
	Done() <-chan struct{}
	Err() error
}) {
	if e := curExec(); e == nil || e.aborting {
		<-x.Done()
		return
	}
	doSelect("recv-done", false, []Case{CaseDone(x)})
}

// Close is `close(ch)`.
func Close[T any](ch chan<- T) {
	e := curExec()
	if e == nil {
		close(ch)
		return
	}
	if e.aborting {
		defer func() { _ = recover() }()
		close(ch)
		return
	}
	Point("close", nil)
	e.mu.Lock()
	cs := e.cstate(ch)
	if cs.closed {
		e.mu.Unlock()
		panic("close of closed channel")
	}
	cs.closed = true
	e.mu.Unlock()
	close(ch)
}

var _ = context.Background

// RecvDoneV is `<-x.Done()` used as an expression.
func RecvDoneV(x interface {
	Done() <-chan struct{}
	Err() error
}) struct{} {
	RecvDone(x)
	return struct{}{}
}
