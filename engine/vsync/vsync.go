// Package vsync is the drop-in replacement of "sync" for instrumented files.
// Outside a controlled execution every type behaves as the real primitive
// (which it embeds); inside, blocking is decided by vsched with
// runtime-faithful semantics (mutex barging, writer-preferring RWMutex,
// Once.Do blocking later callers, WaitGroup.Wait enabled at zero).
package vsync

import (
	"sync"

	"github.com/spikeekips/mitum/zzverif/vsched"
)

type (
	Locker = sync.Locker
	Map    = sync.Map
	Cond   = sync.Cond
)

func NewCond(l Locker) *Cond { return sync.NewCond(l) }

func OnceFunc(f func()) func()             { return sync.OnceFunc(f) }
func OnceValue[T any](f func() T) func() T { return sync.OnceValue(f) }

// Mutex

type Mutex struct {
	real sync.Mutex
	held bool
}

func (m *Mutex) Lock() {
	if !vsched.Active() {
		m.real.Lock()
		return
	}
	if vsched.Aborting() {
		m.held = true
		return
	}
	vsched.Point("Mutex.Lock", func() bool { return !m.held })
	m.held = true
}

func (m *Mutex) TryLock() bool {
	if !vsched.Active() {
		return m.real.TryLock()
	}
	if vsched.Aborting() {
		return false
	}
	vsched.Point("Mutex.TryLock", nil)
	if m.held {
		return false
	}
	m.held = true
	return true
}

func (m *Mutex) Unlock() {
	if !vsched.Active() {
		m.real.Unlock()
		return
	}
	if !m.held && !vsched.Aborting() {
		panic("vsync: unlock of unlocked mutex")
	}
	m.held = false
}

// RWMutex: a pending writer blocks new readers, as sync.RWMutex does.

type RWMutex struct {
	real    sync.RWMutex
	readers int
	writer  bool
	pending int // writers that announced themselves and wait for readers to drain
}

func (m *RWMutex) RLock() {
	if !vsched.Active() {
		m.real.RLock()
		return
	}
	if vsched.Aborting() {
		m.readers++
		return
	}
	vsched.Point("RWMutex.RLock", func() bool { return !m.writer && m.pending == 0 })
	m.readers++
}

func (m *RWMutex) TryRLock() bool {
	if !vsched.Active() {
		return m.real.TryRLock()
	}
	if vsched.Aborting() {
		return false
	}
	vsched.Point("RWMutex.TryRLock", nil)
	if m.writer || m.pending > 0 {
		return false
	}
	m.readers++
	return true
}

func (m *RWMutex) RUnlock() {
	if !vsched.Active() {
		m.real.RUnlock()
		return
	}
	if m.readers <= 0 {
		if vsched.Aborting() {
			return
		}
		panic("vsync: RUnlock of unlocked RWMutex")
	}
	m.readers--
}

func (m *RWMutex) Lock() {
	if !vsched.Active() {
		m.real.Lock()
		return
	}
	if vsched.Aborting() {
		m.writer = true
		return
	}
	// step 1: compete with other writers (w.Lock() of the real implementation)
	vsched.Point("RWMutex.Lock", func() bool { return !m.writer && m.pending == 0 })
	if m.readers == 0 {
		m.writer = true
		return
	}
	// step 2: announced; new readers are blocked until we have acquired and released
	m.pending++
	vsched.Point("RWMutex.Lock.drain", func() bool { return m.readers == 0 })
	m.pending--
	m.writer = true
}

func (m *RWMutex) TryLock() bool {
	if !vsched.Active() {
		return m.real.TryLock()
	}
	if vsched.Aborting() {
		return false
	}
	vsched.Point("RWMutex.TryLock", nil)
	if m.writer || m.pending > 0 || m.readers > 0 {
		return false
	}
	m.writer = true
	return true
}

func (m *RWMutex) Unlock() {
	if !vsched.Active() {
		m.real.Unlock()
		return
	}
	if !m.writer && !vsched.Aborting() {
		panic("vsync: Unlock of unlocked RWMutex")
	}
	m.writer = false
}

func (m *RWMutex) RLocker() Locker { return (*rlocker)(m) }

type rlocker RWMutex

func (r *rlocker) Lock()   { (*RWMutex)(r).RLock() }
func (r *rlocker) Unlock() { (*RWMutex)(r).RUnlock() }

// WaitGroup

type WaitGroup struct {
	real sync.WaitGroup
	n    int
}

func (w *WaitGroup) Add(d int) {
	if !vsched.Active() {
		w.real.Add(d)
		return
	}
	w.n += d
	if w.n < 0 && !vsched.Aborting() {
		panic("sync: negative WaitGroup counter")
	}
}

func (w *WaitGroup) Done() { w.Add(-1) }

func (w *WaitGroup) Wait() {
	if !vsched.Active() {
		w.real.Wait()
		return
	}
	if vsched.Aborting() {
		return
	}
	vsched.Point("WaitGroup.Wait", func() bool { return w.n <= 0 })
}

// Once: later callers block until the first call has returned.

type Once struct {
	real    sync.Once
	done    bool
	running bool
}

func (o *Once) Do(f func()) {
	if !vsched.Active() {
		o.real.Do(func() { f(); o.done = true })
		return
	}
	if vsched.Aborting() {
		return
	}
	vsched.Point("Once.Do", func() bool { return !o.running })
	if o.done {
		return
	}
	o.running = true
	defer func() {
		o.running = false
		o.done = true
		o.real.Do(func() {})
	}()
	f()
}

// Pool: deterministic LIFO free list that never drops (maximises reuse).

type Pool struct {
	New   func() any
	items []any
	mu    sync.Mutex
}

func (p *Pool) Get() any {
	p.mu.Lock()
	if n := len(p.items); n > 0 {
		x := p.items[n-1]
		p.items = p.items[:n-1]
		p.mu.Unlock()
		return x
	}
	p.mu.Unlock()
	if p.New != nil {
		return p.New()
	}
	return nil
}

func (p *Pool) Put(x any) {
	if x == nil {
		return
	}
	p.mu.Lock()
	p.items = append(p.items, x)
	p.mu.Unlock()
}

// Items is for oracles (C05): the current free list.
func (p *Pool) Items() []any {
	p.mu.Lock()
	defer p.mu.Unlock()
	return append([]any{}, p.items...)
}
