// Package vtime routes the time functions used by instrumented files through
// the virtual clock of vsched (real time when no controlled execution runs).
package vtime

import (
	"time"

	"github.com/spikeekips/mitum/zzverif/vsched"
)

func Now() time.Time { return vsched.Now() }

func Since(t time.Time) time.Duration { return Now().Sub(t) }
func Until(t time.Time) time.Duration { return t.Sub(Now()) }

func Sleep(d time.Duration) { vsched.Sleep(d) }

type Timer struct {
	C    <-chan time.Time
	vt   *vsched.VTimer
	real *time.Timer
}

func NewTimer(d time.Duration) *Timer {
	if !vsched.Active() {
		r := time.NewTimer(d)
		return &Timer{C: r.C, real: r}
	}
	vt := vsched.AddTimer(d, 0, nil)
	return &Timer{C: vt.C, vt: vt}
}

func AfterFunc(d time.Duration, f func()) *Timer {
	if !vsched.Active() {
		return &Timer{real: time.AfterFunc(d, f)}
	}
	return &Timer{vt: vsched.AddTimer(d, 0, f)}
}

func After(d time.Duration) <-chan time.Time { return NewTimer(d).C }

func (t *Timer) Stop() bool {
	if t.real != nil {
		return t.real.Stop()
	}
	return vsched.StopTimer(t.vt)
}

func (t *Timer) Reset(d time.Duration) bool {
	if t.real != nil {
		return t.real.Reset(d)
	}
	return vsched.ResetTimer(t.vt, d)
}

type Ticker struct {
	C    <-chan time.Time
	vt   *vsched.VTimer
	real *time.Ticker
}

func NewTicker(d time.Duration) *Ticker {
	if d <= 0 {
		panic("non-positive interval for NewTicker")
	}
	if !vsched.Active() {
		r := time.NewTicker(d)
		return &Ticker{C: r.C, real: r}
	}
	vt := vsched.AddTimer(d, d, nil)
	return &Ticker{C: vt.C, vt: vt}
}

func Tick(d time.Duration) <-chan time.Time { return NewTicker(d).C }

func (t *Ticker) Stop() {
	if t.real != nil {
		t.real.Stop()
		return
	}
	vsched.StopTimer(t.vt)
}

func (t *Ticker) Reset(d time.Duration) {
	if t.real != nil {
		t.real.Reset(d)
		return
	}
	vsched.ResetTimer(t.vt, d)
}
