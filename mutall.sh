#!/bin/bash
# ./mutall.sh [P]  : run every mutants/*.diff through mutcheck.sh (P parallel jobs), write mutants/RESULTS.json
P=${1:-2}
PAT=${2:-*}
cd "$(dirname "$0")"
mkdir -p /var/tmp/verif-mut/logs
ls mutants/$PAT.diff | xargs -P $P -I{} bash -c 'f={}; b=$(basename $f); id=$(echo ${b%%-*} | tr a-z A-Z); ./mutcheck.sh $f $id quick > /var/tmp/verif-mut/logs/$b.log 2>&1; echo "$b rc=$?"'
python3 - <<'PY'
import glob,json,os,re
res=json.load(open('mutants/RESULTS.json')) if os.path.exists('mutants/RESULTS.json') else {}
for f in sorted(glob.glob('/var/tmp/verif-mut/logs/*.log')):
    b=os.path.basename(f)[:-4]
    t=open(f).read()
    first=t.strip().split('\n')[0] if t.strip() else ''
    r='CAUGHT' if first.startswith('CAUGHT') else 'MISSED' if first.startswith('MISSED') else 'ERROR'
    m=re.search(r'sig=(\{.*?\})',t)
    res[b]={"result":r,"first_line":first[:200],"sig":m.group(1) if m else ""}
res={k:v for k,v in res.items() if os.path.exists('mutants/'+k)}
json.dump(res,open('mutants/RESULTS.json','w'),indent=1,sort_keys=True)
from collections import Counter
print(Counter(v['result'] for v in res.values()))
PY
