#!/usr/bin/env python3
"""merge_findings.py CNN [CNN...] : merge harness/cNN/findings.proposed.json into known_findings.json (by property+id)."""
import json, sys, os
V = os.path.dirname(os.path.abspath(__file__))
kf = json.load(open(os.path.join(V, "known_findings.json")))
have = {(e["property"], e["id"]): i for i, e in enumerate(kf["findings"])}
for pid in sys.argv[1:]:
    p = os.path.join(V, "harness", pid.lower(), "findings.proposed.json")
    for e in json.load(open(p))["findings"]:
        k = (e["property"], e["id"])
        if k in have:
            kf["findings"][have[k]] = e
        else:
            have[k] = len(kf["findings"]); kf["findings"].append(e)
        print("merged", k)
json.dump(kf, open(os.path.join(V, "known_findings.json"), "w"), indent=1)
