#!/bin/bash
# Offline setup: build the instrumenter, warm the go build cache by building every harness once.
export GOFLAGS=-mod=mod GOPROXY=off GOSUMDB=off GOTOOLCHAIN=local
cd "$(dirname "$0")"
mkdir -p bin evidence replays
if [ -d engine/instr ]; then (cd engine/instr && go build -o ../../bin/instr . ) || exit 1; fi
(cd /repo && go build -tags test ./... ) || exit 1
ids=$(python3 -c "import json;print(' '.join(c['property_id'] for c in json.load(open('MANIFEST.json'))['checks']))")
printf '%s\n' $ids | xargs -P 4 -I{} ./run.sh {} --build-only >/dev/null 2>setup.err || { cat setup.err; exit 1; }
rm -f setup.err
echo setup ok
