#!/usr/bin/env python3
"""Driver for one property check.

  vcheck.py <ID> quick|thorough          run the check, write evidence/<ID>.json
  vcheck.py <ID> --replay <file>         re-execute one recorded violation (twice)
  vcheck.py <ID> --build-only            build the harness binaries (setup / cache warm-up)

Everything is rebuilt from /repo's current working tree through `go test -c -overlay`:
harness files, the vlib/vsched/... engine packages and instrumented copies of mitum
files are mapped into /repo by the overlay; /repo itself is never written.

Exit status: 0 property held on everything explored (KNOWN-FINDING lines allowed),
1 with "VIOLATION property=<id> replay=<path>" for a violation not listed in
known_findings.json, 2 for build / harness errors (never a VIOLATION line).
"""
import json, os, subprocess, sys, time, shutil, hashlib, glob

VERIF = os.path.dirname(os.path.abspath(__file__))
REPO = os.environ.get("VERIF_REPO", "/repo")
WORKROOT = os.environ.get("VERIF_WORK", "/var/tmp/verif-work")
MOD = "github.com/spikeekips/mitum"
ENGINE_PKGS = ["vlib", "vsched", "vsync", "vatomic", "vtime", "vctx", "crashx"]

GOENV = dict(os.environ)
GOENV.update({"GOFLAGS": "-mod=mod", "GOPROXY": "off", "GOSUMDB": "off", "GOTOOLCHAIN": "local"})


def log(*a):
    print(*a, flush=True)


def load_cfg(pid):
    d = os.path.join(VERIF, "harness", pid.lower())
    with open(os.path.join(d, "check.json")) as f:
        cfg = json.load(f)
    cfg["_dir"] = d
    # per-check go environment (e.g. GODEBUG=goindex=0 when a module-cache package is instrumented:
    # the go command's module index ignores -overlay for the import list of module-cache packages)
    GOENV.update(cfg.get("go_env", {}))
    return cfg


def build_overlay(cfg, work):
    """overlay: engine packages, harness files, instrumented files."""
    replace = {}
    for p in ENGINE_PKGS:
        src = os.path.join(VERIF, "engine", p)
        if not os.path.isdir(src):
            continue
        for f in sorted(glob.glob(os.path.join(src, "*.go"))):
            if f.endswith("_test.go"):
                continue
            replace[os.path.join(REPO, "zzverif", p, os.path.basename(f))] = f
    for u in cfg["units"]:
        for f in u["files"]:
            src = os.path.join(cfg["_dir"], f)
            if not os.path.exists(src):
                src = os.path.join(VERIF, "harness", f)
            dst = os.path.join(REPO, u["package"], "zz_verif_%s_%s" % (cfg["property"].lower(), os.path.basename(f)))
            replace[dst] = src
    # non-test verif-tagged files placed into OTHER packages (exported wrappers a harness in another package needs)
    for o in cfg.get("overlay_files", []):
        src = os.path.join(cfg["_dir"], o["file"])
        dst = os.path.join(REPO, o["package"], "zz_verif_%s_%s" % (cfg["property"].lower(), os.path.basename(o["file"])))
        replace[dst] = src
    # shared in-package helper files
    for u in cfg["units"]:
        for f in u.get("shared", []):
            src = os.path.join(VERIF, "harness", "shared", f)
            dst = os.path.join(REPO, u["package"], "zz_verif_shared_" + os.path.basename(f))
            replace[dst] = src
    instr = cfg.get("instrument", [])
    if instr:
        idir = os.path.join(work, "instr")
        os.makedirs(idir, exist_ok=True)
        tool = os.path.join(VERIF, "bin", "instr")
        if not os.path.exists(tool):
            build_instr()
        args = [tool, "-repo", REPO, "-out", idir, "-mod", MOD]
        for k in cfg.get("instrument_opts", []):
            args.append(k)
        args += instr
        r = subprocess.run(args, env=GOENV, capture_output=True, text=True)
        if r.returncode != 0:
            log(r.stdout)
            log(r.stderr)
            raise SystemExit(2)
        m = json.loads(r.stdout)
        replace.update(m)
        # x/sync/semaphore instrumented from its real source becomes the virtual package zzverif/vsem
        r = subprocess.run(["go", "list", "-m", "-f", "{{.Dir}}", "golang.org/x/sync"], cwd=REPO, env=GOENV,
                           capture_output=True, text=True)
        sem = os.path.join(r.stdout.strip(), "semaphore", "semaphore.go")
        r = subprocess.run([tool, "-repo", REPO, "-out", idir, "-mod", MOD, sem], env=GOENV, capture_output=True, text=True)
        if r.returncode != 0:
            log(r.stdout, r.stderr)
            raise SystemExit(2)
        replace[os.path.join(REPO, "zzverif", "vsem", "semaphore.go")] = list(json.loads(r.stdout).values())[0]
    ov = os.path.join(work, "overlay.json")
    with open(ov, "w") as f:
        json.dump({"Replace": replace}, f, indent=1)
    return ov


def build_instr():
    os.makedirs(os.path.join(VERIF, "bin"), exist_ok=True)
    r = subprocess.run(["go", "build", "-o", os.path.join(VERIF, "bin", "instr"), "."],
                       cwd=os.path.join(VERIF, "engine", "instr"), env=GOENV, capture_output=True, text=True)
    if r.returncode != 0:
        log("BUILD-ERROR instrumenter\n" + r.stdout + r.stderr)
        raise SystemExit(2)


def build_units(cfg, work, ov, tier=None):
    shutil.copy(os.path.join(REPO, "go.mod"), os.path.join(work, "go.mod"))
    shutil.copy(os.path.join(REPO, "go.sum"), os.path.join(work, "go.sum"))
    import concurrent.futures
    bins = [None] * len(cfg["units"])

    def build_one(i, u):
        out = os.path.join(work, "unit%d.test" % i)
        tags = "test verif"
        cmd = ["go", "test", "-c", "-tags", tags, "-overlay", ov, "-modfile", os.path.join(work, "go.mod"),
               "-vet=off", "-o", out]
        if u.get("race"):
            cmd.insert(3, "-race")
        cmd.append("./" + u["package"])
        t0 = time.time()
        r = subprocess.run(cmd, cwd=REPO, env=GOENV, capture_output=True, text=True)
        return i, u, out, r, time.time() - t0

    # units are built in parallel (a multi-unit check would otherwise pay every link step in sequence)
    # units of the same package share one test binary
    first = {}
    for i, u in enumerate(cfg["units"]):
        if tier and u.get("tiers") and tier not in u["tiers"]:
            continue
        first.setdefault((u["package"], bool(u.get("race"))), i)
    with concurrent.futures.ThreadPoolExecutor(max_workers=4) as ex:
        futs = [ex.submit(build_one, i, u) for i, u in enumerate(cfg["units"]) if first.get((u["package"], bool(u.get("race")))) == i]
        for f in futs:
            i, u, out, r, dt = f.result()
            if r.returncode != 0 or not os.path.exists(out):
                log("BUILD-ERROR property=%s unit=%s" % (cfg["property"], u["package"]))
                log(r.stdout[-6000:])
                log(r.stderr[-6000:])
                raise SystemExit(2)
            bins[i] = out
            log("built %s in %.1fs" % (u["package"], dt))
    for i, u in enumerate(cfg["units"]):
        if bins[i] is None and (u["package"], bool(u.get("race"))) in first:
            bins[i] = bins[first[(u["package"], bool(u.get("race")))]]
    return bins


def run_shards(cfg, work, bins, tier, replay=None, seed=0):
    results = []
    procs = []
    deadline = cfg.get("deadline_s", {}).get(tier, 90 if tier == "quick" else 1200)
    if os.environ.get("VERIF_DEADLINE_S"):
        deadline = float(os.environ["VERIF_DEADLINE_S"])
    hard = deadline * 1.5 + 120
    ncpu = os.cpu_count() or 4
    for ui, u in enumerate(cfg["units"]):
        if u.get("tiers") and tier not in u["tiers"] and not replay:
            continue
        if replay and u.get("assumption"):
            continue
        nsh = u.get("shards", cfg.get("shards", {})).get(tier, 1) if isinstance(u.get("shards", cfg.get("shards", {})), dict) else 1
        if replay:
            nsh = 1
        nsh = max(1, min(nsh, ncpu, int(os.environ.get('VERIF_MAX_SHARDS', '64'))))
        order = list(range(nsh))
        if seed:
            order = order[seed % nsh:] + order[:seed % nsh]
        for s in order:
            out = os.path.join(work, "res-u%d-s%d.json" % (ui, s))
            env = dict(GOENV)
            env.update({"VERIF_TIER": tier, "VERIF_SHARD": "%d/%d" % (s, nsh), "VERIF_OUT": out,
                        "VERIF_DEADLINE_S": str(deadline), "VERIF_DIR": VERIF, "VERIF_REPO_DIR": REPO})
            if u.get("gomaxprocs"):
                env["GOMAXPROCS"] = str(u["gomaxprocs"])
            if replay:
                env["VERIF_REPLAY"] = replay
            rd = os.path.join(work, "run-u%d-s%d" % (ui, s))
            os.makedirs(rd, exist_ok=True)
            logf = open(os.path.join(rd, "log.txt"), "w")
            memlimit = u.get("ulimit_v_kb", 12 * 1024 * 1024)
            cmd = "ulimit -v %d; exec %s -test.run '^%s$' -test.count=1 -test.timeout=%ds -test.v" % (
                memlimit, bins[ui], u["test"], int(hard))
            p = subprocess.Popen(["bash", "-c", cmd], cwd=rd, env=env, stdout=logf, stderr=subprocess.STDOUT)
            procs.append((p, out, rd, ui, s, logf))
    t0 = time.time()
    errors = []
    for p, out, rd, ui, s, logf in procs:
        remaining = max(1, hard + 30 - (time.time() - t0))
        try:
            rc = p.wait(timeout=remaining)
        except subprocess.TimeoutExpired:
            p.kill()
            rc = -9
        logf.close()
        res = None
        if os.path.exists(out):
            try:
                with open(out) as f:
                    res = json.load(f)
            except Exception as e:  # noqa
                res = None
        if cfg["units"][ui].get("assumption"):
            # free-running -race pass: checks an assumption of the exhaustive units, never a verdict
            txt = open(os.path.join(rd, "log.txt")).read()
            race = "WARNING: DATA RACE" in txt
            if res is None:
                res = {"evaluations": 0, "transitions": 0, "traces": 0, "states": 0, "nontrivial": 0, "finished": True}
            res.setdefault("extra", {})["race_pass"] = (not race) and rc == 0
            if race:
                i = txt.find("WARNING: DATA RACE")
                res["extra"]["race_excerpt"] = txt[i:i + 1500]
                log("ASSUMPTION-WARNING property=%s the free-running -race pass reported a data race (not a verdict):\n%s" % (cfg["property"], txt[i:i + 1200]))
            elif rc != 0:
                log("ASSUMPTION-WARNING property=%s the free-running -race pass failed rc=%s (not a verdict)\n%s" % (cfg["property"], rc, txt[-1500:]))
            res["violations"] = []
            res["violations_by_class"] = {}
            results.append(res)
            continue
        if res is None or not res.get("finished"):
            tail = open(os.path.join(rd, "log.txt")).read()[-4000:]
            errors.append("unit %d shard %d: rc=%s no finished result\n%s" % (ui, s, rc, tail))
            continue
        if rc != 0:
            tail = open(os.path.join(rd, "log.txt")).read()[-4000:]
            errors.append("unit %d shard %d: rc=%s (test failed outside the violation protocol)\n%s" % (ui, s, rc, tail))
        results.append(res)
    return results, errors


def match_finding(entry, vio):
    sig = vio.get("sig", {})
    for k, v in entry.get("match", {}).items():
        if sig.get(k) != v:
            return False
    return True


def load_known(pid):
    p = os.path.join(VERIF, "known_findings.json")
    if not os.path.exists(p):
        return []
    with open(p) as f:
        d = json.load(f)
    out = [e for e in d.get("findings", []) if e.get("property") == pid]
    # harness authors test proposed entries with VERIF_KNOWN_EXTRA=<file>; never set by MANIFEST commands
    x = os.environ.get("VERIF_KNOWN_EXTRA")
    if x and os.path.exists(x):
        with open(x) as f:
            out += [e for e in json.load(f).get("findings", []) if e.get("property") == pid]
    return out


def merge(cfg, tier, results, seed, wall):
    pid = cfg["property"]
    cov = {"evaluations": 0, "transitions": 0, "traces_validated_against_impl": 0, "states": 0,
           "distinct_nontrivial": 0}
    outcomes = {}
    samples = []
    extra = {}
    caps = []
    assumptions = []
    vios = []
    vio_count = {}
    rule = ""
    for r in results:
        cov["evaluations"] += r["evaluations"]
        cov["transitions"] += r["transitions"]
        cov["traces_validated_against_impl"] += r["traces"]
        cov["states"] += r["states"]
        cov["distinct_nontrivial"] += r["nontrivial"]
        for k, v in (r.get("outcomes") or {}).items():
            outcomes[k] = outcomes.get(k, 0) + v
        for s in (r.get("samples") or []):
            if len(samples) < 8:
                samples.append(s)
        for k, v in (r.get("extra") or {}).items():
            extra.setdefault(k, v)
        for k, v in (r.get("counters") or {}).items():
            extra[k] = extra.get(k, 0) + v
        for k, v in (r.get("maxes") or {}).items():
            extra[k] = max(extra.get(k, v), v)
        for k, v in (r.get("mins") or {}).items():
            extra[k] = min(extra.get(k, v), v)
        for c in (r.get("caps_hit") or []):
            if c not in caps:
                caps.append(c)
        for a in (r.get("assumptions") or []):
            if a not in assumptions:
                assumptions.append(a)
        vios += r.get("violations") or []
        for k, v in (r.get("violations_by_class") or {}).items():
            vio_count[k] = vio_count.get(k, 0) + v
        rule = rule or r.get("rule", "")
    # a model-checking evidence file needs states/transitions >= 1; pure input
    # enumerations count each distinct input as a state and each evaluation as a transition
    if cov["transitions"] == 0:
        cov["transitions"] = cov["evaluations"]
    if cov["traces_validated_against_impl"] == 0:
        cov["traces_validated_against_impl"] = cov["evaluations"]
    if cov["evaluations"] == 0:
        cov["evaluations"] = cov["transitions"]
    cov.update(extra)
    cov["rule"] = rule
    cov["samples"] = samples
    cov["distinct_outcomes"] = len(outcomes)
    cov["outcomes"] = dict(sorted(outcomes.items(), key=lambda kv: -kv[1])[:40])
    cov["caps_hit"] = caps
    cov["exhaustive"] = len(caps) == 0
    cov["shards"] = len(results)
    return cov, assumptions, vios, vio_count


def classify(pid, vios):
    known = load_known(pid)
    matched = {}
    unmatched = []
    for v in vios:
        hit = None
        for e in known:
            if match_finding(e, v):
                hit = e
                break
        if hit is not None:
            matched.setdefault(hit["id"], [hit, 0])[1] += 1
        else:
            unmatched.append(v)
    return matched, unmatched


def write_replays(pid, unmatched):
    paths = []
    rdir = os.path.join(VERIF, "replays")
    os.makedirs(rdir, exist_ok=True)
    seen = set()
    for v in unmatched:
        key = hashlib.sha256((v["case"] + json.dumps(v.get("sig", {}), sort_keys=True)).encode()).hexdigest()[:10]
        if key in seen:
            continue
        seen.add(key)
        p = os.path.join(rdir, "%s-%s.json" % (pid, key))
        with open(p, "w") as f:
            json.dump({"property": pid, "case": v["case"], "sig": v.get("sig"), "detail": v.get("detail"),
                       "replay": v.get("replay")}, f, indent=1)
        paths.append((p, v))
        if len(paths) >= 10:
            break
    return paths


def main():
    if len(sys.argv) < 3:
        log(__doc__)
        return 2
    pid = sys.argv[1].upper()
    mode = sys.argv[2]
    cfg = load_cfg(pid)
    work = os.path.join(WORKROOT, "%s-%d" % (pid, os.getpid()))
    os.makedirs(work, exist_ok=True)
    seed = int(os.environ.get("VERIF_SEED", "0") or 0)
    try:
        t0 = time.time()
        ov = build_overlay(cfg, work)
        bins = build_units(cfg, work, ov, tier=mode if mode in ("quick", "thorough") else ("quick" if mode == "--replay" else None))
        if mode == "--build-only":
            return 0
        if mode == "--replay":
            path = os.path.abspath(sys.argv[3])
            verdicts = []
            for i in range(2):
                results, errors = run_shards(cfg, work, bins, "quick", replay=path)
                if errors:
                    log("HARNESS-ERROR property=%s\n%s" % (pid, "\n".join(errors)))
                    return 2
                _, _, vios, _ = merge(cfg, "quick", results, seed, 0)
                verdicts.append(sorted(set(v["case"] for v in vios)))
            if verdicts[0] != verdicts[1]:
                log("NONDETERMINISM property=%s replay verdicts differ: %s vs %s" % (pid, verdicts[0], verdicts[1]))
                return 2
            if verdicts[0]:
                log("VIOLATION property=%s replay=%s" % (pid, path))
                for v in vios[:3]:
                    log("  " + v.get("detail", "")[:2000])
                return 1
            log("replay: no violation reproduced for %s" % path)
            return 0
        tier = mode
        if tier not in ("quick", "thorough"):
            log("bad tier " + tier)
            return 2
        results, errors = run_shards(cfg, work, bins, tier, seed=seed)
        wall = time.time() - t0
        if errors:
            log("HARNESS-ERROR property=%s\n%s" % (pid, "\n".join(errors)))
            return 2
        cov, assumptions, vios, vio_count = merge(cfg, tier, results, seed, wall)
        matched, unmatched = classify(pid, vios)
        total_vios = sum(vio_count.values())
        cov["known_findings_matched"] = {k: v[1] for k, v in matched.items()}
        cov["violation_classes"] = vio_count
        ev = {
            "property_id": pid, "tier": tier, "seed": seed, "level": cfg.get("level", "model_checking"),
            "coverage": cov, "assumptions": assumptions, "wall_s": round(wall, 2),
            "violations": len(unmatched),
        }
        evdir = os.environ.get("VERIF_EVIDENCE_DIR", os.path.join(VERIF, "evidence"))  # mutcheck.sh redirects it
        os.makedirs(evdir, exist_ok=True)
        with open(os.path.join(evdir, pid + ".json"), "w") as f:
            json.dump(ev, f, indent=1)
        log("property=%s tier=%s states=%d transitions=%d executions=%d evaluations=%d distinct_outcomes=%d exhaustive=%s wall=%.1fs" % (
            pid, tier, cov["states"], cov["transitions"], cov["traces_validated_against_impl"], cov["evaluations"],
            cov["distinct_outcomes"], cov["exhaustive"], wall))
        for fid, (e, n) in sorted(matched.items()):
            log("KNOWN-FINDING: property=%s %s: %s (recorded instances=%d)" % (pid, fid, e.get("what", ""), n))
        if unmatched:
            for p, v in write_replays(pid, unmatched):
                log("VIOLATION property=%s replay=%s" % (pid, p))
                log("  case=%s sig=%s" % (v["case"][:300], json.dumps(v.get("sig"))))
                log("  " + (v.get("detail") or "")[:1500])
            log("total violation instances=%d (unlisted classes shown above)" % total_vios)
            return 1
        return 0
    finally:
        if not os.environ.get("VERIF_KEEP"):
            shutil.rmtree(work, ignore_errors=True)


if __name__ == "__main__":
    sys.exit(main())
