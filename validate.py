#!/opt/veriftools/pyvenv/bin/python
import json,jsonschema,glob,sys
jsonschema.validate(json.load(open('/verif/MANIFEST.json')),json.load(open('/root/.vp/MANIFEST.schema.json')))
s=json.load(open('/root/.vp/EVIDENCE.schema.json'))
bad=0
for f in sorted(glob.glob('/verif/evidence/C*.json')):
    try: jsonschema.validate(json.load(open(f)),s)
    except Exception as e: print('INVALID',f,str(e)[:300]); bad+=1
print('valid' if not bad else '%d invalid'%bad); sys.exit(1 if bad else 0)
