//go:build verif

package isaacdatabase

import (
	"fmt"
	"strings"
	"testing"

	"github.com/spikeekips/mitum/zzverif/vlib"
)

// C20: reopening storage returns exactly what was stored.
//
// Explicit-state BFS over event histories on the REAL Center + LeveldbPermanent
// + TempLeveldb + TempPool over one in-memory goleveldb storage (fixture and
// event alphabet: vfix_test.go; the C19 alphabet + X = close/reopen + the pool
// writes o p b e). After EVERY transition (every state is a quiescent point:
// no daemon is started) the differential oracle runs:
//
//	before := every read of the full query domain (Center + pool)
//	close Center, pool, permanent database and the goleveldb handle;
//	leveldb.Open on the same goleveldb storage, NewLeveldbPermanent, NewCenter (loadTemps), NewTempPool
//	after  := the same reads
//	before == after, object by object (hash / deep equality through the fixture's
//	identity table) and byte for byte for every part of every *Bytes read
//
// X is also an event, so histories continue on reloaded objects (reloaded temps
// are merged, removed, ... and reopened again).

type c20Vio struct {
	sig    map[string]any
	detail string
}

func c20Compare(m *vfModel, before, after vfAnswers) []c20Vio {
	var vios []c20Vio

	for _, q := range vfSortedKeys(before, after) {
		b, bok := before[q]
		a, aok := after[q]

		if aok == bok && a == b {
			continue
		}

		// the parts of a *Bytes read are only compared when it was found on both sides
		if part := vfPart(q); part != "object" && part != "found" {
			f := q[:len(q)-len(part)] + "found"
			if before[f] != after[f] {
				continue
			}
		}

		class := "changed"

		switch {
		case strings.HasPrefix(a, "error("):
			class = "error-after-reopen"
		case b == vfNotFound:
			class = "appeared"
		case a == vfNotFound || !aok:
			class = "lost"
		case strings.HasPrefix(a, "UNKNOWN-body(len=0,"):
			class = "empty-bytes"
		}

		vios = append(vios, c20Vio{
			sig: map[string]any{
				"kind": "reopen-mismatch", "read": vfMethod(q), "part": vfPart(q), "class": class, "where": vfWhere(m, q),
			},
			detail: fmt.Sprintf("%s = %s before closing and %s after reopening; committed chain [%s] (first %d in the permanent database)",
				q, vfShow(b, bok), vfShow(a, aok), m.ids(), m.merged),
		})
	}

	return vios
}

type c20Search struct {
	r         *vlib.Run
	env       *vfEnv
	cachesize int
	maxblocks int
	depth     int
	name      string
	counter   *int

	depthoverride int
	prefix        []string // the search starts after these events (their states are covered by the search without prefix)
	writercache   int
	seqstates     bool
	permbatch     int
}

func (s *c20Search) newPure() *vfPure {
	p := vfNewPure(s.cachesize, s.maxblocks)
	p.withX = true
	p.withPool = true

	return p
}

func (s *c20Search) readAll(db *vfDB, d *vfDomain) vfAnswers {
	a := s.env.readAll(db.center, d)

	for k, v := range s.env.readPool(db.pool) {
		a[k] = v
	}

	return a
}

// execute replays hist on a fresh database, then reads, reopens, reads.
func (s *c20Search) execute(hist []string) (vios []c20Vio, outcome string) {
	db := s.env.newDB(s.cachesize)
	defer db.close()

	if s.writercache > 0 || s.seqstates || s.permbatch > 0 {
		db.writercache, db.seqstates, db.permbatch = s.writercache, s.seqstates, s.permbatch
		db.reopen() // NOTE nothing was written yet; the permanent batch limit is set when opening
	}

	p := s.newPure()

	for i, ev := range hist {
		last := i == len(hist)-1

		blk, wantflag := p.apply(s.env, ev)

		flag, err := db.apply(ev, blk)

		switch {
		case err == nil:
		case !last:
			panic(fmt.Sprintf("harness: event %s of %v failed in a replay: %+v", ev, hist, err))
		default:
			reopened := false

			for _, e := range hist[:i] {
				reopened = reopened || e == "X"
			}

			return []c20Vio{{
				sig:    map[string]any{"kind": "event-error", "event": ev[:1], "after_reopen": reopened},
				detail: fmt.Sprintf("event %s returned an error: %v", ev, err),
			}}, "event-error"
		}

		d := s.env.domain(s.maxblocks, p.ever)

		if !last {
			for _, k := range d.keys {
				_, _, _ = db.center.State(k)
			}

			p.afterReads(d)

			continue
		}

		outcome = fmt.Sprintf("%c:%v", ev[0], flag)

		if flag != wantflag {
			s.r.Add("event_result_differs_from_model", 1) // C19's business
		}

		before := s.readAll(db, d)
		p.afterReads(d)

		if real, h := db.hidden(s.env.poolContent(db.pool)), p.hidden(); h != real {
			s.r.Add("hidden_state_prediction_mismatches", 1)
			s.r.Sample(map[string]any{"hidden_state_prediction_mismatch": strings.Join(hist, "/"), "real": real, "predicted": h})
		}

		db.reopen()

		after := s.readAll(db, d)

		s.r.Add("reads_compared", int64(len(before)))
		s.r.Add("reopen_points", 1)

		vios = c20Compare(&p.m, before, after)

		if len(db.center.activeTemps()) > 0 {
			outcome += ":temps-reloaded"
		}
	}

	return vios, outcome
}

func (s *c20Search) run() {
	r := s.r

	type node struct {
		hist []string
		p    *vfPure
	}

	d0 := s.env.domain(s.maxblocks, nil)

	root := s.newPure()

	for _, ev := range s.prefix {
		root.apply(s.env, ev)
		root.afterReads(d0)
	}

	frontier := []node{{p: root, hist: s.prefix}}
	seen := map[string]bool{root.key(): true}

	for depth := 1; depth <= s.depth && len(frontier) > 0; depth++ {
		var next []node

		for _, nd := range frontier {
			for _, ev := range nd.p.enabled() {
				hist := append(append([]string(nil), nd.hist...), ev)
				id := s.name + "/" + strings.Join(hist, "/")

				idx := *s.counter
				*s.counter++

				if r.Mine(idx) && r.Want(id) && !r.Expired() {
					vios, outcome := s.execute(hist)

					r.Eval()
					r.Transition()
					r.Trace()
					r.Outcome(outcome)

					if len(vios) > 0 {
						r.Outcome("violation")
					}

					for _, v := range vios {
						r.Violation(id, v.sig, v.detail, map[string]any{"search": s.name, "history": hist})
					}

					if idx%997 == 0 {
						r.Sample(map[string]any{"history": id, "violations": len(vios), "outcome": outcome})
					}
				}

				child := nd.p.clone()
				child.apply(s.env, ev)
				child.afterReads(d0)

				k := child.key()
				if seen[k] {
					continue
				}

				seen[k] = true

				if r.Mine(idx) {
					r.State(s.name + "|" + k)

					// non-trivial: something in the permanent database, a temp to reload and a proof somewhere
					if child.temps() > 0 && child.m.merged > 0 {
						r.Nontrivial(s.name + "|" + k)
					}
				}

				r.Max("depth_reached", int64(depth))

				next = append(next, node{hist: hist, p: child})
			}
		}

		frontier = next
	}
}

func TestVerifC20(t *testing.T) {
	r := vlib.Start("C20")
	defer r.Finish()

	env := vfNewEnv()

	depth := vlib.Pick(r, 4, 6)
	maxblocks := vlib.Pick(r, 4, 5)

	r.Rule("BFS over event histories (alphabet: write+commit the next block of kind S/F/P/O - genesis G first -, abandoned block write U, mergePermanent m, MergeAllPermanent M, RemoveBlocks(h) for every h from one below the lowest temp to one above the last block, cleanRemoved(0) c, close+reopen X, pool writes o/p/b/e once each) " +
		"to the stated depth with at most the stated number of committed blocks, once without caches and a permanent batch limit of 2, once with a permanent state cache and pool operation cache of 16, block writers whose cache (1) is smaller than their blocks and a batch limit of 3 (thorough: also both with the default limit 333 and writer caches of 16); state key as in C19 + pool content; " +
		"after every transition: all Center reads over the full query domain + all pool reads, close everything, reopen on the same goleveldb storage, the same reads again, compared object by object and byte by byte; " +
		"non-trivial = a state with at least one temp to reload and at least one block in the permanent database")
	r.Assume("block map is base.DummyBlockMap over a real isaac.Manifest and the suffrage proof is the harness type vfProof (isaac/block cannot be imported from inside isaac/database); goleveldb (incl. its journal recovery on Open) and the JSON encoder are trusted")
	r.Assume("quiescent points only: no daemon (Center.Start, TempPool.Start) runs, every call has returned before closing; crash points inside a call are C21's subject")
	r.Assume("TempPool.LastVoteproofs is memory-only by design (never written to the storage) and is not compared")
	r.Set("depth", depth)
	r.Set("max_blocks", maxblocks)
	r.Set("configurations", []string{"no caches/batchlimit 2", "permanent cache 16, writer caches 1/batchlimit 3", "thorough: + no caches and caches of 16 with the default batch limit 333"})

	counter := 0

	searches := []*c20Search{
		// every block is merged into the permanent database in several batches
		{name: "cache0-batch2", permbatch: 2},
		// permanent state cache holding every key, block writers whose cache is smaller than their blocks
		{name: "cache16-writer-cache1-batch3", cachesize: 16, writercache: 1, seqstates: true, permbatch: 3},
	}

	// the same from a chain whose genesis block is in the permanent database and whose states were read from there
	searches = append(searches, &c20Search{
		name: "cache16-writer-cache1-batch3-from-merged-genesis", cachesize: 16, writercache: 1, seqstates: true, permbatch: 3,
		prefix: []string{"WG", "WO", "m"}, depthoverride: vlib.Pick(r, 3, 4),
	})

	if r.Thorough() {
		searches = append(searches, &c20Search{name: "cache0"}, &c20Search{name: "cache16", cachesize: 16})
	}

	for _, s := range searches {
		s.r, s.env, s.maxblocks, s.depth, s.counter = r, env, maxblocks, depth, &counter

		if s.depthoverride > 0 {
			s.depth = s.depthoverride
		}

		s.run()
	}

	r.Set("transitions_total", counter)
}
