//go:build verif

package isaacdatabase

import (
	"fmt"
	"sort"
	"strings"
	"testing"

	"github.com/spikeekips/mitum/isaac"
	"github.com/spikeekips/mitum/util"
	"github.com/spikeekips/mitum/zzverif/vlib"
)

// C20, second unit: block writers that do NOT become part of the chain.
//
// The first unit (c20_test.go) only knows successful operations: every block
// writer is created for the next height and is either committed at once (W*)
// or cancelled at once (U). This unit adds to the same BFS the writers a
// running node also leaves in the block-write area of the storage:
//
//	N      open a block writer for the next height (filled, Write() done) and keep it open;
//	       the history goes on, so the writer is older than whatever is committed later
//	J      Center.MergeBlockWriteDatabase(the open writer): accepted when its height still is
//	       last+1, REJECTED when in the meantime another writer of that height (or more) was
//	       committed (occupied height: top, lower temp, in the permanent database) or the
//	       chain was cut below it by RemoveBlocks (above last+1)
//	K      Cancel() of the open writer
//	Q<h>   a NEW writer (so: created after the accepted writer of that height) for a height that
//	       is not last+1 - every height from one below the lowest temp up to the top, and top+2 -
//	       filled, written and given to Center.MergeBlockWriteDatabase, which rejects it
//	D<h>   a NEW writer for every occupied height from one below the lowest temp up to the top, filled,
//	       written and Cancel()ed without a merge (the node found the block already saved)
//	E<h>   a new writer of height top / top+1 that was filled and written but never got a block
//	       map, given to Center.MergeBlockWriteDatabase, which rejects it ("empty blockmap")
//
// (in one of the two configurations every rejected writer is also Cancel()ed,
// which is what isaacblock.Writer.Cancel does after a failed save). The oracle
// is the one of the first unit, unchanged: all reads before closing == all
// reads after reopening; here the storage is reopened a second time and the
// reads must again be the ones before closing.

type c20wPure struct {
	*vfPure
	open *vfBlock // block of the open writer
	thin bool

	extra    int // writers of the N / Q / E events so far
	maxextra int
}

func (p *c20wPure) clone() *c20wPure {
	return &c20wPure{vfPure: p.vfPure.clone(), open: p.open, thin: p.thin, extra: p.extra, maxextra: p.maxextra}
}

func (p *c20wPure) key() string {
	open := "-"
	if p.open != nil {
		open = p.open.id
	}

	return fmt.Sprintf("%s open=%s extra=%d", p.vfPure.key(), open, p.extra)
}

// hidden: a prefix without block map has no name in the real listing.
func (p *c20wPure) hidden() string {
	s := p.vfPure.hidden()

	if !strings.Contains(s, "/map@?#") {
		return s
	}

	// the store list is sorted by the printed entries: print it again
	store := make([]string, len(p.store))
	for i, e := range p.store {
		switch {
		case strings.HasPrefix(e.id, "?#"):
			store[i] = fmt.Sprintf("%d/?/%v", e.height, e.merged)
		default:
			store[i] = fmt.Sprintf("%d/map@%s/%v", e.height, e.id, e.merged)
		}
	}

	sort.Strings(store)

	i := strings.Index(s, " store=[")
	j := strings.Index(s, " cache=[")

	return s[:i] + fmt.Sprintf(" store=%v", store) + s[j:]
}

func (p *c20wPure) lo() int {
	lo := p.m.merged - 1
	if lo < 0 {
		lo = 0
	}

	return lo
}

func (p *c20wPure) enabled(env *vfEnv) []string {
	var evs []string

	for _, ev := range p.vfPure.enabled() {
		// thinned alphabet (quick tier): two of the four block kinds, no MergeAllPermanent (== m on these short
		// chains), and no event of the first unit's alphabet that leaves the state as it is (a merge without
		// two temps, RemoveBlocks of a height that is not there, a cleanup or a reopen without anything to drop):
		// the reopen differential after it is the one of the state itself
		if p.thin {
			if ev == "WP" || ev == "WO" || ev == "M" {
				continue
			}

			if c := p.clone(); ev[0] != 'W' && ev != "U" {
				if c.apply(env, ev); c.key() == p.key() {
					continue
				}
			}
		}

		evs = append(evs, ev)
	}

	switch {
	case p.open == nil:
		if len(p.m.blocks) < p.maxblocks && p.extra < p.maxextra {
			evs = append(evs, "N")
		}
	default:
		// NOTE Center accepts a writer of any height while the chain is empty; the model of the chain
		// (height == index) has no place for that, so that merge is not an event.
		if len(p.m.blocks) > 0 || p.open.height == 0 {
			evs = append(evs, "J")
		}

		evs = append(evs, "K")
	}

	if p.extra >= p.maxextra {
		return evs
	}

	if top := p.m.top(); top >= 0 {
		for h := p.lo(); h <= top; h++ {
			evs = append(evs, fmt.Sprintf("Q%d", h))
		}

		evs = append(evs, fmt.Sprintf("Q%d", top+2))

		for h := p.lo(); h <= top; h++ {
			evs = append(evs, fmt.Sprintf("D%d", h))
		}

		evs = append(evs, fmt.Sprintf("E%d", top))
	}

	if len(p.m.blocks) < p.maxblocks {
		evs = append(evs, fmt.Sprintf("E%d", p.m.top()+1))
	}

	return evs
}

// where is the place of a height relative to the chain.
func (p *c20wPure) where(h int) string {
	switch top := p.m.top(); {
	case h > top+1:
		return "above-next"
	case h == top+1:
		return "next"
	case h < p.m.merged:
		return "in-permanent"
	case h == top:
		return "top-temp"
	default:
		return "lower-temp"
	}
}

func (p *c20wPure) sufhBefore(h int) int {
	switch {
	case h < 1 || len(p.m.blocks) < 1:
		return -1
	case h-1 <= p.m.top():
		return p.m.blocks[h-1].sufh
	default:
		return p.m.sufh()
	}
}

func (p *c20wPure) newBlock(env *vfEnv, h int, kind byte) *vfBlock {
	if h == 0 && kind == 'F' {
		kind = 'G'
	}

	blk := env.block(h, kind, p.sufhBefore(h), p.writes[h])
	p.writes[h]++
	p.extra++
	p.ever = append(p.ever, blk)

	return blk
}

// apply: see vfPure.apply. class names the outcome of a writer event.
func (p *c20wPure) apply(env *vfEnv, ev string) (blk *vfBlock, flag bool, class string) {
	switch {
	case ev == "N":
		blk = p.newBlock(env, len(p.m.blocks), 'F')
		p.open = blk
		p.store = append(p.store, vfPrefix{id: blk.id, height: int(blk.height)})

		return blk, false, "opened"
	case ev == "K":
		p.open = nil

		return nil, false, "cancelled"
	case ev == "J":
		blk, p.open = p.open, nil

		if h := int(blk.height); h != len(p.m.blocks) {
			return blk, false, "rejected:older-writer:" + p.where(h)
		}

		for i := range p.store {
			if p.store[i].id == blk.id {
				p.store[i].merged = true
			}
		}

		p.m.blocks = append(p.m.blocks, blk)

		return blk, true, "accepted"
	case ev[0] == 'Q', ev[0] == 'E', ev[0] == 'D':
		var h int

		if _, err := fmt.Sscanf(ev[1:], "%d", &h); err != nil {
			panic(err)
		}

		if ev[0] == 'Q' || ev[0] == 'D' {
			blk = p.newBlock(env, h, 'S')
			p.store = append(p.store, vfPrefix{id: blk.id, height: h})

			if ev[0] == 'D' {
				return blk, false, "cancelled:newer-writer:" + p.where(h)
			}

			return blk, false, "rejected:newer-writer:" + p.where(h)
		}

		blk = p.newBlock(env, h, 'F')
		p.store = append(p.store, vfPrefix{id: "?#" + blk.id, height: h})

		return blk, false, "rejected:no-blockmap:" + p.where(h)
	case ev == "X":
		p.open = nil // the process is gone
	}

	blk, flag = p.vfPure.apply(env, ev)

	return blk, flag, ""
}

// siblings is the structural class of the block-write area: for every prefix
// that is not the committed block of its height, where it is and whether it
// is newer or older than the committed one (the store list is in creation order).
func (p *c20wPure) siblings() string {
	seen := map[string]bool{}

	for i, e := range p.store {
		if e.merged {
			continue
		}

		c := p.where(e.height)

		switch {
		case strings.HasPrefix(e.id, "?#"):
			c += "/no-blockmap"
		case p.open != nil && p.open.id == e.id:
			c += "/open"
		}

		for j, o := range p.store {
			if o.merged && o.height == e.height {
				if j < i {
					c += "/newer-than-committed"
				} else {
					c += "/older-than-committed"
				}
			}
		}

		seen[c] = true
	}

	l := make([]string, 0, len(seen))
	for c := range seen {
		l = append(l, c)
	}

	sort.Strings(l)

	if len(l) < 1 {
		return "-"
	}

	return strings.Join(l, ",")
}

// nontrivial: reopening has to choose: an uncommitted prefix at a height whose committed block is in a temp.
func (p *c20wPure) nontrivial() bool {
	for _, e := range p.store {
		if !e.merged && e.height >= p.m.merged && e.height <= p.m.top() {
			return true
		}
	}

	return false
}

// ---------------------------------------------------------------- real side

type c20wDB struct {
	*vfDB
	openw          isaac.BlockWriteDatabase
	cancelRejected bool
}

func (db *c20wDB) newWriterNoMap(b *vfBlock) isaac.BlockWriteDatabase {
	wst, err := db.center.NewBlockWriteDatabase(b.height)
	vfMust(err)

	size := db.cachesize
	if db.writercache > 0 {
		size = db.writercache
	}

	if size > 0 {
		wst.(isaac.StateCacheSetter).SetStateCache( //nolint:forcetypeassert //...
			util.NewLFUGCache[string, [2]interface{}](size))
	}

	switch {
	case db.seqstates:
		for i := range b.states {
			vfMust(wst.SetStates(b.states[i : i+1]))
		}
	default:
		vfMust(wst.SetStates(b.states))
	}

	vfMust(wst.SetOperations(b.known))

	if b.proof != nil {
		vfMust(wst.SetSuffrageProof(b.proof))
	}

	vfMust(wst.Write())

	return wst
}

// merge gives the writer to the Center. accept: the model says it is the next block.
func (db *c20wDB) merge(w isaac.BlockWriteDatabase, accept bool) (bool, error) {
	err := db.center.MergeBlockWriteDatabase(w)

	switch {
	case err == nil:
		return true, nil
	case accept:
		return false, err
	}

	if db.cancelRejected {
		vfMust(w.Cancel())
	}

	return false, nil
}

func (db *c20wDB) apply(ev string, blk *vfBlock, accept bool) (flag bool, err error) {
	switch {
	case ev == "N":
		db.openw = db.newWriter(blk)

		return false, nil
	case ev == "K":
		w := db.openw
		db.openw = nil

		return false, w.Cancel()
	case ev == "J":
		w := db.openw
		db.openw = nil

		return db.merge(w, accept)
	case ev[0] == 'Q':
		return db.merge(db.newWriter(blk), false)
	case ev[0] == 'D':
		return false, db.newWriter(blk).Cancel()
	case ev[0] == 'E':
		return db.merge(db.newWriterNoMap(blk), false)
	case ev == "X":
		db.openw = nil
	}

	return db.vfDB.apply(ev, blk)
}

// ---------------------------------------------------------------- search

type c20wSearch struct {
	r         *vlib.Run
	env       *vfEnv
	name      string
	cachesize int
	maxblocks int
	depth     int
	counter   *int

	writercache    int
	seqstates      bool
	permbatch      int
	cancelRejected bool
	thin           bool
	depthoverride  int
	prefix         []string
	perdepth       map[int]int
	maxextra       int
}

func (s *c20wSearch) newPure() *c20wPure {
	p := vfNewPure(s.cachesize, s.maxblocks)
	p.withX = true

	return &c20wPure{vfPure: p, thin: s.thin, maxextra: s.maxextra}
}

func (s *c20wSearch) readAll(db *c20wDB, d *vfDomain) vfAnswers {
	a := s.env.readAll(db.center, d)

	for k, v := range s.env.readPool(db.pool) {
		a[k] = v
	}

	return a
}

func (s *c20wSearch) execute(hist []string) (vios []c20Vio, outcome string) {
	db := &c20wDB{vfDB: s.env.newDB(s.cachesize), cancelRejected: s.cancelRejected}
	defer db.close()

	if s.writercache > 0 || s.seqstates || s.permbatch > 0 {
		db.writercache, db.seqstates, db.permbatch = s.writercache, s.seqstates, s.permbatch
		db.reopen() // NOTE nothing was written yet; the permanent batch limit is set when opening
	}

	p := s.newPure()

	for i, ev := range hist {
		last := i == len(hist)-1

		blk, wantflag, class := p.apply(s.env, ev)

		flag, err := db.apply(ev, blk, wantflag)

		switch {
		case err == nil:
		case !last:
			panic(fmt.Sprintf("harness: event %s of %v failed in a replay: %+v", ev, hist, err))
		default:
			return []c20Vio{{
				sig:    map[string]any{"kind": "event-error", "event": ev[:1], "writers": p.siblings()},
				detail: fmt.Sprintf("event %s returned an error: %v", ev, err),
			}}, "event-error"
		}

		d := s.env.domain(s.maxblocks, p.ever)

		if !last {
			for _, k := range d.keys {
				_, _, _ = db.center.State(k)
			}

			p.afterReads(d)

			continue
		}

		outcome = fmt.Sprintf("%c:%v", ev[0], flag)
		if class != "" {
			outcome = fmt.Sprintf("%c:%s", ev[0], class)

			s.r.Add("writers_event_"+outcome, 1) // the evidence keeps the 40 most frequent outcomes only
		}

		if flag != wantflag {
			// a writer the model rejects was accepted (or a call of the first unit's alphabet answered differently):
			// C19's business; the reopen differential below does not depend on the model
			s.r.Add("writers_event_result_differs_from_model", 1)
			outcome += ":UNEXPECTED-" + fmt.Sprint(flag)
		}

		before := s.readAll(db, d)
		p.afterReads(d)

		if real, h := db.hidden(s.env.poolContent(db.pool)), p.hidden(); h != real {
			s.r.Add("writers_hidden_state_prediction_mismatches", 1)
			s.r.Sample(map[string]any{"hidden_state_prediction_mismatch": strings.Join(hist, "/"), "real": real, "predicted": h})
		}

		siblings := p.siblings()
		reported := map[string]bool{}

		for n, which := range []string{"first", "second"} {
			db.reopen()

			after := s.readAll(db, d)

			s.r.Add("writers_reads_compared", int64(len(before)))
			s.r.Add("writers_reopen_points", 1)

			for _, v := range c20Compare(&p.m, before, after) {
				k := fmt.Sprint(v.sig["read"], v.sig["part"], v.sig["where"])
				if reported[k] {
					continue
				}

				reported[k] = true

				v.sig["reopen"] = which
				v.sig["writers"] = siblings
				v.detail = fmt.Sprintf("%s (%s reopen; block-write area before closing: %s)", v.detail, which, siblings)

				vios = append(vios, v)
			}

			if n == 0 && len(db.center.activeTemps()) > 0 {
				outcome += ":temps-reloaded"
			}
		}
	}

	return vios, outcome
}

func (s *c20wSearch) run() {
	r := s.r

	type node struct {
		hist []string
		p    *c20wPure
	}

	d0 := s.env.domain(s.maxblocks, nil)

	root := s.newPure()

	for _, ev := range s.prefix {
		root.apply(s.env, ev)
		root.afterReads(d0)
	}

	frontier := []node{{p: root, hist: s.prefix}}
	seen := map[string]bool{root.key(): true}

	for depth := 1; depth <= s.depth && len(frontier) > 0; depth++ {
		var next []node

		for _, nd := range frontier {
			for _, ev := range nd.p.enabled(s.env) {
				hist := append(append([]string(nil), nd.hist...), ev)
				id := s.name + "/" + strings.Join(hist, "/")

				idx := *s.counter
				*s.counter++
				s.perdepth[depth]++

				if r.Mine(idx) && r.Want(id) && !r.Expired() {
					vios, outcome := s.execute(hist)

					r.Eval()
					r.Transition()
					r.Trace()
					r.Outcome(outcome)

					if len(vios) > 0 {
						r.Outcome("violation")
					}

					for _, v := range vios {
						r.Violation(id, v.sig, v.detail, map[string]any{"search": s.name, "history": hist})
					}

					if idx%997 == 0 {
						r.Sample(map[string]any{"history": id, "violations": len(vios), "outcome": outcome})
					}
				}

				child := nd.p.clone()
				child.apply(s.env, ev)
				child.afterReads(d0)

				k := child.key()
				if seen[k] {
					continue
				}

				seen[k] = true

				if r.Mine(idx) {
					r.State(s.name + "|" + k)

					if child.nontrivial() {
						r.Nontrivial(s.name + "|" + k)
					}
				}

				r.Max("writers_depth_reached", int64(depth))

				next = append(next, node{hist: hist, p: child})
			}
		}

		frontier = next
	}
}

func TestVerifC20Writers(t *testing.T) {
	r := vlib.Start("C20")
	defer r.Finish()

	env := vfNewEnv()

	depth := vlib.Pick(r, 4, 5)
	maxblocks := vlib.Pick(r, 4, 4)
	maxextra := vlib.Pick(r, 2, 3)

	rule := "second unit: BFS over event histories of the first unit's alphabet without the pool writes (quick: block kinds S/F only, no M) + the block writers that do not become part of the chain: " +
		"N open a written block writer for the next height and keep it, J merge the open writer (accepted, or rejected because meanwhile its height was taken - top temp, lower temp, permanent database - or the chain was cut below it), K cancel it, " +
		"Q<h> a new written writer for every height from one below the lowest temp to the top and for top+2 given to MergeBlockWriteDatabase (rejected: wrong height), D<h> a new written writer for every such occupied height cancelled without a merge, " +
		"E<h> a new written writer without block map of height top and top+1 given to MergeBlockWriteDatabase (rejected: empty block map); at most one open writer and at most the stated number of N/Q/D/E writers per history; " +
		"quick tier: no event of the first unit's alphabet that the model predicts to leave the state unchanged; " +
		"two configurations as in the first unit (no caches/batch limit 2, rejected writers left alone; caches 16/writer caches 1/batch limit 3, rejected writers also cancelled); " +
		"after every transition all reads, close, reopen, same reads, close, reopen, same reads; both must equal the reads before closing; " +
		"non-trivial = a state where an uncommitted prefix storage sits at a height whose committed block is in a temp (reopening has to choose)"

	r.Rule(rule)
	r.Set("writers_rule", rule)
	r.Assume("block map is base.DummyBlockMap over a real isaac.Manifest and the suffrage proof is the harness type vfProof (isaac/block cannot be imported from inside isaac/database); goleveldb (incl. its journal recovery on Open) and the JSON encoder are trusted")
	r.Assume("quiescent points only: no daemon (Center.Start, TempPool.Start) runs, every call has returned before closing; crash points inside a call are C21's subject")
	r.Assume("an open block writer does not survive the restart (it is an in-memory object of the closed process); its prefix storage does")
	r.Set("writers_depth", depth)
	r.Set("writers_max_blocks", maxblocks)
	r.Set("writers_max_uncommitted_writers", maxextra)

	counter := 0

	searches := []*c20wSearch{
		{name: "writers-cache0-batch2", permbatch: 2},
		{
			name: "writers-cache16-writer-cache1-batch3-cancel-rejected", cachesize: 16, writercache: 1, seqstates: true, permbatch: 3, cancelRejected: true,
			depthoverride: vlib.Pick(r, 3, 0),
		},
	}

	for _, s := range searches {
		s.r, s.env, s.maxblocks, s.depth, s.counter = r, env, maxblocks, depth, &counter
		s.thin = !r.Thorough()
		s.perdepth = map[int]int{}
		s.maxextra = maxextra

		if s.depthoverride > 0 {
			s.depth = s.depthoverride
		}

		s.run()

		r.Set("writers_transitions_per_depth_"+s.name, fmt.Sprint(s.perdepth))
	}

	r.Set("writers_transitions_total", counter)
}
