//go:build verif

package isaacdatabase

import (
	"context"
	"fmt"
	"io"
	"sort"
	"strings"
	"testing"
	"time"

	"github.com/spikeekips/mitum/base"
	"github.com/spikeekips/mitum/isaac"
	"github.com/spikeekips/mitum/util"
	"github.com/spikeekips/mitum/zzverif/crashx"
	"github.com/spikeekips/mitum/zzverif/vlib"
	goleveldbstorage "github.com/syndtr/goleveldb/leveldb/storage"
)

// C21: block commit is atomic across crashes (engine F).
//
// One goleveldb storage (crashx: in memory, every file-level mutation logged)
// carries the permanent database, the block-write area and the pool, exactly as
// launch.LoadDatabase builds them. A history is run on it natively:
//
//	setup   blocks 0 and 1 committed, block 0 merged into the permanent database        (log position n0)
//	block 2 NewBlockWriteDatabase, SetBlockMap, SetStates, SetOperations, SetSuffrageProof, Write   [mark written-2]
//	        Center.MergeBlockWriteDatabase (TempLeveldb.Merge: merged marker)                        [mark ack-2]
//	        Center.mergePermanent (block 1 -> permanent database, parallel batches)                 [mark permanent-1]
//	        Center.cleanRemoved(0) (temp of block 1 removed from the storage)                       [mark cleaned-1]
//	block 3 the same (permanent merge and cleanup of block 2)                                       [marks ...-3, ...-2]
//
// Then for EVERY n in n0..len(log), and for every n whose last operation is a
// write also with that write torn to its first half, the storage image of the
// first n operations is materialised, opened with the real open path
// (leveldb.Open = journal recovery, NewLeveldbPermanent, NewCenter = loadTemps,
// NewTempPool) and everything is read.
//
// Oracle per image, L = height of LastBlockMap():
//   - opening never fails or panics;
//   - every read over the full query domain (every height, suffrage height, every key and operation/fact hash of
//     every block of the history) equals the model "blocks 0..L committed": blocks <= L complete (map, every
//     state, every operation record, proof), nothing of a block > L observable;
//   - L >= the last block whose commit (MergeBlockWriteDatabase) was acknowledged before the crash point.

type c21Config struct {
	name      string
	big       int // number of states of the large blocks 1 and 2 (0: the small fixture blocks)
	permbatch int // LeveldbPermanent.batchlimit (0: default 333)
	cache     int
	wbuf      int // goleveldb write buffer of the producing handle (0: 64 KiB); images are always opened with 64 KiB
}

// c21BigBlock is a block with n ordinary states (keys shared by all big blocks, so a later one overwrites
// them; the first 4 carry an in-state operation), 2 new keys of its own and 2 known operations.
func c21BigBlock(env *vfEnv, height, n, sufh int) *vfBlock {
	id := fmt.Sprintf("h%d:L%d:s%d:w0", height, n, sufh)
	if b, found := env.blocks[id]; found {
		return b
	}

	b := &vfBlock{id: id, height: base.Height(height), kind: 'L', sufh: sufh, stbody: map[string][]byte{}}

	add := func(key string, withop bool) {
		var ops []util.Hash

		if withop {
			h := vfFixed("instate-op-" + id + "-" + key)
			env.name("op", h.Bytes(), fmt.Sprintf("instate(%s,%s,0)", id, key))
			ops = []util.Hash{h}
		}

		st := base.NewBaseState(b.height, key, base.NewDummyStateValue("value-of-"+key+"-in-"+id), vfFixed("previous-of-"+id+key), ops)
		b.states = append(b.states, st)
		b.instate = append(b.instate, ops...)
		b.stbody[key] = env.marshal(st)

		name := key + "@" + id
		env.name("state", st.Hash().Bytes(), name)
		env.name("body", b.stbody[key], "body-of-state("+name+")")
		env.name("meta", st.Hash().Bytes(), "hash-of("+name+")")
		env.sts[st.Hash().String()] = st
	}

	for i := 0; i < n; i++ {
		add(fmt.Sprintf("%s%03d", c21BigPrefix, i), i < 4)
	}

	add(fmt.Sprintf("vf-own-a-of-height-%d", height), true)
	add(fmt.Sprintf("vf-own-b-of-height-%d", height), false)

	for i := 0; i < 2; i++ {
		h := vfFixed(fmt.Sprintf("known-op-%s-%d", id, i))
		b.known = append(b.known, h)
		env.name("op", h.Bytes(), fmt.Sprintf("known(%s,%d)", id, i))
	}

	manifest := isaac.NewManifest(
		b.height,
		vfFixed("block-before-"+id),
		vfFixed("proposal-"+id),
		vfFixed("operations-tree-"+id),
		vfFixed("states-tree-"+id),
		vfFixed(fmt.Sprintf("suffrage-state-of-suffrage-height-%d-%s", sufh, id)),
		time.Date(2022, 1, 1, 0, 0, height, 777, time.UTC),
	)

	mp := base.NewDummyBlockMapWithSign(manifest, env.local, env.priv)
	b.mp = mp
	b.mpmeta = manifest.Hash().Bytes()
	b.mpbody = env.marshal(mp)

	env.name("map", manifest.Hash().Bytes(), "map@"+id)
	env.name("meta", b.mpmeta, "manifest-hash-of("+id+")")
	env.name("body", b.mpbody, "body-of-map@"+id)

	env.blocks[id] = b

	return b
}

type c21History struct {
	cfg    c21Config
	chain  []*vfBlock
	ops    []crashx.Op
	marks  []crashx.Mark
	n0     int
	logsig string

	acked0 int  // the last block whose commit was acknowledged in the setup
	twice  bool // the recovered storage is closed, reopened and read a second time (third unit)
}

func c21Chain(env *vfEnv, cfg c21Config) []*vfBlock {
	g := env.block(0, 'G', -1, 0)

	if cfg.big > 0 {
		return []*vfBlock{g, c21BigBlock(env, 1, cfg.big, 0), c21BigBlock(env, 2, cfg.big, 0), env.block(3, 'F', 0, 0)}
	}

	return []*vfBlock{g, env.block(1, 'S', 0, 0), env.block(2, 'F', 0, 0), env.block(3, 'S', 1, 0)}
}

func c21Open(env *vfEnv, raw goleveldbstorage.Storage, cfg c21Config) *vfDB {
	db := &vfDB{env: env, raw: raw, cachesize: cfg.cache, wbuf: cfg.wbuf}
	db.open()

	if cfg.permbatch > 0 {
		db.perm.batchlimit = cfg.permbatch
	}

	return db
}

// c21Produce runs the history natively and returns its log.
func c21Produce(env *vfEnv, cfg c21Config) *c21History {
	cx := crashx.New()
	db := c21Open(env, cx, cfg)
	chain := c21Chain(env, cfg)

	commit := func(b *vfBlock) {
		vfMust(db.center.MergeBlockWriteDatabase(db.newWriter(b)))
	}

	mergeOne := func() {
		merged, err := db.center.mergePermanent(context.Background())
		vfMust(err)

		if !merged {
			panic("harness: nothing was merged")
		}
	}

	commit(chain[0])
	commit(chain[1])
	mergeOne()
	vfMust(db.center.cleanRemoved(0))
	vfSettle()

	h := &c21History{cfg: cfg, chain: chain, n0: cx.Len(), acked0: 1}

	for i := 2; i <= 3; i++ {
		cx.MarkNow(fmt.Sprintf("begin-%d", i))
		wst := db.newWriter(chain[i])
		cx.MarkNow(fmt.Sprintf("written-%d", i))
		vfMust(db.center.MergeBlockWriteDatabase(wst))
		cx.MarkNow(fmt.Sprintf("ack-%d", i))
		mergeOne()
		cx.MarkNow(fmt.Sprintf("permanent-%d", i-1))
		vfMust(db.center.cleanRemoved(0))
		cx.MarkNow(fmt.Sprintf("cleaned-%d", i-1))
	}

	vfSettle()

	h.ops = cx.Ops()
	h.marks = cx.Marks()

	db.closeNow()

	var sb strings.Builder
	for _, o := range h.ops[h.n0:] {
		fmt.Fprintf(&sb, "%s/%v;", o.Kind, o.FD) // NOTE structure only: lengths depend on random signature bytes
	}

	h.logsig = vlib.H(sb.String())

	return h
}

// phase names what the process was doing when it stopped after n operations.
func (h *c21History) phase(n int) string {
	for _, m := range h.marks {
		if n <= m.At {
			switch name, _, _ := strings.Cut(m.Name, "-"); name {
			case "begin":
				return "idle"
			case "written":
				return "block-write"
			case "filled": // third unit: the importers of one batch fill their block write databases
				return "import-fill"
			case "saved": // third unit: the importers write (flush) their block write databases
				return "import-save"
			case "ack":
				return "temp-commit"
			case "permanent":
				return "permanent-merge"
			case "cleaned":
				return "clean-removed"
			}
		}
	}

	return "idle"
}

func (h *c21History) acked(n int, torn bool) int {
	last := h.acked0

	for _, m := range h.marks {
		var b int

		if _, err := fmt.Sscanf(m.Name, "ack-%d", &b); err != nil {
			continue
		}

		if m.At <= n && !(torn && m.At == n) && b > last {
			last = b
		}
	}

	return last
}

// c21Imager builds the storage image of every prefix of a log incrementally
// (crashx.Materialize replays the whole prefix for every image: O(n^2) for a
// log). Same semantics: create truncates, write appends, remove deletes, rename
// moves, setmeta records; a torn last write keeps its first half. It is checked
// against crashx.Materialize on a sample of prefixes (c21SelfCheckImager).
type c21Imager struct {
	ops   []crashx.Op
	n     int
	files map[goleveldbstorage.FileDesc][]byte
	meta  *goleveldbstorage.FileDesc
}

func c21NewImager(ops []crashx.Op) *c21Imager {
	return &c21Imager{ops: ops, files: map[goleveldbstorage.FileDesc][]byte{}}
}

// advance applies operations until n of them are applied (n only grows).
func (im *c21Imager) advance(n int) {
	for ; im.n < n; im.n++ {
		switch o := im.ops[im.n]; o.Kind {
		case "create":
			im.files[o.FD] = []byte{}
		case "write":
			if _, found := im.files[o.FD]; !found {
				panic("harness: write to a file that was not created")
			}

			im.files[o.FD] = append(im.files[o.FD], o.Data...)
		case "sync":
		case "remove":
			delete(im.files, o.FD)
		case "rename":
			im.files[o.To] = im.files[o.FD]
			delete(im.files, o.FD)
		case "setmeta":
			fd := o.FD
			im.meta = &fd
		default:
			panic("harness: unknown operation " + o.Kind)
		}
	}
}

// image is the storage after the first n operations (n >= the last n), the last one torn if asked.
func (im *c21Imager) image(n int, torn bool) goleveldbstorage.Storage {
	im.advance(n)

	m := goleveldbstorage.NewMemStorage()

	for fd, b := range im.files {
		if torn && n > 0 && im.ops[n-1].Kind == "write" && im.ops[n-1].FD == fd {
			b = b[:len(b)-len(im.ops[n-1].Data)+len(im.ops[n-1].Data)/2]
		}

		w, err := m.Create(fd)
		vfMust(err)

		_, err = w.Write(b)
		vfMust(err)
		vfMust(w.Close())
	}

	if im.meta != nil {
		vfMust(m.SetMeta(*im.meta))
	}

	return m
}

func c21StorageDump(m goleveldbstorage.Storage) string {
	fds, err := m.List(goleveldbstorage.TypeAll)
	vfMust(err)

	var l []string

	for _, fd := range fds {
		r, err := m.Open(fd)
		vfMust(err)

		b, err := io.ReadAll(r)
		vfMust(err)
		vfMust(r.Close())

		l = append(l, fmt.Sprintf("%v:%d:%s", fd, len(b), vlib.H(string(b))))
	}

	sort.Strings(l)

	meta, err := m.GetMeta()

	return fmt.Sprintf("%v meta=%v/%v", l, meta, err)
}

// c21SelfCheckImager compares the incremental images with crashx.Materialize.
func c21SelfCheckImager(ops []crashx.Op, from int) {
	im := c21NewImager(ops)

	for n := from; n <= len(ops); n += 1 + (len(ops)-from)/7 {
		for _, torn := range []bool{false, true} {
			if torn && (n == 0 || ops[n-1].Kind != "write") {
				continue
			}

			ref, err := crashx.Materialize(ops, n, torn)
			vfMust(err)

			if a, b := c21StorageDump(im.image(n, torn)), c21StorageDump(ref); a != b {
				panic(fmt.Sprintf("harness: incremental image differs from crashx.Materialize at n=%d torn=%v:\n%s\n%s", n, torn, a, b))
			}
		}
	}
}

type c21Vio struct {
	sig    map[string]any
	detail string
}

func c21Missing(q string) string {
	switch vfMethod(q) {
	case "State", "StateBytes":
		return "states"
	case "ExistsInStateOperation", "ExistsKnownOperation":
		return "operations"
	case "BlockMap", "BlockMapBytes", "LastBlockMap", "LastBlockMapBytes":
		return "map"
	case "LastNetworkPolicy":
		return "policy"
	default:
		return "proof"
	}
}

// check opens the image and compares. It returns the visible height (-2: could not be opened).
func (h *c21History) check(env *vfEnv, im *c21Imager, d *vfDomain, expected map[int]vfAnswers, n int, torn bool) (int, []c21Vio) {
	phase := h.phase(n)

	img := im.image(n, torn)

	var db *vfDB

	if panicked, msg := vlib.Catch(func() { db = c21Open(env, img, h.cfg) }); panicked {
		return -2, []c21Vio{{
			sig:    map[string]any{"kind": "reopen-error", "phase": phase, "torn": torn},
			detail: "opening the storage image failed: " + msg,
		}}
	}

	defer db.close()

	var got vfAnswers

	if panicked, msg := vlib.Catch(func() { got = c21ReadAll(env, db, d) }); panicked {
		return -2, []c21Vio{{
			sig:    map[string]any{"kind": "read-panic", "phase": phase, "torn": torn},
			detail: "reading after reopen panicked: " + msg,
		}}
	}

	L := -1

	if name := got["LastBlockMap()"]; name != vfNotFound {
		if _, err := fmt.Sscanf(vfBlockOf(name), "h%d:", &L); err != nil {
			return -2, []c21Vio{{
				sig:    map[string]any{"kind": "unknown-last-blockmap", "phase": phase, "torn": torn},
				detail: "LastBlockMap() = " + name,
			}}
		}
	}

	var vios []c21Vio

	if a := h.acked(n, torn); L < a {
		vios = append(vios, c21Vio{
			sig:    map[string]any{"kind": "acknowledged-block-lost", "phase": phase, "torn": torn},
			detail: fmt.Sprintf("the commit of block %d was acknowledged before the crash point, the last visible height is %d", a, L),
		})
	}

	want := expected[L]
	seen := map[string]bool{}

	for _, q := range vfSortedKeys(got, want) {
		g, gok := got[q]
		w, wok := want[q]

		if gok == wok && g == w {
			continue
		}

		if part := vfPart(q); part != "object" && part != "found" {
			f := q[:len(q)-len(part)] + "found"
			if got[f] != want[f] {
				continue
			}
		}

		kind := "partial-block" // something of a block <= L is missing or wrong

		if id := vfBlockOf(g); id != "" {
			var gh int

			if _, err := fmt.Sscanf(id, "h%d:", &gh); err == nil && gh > L {
				kind = "invisible-block-observable"
			}
		}

		sig := map[string]any{"kind": kind, "phase": phase, "missing": c21Missing(q), "torn": torn}
		if k := vlib.SigString(sig); seen[k] { // one record per class and image
			continue
		} else {
			seen[k] = true
		}

		vios = append(vios, c21Vio{
			sig:    sig,
			detail: fmt.Sprintf("last visible height %d; %s = %s, a chain of blocks 0..%d says %s", L, q, vfShow(g, gok), L, vfShow(w, wok)),
		})
	}

	if !h.twice {
		return L, vios
	}

	// a restart of the recovered node: the same answers
	var again vfAnswers

	if panicked, msg := vlib.Catch(func() {
		db.reopen()

		again = c21ReadAll(env, db, d)
	}); panicked {
		return L, append(vios, c21Vio{
			sig:    map[string]any{"kind": "second-reopen-error", "phase": phase, "torn": torn},
			detail: "closing the recovered storage, opening it again and reading failed: " + msg,
		})
	}

	for _, q := range vfSortedKeys(got, again) {
		g, gok := got[q]
		a, aok := again[q]

		if gok == aok && g == a {
			continue
		}

		vios = append(vios, c21Vio{
			sig: map[string]any{"kind": "second-reopen-differs", "phase": phase, "missing": c21Missing(q), "torn": torn},
			detail: fmt.Sprintf("last visible height %d after the first reopen; %s = %s after the first reopen, %s after the second",
				L, q, vfShow(g, gok), vfShow(a, aok)),
		})

		break
	}

	return L, vios
}

const c21BigPrefix = "vf-big-"

// c21ReadAll reads everything; the shared keys of the large blocks only through State (StateBytes of
// the other keys covers the raw reads).
func c21ReadAll(env *vfEnv, db *vfDB, d *vfDomain) vfAnswers {
	small := *d
	small.keys = nil

	var big []string

	for _, k := range d.keys {
		if strings.HasPrefix(k, c21BigPrefix) {
			big = append(big, k)

			continue
		}

		small.keys = append(small.keys, k)
	}

	a := env.readAll(db.center, &small)

	for _, k := range big {
		switch st, found, err := db.center.State(k); {
		case err != nil:
			a[fmt.Sprintf("State(%s)", k)] = vfErr(err)
		case !found:
			a[fmt.Sprintf("State(%s)", k)] = vfNotFound
		default:
			a[fmt.Sprintf("State(%s)", k)] = env.stateName(st)
		}
	}

	return a
}

// c21Domain is the full query domain of a history and the expected answers for every visible height.
func c21Domain(env *vfEnv, h *c21History) (*vfDomain, map[int]vfAnswers) {
	d := env.domain(len(h.chain), h.chain)

	keys := map[string]bool{}
	for _, k := range d.keys {
		keys[k] = true
	}

	for _, b := range h.chain {
		for _, st := range b.states {
			if !keys[st.Key()] {
				keys[st.Key()] = true
				d.keys = append(d.keys, st.Key())
			}
		}
	}

	sort.Strings(d.keys)

	expected := map[int]vfAnswers{}
	for L := -1; L < len(h.chain); L++ {
		expected[L] = env.expect(&vfModel{blocks: h.chain[:L+1]}, d, true)

		for q := range expected[L] {
			if strings.HasPrefix(q, "StateBytes("+c21BigPrefix) {
				delete(expected[L], q)
			}
		}
	}

	return d, expected
}

func c21Run(r *vlib.Run, env *vfEnv, h *c21History) { c21RunSlice(r, env, h, 0, 1) }

// c21RunSlice checks the crash points n0+j, n0+j+k, n0+j+2k, ... of the log (j=0, k=1: all of them).
func c21RunSlice(r *vlib.Run, env *vfEnv, h *c21History, j, k int) {
	cfg := h.cfg

	d, expected := c21Domain(env, h)

	if j == 0 {
		r.Add("logged_operations", int64(len(h.ops)-h.n0))
	}

	c21SelfCheckImager(h.ops, h.n0)

	im := c21NewImager(h.ops)

	for n := h.n0; n <= len(h.ops); n++ {
		if (n-h.n0)%k != j {
			continue
		}

		for _, torn := range []bool{false, true} {
			if torn && (n == 0 || h.ops[n-1].Kind != "write") {
				continue
			}

			id := fmt.Sprintf("%s/log=%s/n=%d/torn=%v", cfg.name, h.logsig, n, torn)
			if !r.Want(id) {
				continue
			}

			if r.Expired() {
				return
			}

			L, vios := h.check(env, im, d, expected, n, torn)

			r.Eval()
			r.Trace()
			r.Transition()
			r.Add("crash_points", 1)

			phase := h.phase(n)
			r.Outcome(fmt.Sprintf("%s:visible=%d", phase, L))
			r.Nontrivial(fmt.Sprintf("%s|%s|torn=%v|visible=%d|%s", cfg.name, phase, torn, L, h.ops[maxInt(n-1, 0)].Kind))

			for _, v := range vios {
				r.Violation(id, v.sig, v.detail+fmt.Sprintf(" | %s, crash after operation %d of %d (%v), phase %s", cfg.name, n, len(h.ops), h.ops[maxInt(n-1, 0)], phase),
					map[string]any{"config": cfg.name, "n": n, "torn": torn})
			}

			if (n-h.n0)%211 == 0 && !torn {
				r.Sample(map[string]any{"config": cfg.name, "crash_after_operation": n, "operation": h.ops[maxInt(n-1, 0)].String(), "phase": phase, "visible_height": L, "violations": len(vios)})
			}
		}
	}
}

func maxInt(a, b int) int {
	if a > b {
		return a
	}

	return b
}

func TestVerifC21(t *testing.T) {
	r := vlib.Start("C21")
	defer r.Finish()

	env := vfNewEnv()

	// NOTE the permanent merge of these configurations is one batch (default limit 333) except for big340: the orders
	// of a multi-batch permanent merge are the subject of the second unit (engine S), where they are enumerated
	configs := []c21Config{
		{name: "small", cache: 0},
		{name: "small-cache", cache: 16},
		{name: "big130", big: 130},
		{name: "big130-cache", big: 130, cache: 256},
	}

	if r.Thorough() {
		configs = append(configs,
			c21Config{name: "big340", big: 340},
			c21Config{name: "big340-cache", big: 340, cache: 512},
			c21Config{name: "big130-permbatch64", big: 130, permbatch: 64},
		)
	}

	reps := vlib.Pick(r, 2, 4)

	r.Rule("for each configuration (block sizes x permanent batch limit x state cache) the history (2 blocks written, committed, merged permanently, cleaned, on top of a committed chain) is run natively the stated number of times; for each produced log EVERY prefix from the end of the setup to the end of the log, and every prefix ending in a write also with that write torn, is materialised, recovered with the real open path and read completely; " +
		"non-trivial = distinct (configuration, phase of the crash point, torn, visible height, kind of the last operation)")
	r.Assume("goleveldb's journal/manifest recovery and the prefix crash model of a single journal (writes are unsynced, so every prefix of the file-write log is a legal image); the order in which the parallel batch writers reach the journal is whatever the Go runtime produced in the repetitions (states = logs with a distinct sequence of file operations per shard), not every order; every order of a multi-batch permanent merge within the preemption bound is the second unit's subject")
	r.Set("repetitions_per_configuration", reps)
	r.Set("configurations", len(configs))

	rid, replaying := r.Replaying()

	item := 0

	for _, cfg := range configs {
		if replaying {
			// the log of the recorded case has to be produced again: the order of the parallel batch writers is the Go runtime's
			if !strings.HasPrefix(rid, cfg.name+"/log=") {
				continue
			}

			for try := 0; ; try++ {
				if try > 200 {
					panic("harness: the log of the recorded case was not produced again in 200 runs")
				}

				if h := c21Produce(env, cfg); strings.HasPrefix(rid, cfg.name+"/log="+h.logsig+"/") {
					c21Run(r, env, h)

					break
				}
			}

			continue
		}

		// every repetition is a work item of its own: a shard checks every crash point of the logs it produced
		for rep := 0; rep < reps; rep++ {
			item++

			if !r.Mine(item) || r.Expired() {
				continue
			}

			h := c21Produce(env, cfg)

			r.Add("logs_produced", 1)
			r.State(cfg.name + "|log=" + h.logsig)
			c21Run(r, env, h)
		}
	}
}
