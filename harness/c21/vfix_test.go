//go:build verif

package isaacdatabase

// Shared fixture of the C19 / C20 / C26 checks (the same file is copied into
// harness/c19, harness/c20 and harness/c26; every property is built on its own,
// so the copies never meet in one build).
//
// It builds small blocks - block map over a real isaac.Manifest, ordinary
// states, the suffrage state (+ suffrage proof) and the network-policy state,
// known operations and in-state operations - and drives them through the real
// LeveldbBlockWrite -> TempLeveldb -> Center.MergeBlockWriteDatabase ->
// mergePermanent -> LeveldbPermanent path on one in-memory goleveldb storage.
//
// Content of a block is a function of its id "h<height>:<kind>:s<suffrage
// height>:w<number of earlier writes of this height in the history>" only, so
// histories are deterministic; signatures/ULIDs are random *data* (never used
// for control flow or case ids).
//
// Block kinds:
//   G  genesis: suffrage state (suffrage height 0) + proof, network policy, state A, one known operation
//   S  state A and state B updated (each with one in-state operation)
//   F  suffrage change: suffrage state with suffrage height +1 + proof, state B updated
//   P  network policy changed
//   O  two known operations, no state
//
// The real isaacblock.SuffrageProof / isaacblock.BlockMap cannot be imported
// from inside package isaacdatabase (isaac/block's test helpers import
// isaac/database: import cycle), so the proof is vfProof (same accessors as the
// real one: SuffrageHeight() from the suffrage state value, Map() of the block
// that changed the suffrage) and the block map is base.DummyBlockMap over a real
// isaac.Manifest. The database code only uses Manifest().Height()/Hash()/
// Suffrage(), proof.SuffrageHeight()/State()/Map() and the encoder.

import (
	"bytes"
	"context"
	"crypto/sha256"
	"encoding/hex"
	"encoding/json"
	"fmt"
	"runtime"
	"sort"
	"strings"
	"time"

	"github.com/spikeekips/mitum/base"
	"github.com/spikeekips/mitum/isaac"
	leveldbstorage "github.com/spikeekips/mitum/storage/leveldb"
	"github.com/spikeekips/mitum/util"
	"github.com/spikeekips/mitum/util/encoder"
	jsonenc "github.com/spikeekips/mitum/util/encoder/json"
	"github.com/spikeekips/mitum/util/fixedtree"
	"github.com/spikeekips/mitum/util/hint"
	"github.com/spikeekips/mitum/util/valuehash"
	leveldbopt "github.com/syndtr/goleveldb/leveldb/opt"
	goleveldbstorage "github.com/syndtr/goleveldb/leveldb/storage"
	leveldbutil "github.com/syndtr/goleveldb/leveldb/util"
)

// ---------------------------------------------------------------- proof type

var vfProofHint = hint.MustNewHint("vf-suffrage-proof-v0.0.1")

type vfProof struct {
	hint.BaseHinter
	m  base.BlockMap
	st base.State
}

func vfNewProof(m base.BlockMap, st base.State) vfProof {
	return vfProof{BaseHinter: hint.NewBaseHinter(vfProofHint), m: m, st: st}
}

func (p vfProof) IsValid([]byte) error                 { return nil }
func (p vfProof) Map() base.BlockMap                   { return p.m }
func (p vfProof) State() base.State                    { return p.st }
func (p vfProof) Proof() fixedtree.Proof               { return fixedtree.Proof{} }
func (p vfProof) Suffrage() (base.Suffrage, error)     { return isaac.NewSuffrageFromState(p.st) }
func (p vfProof) Prove(previousState base.State) error { return nil }

func (p vfProof) SuffrageHeight() base.Height {
	i, err := base.LoadSuffrageNodesStateValue(p.st)
	if err != nil {
		return base.NilHeight
	}

	return i.Height()
}

type vfProofMarshaler struct {
	hint.BaseHinter
	M  base.BlockMap `json:"map"`
	ST base.State    `json:"state"`
}

func (p vfProof) MarshalJSON() ([]byte, error) {
	return util.MarshalJSON(vfProofMarshaler{BaseHinter: p.BaseHinter, M: p.m, ST: p.st})
}

func (p *vfProof) DecodeJSON(b []byte, enc encoder.Encoder) error {
	var u struct {
		M  json.RawMessage `json:"map"`
		ST json.RawMessage `json:"state"`
	}

	if err := enc.Unmarshal(b, &u); err != nil {
		return err
	}

	if err := encoder.Decode(enc, u.M, &p.m); err != nil {
		return err
	}

	return encoder.Decode(enc, u.ST, &p.st)
}

// ---------------------------------------------------------------- environment

const (
	vfKeyA = "vf-state-A"
	vfKeyB = "vf-state-B"
)

type vfBlock struct {
	id     string
	height base.Height
	kind   byte
	sufh   int // suffrage height in effect after this block
	nth    int // number of earlier writes of this height in the history

	mp     base.BlockMap
	mpmeta []byte
	mpbody []byte

	states  []base.State
	stbody  map[string][]byte
	known   []util.Hash // known operations (operation hashes)
	instate []util.Hash // in-state operations (fact hashes)

	proof     base.SuffrageProof
	proofmeta []byte
	proofbody []byte
	policy    base.NetworkPolicy
}

func (b *vfBlock) state(key string) base.State {
	for i := range b.states {
		if b.states[i].Key() == key {
			return b.states[i]
		}
	}

	return nil
}

type vfEnv struct {
	enc    encoder.Encoder
	encs   *encoder.Encoders
	nid    base.NetworkID
	priv   base.Privatekey
	local  base.Address
	nodes  []base.Node
	blocks map[string]*vfBlock

	// names of everything ever built: object identity -> readable name
	names map[string]string
	sts   map[string]base.State // state hash -> state (for deep comparison)
}

func vfFixed(s string) util.Hash { return valuehash.NewSHA256([]byte("vf-" + s)) }

func vfMust(err error) {
	if err != nil {
		panic(fmt.Sprintf("harness: %+v", err))
	}
}

func vfNewEnv() *vfEnv {
	env := &vfEnv{blocks: map[string]*vfBlock{}, names: map[string]string{}, sts: map[string]base.State{}}
	env.enc = jsonenc.NewEncoder()
	env.encs = encoder.NewEncoders(env.enc, env.enc)

	vfMust(env.encs.AddHinter(base.DummyBlockMap{}))

	for _, d := range []encoder.DecodeDetail{
		{Hint: base.MPublickeyHint, Instance: &base.MPublickey{}},
		{Hint: base.StringAddressHint, Instance: base.StringAddress{}},
		{Hint: isaac.NodeHint, Instance: base.BaseNode{}},
		{Hint: isaac.ManifestHint, Instance: isaac.Manifest{}},
		{Hint: base.DummyStateValueHint, Instance: base.DummyStateValue{}},
		{Hint: base.BaseStateHint, Instance: base.BaseState{}},
		{Hint: isaac.SuffrageNodeStateValueHint, Instance: isaac.SuffrageNodeStateValue{}},
		{Hint: isaac.SuffrageNodesStateValueHint, Instance: isaac.SuffrageNodesStateValue{}},
		{Hint: isaac.NetworkPolicyStateValueHint, Instance: isaac.NetworkPolicyStateValue{}},
		{Hint: isaac.NetworkPolicyHint, Instance: isaac.NetworkPolicy{}},
		{Hint: isaac.FixedSuffrageCandidateLimiterRuleHint, Instance: isaac.FixedSuffrageCandidateLimiterRule{}},
		{Hint: vfProofHint, Instance: vfProof{}},
		// pool objects (C20)
		{Hint: isaac.DummyOperationFactHint, Instance: isaac.DummyOperationFact{}},
		{Hint: isaac.DummyOperationHint, Instance: isaac.DummyOperation{}},
		{Hint: isaac.INITBallotFactHint, Instance: isaac.INITBallotFact{}},
		{Hint: isaac.INITBallotSignFactHint, Instance: isaac.INITBallotSignFact{}},
		{Hint: isaac.INITBallotHint, Instance: isaac.INITBallot{}},
		{Hint: isaac.ProposalFactHint, Instance: isaac.ProposalFact{}},
		{Hint: isaac.ProposalSignFactHint, Instance: isaac.ProposalSignFact{}},
		{Hint: isaac.SuffrageExpelFactHint, Instance: isaac.SuffrageExpelFact{}},
		{Hint: isaac.SuffrageExpelOperationHint, Instance: isaac.SuffrageExpelOperation{}},
	} {
		vfMust(env.encs.AddDetail(d))
	}

	env.nid = base.NetworkID("vf-network")
	env.local = base.NewStringAddress("vf-local")

	priv, err := base.NewMPrivatekeyFromSeed("vf-fixed-seed-for-the-local-node-key-0123456789")
	vfMust(err)

	env.priv = priv

	for i := 0; i < 4; i++ {
		p, err := base.NewMPrivatekeyFromSeed(fmt.Sprintf("vf-fixed-seed-for-suffrage-node-%d-0123456789abcdef", i))
		vfMust(err)

		env.nodes = append(env.nodes, isaac.NewNode(p.Publickey(), base.NewStringAddress(fmt.Sprintf("vf-node-%d", i))))
	}

	env.names[""] = "<nil>"

	return env
}

func (env *vfEnv) marshal(v interface{}) []byte {
	b, err := env.enc.Marshal(v)
	vfMust(err)

	return b
}

func (env *vfEnv) name(kind string, identity []byte, name string) {
	k := kind + ":" + string(identity)

	if old, found := env.names[k]; found && old != name {
		panic(fmt.Sprintf("harness: identity collision of %s: %s vs %s", kind, old, name))
	}

	env.names[k] = name
}

func (env *vfEnv) lookup(kind string, identity []byte) string {
	if n, found := env.names[kind+":"+string(identity)]; found {
		return n
	}

	h := sha256.Sum256(identity)

	return fmt.Sprintf("UNKNOWN-%s(len=%d,sha=%s)", kind, len(identity), hex.EncodeToString(h[:4]))
}

func vfBlockID(height, sufh, nth int, kind byte) string {
	return fmt.Sprintf("h%d:%c:s%d:w%d", height, kind, sufh, nth)
}

// block builds (once per process) the block of the given id. sufhBefore is
// the suffrage height in effect before the block (-1: none yet).
func (env *vfEnv) block(height int, kind byte, sufhBefore, nth int) *vfBlock {
	sufh := sufhBefore
	if kind == 'G' || kind == 'F' {
		sufh++
	}

	id := vfBlockID(height, sufh, nth, kind)
	if b, found := env.blocks[id]; found {
		return b
	}

	b := &vfBlock{id: id, height: base.Height(height), kind: kind, sufh: sufh, nth: nth, stbody: map[string][]byte{}}

	newstate := func(key string, v base.StateValue, nops int) base.State {
		ops := make([]util.Hash, nops)
		for i := range ops {
			ops[i] = vfFixed(fmt.Sprintf("instate-op-%s-%s-%d", id, key, i))
			env.name("op", ops[i].Bytes(), fmt.Sprintf("instate(%s,%s,%d)", id, key, i))
		}

		st := base.NewBaseState(b.height, key, v, vfFixed("previous-of-"+id+key), ops)

		b.states = append(b.states, st)
		b.instate = append(b.instate, ops...)
		b.stbody[key] = env.marshal(st)

		n := fmt.Sprintf("%s@%s", key, id)
		env.name("state", st.Hash().Bytes(), n)
		env.name("body", b.stbody[key], "body-of-state("+n+")")
		env.name("meta", st.Hash().Bytes(), "hash-of("+n+")")
		env.sts[st.Hash().String()] = st

		return st
	}

	dummy := func(key string) {
		newstate(key, base.NewDummyStateValue(fmt.Sprintf("value-of-%s-in-%s", key, id)), 1)
	}

	var sufst base.State

	suffrage := func() {
		n := 1 + sufh%3
		sufnodes := make([]base.SuffrageNodeStateValue, n)

		for i := range sufnodes {
			sufnodes[i] = isaac.NewSuffrageNodeStateValue(env.nodes[(sufh+i)%len(env.nodes)], b.height)
		}

		sufst = newstate(isaac.SuffrageStateKey, isaac.NewSuffrageNodesStateValue(base.Height(sufh), sufnodes), 1)
	}

	policy := func() {
		p := isaac.DefaultNetworkPolicy()
		p.SetMaxOperationsInProposal(uint64(10000 + height*1000 + sufh*100 + nth))
		p.SetMaxSuffrageSize(uint64(10 + strings.IndexByte("GSFPO", kind)))

		newstate(isaac.NetworkPolicyStateKey, isaac.NewNetworkPolicyStateValue(p), 1)
		b.policy = p

		env.name("policy", p.HashBytes(), "policy@"+id)
	}

	known := func(n int) {
		for i := 0; i < n; i++ {
			h := vfFixed(fmt.Sprintf("known-op-%s-%d", id, i))
			b.known = append(b.known, h)
			env.name("op", h.Bytes(), fmt.Sprintf("known(%s,%d)", id, i))
		}
	}

	switch kind {
	case 'G':
		suffrage()
		policy()
		dummy(vfKeyA)
		known(1)
	case 'S':
		dummy(vfKeyA)
		dummy(vfKeyB)
	case 'F':
		suffrage()
		dummy(vfKeyB)
	case 'P':
		policy()
	case 'O':
		known(2)
	default:
		panic("harness: unknown block kind")
	}

	var previous util.Hash
	if height > 0 {
		previous = vfFixed("block-before-" + id)
	}

	manifest := isaac.NewManifest(
		b.height,
		previous,
		vfFixed("proposal-"+id),
		vfFixed("operations-tree-"+id),
		vfFixed("states-tree-"+id),
		vfFixed(fmt.Sprintf("suffrage-state-of-suffrage-height-%d-%s", sufh, id)),
		time.Date(2022, 1, 1, 0, 0, height, nth, time.UTC),
	)

	mp := base.NewDummyBlockMapWithSign(manifest, env.local, env.priv)
	b.mp = mp
	b.mpmeta = manifest.Hash().Bytes()
	b.mpbody = env.marshal(mp)

	env.name("map", manifest.Hash().Bytes(), "map@"+id)
	env.name("meta", b.mpmeta, "manifest-hash-of("+id+")")
	env.name("body", b.mpbody, "body-of-map@"+id)

	if sufst != nil {
		proof := vfNewProof(mp, sufst)
		b.proof = proof
		b.proofmeta = manifest.Suffrage().Bytes()
		b.proofbody = env.marshal(proof)

		env.name("proof", sufst.Hash().Bytes(), "proof@"+id)
		env.name("meta", b.proofmeta, "manifest-suffrage-of("+id+")")
		env.name("body", b.proofbody, "body-of-proof@"+id)
	}

	env.blocks[id] = b

	return b
}

// ---------------------------------------------------------------- real database

type vfDB struct {
	env       *vfEnv
	raw       goleveldbstorage.Storage
	st        *leveldbstorage.Storage
	perm      *LeveldbPermanent
	center    *Center
	pool      *TempPool
	cachesize int

	// wbuf > 0: goleveldb write buffer of this handle (default: vfStorageOptions, 64 KiB)
	wbuf int

	// writercache > 0: state cache size of the block writers (default: cachesize); seqstates: the states of a
	// block are set one by one (SetStates of several states uses parallel workers: with a cache smaller than the
	// block the surviving entries would be a matter of scheduling); permbatch > 0: LeveldbPermanent.batchlimit
	// (default 333) lowered so that a small block is merged in several batches
	writercache int
	seqstates   bool
	permbatch   int

	// shared != nil: every block writer gets this one state cache, never purged (what launch's
	// purgeStateCacheFunc hands to the importers of the syncer: one LFU cache behind
	// util.NewPurgeFuncGCache whose purge function says no for every block but the last one)
	shared util.GCache[string, [2]interface{}]
}

func vfStorageOptions() *leveldbopt.Options {
	// NOTE like leveldbstorage.NewMemStorage(), with small buffers: goleveldb
	// allocates the whole write buffer (default 4MiB) per Open and the search
	// opens a fresh database per transition.
	return &leveldbopt.Options{WriteBuffer: 64 * leveldbopt.KiB, BlockCacheCapacity: 64 * leveldbopt.KiB}
}

func (env *vfEnv) newDB(cachesize int) *vfDB {
	db := &vfDB{env: env, raw: goleveldbstorage.NewMemStorage(), cachesize: cachesize}
	db.open()

	return db
}

func (db *vfDB) open() {
	opts := vfStorageOptions()
	if db.wbuf > 0 {
		opts.WriteBuffer = db.wbuf
	}

	st, err := leveldbstorage.NewStorage(db.raw, opts)
	vfMust(err)

	db.st = st

	perm, err := NewLeveldbPermanent(st, db.env.encs, db.env.enc, db.cachesize)
	vfMust(err)

	db.perm = perm

	if db.permbatch > 0 {
		perm.batchlimit = db.permbatch
	}

	center, err := NewCenter(st, db.env.encs, db.env.enc, perm, func(height base.Height) (isaac.BlockWriteDatabase, error) {
		return NewLeveldbBlockWrite(height, st, db.env.encs, db.env.enc), nil
	})
	vfMust(err)

	db.center = center

	pool, err := NewTempPool(st, db.env.encs, db.env.enc, db.cachesize)
	vfMust(err)

	db.pool = pool
}

// vfStragglers counts the goroutines, other than the calling one, that are
// executing mitum code (job goroutines of util.BaseJobWorker that a returned
// call left behind: Center.dig cancels its other lookups when one temp answers
// and does not wait for them; a finished job still releases its semaphore).
var vfStackBuf = make([]byte, 1<<20)

func vfStragglers() int {
	buf := vfStackBuf[:runtime.Stack(vfStackBuf, true)]

	n := 0

	for i, g := range strings.Split(string(buf), "\n\n") {
		if i == 0 { // the caller
			continue
		}

		if strings.Contains(g, "github.com/spikeekips/mitum/") {
			n++
		}
	}

	return n
}

// vfSettle waits until no goroutine is left inside mitum code. A lookup can
// still be inside goleveldb after the Center call returned; closing goleveldb
// under it crashes inside goleveldb, so a quiescent point is a point where those
// have finished.
func vfSettle() {
	for i := 0; vfStragglers() > 0; i++ {
		if i > 20000 {
			panic("harness: goroutines inside mitum code do not end")
		}

		if i < 50 {
			runtime.Gosched()

			continue
		}

		time.Sleep(100 * time.Microsecond)
	}
}

func (db *vfDB) quiesce() { vfSettle() }

// close closes everything the way a node shutdown does (Center.Close does not
// close the temps by design) and finally the goleveldb handle.
func (db *vfDB) close() {
	if db.st == nil {
		return
	}

	db.quiesce()

	vfMust(db.center.Close())
	vfMust(db.pool.Close())
	vfMust(db.perm.Close())
	vfMust(db.st.Close())

	db.st, db.perm, db.center, db.pool = nil, nil, nil, nil
}

// closeNow closes without waiting for stray goroutines (engine S: every goroutine of an execution has ended).
func (db *vfDB) closeNow() {
	if db.st == nil {
		return
	}

	vfMust(db.center.Close())
	vfMust(db.pool.Close())
	vfMust(db.perm.Close())
	vfMust(db.st.Close())

	db.st, db.perm, db.center, db.pool = nil, nil, nil, nil
}

func (db *vfDB) reopen() {
	db.close()
	db.open()
}

// newWriter fills a block write database of the Center with the block.
func (db *vfDB) newWriter(b *vfBlock) isaac.BlockWriteDatabase {
	wst, err := db.center.NewBlockWriteDatabase(b.height)
	vfMust(err)

	if db.shared != nil {
		wst.(isaac.StateCacheSetter).SetStateCache( //nolint:forcetypeassert //...
			util.NewPurgeFuncGCache(db.shared, func() bool { return false }))

		vfFillWriter(wst, b, 0)

		return wst
	}

	size := db.cachesize
	if db.writercache > 0 {
		size = db.writercache
	}

	vfFillWriterSeq(wst, b, size, db.seqstates)

	return wst
}

func vfFillWriter(wst isaac.BlockWriteDatabase, b *vfBlock, cachesize int) {
	vfFillWriterSeq(wst, b, cachesize, false)
}

func vfFillWriterSeq(wst isaac.BlockWriteDatabase, b *vfBlock, cachesize int, seqstates bool) {
	if cachesize > 0 {
		wst.(isaac.StateCacheSetter).SetStateCache( //nolint:forcetypeassert //...
			util.NewLFUGCache[string, [2]interface{}](cachesize))
	}

	vfMust(wst.SetBlockMap(b.mp))

	switch {
	case seqstates:
		for i := range b.states {
			vfMust(wst.SetStates(b.states[i : i+1]))
		}
	default:
		vfMust(wst.SetStates(b.states))
	}

	vfMust(wst.SetOperations(b.known))

	if b.proof != nil {
		vfMust(wst.SetSuffrageProof(b.proof))
	}

	vfMust(wst.Write())
}

// tempPrefixes is the exact content of the block-write area of the storage:
// one entry per prefix storage "<height>/<block id of its block map>/<merged mark>".
func (db *vfDB) tempPrefixes() []string {
	type ent struct {
		height base.Height
		name   string
		merged bool
		keys   int
	}

	var prefixes []string

	ents := map[string]*ent{}

	vfMust(db.st.Iter(leveldbutil.BytesPrefix(leveldbLabelBlockWrite[:]), func(key, value []byte) (bool, error) {
		p, err := prefixStoragePrefixFromKey(key)
		if err != nil {
			return false, err
		}

		e, found := ents[string(p)]
		if !found {
			h, err := heightFromKey(p, leveldbLabelBlockWrite)
			if err != nil {
				return false, err
			}

			e = &ent{height: h, name: "?"}
			ents[string(p)] = e
			prefixes = append(prefixes, string(p))
		}

		e.keys++

		rest := key[len(p):]

		switch {
		case bytes.HasPrefix(rest, leveldbKeyTempMerged[:]):
			e.merged = true
		case bytes.HasPrefix(rest, leveldbKeyPrefixBlockMap[:]):
			_, meta, _, err := ReadOneHeaderFrame(value)
			if err != nil {
				return false, err
			}

			e.name = db.env.lookup("map", meta)
		}

		return true, nil
	}, true))

	out := make([]string, len(prefixes))
	for i := range prefixes {
		e := ents[prefixes[i]]
		out[i] = fmt.Sprintf("%d/%s/%v/%d", e.height, e.name, e.merged, e.keys)
	}

	sort.Strings(out)

	return out
}

func (db *vfDB) permCacheDigest() string {
	if db.perm.stcache == nil {
		return "-"
	}

	var l []string

	db.perm.stcache.Traverse(func(k string, st base.State) bool {
		l = append(l, db.env.lookup("state", st.Hash().Bytes()))

		return true
	})

	sort.Strings(l)

	return strings.Join(l, ",")
}

// ---------------------------------------------------------------- reads

// vfReadable is what Center and the permanent databases have in common.
type vfReadable interface {
	BlockMap(base.Height) (base.BlockMap, bool, error)
	BlockMapBytes(base.Height) (string, []byte, []byte, bool, error)
	LastBlockMap() (base.BlockMap, bool, error)
	LastBlockMapBytes() (string, []byte, []byte, bool, error)
	LastSuffrageProof() (base.SuffrageProof, bool, error)
	SuffrageProof(base.Height) (base.SuffrageProof, bool, error)
	SuffrageProofBytes(base.Height) (string, []byte, []byte, bool, error)
	SuffrageProofByBlockHeight(base.Height) (base.SuffrageProof, bool, error)
	LastNetworkPolicy() base.NetworkPolicy
	State(string) (base.State, bool, error)
	StateBytes(string) (string, []byte, []byte, bool, error)
	ExistsInStateOperation(util.Hash) (bool, error)
	ExistsKnownOperation(util.Hash) (bool, error)
}

type vfDomain struct {
	heights    []base.Height
	sufheights []base.Height
	keys       []string
	ops        []util.Hash
}

// domain is the full query domain of a history: every block height up to one
// above the bound, every suffrage height up to one above the possible maximum,
// every state key, every operation / fact hash of every block that was ever
// written in the history (committed, removed or abandoned) and an unknown one.
func (env *vfEnv) domain(maxheight int, ever []*vfBlock) *vfDomain {
	d := &vfDomain{keys: []string{vfKeyA, vfKeyB, isaac.SuffrageStateKey, isaac.NetworkPolicyStateKey, "vf-state-missing"}}

	for h := 0; h <= maxheight+1; h++ {
		d.heights = append(d.heights, base.Height(h))
		d.sufheights = append(d.sufheights, base.Height(h))
	}

	seen := map[string]bool{}

	for _, b := range ever {
		for _, l := range [][]util.Hash{b.known, b.instate} {
			for _, h := range l {
				if !seen[h.String()] {
					seen[h.String()] = true
					d.ops = append(d.ops, h)
				}
			}
		}
	}

	unknown := vfFixed("never-used-operation")
	env.name("op", unknown.Bytes(), "never-used")
	d.ops = append(d.ops, unknown)

	return d
}

type vfAnswers map[string]string

const vfNotFound = "not-found"

func vfErr(err error) string {
	s := err.Error()
	if i := strings.IndexByte(s, '\n'); i > 0 {
		s = s[:i]
	}

	return "error(" + s + ")"
}

func (env *vfEnv) mapName(m base.BlockMap) string {
	if m == nil || m.Manifest() == nil {
		return "<nil-map>"
	}

	return env.lookup("map", m.Manifest().Hash().Bytes())
}

func (env *vfEnv) stateName(st base.State) string {
	if st == nil {
		return "<nil-state>"
	}

	n := env.lookup("state", st.Hash().Bytes())

	if orig, found := env.sts[st.Hash().String()]; found && !base.IsEqualState(orig, st) {
		return "CORRUPT-" + n
	}

	return n
}

func (env *vfEnv) proofName(p base.SuffrageProof) string {
	if p == nil || p.State() == nil {
		return "<nil-proof>"
	}

	n := env.lookup("proof", p.State().Hash().Bytes())

	if p.Map() == nil || "proof@"+strings.TrimPrefix(env.mapName(p.Map()), "map@") != n {
		return "CORRUPT-" + n
	}

	return n
}

func (env *vfEnv) putBytes(a vfAnswers, q, enchint string, meta, body []byte, found bool, err error) {
	switch {
	case err != nil:
		a[q+".found"] = vfErr(err)
	case !found:
		a[q+".found"] = vfNotFound
	default:
		a[q+".found"] = "found"
		a[q+".enchint"] = enchint
		a[q+".meta"] = env.lookup("meta", meta)
		a[q+".body"] = env.lookup("body", body)
	}
}

func (env *vfEnv) putExpectedBytes(a vfAnswers, q string, meta, body []byte, found bool) {
	if !found {
		a[q+".found"] = vfNotFound

		return
	}

	a[q+".found"] = "found"
	a[q+".enchint"] = env.enc.Hint().String()
	a[q+".meta"] = env.lookup("meta", meta)
	a[q+".body"] = env.lookup("body", body)
}

// readAll asks db everything. Keys of the result are "<Method>(<argument>)",
// *Bytes reads have one entry per returned part.
func (env *vfEnv) readAll(db vfReadable, d *vfDomain) vfAnswers {
	a := vfAnswers{}

	obj := func(q, name string, found bool, err error) {
		switch {
		case err != nil:
			a[q] = vfErr(err)
		case !found:
			a[q] = vfNotFound
		default:
			a[q] = name
		}
	}

	{
		m, found, err := db.LastBlockMap()
		obj("LastBlockMap()", env.mapName(m), found, err)

		enchint, meta, body, found, err := db.LastBlockMapBytes()
		env.putBytes(a, "LastBlockMapBytes()", enchint, meta, body, found, err)
	}

	for _, h := range d.heights {
		m, found, err := db.BlockMap(h)
		obj(fmt.Sprintf("BlockMap(%d)", h), env.mapName(m), found, err)

		enchint, meta, body, found, err := db.BlockMapBytes(h)
		env.putBytes(a, fmt.Sprintf("BlockMapBytes(%d)", h), enchint, meta, body, found, err)

		p, found, err := db.SuffrageProofByBlockHeight(h)
		obj(fmt.Sprintf("SuffrageProofByBlockHeight(%d)", h), env.proofName(p), found, err)
	}

	{
		p, found, err := db.LastSuffrageProof()
		obj("LastSuffrageProof()", env.proofName(p), found, err)

		switch t := db.(type) {
		case interface {
			LastSuffrageProofBytes() (string, []byte, []byte, bool, base.Height, error)
		}:
			enchint, meta, body, found, lastheight, err := t.LastSuffrageProofBytes()
			env.putBytes(a, "LastSuffrageProofBytes()", enchint, meta, body, found, err)

			if err == nil && found {
				a["LastSuffrageProofBytes().lastheight"] = fmt.Sprintf("%d", lastheight)
			}
		case interface {
			LastSuffrageProofBytes() (string, []byte, []byte, bool, error)
		}:
			enchint, meta, body, found, err := t.LastSuffrageProofBytes()
			env.putBytes(a, "LastSuffrageProofBytes()", enchint, meta, body, found, err)
		default:
			panic("harness: no LastSuffrageProofBytes")
		}
	}

	for _, h := range d.sufheights {
		p, found, err := db.SuffrageProof(h)
		obj(fmt.Sprintf("SuffrageProof(%d)", h), env.proofName(p), found, err)

		enchint, meta, body, found, err := db.SuffrageProofBytes(h)
		env.putBytes(a, fmt.Sprintf("SuffrageProofBytes(%d)", h), enchint, meta, body, found, err)
	}

	switch p := db.LastNetworkPolicy(); {
	case p == nil:
		a["LastNetworkPolicy()"] = vfNotFound
	default:
		a["LastNetworkPolicy()"] = env.lookup("policy", p.HashBytes())
	}

	for _, k := range d.keys {
		st, found, err := db.State(k)
		obj(fmt.Sprintf("State(%s)", k), env.stateName(st), found, err)

		enchint, meta, body, found, err := db.StateBytes(k)
		env.putBytes(a, fmt.Sprintf("StateBytes(%s)", k), enchint, meta, body, found, err)
	}

	for _, h := range d.ops {
		n := env.lookup("op", h.Bytes())

		found, err := db.ExistsInStateOperation(h)
		obj(fmt.Sprintf("ExistsInStateOperation(%s)", n), "exists", found, err)

		found, err = db.ExistsKnownOperation(h)
		obj(fmt.Sprintf("ExistsKnownOperation(%s)", n), "exists", found, err)
	}

	return a
}

// vfMethod is the method name of an answer key ("BlockMapBytes(3).body" -> "BlockMapBytes").
func vfMethod(q string) string {
	if i := strings.IndexByte(q, '('); i > 0 {
		return q[:i]
	}

	return q
}

// vfPart is the returned part of an answer key ("BlockMapBytes(3).body" -> "body"; objects: "object").
func vfPart(q string) string {
	if i := strings.LastIndex(q, ")."); i > 0 {
		return q[i+2:]
	}

	return "object"
}

func vfSortedKeys(a, b vfAnswers) []string {
	seen := map[string]bool{}

	var keys []string

	for _, m := range []vfAnswers{a, b} {
		for k := range m {
			if !seen[k] {
				seen[k] = true
				keys = append(keys, k)
			}
		}
	}

	sort.Strings(keys)

	return keys
}

func vfShow(s string, found bool) string {
	if !found {
		return "<no such part>"
	}

	return s
}

// ---------------------------------------------------------------- the model

// vfModel "simply keeps all committed blocks" (+ how many of them were already
// merged into the permanent database, which only RemoveBlocks may depend on).
type vfModel struct {
	blocks []*vfBlock
	merged int
}

func (m *vfModel) top() int { return len(m.blocks) - 1 }

func (m *vfModel) sufh() int {
	if len(m.blocks) < 1 {
		return -1
	}

	return m.blocks[len(m.blocks)-1].sufh
}

func (m *vfModel) ids() string {
	l := make([]string, len(m.blocks))
	for i := range m.blocks {
		l[i] = m.blocks[i].id
	}

	return strings.Join(l, ",")
}

// expected answers, from the property statement only.
func (env *vfEnv) expect(m *vfModel, d *vfDomain, withLastHeight bool) vfAnswers {
	a := vfAnswers{}

	var lastproof *vfBlock // latest block with a proof

	for _, b := range m.blocks {
		if b.proof != nil {
			lastproof = b
		}
	}

	switch {
	case len(m.blocks) < 1:
		a["LastBlockMap()"] = vfNotFound
		env.putExpectedBytes(a, "LastBlockMapBytes()", nil, nil, false)
	default:
		last := m.blocks[m.top()]
		a["LastBlockMap()"] = "map@" + last.id
		env.putExpectedBytes(a, "LastBlockMapBytes()", last.mpmeta, last.mpbody, true)
	}

	for _, h := range d.heights {
		switch {
		case int(h) > m.top():
			a[fmt.Sprintf("BlockMap(%d)", h)] = vfNotFound
			env.putExpectedBytes(a, fmt.Sprintf("BlockMapBytes(%d)", h), nil, nil, false)
			a[fmt.Sprintf("SuffrageProofByBlockHeight(%d)", h)] = vfNotFound
		default:
			b := m.blocks[h]
			a[fmt.Sprintf("BlockMap(%d)", h)] = "map@" + b.id
			env.putExpectedBytes(a, fmt.Sprintf("BlockMapBytes(%d)", h), b.mpmeta, b.mpbody, true)

			// the suffrage in effect at block h: the latest proof at or below h
			var p *vfBlock

			for _, c := range m.blocks[:h+1] {
				if c.proof != nil {
					p = c
				}
			}

			switch {
			case p == nil:
				a[fmt.Sprintf("SuffrageProofByBlockHeight(%d)", h)] = vfNotFound
			default:
				a[fmt.Sprintf("SuffrageProofByBlockHeight(%d)", h)] = "proof@" + p.id
			}
		}
	}

	switch {
	case lastproof == nil:
		a["LastSuffrageProof()"] = vfNotFound
		env.putExpectedBytes(a, "LastSuffrageProofBytes()", nil, nil, false)
	default:
		a["LastSuffrageProof()"] = "proof@" + lastproof.id
		env.putExpectedBytes(a, "LastSuffrageProofBytes()", lastproof.proofmeta, lastproof.proofbody, true)

		if withLastHeight {
			a["LastSuffrageProofBytes().lastheight"] = fmt.Sprintf("%d", m.top())
		}
	}

	for _, sh := range d.sufheights {
		var p *vfBlock

		for _, c := range m.blocks {
			if c.proof != nil && c.sufh == int(sh) {
				p = c
			}
		}

		switch {
		case p == nil:
			a[fmt.Sprintf("SuffrageProof(%d)", sh)] = vfNotFound
			env.putExpectedBytes(a, fmt.Sprintf("SuffrageProofBytes(%d)", sh), nil, nil, false)
		default:
			a[fmt.Sprintf("SuffrageProof(%d)", sh)] = "proof@" + p.id
			env.putExpectedBytes(a, fmt.Sprintf("SuffrageProofBytes(%d)", sh), p.proofmeta, p.proofbody, true)
		}
	}

	a["LastNetworkPolicy()"] = vfNotFound

	for _, b := range m.blocks {
		if b.policy != nil {
			a["LastNetworkPolicy()"] = "policy@" + b.id
		}
	}

	for _, k := range d.keys {
		var in *vfBlock

		for _, b := range m.blocks {
			if b.state(k) != nil {
				in = b
			}
		}

		switch {
		case in == nil:
			a[fmt.Sprintf("State(%s)", k)] = vfNotFound
			env.putExpectedBytes(a, fmt.Sprintf("StateBytes(%s)", k), nil, nil, false)
		default:
			a[fmt.Sprintf("State(%s)", k)] = fmt.Sprintf("%s@%s", k, in.id)
			env.putExpectedBytes(a, fmt.Sprintf("StateBytes(%s)", k), in.state(k).Hash().Bytes(), in.stbody[k], true)
		}
	}

	instate, known := map[string]bool{}, map[string]bool{}

	for _, b := range m.blocks {
		for _, h := range b.instate {
			instate[h.String()] = true
		}

		for _, h := range b.known {
			known[h.String()] = true
		}
	}

	yes := func(b bool) string {
		if b {
			return "exists"
		}

		return vfNotFound
	}

	for _, h := range d.ops {
		n := env.lookup("op", h.Bytes())
		a[fmt.Sprintf("ExistsInStateOperation(%s)", n)] = yes(instate[h.String()])
		a[fmt.Sprintf("ExistsKnownOperation(%s)", n)] = yes(known[h.String()])
	}

	return a
}

// ---------------------------------------------------------------- violation classes

// vfWhere says where the queried thing lives, relative to the temps / the permanent database.
func vfWhere(m *vfModel, q string) string {
	var n int

	switch method := vfMethod(q); method {
	case "BlockMap", "BlockMapBytes", "SuffrageProofByBlockHeight":
		if _, err := fmt.Sscanf(q[len(method):], "(%d)", &n); err != nil {
			return "-"
		}

		switch {
		case n > m.top():
			return "height-above-last-block"
		case n >= m.merged:
			return "height-in-temps"
		case m.merged < len(m.blocks):
			return "height-in-permanent-below-temps"
		default:
			return "height-in-permanent-no-temps"
		}
	case "SuffrageProof", "SuffrageProofBytes":
		if _, err := fmt.Sscanf(q[len(method):], "(%d)", &n); err != nil {
			return "-"
		}

		last := -1

		for i, b := range m.blocks {
			if b.proof != nil {
				last = b.sufh
			}

			if b.proof != nil && b.sufh == n {
				if i >= m.merged {
					return "suffrage-height-in-temps"
				}

				return "suffrage-height-in-permanent"
			}
		}

		if n > last {
			return "suffrage-height-above-last"
		}

		return "suffrage-height-unknown"
	case "LastSuffrageProofBytes", "LastSuffrageProof":
		// is the last proof in the newest temp?
		for i := len(m.blocks) - 1; i >= 0; i-- {
			if m.blocks[i].proof == nil {
				continue
			}

			switch {
			case i == m.top() && i >= m.merged:
				return "proof-in-newest-temp"
			case i >= m.merged:
				return "proof-in-older-temp"
			case m.merged < len(m.blocks):
				return "proof-in-permanent-below-temps"
			default:
				return "proof-in-permanent-no-temps"
			}
		}

		return "no-proof"
	}

	return "-"
}

// vfBlockOf is the block id inside a name of the fixture ("vf-state-A@h1:S:s0:w0" -> "h1:S:s0:w0";
// "body-of-state(vf-state-A@h1:S:s0:w0)" -> the same), "" when there is none.
func vfBlockOf(name string) string {
	i := strings.IndexByte(name, '@')
	if i < 0 {
		if j := strings.Index(name, "-of(h"); j >= 0 { // hash-of(...), manifest-hash-of(<id>)
			return strings.TrimSuffix(name[j+4:], ")")
		}

		return ""
	}

	return strings.TrimRight(name[i+1:], ")")
}

// vfClass is the structural class of a wrong answer.
func vfClass(m *vfModel, got string, gotok bool, want string, wantok bool) string {
	switch {
	case strings.HasPrefix(got, "error("):
		return "error"
	case !gotok:
		return "part-missing"
	case !wantok:
		return "part-unexpected"
	case got == vfNotFound:
		return "committed-but-not-found"
	case strings.HasPrefix(got, "UNKNOWN"), strings.HasPrefix(got, "CORRUPT"):
		return "unknown-value"
	}

	if id := vfBlockOf(got); id != "" {
		committed := false

		for _, b := range m.blocks {
			committed = committed || b.id == id
		}

		if !committed {
			return "value-of-uncommitted-block" // a removed or abandoned block
		}
	}

	if want == vfNotFound {
		return "found-but-not-committed"
	}

	return "value-of-other-committed-block"
}

// ---------------------------------------------------------------- events: pure side

// Event alphabet (C19; C20 adds X and the pool writes):
//   WS WF WP WO  write the next block of that kind through NewBlockWriteDatabase/.../Write and commit it
//                with Center.MergeBlockWriteDatabase (WG: the genesis block, the only write on an empty chain)
//   U            write the next block completely (Write()), then Cancel() it instead of committing (abandoned block write)
//   m            Center.mergePermanent (one step of the ticker loop body)
//   M            Center.MergeAllPermanent
//   R<h>         Center.RemoveBlocks(h)
//   c            Center.cleanRemoved(0) (the ticker uses limit 3; 0 makes the cleanup reachable in short histories)
//   X            close everything and reopen on the same goleveldb storage (C20)
//   o p b e      pool writes: SetOperation, SetProposal, SetBallot, SetSuffrageExpelOperation (C20)

type vfPrefix struct {
	id     string
	height int
	merged bool
}

// vfPure is the pure (cloneable) side of a history: the model of the property
// (committed blocks) plus a prediction of the hidden state of the real objects
// that the state key needs (which temps are waiting for cleanup, what is in
// the block-write area of the storage, what the permanent state cache holds).
// The prediction is compared with the real objects after every executed
// transition; it is bookkeeping for state merging, not part of the oracle.
type vfPure struct {
	m         vfModel
	pending   []string          // Center.removed, oldest first (block ids)
	store     []vfPrefix        // prefix storages in the block-write area
	writes    map[int]int       // height -> number of block writes so far
	cache     map[string]string // predicted permanent state cache: key -> state name
	ever      []*vfBlock
	pool      map[string]bool
	cachesize int
	maxblocks int
	withPool  bool
	withX     bool
}

func vfNewPure(cachesize, maxblocks int) *vfPure {
	return &vfPure{writes: map[int]int{}, cache: map[string]string{}, pool: map[string]bool{}, cachesize: cachesize, maxblocks: maxblocks}
}

func (p *vfPure) clone() *vfPure {
	n := *p
	n.m.blocks = append([]*vfBlock(nil), p.m.blocks...)
	n.pending = append([]string(nil), p.pending...)
	n.store = append([]vfPrefix(nil), p.store...)
	n.ever = append([]*vfBlock(nil), p.ever...)
	n.writes = map[int]int{}
	n.cache = map[string]string{}
	n.pool = map[string]bool{}

	for k, v := range p.writes {
		n.writes[k] = v
	}

	for k, v := range p.cache {
		n.cache[k] = v
	}

	for k, v := range p.pool {
		n.pool[k] = v
	}

	return &n
}

func (p *vfPure) temps() int { return len(p.m.blocks) - p.m.merged }

var vfPoolEvents = []string{"o", "p", "b", "e"}

func (p *vfPure) enabled() []string {
	var evs []string

	if len(p.m.blocks) < p.maxblocks {
		switch {
		case len(p.m.blocks) < 1:
			evs = append(evs, "WG")
		default:
			evs = append(evs, "WS", "WF", "WP", "WO")
		}

		evs = append(evs, "U")
	}

	evs = append(evs, "m", "M")

	lo := p.m.merged - 1
	if lo < 0 {
		lo = 0
	}

	for h := lo; h <= p.m.top()+1; h++ {
		evs = append(evs, fmt.Sprintf("R%d", h))
	}

	evs = append(evs, "c")

	if p.withX {
		evs = append(evs, "X")
	}

	if p.withPool {
		for _, e := range vfPoolEvents {
			if !p.pool[e] {
				evs = append(evs, e)
			}
		}
	}

	return evs
}

func (p *vfPure) dropStore(f func(vfPrefix) bool) {
	var n []vfPrefix

	for _, e := range p.store {
		if !f(e) {
			n = append(n, e)
		}
	}

	p.store = n
}

func (p *vfPure) purge(b *vfBlock) {
	for _, st := range b.states {
		delete(p.cache, st.Key())
	}
}

// apply changes the pure side by one event. It returns the block to write (W*,
// U) and the flag the real call has to return (merged / removed).
func (p *vfPure) apply(env *vfEnv, ev string) (blk *vfBlock, flag bool) {
	switch {
	case ev[0] == 'W', ev == "U":
		kind := byte('S')
		if ev[0] == 'W' {
			kind = ev[1]
		}

		h := len(p.m.blocks)
		blk = env.block(h, kind, p.m.sufh(), p.writes[h])
		p.writes[h]++
		p.ever = append(p.ever, blk)

		if ev == "U" {
			p.store = append(p.store, vfPrefix{id: blk.id, height: h})

			return blk, false
		}

		// NOTE TempLeveldb.Merge means to remove every other prefix storage of that height, but it
		// iterates through its own PrefixStorage (which confines the range to its own prefix), so
		// nothing is ever removed there; abandoned writes stay until the next reopen (loadTemp).
		p.store = append(p.store, vfPrefix{id: blk.id, height: h, merged: true})
		p.m.blocks = append(p.m.blocks, blk)

		return blk, true
	case ev == "m", ev == "M":
		for p.temps() >= 2 {
			b := p.m.blocks[p.m.merged]
			p.m.merged++
			p.pending = append(p.pending, b.id)
			p.purge(b)
			flag = true

			if ev == "m" {
				break
			}
		}

		return nil, flag
	case ev[0] == 'R':
		var h int

		if _, err := fmt.Sscanf(ev, "R%d", &h); err != nil {
			panic(err)
		}

		if p.temps() < 1 || h < p.m.merged || h > p.m.top() {
			return nil, false
		}

		gone := map[string]bool{}
		for _, b := range p.m.blocks[h:] {
			gone[b.id] = true
		}

		p.dropStore(func(e vfPrefix) bool { return gone[e.id] })
		p.m.blocks = p.m.blocks[:h]

		return nil, true
	case ev == "c":
		gone := map[string]bool{}
		for _, id := range p.pending {
			gone[id] = true
		}

		p.dropStore(func(e vfPrefix) bool { return gone[e.id] })
		p.pending = nil

		return nil, len(gone) > 0
	case ev == "X":
		// Center.removed is forgotten; loadTemps keeps, from the first height above the permanent
		// database, the merged prefix of each consecutive height, removes the unmerged ones it meets
		// and (when it loaded something) everything above the last loaded height.
		p.pending = nil

		h, loaded := p.m.merged, false

		for ; ; h++ {
			found := false

			for _, e := range p.store {
				if e.height == h && e.merged {
					found = true
				}
			}

			p.dropStore(func(e vfPrefix) bool { return e.height == h && !e.merged })

			if !found {
				break
			}

			loaded = true
		}

		if loaded {
			p.dropStore(func(e vfPrefix) bool { return e.height >= h })
		}

		// NewLeveldbPermanent caches the network policy state
		p.cache = map[string]string{}

		if p.cachesize > 0 {
			for _, b := range p.m.blocks[:p.m.merged] {
				if b.policy != nil {
					p.cache[isaac.NetworkPolicyStateKey] = isaac.NetworkPolicyStateKey + "@" + b.id
				}
			}
		}

		return nil, false
	default:
		for _, e := range vfPoolEvents {
			if ev == e {
				p.pool[e] = true

				return nil, true
			}
		}
	}

	panic("harness: unknown event " + ev)
}

// afterReads predicts what reading every state key does to the permanent state
// cache: Center.State asks the permanent database only when no temp has the key.
func (p *vfPure) afterReads(d *vfDomain) {
	if p.cachesize < 1 {
		return
	}

	for _, k := range d.keys {
		intemp := false

		for _, b := range p.m.blocks[p.m.merged:] {
			if b.state(k) != nil {
				intemp = true
			}
		}

		if intemp {
			continue
		}

		for _, b := range p.m.blocks[:p.m.merged] {
			if b.state(k) != nil {
				p.cache[k] = k + "@" + b.id
			}
		}
	}
}

// hidden is the predicted hidden state in the format of vfDB.hidden.
func (p *vfPure) hidden() string {
	var temps []string
	for i := p.m.top(); i >= p.m.merged; i-- {
		temps = append(temps, p.m.blocks[i].id)
	}

	store := make([]string, len(p.store))
	for i, e := range p.store {
		store[i] = fmt.Sprintf("%d/map@%s/%v", e.height, e.id, e.merged)
	}

	sort.Strings(store)

	cache := "-"

	if p.cachesize > 0 {
		var l []string
		for _, v := range p.cache {
			l = append(l, v)
		}

		sort.Strings(l)
		cache = strings.Join(l, ",")
	}

	var pool []string
	for e := range p.pool {
		pool = append(pool, e)
	}

	sort.Strings(pool)

	return fmt.Sprintf("temps=%v removed=%v store=%v cache=[%s] pool=%v", temps, p.pending, store, cache, pool)
}

// key is the state key. Two histories with the same key have the same
// committed chain (same block ids, so the same content), the same split between
// temps and permanent database, the same temps waiting for cleanup, the same
// prefix storages in the block-write area, the same cached states and pool
// content and the same per-height write counters (which name future blocks):
// that is everything an event or a read depends on, so their futures are equal.
func (p *vfPure) key() string {
	var w []string
	for h, n := range p.writes {
		w = append(w, fmt.Sprintf("%d:%d", h, n))
	}

	sort.Strings(w)

	return fmt.Sprintf("chain=%s merged=%d %s writes=%v", p.m.ids(), p.m.merged, p.hidden(), w)
}

// ---------------------------------------------------------------- events: real side

// apply runs one event on the real objects. For W*/U, blk is the block from
// the pure side. It returns the flag of the call (merged / removed / stored).
func (db *vfDB) apply(ev string, blk *vfBlock) (flag bool, err error) {
	switch {
	case ev[0] == 'W':
		return true, db.center.MergeBlockWriteDatabase(db.newWriter(blk))
	case ev == "U":
		// what BlockImporter.CancelImport / a failed block writer does: everything was written, then Cancel()
		return false, db.newWriter(blk).Cancel()
	case ev == "m":
		return db.center.mergePermanent(context.Background())
	case ev == "M":
		n := len(db.center.activeTemps())

		return n >= 2, db.center.MergeAllPermanent()
	case ev[0] == 'R':
		var h int

		if _, err := fmt.Sscanf(ev, "R%d", &h); err != nil {
			panic(err)
		}

		return db.center.RemoveBlocks(base.Height(h))
	case ev == "c":
		n := len(db.center.removed)

		return n > 0, db.center.cleanRemoved(0)
	case ev == "X":
		db.reopen()

		return false, nil
	case ev == "o":
		return db.pool.SetOperation(context.Background(), db.env.poolOperation())
	case ev == "p":
		return db.pool.SetProposal(db.env.poolProposal())
	case ev == "b":
		return db.pool.SetBallot(db.env.poolBallot())
	case ev == "e":
		return true, db.pool.SetSuffrageExpelOperation(db.env.poolExpel())
	}

	panic("harness: unknown event " + ev)
}

// hidden is the hidden state of the real objects (see vfPure.hidden).
func (db *vfDB) hidden(pool []string) string {
	var temps []string

	for _, t := range db.center.temps {
		m, _, err := t.LastBlockMap()
		if err != nil {
			temps = append(temps, vfErr(err))

			continue
		}

		temps = append(temps, strings.TrimPrefix(db.env.mapName(m), "map@"))
	}

	var removed []string

	for _, t := range db.center.removed {
		m, _, err := t.LastBlockMap()
		if err != nil {
			removed = append(removed, vfErr(err))

			continue
		}

		removed = append(removed, strings.TrimPrefix(db.env.mapName(m), "map@"))
	}

	store := db.tempPrefixes()
	for i := range store {
		store[i] = store[i][:strings.LastIndexByte(store[i], '/')] // without the number of keys
	}

	return fmt.Sprintf("temps=%v removed=%v store=%v cache=[%s] pool=%v", temps, removed, store, db.permCacheDigest(), pool)
}

// ---------------------------------------------------------------- pool objects (C20)

type vfPoolObjects struct {
	op       base.Operation
	proposal base.ProposalSignFact
	ballot   base.Ballot
	expel    base.SuffrageExpelOperation
}

var vfPool *vfPoolObjects

func (env *vfEnv) poolObjects() *vfPoolObjects {
	if vfPool != nil {
		return vfPool
	}

	o := &vfPoolObjects{}

	fact := isaac.NewDummyOperationFact([]byte("vf-token"), vfFixed("operation-fact"))
	op, err := isaac.NewDummyOperation(fact, env.priv, env.nid)
	vfMust(err)

	o.op = op

	point := base.RawPoint(3, 0)

	pfact := isaac.NewProposalFact(point, env.local, vfFixed("previous-block"), [][2]util.Hash{{op.Hash(), fact.Hash()}})
	psf := isaac.NewProposalSignFact(pfact)
	vfMust(psf.Sign(env.priv, env.nid))

	o.proposal = psf

	bfact := isaac.NewINITBallotFact(point, vfFixed("previous-block"), pfact.Hash(), nil)
	bsf := isaac.NewINITBallotSignFact(bfact)
	vfMust(bsf.NodeSign(env.priv, env.nid, env.local))

	o.ballot = isaac.NewINITBallot(nil, bsf, nil)

	efact := isaac.NewSuffrageExpelFact(env.nodes[1].Address(), base.Height(3), base.Height(5), "vf-reason")
	eop := isaac.NewSuffrageExpelOperation(efact)
	vfMust(eop.NodeSign(env.priv, env.nid, env.local))

	o.expel = eop

	vfPool = o

	return o
}

func (env *vfEnv) poolOperation() base.Operation          { return env.poolObjects().op }
func (env *vfEnv) poolProposal() base.ProposalSignFact    { return env.poolObjects().proposal }
func (env *vfEnv) poolBallot() base.Ballot                { return env.poolObjects().ballot }
func (env *vfEnv) poolExpel() base.SuffrageExpelOperation { return env.poolObjects().expel }

// readPool asks the pool for every object the pool events may have stored.
func (env *vfEnv) readPool(pool *TempPool) vfAnswers {
	a := vfAnswers{}
	o := env.poolObjects()
	ctx := context.Background()

	obj := func(q, name string, found bool, err error) {
		switch {
		case err != nil:
			a[q] = vfErr(err)
		case !found:
			a[q] = vfNotFound
		default:
			a[q] = name
		}
	}

	hashName := func(h util.Hash) string {
		if h == nil {
			return "<nil>"
		}

		return h.String()
	}

	{
		op, found, err := pool.Operation(ctx, o.op.Hash())

		n := "<nil>"
		if op != nil {
			n = "operation:" + hashName(op.Hash()) + "/fact:" + hashName(op.Fact().Hash())
		}

		obj("pool.Operation(op)", n, found, err)

		enchint, meta, body, found, err := pool.OperationBytes(ctx, o.op.Hash())
		env.putBytes(a, "pool.OperationBytes(op)", enchint, meta, body, found, err)

		var listed []string

		err = pool.TraverseOperationsBytes(ctx, nil, func(enchint string, meta FrameHeaderPoolOperation, body, _ []byte) (bool, error) {
			listed = append(listed, fmt.Sprintf("%s/%s/%s/%s/%d", enchint, meta.Operation(), meta.Fact(), env.lookup("body", body), meta.AddedAt().UnixNano()))

			return true, nil
		})
		obj("pool.TraverseOperationsBytes()", strings.Join(listed, ","), true, err)
	}

	{
		fact := o.proposal.ProposalFact()

		pr, found, err := pool.Proposal(fact.Hash())

		n := "<nil>"
		if pr != nil {
			n = "proposal:" + hashName(pr.Fact().Hash()) + "/signs:" + fmt.Sprint(len(pr.Signs()))
		}

		obj("pool.Proposal(p)", n, found, err)

		enchint, meta, body, found, err := pool.ProposalBytes(fact.Hash())
		env.putBytes(a, "pool.ProposalBytes(p)", enchint, meta, body, found, err)

		pr, found, err = pool.ProposalByPoint(fact.Point(), fact.Proposer(), fact.PreviousBlock())

		n = "<nil>"
		if pr != nil {
			n = "proposal:" + hashName(pr.Fact().Hash())
		}

		obj("pool.ProposalByPoint(p)", n, found, err)
	}

	{
		point := o.ballot.Point()

		bl, found, err := pool.Ballot(point.Point, point.Stage(), false)

		n := "<nil>"
		if bl != nil {
			n = "ballot:" + hashName(bl.SignFact().Fact().Hash()) + "/" + hex.EncodeToString(bl.SignFact().(base.NodeSignFact).NodeSigns()[0].Signature())[:16] //nolint:forcetypeassert //...
		}

		obj("pool.Ballot(b)", n, found, err)

		_, found, err = pool.Ballot(point.Point, point.Stage(), true)
		obj("pool.Ballot(b,suffrage-confirm)", "found", found, err)
	}

	{
		fact := o.expel.ExpelFact()

		for _, h := range []base.Height{fact.ExpelStart() - 1, fact.ExpelStart(), fact.ExpelEnd(), fact.ExpelEnd() + 1} {
			op, found, err := pool.SuffrageExpelOperation(h, fact.Node())

			n := "<nil>"
			if op != nil {
				n = "expel:" + hashName(op.Hash()) + "/fact:" + hashName(op.Fact().Hash())
			}

			obj(fmt.Sprintf("pool.SuffrageExpelOperation(%d,node)", h), n, found, err)
		}
	}

	return a
}

// poolContent lists which pool events are visible in the pool.
func (env *vfEnv) poolContent(pool *TempPool) []string {
	a := env.readPool(pool)

	var l []string

	for ev, q := range map[string]string{
		"o": "pool.Operation(op)", "p": "pool.Proposal(p)", "b": "pool.Ballot(b)", "e": "pool.SuffrageExpelOperation(3,node)",
	} {
		if a[q] != vfNotFound {
			l = append(l, ev)
		}
	}

	sort.Strings(l)

	return l
}
