//go:build verif

package isaacdatabase

import (
	"context"
	"fmt"
	"strconv"
	"strings"
	"testing"

	"github.com/spikeekips/mitum/isaac"
	"github.com/spikeekips/mitum/util"
	"github.com/spikeekips/mitum/zzverif/crashx"
	"github.com/spikeekips/mitum/zzverif/vlib"
)

// C21, third unit (engine F, native runs): crash while SEVERAL blocks are being
// written at the same time, the way isaacblock.ImportBlocks does during
// syncing, and the startup cleaner has real work to do.
//
// One batch of ImportBlocks is: one BlockImporter per height top+1, top+2, ...,
// each with its own block write database;
//
//	fill    every importer: SetBlockMap (NewBlockImporter), then SetStates / SetOperations (WriteItem)    [mark filled]
//	        the block write database flushes its batch every 128 keys, long before Write()
//	save    every importer: SetSuffrageProof, Write (BlockImporter.Save)                                   [mark saved]
//	merge   Center.MergeBlockWriteDatabase in height order (the deferred functions of Save)               [marks ack-h]
//	        Center.MergeAllPermanent (mergeBlockWriterDatabasesf of launch)                               [mark permanent-all]
//	        Center.cleanRemoved(0) (the Center's ticker)                                                   [mark cleaned-all]
//
// In the real thing the importers of one batch run concurrently inside the fill
// phase and inside the save phase (barriers between the phases); here the
// phases are run natively in one of a few fixed orders of the importers
// (ascending heights, descending heights, and round robin by 128-state chunks,
// which is the journal shape of writers flushing alternately).
//
// Setup (acknowledged before the first crash point): blocks 0..3 committed;
// 0, 1 merged into the permanent database long before (block 1 is large and
// shares its state keys with the large blocks written later), 2 and 3 in temp
// databases. So a crash leaves unmerged leftovers at top+1 AND above, which the
// startup path (NewCenter -> loadTemps -> loadTemp: RemoveByPrefix of the
// leftover at top+1; removeHigherHeights -> BatchRemove for everything above)
// has to remove without touching anything else; with more than 333 leftover
// keys the cleaners need more than one round.
//
// Crash points, images and the oracle are those of the first unit (every prefix
// of the file-operation log + torn last write; reopen; read the full query
// domain; L = height of LastBlockMap(); everything equals "blocks 0..L
// committed", L >= last acknowledged), plus: closing and reopening the
// recovered storage once more gives exactly the same answers.

type c21iConfig struct {
	name   string
	sizes  []int  // number of states of each concurrently written block, in height order (0: a small fixture block)
	order  string // asc | desc | rr: order of the importers inside the fill and the save phase
	cache  int
	wbuf   int  // goleveldb write buffer of the producing handle (0: 64 KiB as in the first unit, so memtable flushes happen during the batch)
	ticker bool // one body of the Center's ticker (mergePermanent + cleanRemoved) runs between the fill and the save phase
	finish bool // the batch ends with MergeAllPermanent + cleanRemoved (without: the history ends with the last merge)
	slices int  // the crash points of a log are split over this many work items (each produces the log itself); journal-only configurations only
}

const (
	c21iPermStates = 340 // states of block 1 (merged into the permanent database in the setup)
	c21iChunk      = 128 // rr: states per SetStates call = one flush of the block write database

	// write buffer with which the producing handle never flushes its memtable during the history: the log is the
	// journal only (every crash point is a journal write); the first unit's 64 KiB adds the table / manifest writes
	c21iJournalOnly = 2 << 20
)

type c21iWriter struct {
	b   *vfBlock
	wst isaac.BlockWriteDatabase
}

func c21iChain(env *vfEnv, cfg c21iConfig) []*vfBlock {
	chain := []*vfBlock{
		env.block(0, 'G', -1, 0),
		c21BigBlock(env, 1, c21iPermStates, 0),
		env.block(2, 'S', 0, 0),
		env.block(3, 'F', 0, 0), // suffrage height 1: the last proof sits in a temp database
	}

	sufh := 1

	for i, n := range cfg.sizes {
		h := len(chain)

		switch {
		case n > 0:
			chain = append(chain, c21BigBlock(env, h, n, sufh))
		case i == len(cfg.sizes)-1:
			chain = append(chain, env.block(h, 'F', sufh, 0)) // SetSuffrageProof in the save phase
			sufh++
		default:
			chain = append(chain, env.block(h, 'S', sufh, 0))
		}
	}

	return chain
}

const c21iBase = 4 // blocks of the setup

// c21iProduce runs the history natively and returns its log.
func c21iProduce(env *vfEnv, cfg c21iConfig) *c21History {
	cx := crashx.New()
	ccfg := c21Config{name: cfg.name, cache: cfg.cache}

	pcfg := ccfg
	pcfg.wbuf = cfg.wbuf

	db := c21Open(env, cx, pcfg)
	chain := c21iChain(env, cfg)

	for i := 0; i < 3; i++ {
		vfMust(db.center.MergeBlockWriteDatabase(db.newWriter(chain[i])))
	}

	vfMust(db.center.MergeAllPermanent())
	vfMust(db.center.cleanRemoved(0))
	vfMust(db.center.MergeBlockWriteDatabase(db.newWriter(chain[3])))
	vfSettle()

	if n := len(db.center.activeTemps()); n != 2 {
		panic(fmt.Sprintf("harness: %d temps after the setup", n))
	}

	// NOTE the last operation of the setup is the merged marker of block 3: torn, block 3 is not committed
	h := &c21History{cfg: ccfg, chain: chain, n0: cx.Len(), acked0: c21iBase - 2, twice: true}

	cx.MarkNow(fmt.Sprintf("ack-%d", c21iBase-1))
	cx.MarkNow("begin-0")

	ws := make([]*c21iWriter, len(cfg.sizes))

	for i := range ws {
		wst, err := db.center.NewBlockWriteDatabase(chain[c21iBase+i].height)
		vfMust(err)

		if cfg.cache > 0 {
			wst.(isaac.StateCacheSetter).SetStateCache( //nolint:forcetypeassert //...
				util.NewLFUGCache[string, [2]interface{}](cfg.cache))
		}

		ws[i] = &c21iWriter{b: chain[c21iBase+i], wst: wst}
	}

	ordered := make([]*c21iWriter, len(ws))
	copy(ordered, ws)

	if cfg.order == "desc" {
		for i, j := 0, len(ordered)-1; i < j; i, j = i+1, j-1 {
			ordered[i], ordered[j] = ordered[j], ordered[i]
		}
	}

	// fill
	switch cfg.order {
	case "asc", "desc":
		for _, w := range ordered {
			vfMust(w.wst.SetBlockMap(w.b.mp))
			vfMust(w.wst.SetStates(w.b.states))
			vfMust(w.wst.SetOperations(w.b.known))
		}
	case "rr":
		for _, w := range ordered {
			vfMust(w.wst.SetBlockMap(w.b.mp))
		}

		for from, more := 0, true; more; from += c21iChunk {
			more = false

			for _, w := range ordered {
				if from >= len(w.b.states) {
					continue
				}

				to := from + c21iChunk
				if to > len(w.b.states) {
					to = len(w.b.states)
				}

				vfMust(w.wst.SetStates(w.b.states[from:to]))

				more = true
			}
		}

		for _, w := range ordered {
			vfMust(w.wst.SetOperations(w.b.known))
		}
	default:
		panic("harness: unknown order " + cfg.order)
	}

	cx.MarkNow("filled-0")

	if cfg.ticker {
		merged, err := db.center.mergePermanent(context.Background())
		vfMust(err)

		if !merged {
			panic("harness: the ticker merged nothing")
		}

		cx.MarkNow("permanent-2")
		vfMust(db.center.cleanRemoved(0))
		cx.MarkNow("cleaned-2")
	}

	// save
	for _, w := range ordered {
		if w.b.proof != nil {
			vfMust(w.wst.SetSuffrageProof(w.b.proof))
		}

		vfMust(w.wst.Write())
	}

	cx.MarkNow("saved-0")

	// merge, always in height order
	for _, w := range ws {
		vfMust(db.center.MergeBlockWriteDatabase(w.wst))
		cx.MarkNow(fmt.Sprintf("ack-%d", w.b.height))
	}

	if cfg.finish {
		vfMust(db.center.MergeAllPermanent())
		cx.MarkNow("permanent-all")
		vfMust(db.center.cleanRemoved(0))
		cx.MarkNow("cleaned-all")
	}

	vfSettle()

	h.ops = cx.Ops()
	h.marks = cx.Marks()

	db.closeNow()

	var sb strings.Builder
	for _, o := range h.ops[h.n0:] {
		fmt.Fprintf(&sb, "%s/%v;", o.Kind, o.FD) // NOTE structure only: lengths depend on random signature bytes
	}

	h.logsig = vlib.H(sb.String())

	return h
}

func TestVerifC21I(t *testing.T) {
	r := vlib.Start("C21")
	defer r.Finish()

	env := vfNewEnv()

	// 400 states = 410 keys of a block write database, 384 of them flushed (3 x 128) before Write(): more than
	// one round (333 keys) of the startup cleaners, both for the leftover at top+1 and for those above
	var configs []c21iConfig

	switch {
	case !r.Thorough():
		configs = []c21iConfig{
			{name: "import-400+400-asc-journal", sizes: []int{400, 400}, order: "asc", wbuf: c21iJournalOnly, slices: 2},
			{name: "import-400+400-desc-journal", sizes: []int{400, 400}, order: "desc", wbuf: c21iJournalOnly, slices: 2},
		}
	default:
		// NOTE work item i goes to shard i % n: the three configurations with memtable flushes (10 times the crash
		// points of the others) come first, so that they sit in three different shards; they are not sliced, because the
		// moments of goleveldb's background memtable flush, so the operation sequence of the log, differ from run to run
		configs = []c21iConfig{
			{name: "import-400+400-asc", sizes: []int{400, 400}, order: "asc"},
			{name: "import-400+400-desc-cache-finish", sizes: []int{400, 400}, order: "desc", cache: 512, finish: true},
			{name: "import-400+400-rr-cache", sizes: []int{400, 400}, order: "rr", cache: 512},
			{name: "import-400+400-asc-journal-finish", sizes: []int{400, 400}, order: "asc", wbuf: c21iJournalOnly, finish: true},
			{name: "import-400+400-desc-journal-finish", sizes: []int{400, 400}, order: "desc", wbuf: c21iJournalOnly, finish: true},
			{name: "import-400+400-rr-journal-finish", sizes: []int{400, 400}, order: "rr", wbuf: c21iJournalOnly, finish: true},
			{name: "import-0+400+0-asc-journal-finish", sizes: []int{0, 400, 0}, order: "asc", wbuf: c21iJournalOnly, finish: true},
			{name: "import-0+400+0-desc-journal-finish", sizes: []int{0, 400, 0}, order: "desc", wbuf: c21iJournalOnly, finish: true},
			{name: "import-200+200+200-rr-journal-finish", sizes: []int{200, 200, 200}, order: "rr", wbuf: c21iJournalOnly, finish: true},
			{name: "import-200+200+200-desc-ticker-journal-finish", sizes: []int{200, 200, 200}, order: "desc", ticker: true, wbuf: c21iJournalOnly, finish: true},
			{name: "import-0+700-asc-ticker-journal-finish", sizes: []int{0, 700}, order: "asc", ticker: true, wbuf: c21iJournalOnly, finish: true},
			{name: "import-0+0-asc-finish", sizes: []int{0, 0}, order: "asc", finish: true},
		}
	}

	r.Rule("third unit: for each configuration (sizes of the 2-3 blocks written at the same time on top of a chain with blocks in the permanent database and in temps x order of the importers inside the fill and the save phase x state cache x ticker body in between x journal-only or 64 KiB write buffer x with/without the final MergeAllPermanent + cleanRemoved) the import batch (fill, save, merge in height order) is run natively; for the produced log EVERY prefix from the end of the setup to the end of the log, and every prefix ending in a write also with that write torn, is materialised, recovered with the real open path, read completely, closed, reopened and read completely again " +
		"(a configuration with s slices is s work items: each produces the log itself and checks every s-th crash point; they add up to every prefix of one log when the s logs have the same operation sequence, i.e. when 'import_log_signature_min:<configuration>' equals '..._max:<configuration>'); " +
		"non-trivial = distinct (configuration, phase of the crash point, torn, visible height, kind of the last operation)")
	r.Assume("third unit: the importers of one batch run concurrently in the real ImportBlocks; here their calls are serialised in the stated fixed orders (whole importers ascending / descending, or 128-state chunks round robin), not every interleaving of their flushes; a crash during the recovery itself (a second crash while the startup cleaner runs) is not enumerated")
	r.Set("import_configurations", len(configs))

	rid, replaying := r.Replaying()

	item := 0

	for _, cfg := range configs {
		if replaying {
			if !strings.HasPrefix(rid, cfg.name+"/log=") {
				continue
			}

			for try := 0; ; try++ {
				if try > 200 {
					panic("harness: the log of the recorded case was not produced again in 200 runs")
				}

				if h := c21iProduce(env, cfg); strings.HasPrefix(rid, cfg.name+"/log="+h.logsig+"/") {
					c21Run(r, env, h)

					break
				}
			}

			continue
		}

		slices := cfg.slices
		if slices < 1 {
			slices = 1
		}

		for j := 0; j < slices; j++ {
			item++

			if !r.Mine(item) || r.Expired() {
				continue
			}

			h := c21iProduce(env, cfg)

			r.Add("logs_produced", 1)

			r.State(cfg.name + "|log=" + h.logsig)

			if slices > 1 {
				// the slices of a configuration sit in different shards: min == max in the merged evidence says that
				// all of them worked on the same log
				sig, err := strconv.ParseInt(h.logsig[:12], 16, 64)
				vfMust(err)

				r.Max("import_log_signature_max:"+cfg.name, sig)
				r.Min("import_log_signature_min:"+cfg.name, sig)
			}

			c21RunSlice(r, env, h, j, slices)
		}
	}
}
