//go:build verif

package isaacdatabase

import (
	"context"
	"fmt"
	"strings"
	"testing"

	"github.com/spikeekips/mitum/base"
	"github.com/spikeekips/mitum/isaac"
	leveldbstorage "github.com/spikeekips/mitum/storage/leveldb"
	"github.com/spikeekips/mitum/zzverif/crashx"
	"github.com/spikeekips/mitum/zzverif/vlib"
	"github.com/spikeekips/mitum/zzverif/vsched"
	leveldbopt "github.com/syndtr/goleveldb/leveldb/opt"
)

// C21, second unit (engine F under engine S): the permanent merge writes its
// batches from parallel job goroutines, so the order in which they reach the
// journal is a scheduling matter. Here the merge of a multi-batch block runs
// under the controlled scheduler: EVERY interleaving of the merging thread and
// its job goroutines within the preemption bound is produced (goleveldb is an
// atomic step of the calling thread, so the journal order is the schedule), and
// for each produced log every prefix (+ torn last write) is materialised,
// recovered and checked with the oracle of the first unit.
//
//	setup (native)   blocks 0, 1 committed, block 0 merged + cleaned, block 2 committed        (all acknowledged)
//	explored         Center.mergePermanent: block 1 (n states, permanent batch limit b) -> permanent database
//	optional         then Center.cleanRemoved(0) in the same thread
//
// The producing database uses a 4 MiB write buffer so that no memtable flush
// (a goleveldb background goroutine) interferes: the log is the journal only
// and is a function of the schedule.

type c21sScenario struct {
	states    int
	permbatch int
	clean     bool
	bound     int
}

func (c c21sScenario) id() string {
	return fmt.Sprintf("permanent-merge|states=%d|batchlimit=%d|clean=%v|bound=%d", c.states, c.permbatch, c.clean, c.bound)
}

var c21sPrev *vfDB

func c21sOpen(env *vfEnv, cx *crashx.Storage, permbatch int) *vfDB {
	st, err := leveldbstorage.NewStorage(cx, &leveldbopt.Options{WriteBuffer: 4 * leveldbopt.MiB})
	vfMust(err)

	db := &vfDB{env: env, raw: cx, st: st}

	db.perm, err = NewLeveldbPermanent(st, env.encs, env.enc, 0)
	vfMust(err)

	db.perm.batchlimit = permbatch

	db.center, err = NewCenter(st, env.encs, env.enc, db.perm, func(height base.Height) (isaac.BlockWriteDatabase, error) {
		return NewLeveldbBlockWrite(height, st, env.encs, env.enc), nil
	})
	vfMust(err)

	db.pool, err = NewTempPool(st, env.encs, env.enc, 0)
	vfMust(err)

	return db
}

func c21sBuild(env *vfEnv, c c21sScenario) vsched.Scenario {
	if c21sPrev != nil {
		vfSettle()
		c21sPrev.closeNow()
	}

	cx := crashx.New()
	db := c21sOpen(env, cx, c.permbatch)
	c21sPrev = db

	chain := []*vfBlock{env.block(0, 'G', -1, 0), c21BigBlock(env, 1, c.states, 0), env.block(2, 'F', 0, 0)}

	vfMust(db.center.MergeBlockWriteDatabase(db.newWriter(chain[0])))
	vfMust(db.center.MergeBlockWriteDatabase(db.newWriter(chain[1])))

	if merged, err := db.center.mergePermanent(context.Background()); err != nil || !merged {
		panic(fmt.Sprintf("harness: setup merge: %v %v", merged, err))
	}

	vfMust(db.center.cleanRemoved(0))
	vfMust(db.center.MergeBlockWriteDatabase(db.newWriter(chain[2])))
	vfSettle()

	h := &c21History{cfg: c21Config{name: c.id()}, chain: chain, n0: cx.Len(), acked0: 1}

	var merged bool

	var mergeErr, cleanErr error

	root := func() {
		vsched.Point("merger", nil)

		merged, mergeErr = db.center.mergePermanent(context.Background())
		cx.MarkNow("permanent-1")

		if c.clean {
			cleanErr = db.center.cleanRemoved(0)
			cx.MarkNow("cleaned-1")
		}
	}

	nwrites := 0

	return vsched.Scenario{
		Roots: []func(){root},
		Outcome: func(*vsched.Exec) string {
			return fmt.Sprintf("journal-writes=%d", nwrites)
		},
		Check: func(x *vsched.Exec) *vsched.Fail {
			fail := func(sig map[string]any, detail string) *vsched.Fail {
				sig["engine"] = "S"

				return &vsched.Fail{Sig: sig, Detail: detail + " | " + c.id()}
			}

			switch {
			case x.Panic != nil:
				return fail(map[string]any{"kind": "panic"}, fmt.Sprint(x.Panic))
			case x.Deadlock:
				return fail(map[string]any{"kind": "deadlock"}, "the merging thread is blocked forever")
			case mergeErr != nil || cleanErr != nil || !merged:
				return fail(map[string]any{"kind": "merge-error"}, fmt.Sprintf("merged=%v %v %v", merged, mergeErr, cleanErr))
			}

			h.ops = cx.Ops()
			h.marks = append([]crashx.Mark{{Name: "ack-2", At: h.n0}}, cx.Marks()...)

			for _, o := range h.ops[h.n0:] {
				if o.Kind == "write" {
					nwrites++
				}
			}

			// the journal is a function of the schedule; schedules that differ only in steps that do not
			// write produce the same journal (same bytes: blocks, keys and sequence numbers are the same in
			// every execution), which was checked already
			var sb strings.Builder
			for _, o := range h.ops[h.n0:] {
				fmt.Fprintf(&sb, "%s/%v/%s;", o.Kind, o.FD, vlib.H(string(o.Data)))
			}

			journal := c.id() + "|" + vlib.H(sb.String())
			if verdict, found := c21sJournals[journal]; found {
				c21sDuplicates++

				return verdict
			}

			d, expected := c21Domain(env, h)
			im := c21NewImager(h.ops)

			var verdict *vsched.Fail

		end:
			for n := h.n0; n <= len(h.ops); n++ {
				for _, torn := range []bool{false, true} {
					if torn && (n == 0 || h.ops[n-1].Kind != "write") {
						continue
					}

					c21sImages++

					if _, vios := h.check(env, im, d, expected, n, torn); len(vios) > 0 {
						verdict = fail(vios[0].sig, fmt.Sprintf("%s | crash after operation %d of %d (%v, operation %d of the explored merge)",
							vios[0].detail, n, len(h.ops), h.ops[maxInt(n-1, 0)], n-h.n0))

						break end
					}
				}
			}

			c21sJournals[journal] = verdict

			return verdict
		},
	}
}

var (
	c21sImages     int64
	c21sDuplicates int64
	c21sJournals   = map[string]*vsched.Fail{}
)

func TestVerifC21S(t *testing.T) {
	r := vlib.Start("C21")
	defer r.Finish()

	env := vfNewEnv()

	cfgs := []c21sScenario{
		{states: 4, permbatch: 4, bound: vlib.Pick(r, 1, 2)},
	}

	if r.Thorough() {
		cfgs = append(cfgs, c21sScenario{states: 4, permbatch: 8, clean: true, bound: 1}, c21sScenario{states: 10, permbatch: 4, bound: 1})
	}

	r.Rule("per scenario (number of states of the merged block x permanent batch limit x with/without cleanRemoved) every interleaving of the merging thread and the batch-writing job goroutines within the preemption bound; for each produced journal every prefix and every torn last write is recovered and checked; non-trivial = a scenario with more than one journal shape")
	r.Assume("goleveldb is an atomic step of the calling thread under the scheduler, so concurrent Write calls are never merged into one journal record (goleveldb's write merge would make two batches one atomic unit: fewer crash states, not more)")
	r.Set("preemption_bound_of_first_scenario", cfgs[0].bound)

	sh, nsh := r.Shard()

	for _, c := range cfgs {
		c := c
		id := c.id()
		build := func() vsched.Scenario { return c21sBuild(env, c) }

		if rid, rp := r.Replaying(); rp {
			k := strings.LastIndex(rid, "#")
			if k < 0 || rid[:k] != id {
				continue
			}

			sc := build()
			x := vsched.Run(vsched.Options{Prefix: vsched.ParseChoices(rid[k+1:])}, sc.Roots...)
			r.Trace()

			if f := sc.Check(x); f != nil {
				r.Violation(rid, f.Sig, f.Detail, nil)
			}

			continue
		}

		if r.Expired() {
			continue
		}

		res := vsched.Explore(vsched.Config{Name: id, Bound: c.bound, Build: build, Expired: r.Expired, MaxFound: 2, Horizon: 20000,
			Mine: func(l int) bool { return nsh <= 1 || l%nsh == sh }, Secondary: sh != 0})
		if res.EngineError != "" {
			panic("engine error in " + id + ": " + res.EngineError)
		}

		r.TraceN(res.Executions)
		r.TransitionN(res.Points)
		r.Add("schedules", res.Executions)

		if sh == 0 {
			r.Add("scenarios", 1)
		}

		if res.Capped != "" {
			r.Cap(res.Capped)
		} else {
			r.Set("preemption_bound_completed:"+id, res.BoundCompleted)
		}

		if len(res.Outcomes) > 1 {
			r.Nontrivial(id)
		}

		for o := range res.Outcomes {
			r.State(id + "=>" + o)
			r.Outcome("S:" + o)
		}

		for _, f := range res.Found {
			r.Violation(id+"#"+vsched.ChoicesString(f.Choices), f.Fail.Sig, f.Fail.Detail+fmt.Sprintf(" (preemptions=%d)", f.Preempt), nil)
		}

		if sh == 0 {
			r.Sample(map[string]any{"scenario": id, "schedules_of_shard_0": res.Executions, "outcomes": res.Outcomes})
		}
	}

	r.EvalN(c21sImages)
	r.Add("distinct_journals", int64(len(c21sJournals)))
	r.Add("schedules_with_a_journal_already_checked", c21sDuplicates)
	r.Add("crash_points", c21sImages)
}
