//go:build verif

package quicmemberlist

import (
	"fmt"
	"net"
	"os"
	"sort"
	"strings"
	"testing"

	"github.com/spikeekips/mitum/base"
	"github.com/spikeekips/mitum/util"
	"github.com/spikeekips/mitum/zzverif/vlib"
	"github.com/spikeekips/mitum/zzverif/vsched"
)

// C37 (concurrent half, engine S): the member table stays consistent when
// joins, re-joins, leaves and lookups of colliding members overlap.
//
// 2-3 threads x 1-2 calls of Set / Remove / Get / Exists / MembersLen /
// MembersLenOthers / Traverse on a REAL membersPool whose two util.ShardedMap
// (util/lock.go, compiled on the vsync / vatomic shims) have a pinned shard
// placement; every interleaving within the preemption bound.
//
// Oracle (the property statement lifted to overlapping callers):
//  1. no panic, no deadlock;
//  2. at quiescence the table is internally consistent: the per-node member
//     lists hold exactly the members present by address, without duplicates;
//  3. the recorded call/return history is linearizable (brute force over all
//     orders consistent with real time) against the map address -> member
//     ("present exactly when joined and not yet left"), including every return
//     value, and the table at quiescence (address map, per-node lists, Len)
//     equals the model state at the end of that order.
//
// Traverse visits the shards one after the other; it is judged per address:
// what it reports for each address must be that address's state at SOME moment
// of the Traverse call (the property speaks about each member's presence, not
// about an atomic snapshot of all members).
//
// This file uses the prefix c37c.

type c37cOp struct {
	kind string // S R G E ML MO T; tg = per-address part of a Traverse (virtual)
	m    int    // member index (S)
	a    int    // address index (R G E MO tg)
	n    int    // node index (ML MO)
	f    int    // form the address is given in (R G E MO): 0 = 16 bytes IP (c37Addr), 1 = 4 bytes IP
}

// c37AddrForm: address i in the 16 bytes (f=0, what c37Addr gives) or the 4 bytes (f=1) form of its IPv4 address.
func c37AddrForm(i, f int) *net.UDPAddr {
	if f == 0 {
		return c37Addr(i)
	}

	return &net.UDPAddr{IP: net.IP{10, 0, 0, byte(i)}, Port: 4000 + i}
}

// c37SameAddr: one UDP address, whatever the representation of the IP (not decided by the memberid() under test).
func c37SameAddr(x, y *net.UDPAddr) bool {
	return x.Port == y.Port && x.Zone == y.Zone && x.IP.Equal(y.IP)
}

type c37cEnv struct {
	members   []c37Member
	nodes     []string
	nodeaddrs []base.Address
	naddrs    int
	nbase     int // members[:nbase] have their address in the 16 bytes form; the rest are the same members in the 4 bytes form
}

func c37cNewEnv(t *testing.T) *c37cEnv {
	env := &c37cEnv{naddrs: 3}

	env.nodeaddrs = []base.Address{base.NewStringAddress("node1-c37"), base.NewStringAddress("node2-c37")}
	env.nodes = []string{env.nodeaddrs[0].String(), env.nodeaddrs[1].String()}

	priv, err := base.NewMPrivatekeyFromSeed("c37-fixed-seed-for-member-key-0123456789abcdef")
	if err != nil {
		t.Fatal(err)
	}

	// node, address index
	for _, s := range [][2]int{{1, 1}, {1, 2}, {2, 1}, {2, 3}, {1, 3}} {
		label := fmt.Sprintf("n%d@a%d", s[0], s[1])

		m, err := NewMember(label, c37Addr(s[1]), env.nodeaddrs[s[0]-1], priv.Publickey(), "", true)
		if err != nil {
			t.Fatal(err)
		}

		env.members = append(env.members, c37Member{label: label, node: env.nodes[s[0]-1], addr: c37Addr(s[1]), m: m})
	}

	env.nbase = len(env.members)

	// the same members with the IPv4 address in the 4 bytes form (mixed-forms scenarios only)
	for _, s := range [][2]int{{1, 1}} {
		label := fmt.Sprintf("n%d@a%d~ip4", s[0], s[1])

		m, err := NewMember(label, c37AddrForm(s[1], 1), env.nodeaddrs[s[0]-1], priv.Publickey(), "", true)
		if err != nil {
			t.Fatal(err)
		}

		env.members = append(env.members, c37Member{label: label, node: env.nodes[s[0]-1], addr: c37AddrForm(s[1], 1), m: m})
	}

	return env
}

func (env *c37cEnv) member(label string) int {
	for i := range env.members {
		if env.members[i].label == label {
			return i
		}
	}

	panic("unknown member " + label)
}

func (env *c37cEnv) opString(o c37cOp) string {
	if o.f != 0 {
		p := o
		p.f = 0

		return strings.Replace(env.opString(p), fmt.Sprintf("a%d)", o.a), fmt.Sprintf("a%d/ip4)", o.a), 1)
	}

	switch o.kind {
	case "S":
		return "Set(" + env.members[o.m].label + ")"
	case "R":
		return fmt.Sprintf("Remove(a%d)", o.a)
	case "G":
		return fmt.Sprintf("Get(a%d)", o.a)
	case "E":
		return fmt.Sprintf("Exists(a%d)", o.a)
	case "ML":
		return fmt.Sprintf("MembersLen(n%d)", o.n)
	case "MO":
		return fmt.Sprintf("MembersLenOthers(n%d,a%d)", o.n, o.a)
	case "T":
		return "Traverse"
	case "tg":
		return fmt.Sprintf("Traverse@a%d", o.a)
	}

	panic("unknown op " + o.kind)
}

// newPool builds the real pool with a pinned shard placement (newMembersPool
// draws a random hash seed, which would make the lock a key maps to - and so
// the schedule - differ from run to run). "apart": every address and every
// node has its own shard (own lock); "same": all keys of a map share one shard.
func (env *c37cEnv) newPool(placement string) *membersPool {
	place := map[string]uint64{}

	for i := 1; i <= env.naddrs; i++ {
		// whatever key the table derives from either form of the address goes to the shard of the address
		place[memberid(c37Addr(i))] = uint64(i - 1)
		place[memberid(c37AddrForm(i, 1))] = uint64(i - 1)
	}

	for i, n := range env.nodes {
		place[n] = uint64(i)
	}

	var size uint64 = 4

	hashf := func(k interface{}, size uint64) (uint64, interface{}) {
		s, ok := k.(string)
		if !ok {
			panic(fmt.Sprintf("unexpected key %T", k))
		}

		i, found := place[s]
		if !found {
			// a key the table does not derive from any fixture address with the unchanged code: fixed spare shard
			i = size - 1
		}

		switch placement {
		case "same":
			return 0, k
		case "reverse":
			return (size - 1 - i) % size, k
		default:
			return i % size, k
		}
	}

	addrs, err := util.NewShardedMapWithSeed[string, Member](7, size, hashf, nil)
	if err != nil {
		panic(err)
	}

	members, err := util.NewShardedMapWithSeed[string, []Member](7, size, hashf, nil)
	if err != nil {
		panic(err)
	}

	return &membersPool{addrs: addrs, members: members}
}

// ---- the sequential specification: address -> member index

type c37cModel map[int]int

func (m c37cModel) clone() c37cModel {
	c := c37cModel{}
	for k, v := range m {
		c[k] = v
	}

	return c
}

func (env *c37cEnv) nodeList(m c37cModel, node int) []int {
	var l []int

	for a, mi := range m {
		if env.members[mi].node == env.nodes[node-1] {
			l = append(l, a)
		}
	}

	sort.Ints(l)

	return l
}

// final renders the table the model stands for: address map, per-node lists, Len.
func (env *c37cEnv) final(m c37cModel) string {
	var as []string

	for a := 1; a <= env.naddrs; a++ {
		if mi, ok := m[a]; ok {
			as = append(as, fmt.Sprintf("a%d:%s", a, env.members[mi].label))
		}
	}

	var ns []string

	for n := 1; n <= len(env.nodes); n++ {
		var l []string
		for _, a := range env.nodeList(m, n) {
			l = append(l, fmt.Sprintf("a%d", a))
		}

		ns = append(ns, fmt.Sprintf("n%d:[%s]", n, strings.Join(l, " ")))
	}

	return fmt.Sprintf("A{%s}N{%s}L=%d", strings.Join(as, ","), strings.Join(ns, ","), len(m))
}

// apply: the result and next state of op in the sequential model.
func (env *c37cEnv) apply(m c37cModel, o c37cOp) (string, c37cModel) {
	switch o.kind {
	case "S":
		a := env.addrIndex(env.members[o.m].addr)
		_, was := m[a]

		c := m.clone()
		c[a] = o.m

		return fmt.Sprint(!was), c
	case "R":
		if _, was := m[o.a]; !was {
			return "false", m
		}

		c := m.clone()
		delete(c, o.a)

		return "true", c
	case "G", "tg":
		if mi, ok := m[o.a]; ok {
			return env.members[mi].label, m
		}

		return "none", m
	case "E":
		_, ok := m[o.a]

		return fmt.Sprint(ok), m
	case "ML":
		return fmt.Sprint(len(env.nodeList(m, o.n))), m
	case "MO":
		l := env.nodeList(m, o.n)
		found, others := false, 0

		for _, a := range l {
			if a == o.a {
				found = true
			} else {
				others++
			}
		}

		return fmt.Sprintf("%d/%d/%v", len(l), others, found), m
	}

	panic("unknown op " + o.kind)
}

func (env *c37cEnv) addrIndex(addr *net.UDPAddr) int {
	for i := 1; i <= env.naddrs; i++ {
		if c37SameAddr(c37Addr(i), addr) {
			return i
		}
	}

	panic("unknown address " + addr.String())
}

func (env *c37cEnv) label(m Member) string {
	if m == nil {
		return "nil"
	}

	for i := range env.members {
		// BaseMember is not comparable; the fixture names are unique
		if env.members[i].label == m.Name() && env.members[i].node == m.Address().String() &&
			c37SameAddr(env.members[i].addr, m.Addr()) {
			return env.members[i].label
		}
	}

	return "foreign:" + m.Address().String() + "@" + memberid(m.Addr())
}

// ---- running the real pool

func (env *c37cEnv) do(pool *membersPool, o c37cOp) string {
	switch o.kind {
	case "S":
		return fmt.Sprint(pool.Set(env.members[o.m].m))
	case "R":
		removed, err := pool.Remove(c37AddrForm(o.a, o.f))
		if err != nil {
			return "error:" + err.Error()
		}

		return fmt.Sprint(removed)
	case "G":
		switch m, found := pool.Get(c37AddrForm(o.a, o.f)); {
		case !found:
			return "none"
		default:
			return env.label(m)
		}
	case "E":
		return fmt.Sprint(pool.Exists(c37AddrForm(o.a, o.f)))
	case "ML":
		return fmt.Sprint(pool.MembersLen(env.nodeaddrs[o.n-1]))
	case "MO":
		n, others, found := pool.MembersLenOthers(env.nodeaddrs[o.n-1], c37AddrForm(o.a, o.f))

		return fmt.Sprintf("%d/%d/%v", n, others, found)
	case "T":
		var l []string

		pool.Traverse(func(m Member) bool {
			l = append(l, fmt.Sprintf("a%d=%s", env.addrIndex(m.Addr()), env.label(m)))

			return true
		})

		sort.Strings(l)

		return strings.Join(l, ",")
	}

	panic("unknown op " + o.kind)
}

// realFinal renders the real table at quiescence like final() renders the model;
// inconsistent is non-empty when the per-node lists are not exactly the members
// present by address (class as in the sequential half: duplicate / stale / missing).
func (env *c37cEnv) realFinal(pool *membersPool) (fin, inconsistent string) {
	var as []string

	byaddr := map[string][]string{} // node -> ids present by address

	for a := 1; a <= env.naddrs; a++ {
		m, found := pool.addrs.Value(memberid(c37Addr(a)))

		// one address, one entry: a table that keeps a second entry under the key of the other form is rendered
		// with both (no model state looks like that)
		if k := memberid(c37AddrForm(a, 1)); k != memberid(c37Addr(a)) {
			switch m4, found4 := pool.addrs.Value(k); {
			case found4 && found:
				as = append(as, fmt.Sprintf("a%d:%s+%s", a, env.label(m), env.label(m4)))

				continue
			case found4:
				m, found = m4, true
			}
		}

		if !found {
			continue
		}

		as = append(as, fmt.Sprintf("a%d:%s", a, env.label(m)))

		if m != nil {
			byaddr[m.Address().String()] = append(byaddr[m.Address().String()], fmt.Sprintf("a%d", a))
		}
	}

	var ns, bad []string

	for n := 1; n <= len(env.nodes); n++ {
		var l []string

		if ms, found := pool.members.Value(env.nodes[n-1]); found {
			for _, m := range ms {
				switch {
				case m == nil:
					l = append(l, "nil")
				case m.Address().String() != env.nodes[n-1]:
					l = append(l, "foreign:"+env.label(m))
				default:
					l = append(l, fmt.Sprintf("a%d", env.addrIndex(m.Addr())))
				}
			}
		}

		sort.Strings(l)
		ns = append(ns, fmt.Sprintf("n%d:[%s]", n, strings.Join(l, " ")))

		want := byaddr[env.nodes[n-1]]
		sort.Strings(want)

		if strings.Join(l, " ") != strings.Join(want, " ") {
			bad = append(bad, c37ListClass(l, want))
		}
	}

	sort.Strings(bad)

	return fmt.Sprintf("A{%s}N{%s}L=%d", strings.Join(as, ","), strings.Join(ns, ","), pool.Len()), strings.Join(bad, ",")
}

// ---- history + linearizability

type c37cEvent struct {
	thread    int
	op        c37cOp
	call, ret int
	res       string
}

// expand replaces every Traverse by one virtual lookup per address with the
// interval of the Traverse; ok=false if the Traverse reported an address twice.
func (env *c37cEnv) expand(evs []c37cEvent) (out []c37cEvent, ok bool) {
	ok = true

	for _, e := range evs {
		if e.op.kind != "T" {
			out = append(out, e)

			continue
		}

		seen := map[int]string{}

		if e.res != "" {
			for _, p := range strings.Split(e.res, ",") {
				var a int

				var l string

				if _, err := fmt.Sscanf(p, "a%d=%s", &a, &l); err != nil {
					panic("bad traverse part " + p)
				}

				if _, dup := seen[a]; dup {
					ok = false
				}

				seen[a] = l
			}
		}

		for a := 1; a <= env.naddrs; a++ {
			res, found := seen[a]
			if !found {
				res = "none"
			}

			out = append(out, c37cEvent{thread: e.thread, op: c37cOp{kind: "tg", a: a}, call: e.call, ret: e.ret, res: res})
		}
	}

	return out, ok
}

// linearizable: brute force over all total orders consistent with real time;
// final == "" means the state at quiescence is not compared.
func (env *c37cEnv) linearizable(init c37cModel, evs []c37cEvent, final string) bool {
	n := len(evs)
	used := make([]bool, n)

	var rec func(md c37cModel, done int) bool

	rec = func(md c37cModel, done int) bool {
		if done == n {
			return final == "" || env.final(md) == final
		}

		for i := 0; i < n; i++ {
			if used[i] {
				continue
			}

			// i may go next only if no unused event returned before i was called
			ok := true

			for j := 0; j < n; j++ {
				if j != i && !used[j] && evs[j].ret < evs[i].call {
					ok = false

					break
				}
			}

			if !ok {
				continue
			}

			res, next := env.apply(md, evs[i].op)
			if res != evs[i].res {
				continue
			}

			used[i] = true
			found := rec(next, done+1)
			used[i] = false

			if found {
				return true
			}
		}

		return false
	}

	return rec(init, 0)
}

type c37cScenario struct {
	name      string
	placement string
	init      []int // member indexes joined before the threads start
	threads   [][]c37cOp
}

func (env *c37cEnv) scenarioID(s c37cScenario) string {
	var ts []string

	for _, t := range s.threads {
		var xs []string
		for _, o := range t {
			xs = append(xs, env.opString(o))
		}

		ts = append(ts, strings.Join(xs, ","))
	}

	var is []string
	for _, mi := range s.init {
		is = append(is, env.members[mi].label)
	}

	return fmt.Sprintf("%s/%s|init=%s|%s", s.name, s.placement, strings.Join(is, ","), strings.Join(ts, " || "))
}

func c37cIsReader(kind string) bool {
	switch kind {
	case "S", "R":
		return false
	}

	return true
}

func (env *c37cEnv) build(s c37cScenario, verdicts map[string]*vsched.Fail) vsched.Scenario {
	pool := env.newPool(s.placement)
	initm := c37cModel{}

	for _, mi := range s.init {
		pool.Set(env.members[mi].m)
		_, initm = env.apply(initm, c37cOp{kind: "S", m: mi})
	}

	var evs []c37cEvent

	var clock int

	tick := func() int { clock++; return clock }

	var roots []func()

	for ti, ops := range s.threads {
		ti, ops := ti, ops

		roots = append(roots, func() {
			for _, o := range ops {
				call := tick()
				res := env.do(pool, o)
				evs = append(evs, c37cEvent{thread: ti, op: o, call: call, ret: tick(), res: res})
			}
		})
	}

	hist := func() string {
		sorted := append([]c37cEvent{}, evs...)
		sort.Slice(sorted, func(i, j int) bool { return sorted[i].call < sorted[j].call })

		var sb strings.Builder
		for _, e := range sorted {
			fmt.Fprintf(&sb, "T%d %s -> %q [call %d ret %d]; ", e.thread, env.opString(e.op), e.res, e.call, e.ret)
		}

		return sb.String()
	}

	var fin, inconsistent string

	return vsched.Scenario{
		Roots: roots,
		Outcome: func(*vsched.Exec) string {
			sorted := append([]c37cEvent{}, evs...)
			sort.Slice(sorted, func(i, j int) bool {
				if sorted[i].thread != sorted[j].thread {
					return sorted[i].thread < sorted[j].thread
				}

				return sorted[i].call < sorted[j].call
			})

			var xs []string
			for _, e := range sorted {
				xs = append(xs, e.res)
			}

			return strings.Join(xs, ";") + "=>" + fin
		},
		Check: func(x *vsched.Exec) *vsched.Fail {
			if x.Panic != nil {
				return &vsched.Fail{Sig: map[string]any{"kind": "panic", "half": "concurrent"}, Detail: fmt.Sprintf("%v\n%s", x.Panic, x.PanicStack)}
			}

			if x.Deadlock {
				return &vsched.Fail{Sig: map[string]any{"kind": "deadlock", "half": "concurrent"},
					Detail: s.name + ": " + strings.Join(x.Blocked, ";") + " | " + hist()}
			}

			fin, inconsistent = env.realFinal(pool)

			opkinds := map[string]bool{}
			for _, e := range evs {
				opkinds[e.op.kind] = true

				if strings.HasPrefix(e.res, "error:") || strings.Contains(e.res, "foreign:") || strings.Contains(e.res, "nil") {
					return &vsched.Fail{Sig: map[string]any{"kind": "bad-result", "half": "concurrent", "op": e.op.kind},
						Detail: env.scenarioID(s) + ": " + hist()}
				}
			}

			ops := strings.Join(vsched.SortedKeys(opkinds), "+")

			if inconsistent != "" {
				return &vsched.Fail{
					Sig: map[string]any{"kind": "node-list", "half": "concurrent", "class": inconsistent, "ops": ops},
					Detail: fmt.Sprintf("at quiescence the per-node member lists are not exactly the members present by address (%s): table %s | %s | scenario %s",
						inconsistent, fin, hist(), env.scenarioID(s)),
				}
			}

			// the verdict depends only on the history (order of calls/returns, results) and the final table
			var kb strings.Builder
			for _, e := range evs {
				fmt.Fprintf(&kb, "%d:%d:%d:%s|", e.thread, e.call, e.ret, e.res)
			}

			kb.WriteString(fin)

			if f, found := verdicts[kb.String()]; found {
				return f
			}

			f := env.judge(s, initm, evs, fin, ops, hist)
			verdicts[kb.String()] = f

			return f
		},
	}
}

func (env *c37cEnv) judge(s c37cScenario, initm c37cModel, evs []c37cEvent, fin, ops string, hist func() string) *vsched.Fail {
	expanded, nodup := env.expand(evs)
	if !nodup {
		return &vsched.Fail{Sig: map[string]any{"kind": "traverse-duplicate", "half": "concurrent", "ops": ops},
			Detail: "Traverse reported one address twice: " + hist() + " | scenario " + env.scenarioID(s)}
	}

	if env.linearizable(initm, expanded, fin) {
		return nil
	}

	// cause analysis, for a signature that names the class
	drop := func(pred func(c37cEvent) bool) []c37cEvent {
		var out []c37cEvent

		for _, e := range expanded {
			if !pred(e) {
				out = append(out, e)
			}
		}

		return out
	}

	cause := "mutators"

	switch {
	case !env.linearizable(initm, drop(func(e c37cEvent) bool { return c37cIsReader(e.op.kind) }), ""):
		cause = "mutator-results"
	case !env.linearizable(initm, drop(func(e c37cEvent) bool { return c37cIsReader(e.op.kind) }), fin):
		cause = "table-at-quiescence"
	case env.linearizable(initm, drop(func(e c37cEvent) bool { return e.op.kind == "ML" || e.op.kind == "MO" }), fin):
		cause = "node-list-reads"
	case env.linearizable(initm, drop(func(e c37cEvent) bool { return e.op.kind == "tg" }), fin):
		cause = "traverse"
	case env.linearizable(initm, drop(func(e c37cEvent) bool { return e.op.kind == "G" || e.op.kind == "E" }), fin):
		cause = "address-lookups"
	default:
		cause = "several-readers"
	}

	// structural class of the mutators involved
	takeover := false

	for _, e := range evs {
		if e.op.kind != "S" {
			continue
		}

		for _, mi := range s.init {
			if env.members[mi].addr.String() == env.members[e.op.m].addr.String() && env.members[mi].node != env.members[e.op.m].node {
				takeover = true
			}
		}

		for _, f := range evs {
			if f.op.kind == "S" && env.members[f.op.m].addr.String() == env.members[e.op.m].addr.String() && env.members[f.op.m].node != env.members[e.op.m].node {
				takeover = true
			}
		}
	}

	return &vsched.Fail{
		Sig: map[string]any{"kind": "not-linearizable", "half": "concurrent", "cause": cause, "ops": ops, "address_changes_node": takeover},
		Detail: fmt.Sprintf("no sequential order of the calls explains the return values and the table at quiescence (%s): %s table at quiescence %s | scenario %s",
			cause, hist(), fin, env.scenarioID(s)),
	}
}

func (env *c37cEnv) scenarios() []c37cScenario {
	S := func(l string) c37cOp { return c37cOp{kind: "S", m: env.member(l)} }
	R := func(a int) c37cOp { return c37cOp{kind: "R", a: a} }
	G := func(a int) c37cOp { return c37cOp{kind: "G", a: a} }
	E := func(a int) c37cOp { return c37cOp{kind: "E", a: a} }
	ML := func(n int) c37cOp { return c37cOp{kind: "ML", n: n} }
	MO := func(n, a int) c37cOp { return c37cOp{kind: "MO", n: n, a: a} }
	T := c37cOp{kind: "T"}
	ip4 := func(o c37cOp) c37cOp { o.f = 1; return o } // the address of the call in the 4 bytes form

	I := func(ls ...string) []int {
		var l []int
		for _, s := range ls {
			l = append(l, env.member(s))
		}

		return l
	}

	type TH = [][]c37cOp

	type sc struct {
		name       string
		placements string
		init       []int
		threads    TH
	}

	const both, apart, all = "apart,same", "apart", "apart,same,reverse"

	base := []sc{
		// the same address claimed by two nodes
		{"addr-claimed-by-two-nodes", both, nil, TH{{S("n1@a1")}, {S("n2@a1")}}},
		{"addr-claimed-by-two-nodes-read-back", both, nil, TH{{S("n1@a1"), G(1)}, {S("n2@a1"), G(1)}}},
		{"addr-claimed-by-two-nodes-lists", both, nil, TH{{S("n1@a1")}, {S("n2@a1")}, {ML(1), ML(2)}}},
		{"addr-claimed-by-two-nodes-lists-rev", apart, nil, TH{{S("n1@a1")}, {S("n2@a1")}, {ML(2), ML(1)}}},
		{"takeover-lists", both, I("n1@a1"), TH{{S("n2@a1")}, {ML(1), ML(2)}}},
		{"takeover-lists-rev", both, I("n1@a1"), TH{{S("n2@a1")}, {ML(2), ML(1)}}},
		{"takeover-lookup-then-list", both, I("n1@a1"), TH{{S("n2@a1")}, {G(1), MO(2, 1)}}},
		{"takeover-list-then-lookup", both, I("n1@a1"), TH{{S("n2@a1")}, {MO(1, 1), G(1)}}},
		{"takeover-and-back", both, I("n1@a1"), TH{{S("n2@a1"), S("n1@a1")}, {MO(1, 1), MO(2, 1)}}},
		{"takeover-races-leave-of-other-addr", both, I("n1@a1", "n1@a2"), TH{{S("n2@a1")}, {R(2)}, {ML(1), ML(2)}}},
		{"takeover-races-leave-of-same-addr", both, I("n1@a1"), TH{{S("n2@a1")}, {R(1)}, {ML(1), ML(2)}}},
		{"two-takeovers-crossed", both, I("n1@a1", "n2@a3"), TH{{S("n2@a1"), ML(1)}, {S("n1@a3"), ML(2)}}},

		// two addresses of one node
		{"two-addrs-of-one-node", both, nil, TH{{S("n1@a1")}, {S("n1@a2")}}},
		{"two-addrs-of-one-node-lists", both, nil, TH{{S("n1@a1"), MO(1, 2)}, {S("n1@a2"), MO(1, 1)}}},
		{"two-addrs-of-one-node-reader", both, nil, TH{{S("n1@a1")}, {S("n1@a2")}, {ML(1), MO(1, 1)}}},
		{"two-addrs-join-and-leave", both, I("n1@a1"), TH{{S("n1@a2")}, {R(1)}, {MO(1, 1), MO(1, 2)}}},
		{"two-addrs-both-leave", both, I("n1@a1", "n1@a2"), TH{{R(1), ML(1)}, {R(2), ML(1)}}},
		{"three-addrs-of-one-node", apart, I("n1@a3"), TH{{S("n1@a1")}, {S("n1@a2")}, {R(3)}}},

		// leave racing a re-join
		{"leave-races-rejoin", both, I("n1@a1"), TH{{R(1)}, {S("n1@a1")}}},
		{"leave-races-rejoin-read-back", both, I("n1@a1"), TH{{R(1), E(1)}, {S("n1@a1"), ML(1)}}},
		{"leave-races-rejoin-reader", both, I("n1@a1"), TH{{R(1)}, {S("n1@a1")}, {E(1), ML(1)}}},
		{"leave-races-rejoin-reader-rev", apart, I("n1@a1"), TH{{R(1)}, {S("n1@a1")}, {ML(1), G(1)}}},
		{"same-member-joined-twice", both, nil, TH{{S("n1@a1")}, {S("n1@a1")}, {ML(1), E(1)}}},
		{"double-leave", both, I("n1@a1", "n1@a2"), TH{{R(1)}, {R(1)}, {MO(1, 1)}}},
		{"join-leave-twice", both, nil, TH{{S("n1@a1"), R(1)}, {S("n1@a1"), R(1)}}},
		{"join-leave-vs-existence", both, nil, TH{{S("n1@a1"), R(1)}, {E(1), E(1)}}},
		{"join-leave-vs-list", both, nil, TH{{S("n1@a1"), R(1)}, {ML(1), ML(1)}}},
		{"join-vs-lookup-and-list", both, nil, TH{{S("n1@a1")}, {ML(1), E(1)}, {G(1), MO(1, 1)}}},
		{"leave-vs-lookup-and-list", both, I("n1@a1"), TH{{R(1)}, {ML(1), E(1)}, {G(1), MO(1, 1)}}},

		// crossed orders over two addresses / two nodes
		{"crossed-joins", both, nil, TH{{S("n1@a1"), S("n2@a3")}, {S("n2@a1"), S("n1@a3")}}},
		{"crossed-join-leave", both, I("n2@a3"), TH{{S("n1@a1"), R(3)}, {S("n1@a3"), R(1)}}},

		// Traverse (judged per address)
		{"traverse-two-joins", all, nil, TH{{S("n1@a1"), S("n1@a2")}, {T}}},
		{"traverse-leave-join", all, I("n1@a1"), TH{{R(1), S("n2@a3")}, {T}}},
		{"traverse-takeover", both, I("n1@a1", "n1@a2"), TH{{S("n2@a1")}, {R(2)}, {T}}},
		{"traverse-then-lookup", both, nil, TH{{S("n1@a1")}, {T, E(1)}}},

		// mixed address forms: joined by the 16 bytes form; the leave and the re-join come by the 4 bytes form
		// (what memberlist events carry), the reader asks by the 16 bytes form and lists by the 4 bytes form
		{"mixed-forms-leave-races-rejoin", both, I("n1@a1"), TH{{ip4(R(1))}, {S("n1@a1~ip4")}, {E(1), ip4(MO(1, 1))}}},
	}

	var out []c37cScenario

	for _, b := range base {
		for _, p := range strings.Split(b.placements, ",") {
			out = append(out, c37cScenario{name: b.name, placement: p, init: b.init, threads: b.threads})
		}
	}

	return out
}

func TestVerifC37Conc(t *testing.T) {
	r := vlib.Start("C37")
	defer r.Finish()

	r.Rule("concurrent half: scenario = 2-3 threads x 1-2 calls of Set/Remove/Get/Exists/MembersLen/MembersLenOthers/Traverse over members that collide " +
		"(one address claimed by two nodes, two addresses of one node, leave racing re-join), on a fresh real membersPool with pinned shard placement (own shard per key / all keys in one shard); " +
		"all interleavings within the preemption bound; oracle = table internally consistent at quiescence + linearizability of the call/return history incl. return values and the table at quiescence " +
		"against the map address -> member (Traverse judged per address); states = distinct (scenario, outcome); non-trivial = a scenario with more than one outcome")
	r.Assume("the cooperative scheduler serialises threads at Lock/RLock/atomic operations of util/lock.go: data races on unsynchronised memory are not observable")

	bound := vlib.Pick(r, 2, 3)
	if v := os.Getenv("VERIF_C37C_BOUND"); v != "" { // tuning aid only; never set by run.sh
		fmt.Sscanf(v, "%d", &bound)
	}

	r.Set("conc_preemption_bound", bound)

	env := c37cNewEnv(t)
	scs := env.scenarios()
	r.Set("conc_scenarios_enumerated", len(scs))

	for i, s := range scs {
		if !r.Mine(i) || r.Expired() {
			continue
		}

		s := s
		id := "conc/" + env.scenarioID(s)

		n := 0
		for _, th := range s.threads {
			n += len(th)
		}

		if n > 6 {
			panic("scenario with more than 6 calls: " + id)
		}

		verdicts := map[string]*vsched.Fail{}
		build := func() vsched.Scenario { return env.build(s, verdicts) }

		if rid, rp := r.Replaying(); rp {
			k := strings.LastIndex(rid, "#")
			if k < 0 || rid[:k] != id {
				continue
			}

			sc := build()
			x := vsched.Run(vsched.Options{Prefix: vsched.ParseChoices(rid[k+1:])}, sc.Roots...)
			r.Trace()

			if f := sc.Check(x); f != nil {
				r.Violation(rid, f.Sig, f.Detail, nil)
			}

			continue
		}

		res := vsched.Explore(vsched.Config{Name: id, Bound: bound, Build: build, Expired: r.Expired, MaxFound: 2, Horizon: 5000})
		if res.EngineError != "" {
			panic("engine error in " + id + ": " + res.EngineError)
		}

		r.TraceN(res.Executions)
		r.TransitionN(res.Points)
		r.EvalN(res.Executions)
		r.Add("conc_scenarios", 1)

		if res.Capped != "" {
			r.Cap(res.Capped)
		} else {
			r.Min("conc_preemption_bound_completed", int64(res.BoundCompleted))
		}

		r.Max("conc_max_points_per_execution", int64(res.MaxPoints))

		if len(res.Outcomes) > 1 {
			r.Nontrivial(id)
		}

		for o := range res.Outcomes {
			r.State(id + "=>" + o)
			r.Outcome("conc:" + s.name + ":" + strings.SplitN(o, "=>", 2)[0])
		}

		for _, f := range res.Found {
			r.Violation(id+"#"+vsched.ChoicesString(f.Choices), f.Fail.Sig, f.Fail.Detail+fmt.Sprintf(" (preemptions=%d)", f.Preempt), nil)
		}

		r.Sample(map[string]any{"scenario": id, "executions": res.Executions, "distinct_outcomes": len(res.Outcomes), "max_points": res.MaxPoints})
	}
}
