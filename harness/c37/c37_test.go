//go:build verif

package quicmemberlist

import (
	"fmt"
	"net"
	"sort"
	"strings"
	"testing"

	"github.com/spikeekips/mitum/base"
	"github.com/spikeekips/mitum/zzverif/vlib"
)

// C37: the memberlist member table (membersPool) reports a member as present
// exactly when it was joined (Set) and not yet left (Remove / Empty); Get
// reports found for present members; the per-node member lists hold exactly
// the present members of that node, without duplicates.
//
// BFS over Set(member) / Remove(addr) / Empty histories on a fresh real
// membersPool per history; after every transition all read-only observers are
// compared with a map model.

type c37Member struct {
	label string
	node  string
	addr  *net.UDPAddr
	m     Member
}

type c37Event struct {
	op string // set | remove | empty
	i  int    // member index (set) or address index (remove)
}

func c37Addr(i int) *net.UDPAddr {
	return &net.UDPAddr{IP: net.IPv4(10, 0, 0, byte(i)), Port: 4000 + i}
}

func TestVerifC37(t *testing.T) {
	r := vlib.Start("C37")
	defer r.Finish()
	r.Rule("BFS over histories of Set(member) / Remove(addr) / Empty on a fresh membersPool, dedup on the sorted dump of the pool's two maps; " +
		"non-trivial = a transition after which some node has a present member and the event touched an address or node that was already present (re-join, address taken over, leave of a multi-address node)")
	r.Assume("member objects are real BaseMember values from NewMember with fixed node addresses and keys; memberid(addr) is the table key as in the code")

	depth := vlib.Pick(r, 4, 6)

	// node, address index
	spec := [][2]int{{1, 1}, {1, 2}, {2, 3}, {2, 1}}
	if r.Thorough() {
		spec = append(spec, [2]int{1, 3})
	}

	naddrs := 3
	nodeaddrs := []base.Address{base.NewStringAddress("node1-c37"), base.NewStringAddress("node2-c37")}
	nodes := []string{nodeaddrs[0].String(), nodeaddrs[1].String()} // the table's per-node key is Address().String()

	priv, err := base.NewMPrivatekeyFromSeed("c37-fixed-seed-for-member-key-0123456789abcdef")
	if err != nil {
		t.Fatal(err)
	}

	members := make([]c37Member, len(spec))

	for i, s := range spec {
		node := nodes[s[0]-1]
		addr := c37Addr(s[1])

		m, err := NewMember(
			fmt.Sprintf("n%d@a%d", s[0], s[1]),
			addr,
			nodeaddrs[s[0]-1],
			priv.Publickey(),
			"",
			true,
		)
		if err != nil {
			t.Fatal(err)
		}

		members[i] = c37Member{label: fmt.Sprintf("n%d@a%d", s[0], s[1]), node: node, addr: addr, m: m}
	}

	var alphabet []c37Event
	for i := range members {
		alphabet = append(alphabet, c37Event{"set", i})
	}

	for i := 1; i <= naddrs; i++ {
		alphabet = append(alphabet, c37Event{"remove", i})
	}

	alphabet = append(alphabet, c37Event{"empty", 0})

	name := func(e c37Event) string {
		switch e.op {
		case "set":
			return "set:" + members[e.i].label
		case "remove":
			return fmt.Sprintf("remove:a%d", e.i)
		default:
			return "empty"
		}
	}

	r.Set("depth", depth)
	r.Set("alphabet", len(alphabet))
	r.Set("members", func() []string {
		var l []string
		for _, m := range members {
			l = append(l, m.label)
		}

		return l
	}())

	// the model: address id -> member index
	apply := func(pool *membersPool, model map[string]int, e c37Event) (ret bool) {
		switch e.op {
		case "set":
			ret = pool.Set(members[e.i].m)
			model[memberid(members[e.i].addr)] = e.i
		case "remove":
			ret, _ = pool.Remove(c37Addr(e.i))
			delete(model, memberid(c37Addr(e.i)))
		case "empty":
			pool.Empty()

			for k := range model {
				delete(model, k)
			}
		}

		return ret
	}

	shard, nshards := r.Shard()

	frontier := [][]c37Event{nil}

	c37seen(c37Dump(newMembersPool()))

	if shard == 0 {
		r.State(c37Dump(newMembersPool()))
	}

	for d := 1; d <= depth && len(frontier) > 0; d++ {
		var next [][]c37Event

		for fi, hist := range frontier {
			if r.Expired() {
				return
			}

			// every shard walks the whole (small) BFS so that the dedup is
			// global; the oracle work and all counters are done by the owner
			// of the parent history only.
			mine := nshards <= 1 || fi%nshards == shard

			for _, ev := range alphabet {
				var sb strings.Builder

				for _, pe := range hist {
					sb.WriteString(name(pe))
					sb.WriteString("/")
				}

				sb.WriteString(name(ev))
				path := sb.String()

				if !r.WantPrefix(path) {
					continue
				}

				pool := newMembersPool()
				model := map[string]int{}

				for _, pe := range hist {
					apply(pool, model, pe)
				}

				before := map[string]int{}
				for k, v := range model {
					before[k] = v
				}

				apply(pool, model, ev)

				key := c37Dump(pool)

				if mine {
					r.Transition()
					c37Check(r, path, pool, model, before, ev, members, nodes, naddrs)
				}

				// deterministic in every shard, so a new state has exactly one owner
				if c37seen(key) {
					if mine {
						r.State(key)
					}

					nh := make([]c37Event, len(hist)+1)
					copy(nh, hist)
					nh[len(hist)] = ev
					next = append(next, nh)
				}
			}

			if mine {
				r.Trace()
			}
		}

		r.Max("depth_completed", int64(d))
		frontier = next
	}
}

var c37seenKeys = map[string]struct{}{}

// c37seen registers key in the process-local (all shards identical) dedup set; true if new.
func c37seen(key string) bool {
	if _, ok := c37seenKeys[key]; ok {
		return false
	}

	c37seenKeys[key] = struct{}{}

	return true
}

// c37Dump: the two maps of the pool, sorted. All methods read nothing else, and
// none depends on the order inside a per-node list, so pools with equal dumps
// answer every future event alike.
func c37Dump(pool *membersPool) string {
	var lines []string

	pool.addrs.Traverse(func(k string, v Member) bool {
		lines = append(lines, fmt.Sprintf("addr %s -> %s@%s", k, v.Address(), memberid(v.Addr())))

		return true
	})

	pool.members.Traverse(func(k string, v []Member) bool {
		var l []string
		for _, m := range v {
			l = append(l, m.Address().String()+"@"+memberid(m.Addr()))
		}

		sort.Strings(l)
		lines = append(lines, fmt.Sprintf("node %s -> %v", k, l))

		return true
	})

	sort.Strings(lines)

	return strings.Join(lines, "\n")
}

func c37Check(
	r *vlib.Run, path string, pool *membersPool, model, before map[string]int,
	ev c37Event, members []c37Member, nodes []string, naddrs int,
) {
	// structural class of the event, for signatures
	evclass := ev.op

	switch ev.op {
	case "set":
		id := memberid(members[ev.i].addr)

		switch prev, was := before[id]; {
		case !was:
			evclass = "set-new-addr"
		case members[prev].node == members[ev.i].node:
			evclass = "set-present-addr-same-node"
		default:
			evclass = "set-present-addr-other-node"
		}
	case "remove":
		id := memberid(c37Addr(ev.i))

		switch prev, was := before[id]; {
		case !was:
			evclass = "remove-absent"
		default:
			n := 0

			for _, mi := range before {
				if members[mi].node == members[prev].node {
					n++
				}
			}

			if n > 1 {
				evclass = "remove-one-of-several"
			} else {
				evclass = "remove-last-of-node"
			}
		}
	}

	if len(model) > 0 && (strings.HasPrefix(evclass, "set-present") || evclass == "remove-one-of-several") {
		r.Nontrivial(path)
	}

	bad := false
	vio := func(sig map[string]any, detail string) {
		bad = true
		sig["after"] = evclass
		r.Violation(path, sig, "history "+path+": "+detail, map[string]any{"path": path})
	}

	// presence by address
	for a := 1; a <= naddrs; a++ {
		addr := c37Addr(a)
		mi, present := model[memberid(addr)]

		if got := pool.Exists(addr); got != present {
			vio(map[string]any{"kind": "exists", "got": got}, fmt.Sprintf("Exists(a%d)=%v, model present=%v", a, got, present))
		}

		switch gm, found := pool.Get(addr); {
		case found != present:
			vio(map[string]any{"kind": "get-found", "got": found}, fmt.Sprintf("Get(a%d) found=%v, model present=%v", a, found, present))
		case present && (gm == nil || gm.Address().String() != members[mi].node || memberid(gm.Addr()) != memberid(addr)):
			vio(map[string]any{"kind": "get-member"}, fmt.Sprintf("Get(a%d) returned %v, model %s", a, gm, members[mi].label))
		}
	}

	if got := pool.Len(); got != len(model) {
		vio(map[string]any{"kind": "len"}, fmt.Sprintf("Len()=%d, model %d", got, len(model)))
	}

	// Traverse = exactly the present members
	var trav, want []string

	pool.Traverse(func(m Member) bool {
		trav = append(trav, m.Address().String()+"@"+memberid(m.Addr()))

		return true
	})

	for id, mi := range model {
		want = append(want, members[mi].node+"@"+id)
	}

	sort.Strings(trav)
	sort.Strings(want)

	if strings.Join(trav, ",") != strings.Join(want, ",") {
		vio(map[string]any{"kind": "traverse"}, fmt.Sprintf("Traverse=%v, model %v", trav, want))
	}

	// per-node lists
	for _, node := range nodes {
		var wantl []string

		for id, mi := range model {
			if members[mi].node == node {
				wantl = append(wantl, id)
			}
		}

		sort.Strings(wantl)

		var gotl []string

		if l, found := pool.members.Value(node); found {
			for _, m := range l {
				gotl = append(gotl, memberid(m.Addr()))

				if m.Address().String() != node {
					vio(map[string]any{"kind": "node-list", "class": "foreign-member"}, fmt.Sprintf("list of %s holds %s@%s", node, m.Address(), memberid(m.Addr())))
				}
			}
		}

		sort.Strings(gotl)

		if strings.Join(gotl, ",") != strings.Join(wantl, ",") {
			class := c37ListClass(gotl, wantl)
			vio(map[string]any{"kind": "node-list", "class": class},
				fmt.Sprintf("member list of %s = %v, model (present members of the node) = %v", node, gotl, wantl))
		}

		naddr, err := base.ParseStringAddress(node)
		if err != nil {
			panic(err)
		}

		if got := pool.MembersLen(naddr); got != len(wantl) {
			vio(map[string]any{"kind": "members-len", "class": c37Dir(got, len(wantl))}, fmt.Sprintf("MembersLen(%s)=%d, model %d", node, got, len(wantl)))
		}

		for a := 1; a <= naddrs; a++ {
			id := memberid(c37Addr(a))

			wfound := false
			wothers := 0

			for _, w := range wantl {
				if w == id {
					wfound = true
				} else {
					wothers++
				}
			}

			n, others, found := pool.MembersLenOthers(naddr, c37Addr(a))
			if n != len(wantl) || others != wothers || found != wfound {
				vio(map[string]any{"kind": "members-len-others", "class": c37Dir(n, len(wantl))},
					fmt.Sprintf("MembersLenOthers(%s,a%d)=(%d,%d,%v), model (%d,%d,%v)", node, a, n, others, found, len(wantl), wothers, wfound))
			}
		}
	}

	if len(model) > 0 && (strings.Count(path, "/") >= 1 || ev.op == "set") {
		r.Sample(map[string]any{"history": path, "event_class": evclass, "model_present": want, "table_traverse": trav, "all_observers_agree": !bad})
	}

	switch {
	case bad:
		r.Outcome("violation/" + evclass)
	default:
		r.Outcome(fmt.Sprintf("ok/%s/present=%d", evclass, len(model)))
	}
}

func c37Dir(got, want int) string {
	switch {
	case got > want:
		return "over"
	case got < want:
		return "under"
	default:
		return "equal"
	}
}

// c37ListClass: duplicate (an address twice), stale (an address that is not a
// present member of the node), missing (a present member is not listed); joined by '+'.
func c37ListClass(got, want []string) string {
	var cls []string

	seen := map[string]int{}
	for _, g := range got {
		seen[g]++
	}

	wantset := map[string]bool{}
	for _, w := range want {
		wantset[w] = true
	}

	dup, stale, missing := false, false, false

	for g, n := range seen {
		if n > 1 {
			dup = true
		}

		if !wantset[g] {
			stale = true
		}
	}

	for _, w := range want {
		if seen[w] == 0 {
			missing = true
		}
	}

	if dup {
		cls = append(cls, "duplicate")
	}

	if stale {
		cls = append(cls, "stale")
	}

	if missing {
		cls = append(cls, "missing")
	}

	return strings.Join(cls, "+")
}
