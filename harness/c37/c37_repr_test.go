//go:build verif

package quicmemberlist

import (
	"fmt"
	"net"
	"sort"
	"strings"
	"testing"

	"github.com/spikeekips/mitum/base"
	"github.com/spikeekips/mitum/util/logging"
	"github.com/spikeekips/mitum/zzverif/vlib"
)

// C37 (address representation, sequential): one member address can reach the
// table in more than one in-memory form. Go keeps an IPv4 address either as a
// 4 bytes net.IP (To4(), ListenUDP().LocalAddr(), memberlist.Node.Addr after
// FinalAdvertiseAddr) or as a 16 bytes net.IP (net.IPv4(), net.ParseIP(),
// net.ResolveUDPAddr() - everything parsed from a design / conninfo string);
// "no IP" is a nil or an empty slice. The property speaks about addresses, not
// about byte slices: a member joined by one form is present, found and listed
// when asked by the other form, leaves when the other form leaves, and a
// re-join by the other form is a re-join (no second entry, no duplicate in the
// member list of its node).
//
// The universe also holds the neighbours an address key can be confused with:
// the same IP on another port, another IP family on the same port (IPv6
// link-local with a zone, IPv6 global, no IP at all).
//
// Part 1 (pool): BFS over Set(member in form f) / Remove(address in form f) /
// Empty on a fresh real membersPool; after every transition every observer is
// asked in EVERY form of every address and compared with the model
// logical address -> (node, form joined last).
// Part 2 (wrapper): the same through Memberlist.whenJoined / whenLeft and the
// wrapper's readers (Exists, MembersLen, Members, Remotes, RemotesLen,
// WhenLeftFunc), the pool behind it is checked with part 1's observers.
//
// The model never calls memberid(): which logical address a *net.UDPAddr is, is
// decided by c37rSame (IP.Equal - Go's own "same address in either form" -,
// port, zone).
//
// This file uses the prefix c37r.

type c37rForm struct {
	name string // ip4 | ip16 | ip6z | ip6 | nil | empty
	addr *net.UDPAddr
}

type c37rAddr struct {
	label string // a1 ..
	class string // ipv4 | ipv6-zone | ipv6 | no-ip
	forms []c37rForm
}

type c37rMember struct {
	node, a, f int // 0-based
	name       string
	label      string
	m          Member
}

type c37rEnv struct {
	addrs     []c37rAddr
	nodeaddrs []base.Address
	nodes     []string
	members   []c37rMember
	byKey     map[[3]int]int
}

// c37rSame: are x and y the same UDP address, whatever the representation.
func c37rSame(x, y *net.UDPAddr) bool {
	switch {
	case x == nil || y == nil:
		return false
	case x.Port != y.Port || x.Zone != y.Zone:
		return false
	case len(x.IP) == 0 || len(y.IP) == 0:
		return len(x.IP) == 0 && len(y.IP) == 0
	default:
		return x.IP.Equal(y.IP)
	}
}

func c37rSameForm(x, y *net.UDPAddr) bool {
	return c37rSame(x, y) && len(x.IP) == len(y.IP) && (x.IP == nil) == (y.IP == nil)
}

func c37rUniverse(thorough bool) []c37rAddr {
	v4 := func(label string, d byte, port int) c37rAddr {
		return c37rAddr{label: label, class: "ipv4", forms: []c37rForm{
			{"ip4", &net.UDPAddr{IP: net.IP{10, 0, 0, d}, Port: port}},      // 4 bytes
			{"ip16", &net.UDPAddr{IP: net.IPv4(10, 0, 0, d), Port: port}}, // 16 bytes, ::ffff:10.0.0.d
		}}
	}

	l := []c37rAddr{
		v4("a1", 1, 4001),
		v4("a2", 1, 4002), // the IP of a1 on another port
		{label: "a3", class: "ipv6-zone", forms: []c37rForm{ // the port of a1, IPv6 link-local with a zone
			{"ip6z", &net.UDPAddr{IP: net.ParseIP("fe80::3"), Port: 4001, Zone: "eth0"}},
		}},
		{label: "a4", class: "no-ip", forms: []c37rForm{ // the port of a1, no IP
			{"nil", &net.UDPAddr{IP: nil, Port: 4001}},
			{"empty", &net.UDPAddr{IP: net.IP{}, Port: 4001}},
		}},
	}

	if thorough {
		l = append(l, c37rAddr{label: "a5", class: "ipv6", forms: []c37rForm{ // the port of a2, IPv6 global
			{"ip6", &net.UDPAddr{IP: net.ParseIP("2001:db8::5"), Port: 4002}},
		}})
	}

	return l
}

func c37rNewEnv(t *testing.T, thorough bool) *c37rEnv {
	env := &c37rEnv{addrs: c37rUniverse(thorough), byKey: map[[3]int]int{}}

	// the fixture must be what it claims to be
	for i, a := range env.addrs {
		for fi, f := range a.forms {
			for j, b := range env.addrs {
				for gi, g := range b.forms {
					if same := c37rSame(f.addr, g.addr); same != (i == j) {
						t.Fatalf("fixture: %s/%s vs %s/%s: same=%v", a.label, f.name, b.label, g.name, same)
					}

					if i == j && fi != gi && c37rSameForm(f.addr, g.addr) {
						t.Fatalf("fixture: %s/%s and %s/%s are one form", a.label, f.name, b.label, g.name)
					}
				}
			}
		}
	}

	if a := env.addrs[0]; len(a.forms[0].addr.IP) != net.IPv4len || len(a.forms[1].addr.IP) != net.IPv6len ||
		a.forms[0].addr.String() != a.forms[1].addr.String() {
		t.Fatalf("fixture: a1 is not one IPv4 address in the 4 and the 16 bytes form")
	}

	env.nodeaddrs = []base.Address{base.NewStringAddress("node1-c37"), base.NewStringAddress("node2-c37")}
	env.nodes = []string{env.nodeaddrs[0].String(), env.nodeaddrs[1].String()}

	priv, err := base.NewMPrivatekeyFromSeed("c37-fixed-seed-for-member-key-0123456789abcdef")
	if err != nil {
		t.Fatal(err)
	}

	for n := range env.nodes {
		for a := range env.addrs {
			for f := range env.addrs[a].forms {
				// the memberlist name of a node does not depend on how its IP is stored
				name := fmt.Sprintf("n%d@%s", n+1, env.addrs[a].label)

				// publish is given, so that the conninfo is not derived from the (possibly empty) IP
				m, err := NewMember(name, env.addrs[a].forms[f].addr, env.nodeaddrs[n], priv.Publickey(), "10.9.9.9:4999", true)
				if err != nil {
					t.Fatal(err)
				}

				env.byKey[[3]int{n, a, f}] = len(env.members)
				env.members = append(env.members, c37rMember{
					node: n, a: a, f: f, name: name, label: name + "/" + env.addrs[a].forms[f].name, m: m,
				})
			}
		}
	}

	return env
}

func (env *c37rEnv) addr(a, f int) *net.UDPAddr { return env.addrs[a].forms[f].addr }

// where: which logical address and which form of the universe is addr; -1 if none.
func (env *c37rEnv) where(addr *net.UDPAddr) (a, f int) {
	for i := range env.addrs {
		for j := range env.addrs[i].forms {
			if c37rSameForm(env.addrs[i].forms[j].addr, addr) {
				return i, j
			}
		}
	}

	return -1, -1
}

func (env *c37rEnv) nodeIndex(s string) int {
	for i := range env.nodes {
		if env.nodes[i] == s {
			return i
		}
	}

	return -1
}

// what: "n1@a1/ip4" of a member handed out by the table.
func (env *c37rEnv) what(m Member) string {
	if m == nil {
		return "nil"
	}

	a, f := env.where(m.Addr())
	n := env.nodeIndex(m.Address().String())

	if a < 0 || n < 0 {
		return "foreign:" + m.Address().String() + "@" + m.Addr().String()
	}

	return fmt.Sprintf("n%d@%s/%s", n+1, env.addrs[a].label, env.addrs[a].forms[f].name)
}

// ---- model: logical address -> (node, form joined last)

type c37rEntry struct{ node, form int }

type c37rModel map[int]c37rEntry

func (m c37rModel) clone() c37rModel {
	c := c37rModel{}
	for k, v := range m {
		c[k] = v
	}

	return c
}

func (env *c37rEnv) nodeList(m c37rModel, node int) []string {
	var l []string

	for a, e := range m {
		if e.node == node {
			l = append(l, env.addrs[a].label)
		}
	}

	sort.Strings(l)

	return l
}

func (env *c37rEnv) present(m c37rModel) []string {
	var l []string

	for a, e := range m {
		l = append(l, fmt.Sprintf("n%d@%s", e.node+1, env.addrs[a].label))
	}

	sort.Strings(l)

	return l
}

// ---- events

type c37rEvent struct {
	op      string // set | remove | empty   (wrapper: joined | left)
	n, a, f int
}

func (env *c37rEnv) evName(e c37rEvent) string {
	switch e.op {
	case "set", "joined":
		return e.op + ":" + env.members[env.byKey[[3]int{e.n, e.a, e.f}]].label
	case "remove", "left":
		return fmt.Sprintf("%s:%s/%s", e.op, env.addrs[e.a].label, env.addrs[e.a].forms[e.f].name)
	default:
		return e.op
	}
}

type c37rTarget struct {
	pool *membersPool
	srv  *Memberlist // wrapper mode only
	left []string    // names WhenLeftFunc got during the last event
}

func (env *c37rEnv) fresh(mode string) *c37rTarget {
	tg := &c37rTarget{}

	if mode == "pool" {
		tg.pool = newMembersPool()

		return tg
	}

	// the local member is n1@a2, known from its design: the parsed (16 bytes) form
	tg.srv = &Memberlist{
		Logging: logging.NewLogging(nil),
		local:   env.members[env.byKey[[3]int{0, 1, 1}]].m,
		args: &MemberlistArgs{WhenLeftFunc: func(m Member) {
			tg.left = append(tg.left, env.what(m))
		}},
		members: newMembersPool(),
	}
	tg.srv.delegate = NewDelegate(tg.srv.local, tg.srv.MembersLen, nil)
	tg.pool = tg.srv.members

	return tg
}

// apply one event to the real object and to the model; ret is what the mutator
// answered (Set: added, Remove: removed; wrapper: whether WhenLeftFunc was called).
func (env *c37rEnv) apply(tg *c37rTarget, model c37rModel, e c37rEvent) (ret bool) {
	tg.left = nil

	switch e.op {
	case "set":
		ret = tg.pool.Set(env.members[env.byKey[[3]int{e.n, e.a, e.f}]].m)
		model[e.a] = c37rEntry{node: e.n, form: e.f}
	case "remove":
		ret, _ = tg.pool.Remove(env.addr(e.a, e.f))
		delete(model, e.a)
	case "empty":
		tg.pool.Empty()

		for k := range model {
			delete(model, k)
		}
	case "joined":
		tg.srv.whenJoined(env.members[env.byKey[[3]int{e.n, e.a, e.f}]].m)
		model[e.a] = c37rEntry{node: e.n, form: e.f}
	case "left":
		// whenLeft reads only the address of the member it is given
		tg.srv.whenLeft(env.members[env.byKey[[3]int{e.n, e.a, e.f}]].m)
		delete(model, e.a)

		ret = len(tg.left) > 0
	}

	return ret
}

// dump: the two maps of the pool, sorted, every stored member with the form of
// its address. The methods of the pool read nothing else (keys, the node and
// the address bytes of the stored members) and none depends on the order inside
// a per-node list, so targets with equal dumps answer every future event alike.
func (env *c37rEnv) dump(pool *membersPool) string {
	var lines []string

	pool.addrs.Traverse(func(k string, v Member) bool {
		lines = append(lines, fmt.Sprintf("addr %s -> %s", k, env.what(v)))

		return true
	})

	pool.members.Traverse(func(k string, v []Member) bool {
		var l []string
		for _, m := range v {
			l = append(l, env.what(m))
		}

		sort.Strings(l)
		lines = append(lines, fmt.Sprintf("node %s -> %v", k, l))

		return true
	})

	sort.Strings(lines)

	return strings.Join(lines, "\n")
}

func TestVerifC37Repr(t *testing.T) {
	r := vlib.Start("C37")
	defer r.Finish()

	r.Rule("address representation: BFS over histories of Set(member whose address is in form f) / Remove(address in form f) / Empty on a fresh membersPool, and of whenJoined / whenLeft on a fresh Memberlist value, " +
		"over logical addresses that each exist in several in-memory forms (IPv4 as 4 and as 16 bytes net.IP, no IP as nil and as empty slice) next to the same IP on another port, IPv6 with a zone and IPv6 global; " +
		"dedup on the sorted dump of the pool's two maps incl. the stored forms; every observer is asked in every form after every transition; " +
		"non-trivial = a transition whose event names a present address in ANOTHER form than the one it was joined by")
	r.Assume("address representation: which logical address a *net.UDPAddr is, is decided by net.IP.Equal + port + zone (not by the memberid() under test); member names do not depend on the form")

	env := c37rNewEnv(t, r.Thorough())

	r.Set("repr_addresses", func() []string {
		var l []string

		for _, a := range env.addrs {
			var fs []string
			for _, f := range a.forms {
				fs = append(fs, fmt.Sprintf("%s(len(IP)=%d)", f.name, len(f.addr.IP)))
			}

			l = append(l, fmt.Sprintf("%s=%s %s forms=%s", a.label, a.forms[0].addr.String(), a.class, strings.Join(fs, ",")))
		}

		return l
	}())

	env.bfs(r, "pool", vlib.Pick(r, 6, 8))
	env.bfs(r, "wrap", vlib.Pick(r, 6, 8))
}

func (env *c37rEnv) alphabet(mode string) []c37rEvent {
	var l []c37rEvent

	setop, removeop := "set", "remove"
	if mode == "wrap" {
		setop, removeop = "joined", "left"
	}

	for n := range env.nodes {
		for a := range env.addrs {
			for f := range env.addrs[a].forms {
				l = append(l, c37rEvent{op: setop, n: n, a: a, f: f})
			}
		}
	}

	for a := range env.addrs {
		for f := range env.addrs[a].forms {
			l = append(l, c37rEvent{op: removeop, n: 0, a: a, f: f})
		}
	}

	if mode == "pool" {
		l = append(l, c37rEvent{op: "empty"})
	}

	return l
}

func (env *c37rEnv) bfs(r *vlib.Run, mode string, depth int) {
	alphabet := env.alphabet(mode)
	prefix := "repr-" + mode

	r.Set(prefix+"_depth", depth)
	r.Set(prefix+"_alphabet", len(alphabet))

	shard, nshards := r.Shard()

	key := func(tg *c37rTarget) string {
		k := env.dump(tg.pool)
		if tg.srv != nil {
			k += fmt.Sprintf("|joined=%v", tg.srv.IsJoined())
		}

		return k
	}

	seen := map[string]bool{}
	k0 := key(env.fresh(mode))
	seen[k0] = true

	if shard == 0 {
		r.State(prefix + ":" + k0)
	}

	frontier := [][]c37rEvent{nil}

	for d := 1; d <= depth && len(frontier) > 0; d++ {
		var next [][]c37rEvent

		for fi, hist := range frontier {
			if r.Expired() {
				return
			}

			// every shard walks the whole (small) BFS so that the dedup is global;
			// the oracle and the counters are done by the owner of the parent only
			mine := nshards <= 1 || fi%nshards == shard

			parts := make([]string, 0, len(hist)+1)
			for _, pe := range hist {
				parts = append(parts, env.evName(pe))
			}

			for _, ev := range alphabet {
				path := prefix + "/" + strings.Join(append(parts[:len(hist):len(hist)], env.evName(ev)), "/")

				if !r.WantPrefix(path) {
					continue
				}

				tg := env.fresh(mode)
				model := c37rModel{}

				for _, pe := range hist {
					env.apply(tg, model, pe)
				}

				before := model.clone()
				ret := env.apply(tg, model, ev)

				if mine {
					r.Transition()
					r.Eval()
					env.check(r, mode, path, tg, model, before, ev, ret)
				}

				if k := key(tg); !seen[k] {
					seen[k] = true

					if mine {
						r.State(prefix + ":" + k)
					}

					next = append(next, append(append([]c37rEvent{}, hist...), ev))
				}
			}

			if mine {
				r.Trace()
			}
		}

		r.Max(prefix+"_depth_completed", int64(d))
		frontier = next
	}

	if len(frontier) == 0 {
		r.Set(prefix+"_closed", "no new table state at the last level: every reachable table was expanded")
	}
}

func (env *c37rEnv) check(
	r *vlib.Run, mode, path string, tg *c37rTarget, model, before c37rModel, ev c37rEvent, ret bool,
) {
	half := "representation"
	if mode == "wrap" {
		half = "representation-wrapper"
	}

	// structural class of the event
	evclass := ev.op
	otherform := false

	prev, was := before[ev.a]
	if ev.op == "empty" {
		was = false
	}

	formrel := func() string {
		if prev.form != ev.f {
			otherform = true

			return "other-form"
		}

		return "same-form"
	}

	switch ev.op {
	case "set", "joined":
		switch {
		case !was:
			evclass += "-new-addr"
		case prev.node == ev.n:
			evclass += "-present-addr-same-node-" + formrel()
		default:
			evclass += "-present-addr-other-node-" + formrel()
		}
	case "remove", "left":
		switch {
		case !was:
			evclass += "-absent"
		case len(env.nodeList(before, prev.node)) > 1:
			evclass += "-one-of-several-" + formrel()
		default:
			evclass += "-last-of-node-" + formrel()
		}
	}

	if otherform {
		r.Nontrivial(path)
	}

	bad := false
	vio := func(sig map[string]any, detail string) {
		bad = true
		sig["half"] = half
		sig["after"] = evclass
		r.Violation(path, sig, "history "+path+": "+detail, map[string]any{"path": path})
	}

	// what the mutator answered
	switch ev.op {
	case "set":
		if ret != !was {
			vio(map[string]any{"kind": "set-return", "got": ret}, fmt.Sprintf("Set returned added=%v, address was present=%v", ret, was))
		}
	case "remove":
		if ret != was {
			vio(map[string]any{"kind": "remove-return", "got": ret}, fmt.Sprintf("Remove returned removed=%v, address was present=%v", ret, was))
		}
	case "left":
		// the left callback is told exactly when a present address left
		want := env.members[env.byKey[[3]int{ev.n, ev.a, ev.f}]].label

		switch {
		case was && (len(tg.left) != 1 || tg.left[0] != want):
			vio(map[string]any{"kind": "when-left-func", "got": len(tg.left)}, fmt.Sprintf("address was present, WhenLeftFunc calls %v", tg.left))
		case !was && len(tg.left) != 0:
			vio(map[string]any{"kind": "when-left-func", "got": len(tg.left)}, fmt.Sprintf("nothing left, WhenLeftFunc calls %v", tg.left))
		}
	case "joined":
		if len(tg.left) != 0 {
			vio(map[string]any{"kind": "when-left-func", "got": len(tg.left)}, fmt.Sprintf("nothing left, WhenLeftFunc calls %v", tg.left))
		}
	}

	env.checkPool(vio, tg.pool, model)

	if tg.srv != nil {
		env.checkWrapper(vio, tg.srv, model)
	}

	if bad {
		r.Outcome(half + ":violation/" + evclass)
	} else {
		r.Outcome(fmt.Sprintf("%s:ok/%s/present=%d", half, evclass, len(model)))
	}

	if otherform || (len(model) > 1 && strings.Count(path, "/") >= 3) {
		r.Sample(map[string]any{"history": path, "event_class": evclass, "model_present": env.present(model), "all_observers_agree": !bad})
	}
}

// asked: how the form an observer is asked by relates to the form the present member was joined by.
func (env *c37rEnv) asked(model c37rModel, a, f int) string {
	switch e, present := model[a]; {
	case !present:
		return "absent"
	case e.form == f:
		return "same-form"
	default:
		return "other-form"
	}
}

func (env *c37rEnv) checkPool(vio func(map[string]any, string), pool *membersPool, model c37rModel) {
	// presence and lookup by address, in every form
	for a := range env.addrs {
		e, present := model[a]

		for f := range env.addrs[a].forms {
			addr := env.addr(a, f)
			asked := env.asked(model, a, f)
			q := fmt.Sprintf("%s/%s", env.addrs[a].label, env.addrs[a].forms[f].name)

			if got := pool.Exists(addr); got != present {
				vio(map[string]any{"kind": "exists", "got": got, "asked": asked, "addr": env.addrs[a].class},
					fmt.Sprintf("Exists(%s)=%v, model present=%v (%s)", q, got, present, asked))
			}

			switch gm, found := pool.Get(addr); {
			case found != present:
				vio(map[string]any{"kind": "get-found", "got": found, "asked": asked, "addr": env.addrs[a].class},
					fmt.Sprintf("Get(%s) found=%v, model present=%v (%s)", q, found, present, asked))
			case present && (gm == nil || env.nodeIndex(gm.Address().String()) != e.node || !c37rSame(gm.Addr(), addr)):
				vio(map[string]any{"kind": "get-member", "asked": asked, "addr": env.addrs[a].class},
					fmt.Sprintf("Get(%s) returned %s, model n%d@%s", q, env.what(gm), e.node+1, env.addrs[a].label))
			}
		}
	}

	if got := pool.Len(); got != len(model) {
		vio(map[string]any{"kind": "len", "class": c37Dir(got, len(model))}, fmt.Sprintf("Len()=%d, model %d", got, len(model)))
	}

	// Traverse = exactly the present members, each once
	var trav []string

	pool.Traverse(func(m Member) bool {
		trav = append(trav, env.logical(m))

		return true
	})

	sort.Strings(trav)

	if want := env.present(model); strings.Join(trav, ",") != strings.Join(want, ",") {
		vio(map[string]any{"kind": "traverse", "class": c37ListClass(trav, want)}, fmt.Sprintf("Traverse=%v, model %v", trav, want))
	}

	// per-node lists = exactly the present members of the node, each once
	for n, node := range env.nodes {
		wantl := env.nodeList(model, n)

		var gotl []string

		if l, found := pool.members.Value(node); found {
			for _, m := range l {
				switch a, _ := env.where(m.Addr()); {
				case a < 0:
					gotl = append(gotl, "foreign:"+m.Addr().String())
				default:
					gotl = append(gotl, env.addrs[a].label)
				}

				if m.Address().String() != node {
					vio(map[string]any{"kind": "node-list", "class": "foreign-member"}, fmt.Sprintf("list of %s holds %s", node, env.what(m)))
				}
			}
		}

		sort.Strings(gotl)

		if strings.Join(gotl, ",") != strings.Join(wantl, ",") {
			vio(map[string]any{"kind": "node-list", "class": c37ListClass(gotl, wantl)},
				fmt.Sprintf("member list of n%d = %v, model (present members of the node) = %v", n+1, gotl, wantl))
		}

		if got := pool.MembersLen(env.nodeaddrs[n]); got != len(wantl) {
			vio(map[string]any{"kind": "members-len", "class": c37Dir(got, len(wantl))}, fmt.Sprintf("MembersLen(n%d)=%d, model %d", n+1, got, len(wantl)))
		}

		for a := range env.addrs {
			wfound, wothers := false, 0

			for _, w := range wantl {
				if w == env.addrs[a].label {
					wfound = true
				} else {
					wothers++
				}
			}

			for f := range env.addrs[a].forms {
				cnt, others, found := pool.MembersLenOthers(env.nodeaddrs[n], env.addr(a, f))
				if cnt != len(wantl) || others != wothers || found != wfound {
					asked := env.asked(model, a, f)

					vio(map[string]any{"kind": "members-len-others", "class": c37Dir(cnt, len(wantl)), "found": found, "asked": asked, "addr": env.addrs[a].class},
						fmt.Sprintf("MembersLenOthers(n%d,%s/%s)=(%d,%d,%v), model (%d,%d,%v) (%s)",
							n+1, env.addrs[a].label, env.addrs[a].forms[f].name, cnt, others, found, len(wantl), wothers, wfound, asked))
				}
			}
		}
	}
}

// logical: "n1@a1" of a member handed out by the table (the form is not part of what the property names).
func (env *c37rEnv) logical(m Member) string {
	if m == nil {
		return "nil"
	}

	a, _ := env.where(m.Addr())
	n := env.nodeIndex(m.Address().String())

	if a < 0 || n < 0 {
		return "foreign:" + m.Address().String() + "@" + m.Addr().String()
	}

	return fmt.Sprintf("n%d@%s", n+1, env.addrs[a].label)
}

func (env *c37rEnv) checkWrapper(vio func(map[string]any, string), srv *Memberlist, model c37rModel) {
	for a := range env.addrs {
		_, present := model[a]

		for f := range env.addrs[a].forms {
			if got := srv.Exists(env.addr(a, f)); got != present {
				asked := env.asked(model, a, f)

				vio(map[string]any{"kind": "wrapper-exists", "got": got, "asked": asked, "addr": env.addrs[a].class},
					fmt.Sprintf("Memberlist.Exists(%s/%s)=%v, model present=%v (%s)", env.addrs[a].label, env.addrs[a].forms[f].name, got, present, asked))
			}
		}
	}

	want := env.present(model)

	var wantremotes []string

	for _, w := range want {
		if w != srv.local.Name() {
			wantremotes = append(wantremotes, w)
		}
	}

	if got := srv.MembersLen(); got != len(want) {
		vio(map[string]any{"kind": "wrapper-members-len", "class": c37Dir(got, len(want))}, fmt.Sprintf("Memberlist.MembersLen()=%d, model %d", got, len(want)))
	}

	if got := srv.RemotesLen(); got != len(wantremotes) {
		vio(map[string]any{"kind": "wrapper-remotes-len", "class": c37Dir(got, len(wantremotes))}, fmt.Sprintf("Memberlist.RemotesLen()=%d, model %d", got, len(wantremotes)))
	}

	var got, gotremotes []string

	srv.Members(func(m Member) bool { got = append(got, env.logical(m)); return true })
	srv.Remotes(func(m Member) bool { gotremotes = append(gotremotes, env.logical(m)); return true })

	sort.Strings(got)
	sort.Strings(gotremotes)

	if strings.Join(got, ",") != strings.Join(want, ",") {
		vio(map[string]any{"kind": "wrapper-members", "class": c37ListClass(got, want)}, fmt.Sprintf("Memberlist.Members=%v, model %v", got, want))
	}

	if strings.Join(gotremotes, ",") != strings.Join(wantremotes, ",") {
		vio(map[string]any{"kind": "wrapper-remotes", "class": c37ListClass(gotremotes, wantremotes)}, fmt.Sprintf("Memberlist.Remotes=%v, model %v", gotremotes, wantremotes))
	}
}
