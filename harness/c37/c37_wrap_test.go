//go:build verif

package quicmemberlist

import (
	"fmt"
	"sort"
	"strings"
	"testing"

	"github.com/spikeekips/mitum/util/logging"
	"github.com/spikeekips/mitum/zzverif/vlib"
)

// C37 (wrapper menu, sequential): the join / leave callbacks of Memberlist
// (whenJoined / whenLeft, the functions hashicorp memberlist's event delegate
// ends in) are driven instead of the pool methods, and the table is read
// through the wrapper (Exists, MembersLen, Members, Remotes, RemotesLen) and
// through the per-node lists of its pool.
//
// BFS over histories of joined(member) / left(member) on a fresh Memberlist
// value per history (no network: only the fields the two callbacks use are
// set), dedup on the sorted dump of the pool + the joined flag; compared after
// every transition with the map address -> member. WhenLeftFunc must be called
// exactly when the leaving address was present.
//
// This file uses the prefix c37w; fixtures are those of c37_conc_test.go.

type c37wEvent struct {
	op string // joined | left
	m  int
}

func c37wNew(env *c37cEnv, local int, left *[]string) *Memberlist {
	srv := &Memberlist{
		Logging: logging.NewLogging(nil),
		local:   env.members[local].m,
		args: &MemberlistArgs{WhenLeftFunc: func(m Member) {
			*left = append(*left, m.Name())
		}},
		members: newMembersPool(),
	}

	srv.delegate = NewDelegate(srv.local, srv.MembersLen, nil)

	return srv
}

func TestVerifC37Wrap(t *testing.T) {
	r := vlib.Start("C37")
	defer r.Finish()

	r.Rule("wrapper menu: BFS over histories of Memberlist.whenJoined(member) / whenLeft(member) for 5 members (2 nodes, 3 addresses, one of them the local member) on a fresh Memberlist value, " +
		"dedup on the sorted dump of its pool + the joined flag; non-trivial = a transition that re-joins a present address, moves an address to the other node, or leaves one address of a node with several")
	r.Assume("wrapper menu: the Memberlist value is built without network (logging, local member, args.WhenLeftFunc, members pool, delegate with an empty broadcast queue): these are all the fields whenJoined / whenLeft touch")

	depth := vlib.Pick(r, 5, 8)
	r.Set("wrap_depth", depth)

	if shard, _ := r.Shard(); shard != 0 {
		return
	}

	env := c37cNewEnv(t)
	local := env.member("n1@a2")

	var alphabet []c37wEvent
	for i := range env.members[:env.nbase] {
		alphabet = append(alphabet, c37wEvent{"joined", i})
	}

	for i := range env.members[:env.nbase] {
		alphabet = append(alphabet, c37wEvent{"left", i})
	}

	name := func(e c37wEvent) string { return e.op + ":" + env.members[e.m].label }

	// apply one event to the wrapper and the model; returns the names WhenLeftFunc got
	apply := func(srv *Memberlist, left *[]string, model c37cModel, e c37wEvent) (called []string, was bool) {
		*left = nil
		a := env.addrIndex(env.members[e.m].addr)
		_, was = model[a]

		switch e.op {
		case "joined":
			srv.whenJoined(env.members[e.m].m)
			model[a] = e.m
		case "left":
			srv.whenLeft(env.members[e.m].m)
			delete(model, a)
		}

		return *left, was
	}

	seen := map[string]bool{}
	frontier := [][]c37wEvent{nil}

	for d := 1; d <= depth && len(frontier) > 0; d++ {
		var next [][]c37wEvent

		for _, hist := range frontier {
			if r.Expired() {
				return
			}

			for _, ev := range alphabet {
				var parts []string
				for _, pe := range hist {
					parts = append(parts, name(pe))
				}

				path := "wrap/" + strings.Join(append(parts, name(ev)), "/")

				if !r.WantPrefix(path) {
					continue
				}

				var left []string

				srv := c37wNew(env, local, &left)
				model := c37cModel{}

				for _, pe := range hist {
					apply(srv, &left, model, pe)
				}

				before := model.clone()
				called, was := apply(srv, &left, model, ev)

				r.Transition()
				r.Eval()
				c37wCheck(r, env, path, srv, model, before, ev, called, was)

				key := fmt.Sprintf("%s|joined=%v", c37Dump(srv.members), srv.IsJoined())
				if !seen[key] {
					seen[key] = true
					r.State("wrap:" + key)

					nh := append(append([]c37wEvent{}, hist...), ev)
					next = append(next, nh)
				}
			}

			r.Trace()
		}

		r.Max("wrap_depth_completed", int64(d))
		frontier = next
	}

	if len(frontier) == 0 {
		r.Set("wrap_closed", "no new table state at the last level: every reachable table was expanded")
	}
}

func c37wCheck(
	r *vlib.Run, env *c37cEnv, path string, srv *Memberlist, model, before c37cModel,
	ev c37wEvent, called []string, was bool,
) {
	a := env.addrIndex(env.members[ev.m].addr)

	evclass := ev.op

	switch {
	case ev.op == "joined" && !was:
		evclass = "joined-new-addr"
	case ev.op == "joined" && env.members[before[a]].node == env.members[ev.m].node:
		evclass = "joined-present-addr-same-node"
	case ev.op == "joined":
		evclass = "joined-present-addr-other-node"
	case !was:
		evclass = "left-absent"
	case len(env.nodeList(before, c37wNodeIndex(env, before[a]))) > 1:
		evclass = "left-one-of-several"
	default:
		evclass = "left-last-of-node"
	}

	if strings.HasPrefix(evclass, "joined-present") || evclass == "left-one-of-several" {
		r.Nontrivial(path)
	}

	bad := false
	vio := func(kind, detail string) {
		bad = true

		r.Violation(path, map[string]any{"kind": kind, "half": "wrapper", "after": evclass}, "history "+path+": "+detail, map[string]any{"path": path})
	}

	// the left callback is told exactly when a present address left
	switch {
	case ev.op == "left" && was && (len(called) != 1 || called[0] != env.members[ev.m].label):
		vio("when-left-func", fmt.Sprintf("address was present, WhenLeftFunc calls %v", called))
	case (ev.op != "left" || !was) && len(called) != 0:
		vio("when-left-func", fmt.Sprintf("nothing left, WhenLeftFunc calls %v", called))
	}

	var want, wantremotes []string

	for a := 1; a <= env.naddrs; a++ {
		mi, present := model[a]

		if got := srv.Exists(c37Addr(a)); got != present {
			vio("exists", fmt.Sprintf("Exists(a%d)=%v, model present=%v", a, got, present))
		}

		if present {
			want = append(want, env.members[mi].label)

			if env.members[mi].label != srv.local.Name() {
				wantremotes = append(wantremotes, env.members[mi].label)
			}
		}
	}

	if got := srv.MembersLen(); got != len(model) {
		vio("members-len", fmt.Sprintf("MembersLen()=%d, model %d", got, len(model)))
	}

	if got := srv.RemotesLen(); got != len(wantremotes) {
		vio("remotes-len", fmt.Sprintf("RemotesLen()=%d, model %d", got, len(wantremotes)))
	}

	var got, gotremotes []string

	srv.Members(func(m Member) bool { got = append(got, env.label(m)); return true })
	srv.Remotes(func(m Member) bool { gotremotes = append(gotremotes, env.label(m)); return true })

	sort.Strings(got)
	sort.Strings(gotremotes)
	sort.Strings(want)
	sort.Strings(wantremotes)

	if strings.Join(got, ",") != strings.Join(want, ",") {
		vio("members", fmt.Sprintf("Members=%v, model %v", got, want))
	}

	if strings.Join(gotremotes, ",") != strings.Join(wantremotes, ",") {
		vio("remotes", fmt.Sprintf("Remotes=%v, model %v", gotremotes, wantremotes))
	}

	// table behind the wrapper: address map, per-node lists, Len
	fin, inconsistent := env.realFinal(srv.members)
	if inconsistent != "" || fin != env.final(model) {
		vio("table", fmt.Sprintf("table %s (%s), model %s", fin, inconsistent, env.final(model)))
	}

	for n := 1; n <= len(env.nodes); n++ {
		if got, want := srv.members.MembersLen(env.nodeaddrs[n-1]), len(env.nodeList(model, n)); got != want {
			vio("node-members-len", fmt.Sprintf("MembersLen(n%d)=%d, model %d", n, got, want))
		}
	}

	if bad {
		r.Outcome("wrap:violation/" + evclass)
	} else {
		r.Outcome(fmt.Sprintf("wrap:ok/%s/present=%d/joined=%v", evclass, len(model), srv.IsJoined()))
	}

	if len(model) > 1 {
		r.Sample(map[string]any{"history": path, "event_class": evclass, "model_present": want, "wrapper_members": got, "is_joined": srv.IsJoined()})
	}
}

func c37wNodeIndex(env *c37cEnv, mi int) int {
	for n := range env.nodes {
		if env.nodes[n] == env.members[mi].node {
			return n + 1
		}
	}

	panic("unknown node")
}
