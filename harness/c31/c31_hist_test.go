//go:build verif

package hint

import (
	"fmt"
	"sort"
	"strings"

	"github.com/spikeekips/mitum/util"
	"github.com/spikeekips/mitum/zzverif/vlib"
)

// Part D (lookup histories over one string alphabet): the lookups of a
// CompatibleSet take hints, hint strings, types and type strings; a string can
// be a valid hint string, a valid type, both ("aa-v1" is a type and reads as the
// hint aa-v1.0.0) or neither. BFS over histories of
//
//	add:<hint>  find:<hint>  findstr:<s>  findtype:<s>  findtypestr:<s>  parse:<s>
//
// on a fresh real CompatibleSet and a fresh package parse cache per history.
// Reference: the stateless model of part B - the registered entry with the same
// type and major and the highest registered version (by type: the highest of
// the type) - where "the hint a string stands for" is the uncached parseHint of
// the string, and a string that does not parse, or a type nothing is registered
// under, has no entry. An error answer counts as "not found". For the report
// every deviating answer is also compared with what a fresh cache-less set with
// the same registrations answers (history dependent or wrong without history).
const c31HistItemBase = 1 << 21

type c31HAnswer struct {
	value string
	hint  string
	found bool
	err   error
}

func (a c31HAnswer) String() string {
	return fmt.Sprintf("(value=%q hint=%q found=%v err=%v)", a.value, a.hint, a.found, a.err)
}

// c31StrClass: what the string is, read alone.
func c31StrClass(s string) string {
	_, perr := parseHint(s)
	isType := Type(s).IsValid(nil) == nil

	switch {
	case perr == nil && isType:
		return "hint+type"
	case perr == nil:
		return "hint"
	case isType:
		return "type"
	default:
		return "neither"
	}
}

func c31HistAlphabet(r *vlib.Run) (adds, strs []string, alphabet []c31Event) {
	adds = []string{"aa-v1.0.0", "aa-v1.2.0", "aa-v1-v1.0.0"}
	strs = []string{"aa-v1.0.0", "aa-v1.2.0", "aa-v1-v1.0.0", "aa-v1", "aa", "a"}

	if r.Thorough() {
		adds = append(adds, "aa-v2.0.0")
		strs = append(strs, "aa-v2.0.0", "aa-v1-v1", "Aa")
	}

	for _, s := range adds {
		alphabet = append(alphabet, c31Event{"add", s})
	}

	// find takes a Hint: the hints the strings stand for, each once
	seen := map[string]bool{}

	for _, s := range strs {
		ht := EnsureParseHint(s)
		if ht.IsEmpty() || seen[ht.String()] {
			continue
		}

		seen[ht.String()] = true

		alphabet = append(alphabet, c31Event{"find", ht.String()})
	}

	for _, op := range []string{"findstr", "findtype", "findtypestr", "parse"} {
		for _, s := range strs {
			alphabet = append(alphabet, c31Event{op, s})
		}
	}

	return adds, strs, alphabet
}

func c31LookupHistories(r *vlib.Run) {
	depth := vlib.Pick(r, 4, 5)
	_, strs, alphabet := c31HistAlphabet(r)

	classes := map[string]string{}
	for _, s := range strs {
		classes[s] = c31StrClass(s)
	}

	r.Set("hist_depth", depth)
	r.Set("hist_alphabet", len(alphabet))
	r.Set("hist_strings", classes)
	r.Set("hist_cache_args", []int{0, 1})

	orig := hintcache
	defer func() { hintcache = orig }()

	for ci, size := range []int{0, 1} {
		prefix := fmt.Sprintf("hist/cache=%d", size)

		for fi := range alphabet {
			if !r.Mine(c31HistItemBase + ci*len(alphabet) + fi) {
				continue
			}

			// BFS below the one-event history [alphabet[fi]]
			frontier := [][]c31Event{nil}

			for d := 1; d <= depth && len(frontier) > 0; d++ {
				var next [][]c31Event

				for _, hist := range frontier {
					if r.Expired() {
						return
					}

					for ei, ev := range alphabet {
						if d == 1 && ei != fi {
							continue
						}

						path := c31Path(prefix, hist, ev)
						if !r.WantPrefix(path) {
							continue
						}

						st, m := c31HistReplay(size, hist)

						r.Transition()

						got := c31HistApply(st, m, ev)
						key := prefix + "|" + c31Dump(st) + "\n" + c31DumpHintcache()

						c31HistOracle(r, path, size, hist, ev, m, got) // may build a fresh set and parse cache

						if r.State(key) {
							nh := make([]c31Event, len(hist)+1)
							copy(nh, hist)
							nh[len(hist)] = ev
							next = append(next, nh)
						}
					}

					r.Trace()
				}

				r.Max("hist_depth_completed", int64(d))
				frontier = next
			}
		}
	}
}

// c31HistReplay: fresh set, fresh parse cache (built by the constructor the
// package uses; 64 slots instead of 8192, more than the alphabet has strings, so
// that nothing is evicted in either), the history applied.
func c31HistReplay(size int, hist []c31Event) (*CompatibleSet[string], *c31Model) {
	hintcache = util.NewLRUGCache[string, any](64)

	st := NewCompatibleSet[string](size)
	m := &c31Model{}

	for _, ev := range hist {
		c31HistApply(st, m, ev)
	}

	return st, m
}

func c31HistApply(st *CompatibleSet[string], m *c31Model, ev c31Event) c31HAnswer {
	switch ev.op {
	case "add":
		ht := EnsureParseHint(ev.s)

		err := st.Add(ht, ev.s)
		if err == nil && m != nil {
			m.add(ht, ev.s)
		}

		return c31HAnswer{err: err}
	case "find":
		v, found := st.Find(EnsureParseHint(ev.s))

		return c31HAnswer{value: v, found: found}
	case "findstr":
		ht, v, found, err := st.FindByString(ev.s)

		return c31HAnswer{value: v, hint: ht.String(), found: found, err: err}
	case "findtype":
		ht, v, found := st.FindBytType(Type(ev.s))

		return c31HAnswer{value: v, hint: ht.String(), found: found}
	case "findtypestr":
		ht, v, found, err := st.FindBytTypeString(ev.s)

		return c31HAnswer{value: v, hint: ht.String(), found: found, err: err}
	case "parse":
		ht, err := ParseHint(ev.s)

		return c31HAnswer{hint: ht.String(), found: err == nil, err: err}
	default:
		panic("unknown event " + ev.op)
	}
}

// c31HistWant is the stateless reference answer.
func c31HistWant(m *c31Model, ev c31Event) (want c31HAnswer) {
	switch ev.op {
	case "find", "findstr":
		var ht Hint

		switch ev.op {
		case "find":
			ht = EnsureParseHint(ev.s)
		default:
			p, err := parseHint(ev.s)
			if err != nil {
				return want
			}

			ht = p
		}

		if e, found := m.best(ht.Type(), ht.Version().Major(), true); found {
			// the lookup by string hands back the hint it looked for
			return c31HAnswer{value: e.v, hint: ht.String(), found: true}
		}
	case "findtype", "findtypestr":
		if e, found := m.best(Type(ev.s), 0, false); found {
			return c31HAnswer{value: e.v, hint: e.ht.String(), found: true}
		}
	case "parse":
		if p, err := parseHint(ev.s); err == nil {
			return c31HAnswer{hint: p.String(), found: true}
		}
	}

	return want
}

func c31HistAgrees(ev c31Event, got, want c31HAnswer) bool {
	if got.found != want.found {
		return false
	}

	if !got.found {
		return true
	}

	if got.value != want.value {
		return false
	}

	// Find returns no hint
	return ev.op == "find" || got.hint == want.hint
}

func c31HistOracle(r *vlib.Run, path string, size int, hist []c31Event, ev c31Event, m *c31Model, got c31HAnswer) {
	if ev.op == "add" {
		if got.err == nil {
			r.Outcome("hist/add/ok")
		} else {
			r.Outcome("hist/add/error")
		}

		return
	}

	want := c31HistWant(m, ev)

	if want.found {
		r.Nontrivial(path)
	}

	if c31HistAgrees(ev, got, want) {
		switch {
		case got.found:
			r.Outcome("hist/" + ev.op + "/found")
		case got.err != nil:
			r.Outcome("hist/" + ev.op + "/error")
		default:
			r.Outcome("hist/" + ev.op + "/absent")
		}

		return
	}

	var class string

	switch {
	case !got.found && got.err != nil:
		class = "missed-with-error"
	case !got.found:
		class = "missed"
	case !want.found:
		class = "phantom"
	case got.value != want.value:
		class = "wrong-entry"
	default:
		class = "wrong-hint"
	}

	// what the same call answers without any lookup before it: cache-less fresh
	// set, fresh parse cache, the registrations of the history only
	var adds []c31Event

	for _, e := range hist {
		if e.op == "add" {
			adds = append(adds, e)
		}
	}

	fst, _ := c31HistReplay(0, adds)
	fresh := c31HistApply(fst, nil, ev)
	freshOK := c31HistAgrees(ev, fresh, want)

	// the event that left the answer behind: for a set lookup the latest
	// earlier event on the set (its cache has one slot), for parse the latest
	// earlier event that went through the parse cache with the same string
	prevrel := "none"

	for i := len(hist) - 1; i >= 0; i-- {
		if ev.op == "parse" && hist[i].s != ev.s {
			continue
		}

		if ev.op != "parse" && hist[i].op == "parse" {
			continue
		}

		prevrel = hist[i].op + "/other-string"
		if hist[i].s == ev.s {
			prevrel = hist[i].op + "/same-string"
		}

		break
	}

	r.Outcome("hist/" + ev.op + "/" + class)
	r.Violation(path,
		map[string]any{
			"kind": "lookup-history", "op": ev.op, "class": class, "string": c31StrClass(ev.s),
			"prev": prevrel, "history_dependent": freshOK, "set_cache": size > 0,
		},
		fmt.Sprintf("history %s: the last call answers %v; stateless reference: %v; a fresh cache-less set with the same registrations answers %v",
			path, got, want, fresh),
		map[string]any{"path": path})
}

func c31DumpHintcache() string {
	var lines []string

	hintcache.Traverse(func(k string, v any) bool {
		switch x := v.(type) {
		case error:
			lines = append(lines, fmt.Sprintf("hintcache %q error", k))
		case *Hint:
			lines = append(lines, fmt.Sprintf("hintcache %q %s", k, x.String()))
		default:
			lines = append(lines, fmt.Sprintf("hintcache %q %v", k, x))
		}

		return true
	})

	sort.Strings(lines)

	return strings.Join(lines, "\n")
}
