//go:build verif

package hint

import (
	"fmt"
	"strconv"
	"strings"

	"github.com/spikeekips/mitum/util"
	"github.com/spikeekips/mitum/zzverif/vlib"
)

// The reference for "the highest registered version": semver 2.0 precedence
// (https://semver.org/#spec-item-11), written here from the specification and
// independent of util.Version.Compare:
//
//   - major, minor, patch compared numerically;
//   - a version without prerelease is higher than the same core with one;
//   - prerelease identifiers compared left to right: numeric identifiers
//     numerically, alphanumeric ones lexically in ASCII order, a numeric one is
//     lower than an alphanumeric one, and when all shared identifiers are equal
//     the shorter list is lower;
//   - build metadata is ignored.
//
// The input is the canonical string of a util.Version ("vMAJOR.MINOR.PATCH
// [-pre][+build]", what util.Version.String() prints).
type c31RefVersion struct {
	core  [3]uint64
	pre   []string
	build string
}

func c31RefParse(s string) c31RefVersion {
	var v c31RefVersion

	if !strings.HasPrefix(s, "v") {
		panic("c31 reference: not a canonical version: " + s)
	}

	s = s[1:]

	if i := strings.IndexByte(s, '+'); i >= 0 {
		v.build = s[i+1:]
		s = s[:i]
	}

	if i := strings.IndexByte(s, '-'); i >= 0 {
		v.pre = strings.Split(s[i+1:], ".")
		s = s[:i]
	}

	core := strings.Split(s, ".")
	if len(core) != 3 {
		panic("c31 reference: not a canonical version core: " + s)
	}

	for i := range core {
		n, err := strconv.ParseUint(core[i], 10, 64)
		if err != nil {
			panic("c31 reference: " + err.Error())
		}

		v.core[i] = n
	}

	return v
}

func c31RefIsNumeric(s string) bool {
	if s == "" {
		return false
	}

	for i := 0; i < len(s); i++ {
		if s[i] < '0' || s[i] > '9' {
			return false
		}
	}

	return true
}

func c31Sign(b bool) int {
	if b {
		return -1
	}

	return 1
}

// c31RefCompare returns the precedence order of two canonical version strings
// and where the deciding difference sits (for the signature of a violation).
func c31RefCompare(as, bs string) (int, string) {
	a, b := c31RefParse(as), c31RefParse(bs)

	for i := range a.core {
		if a.core[i] != b.core[i] {
			return c31Sign(a.core[i] < b.core[i]), "core"
		}
	}

	switch {
	case len(a.pre) == 0 && len(b.pre) == 0:
		if a.build != b.build {
			return 0, "build-metadata-only"
		}

		return 0, "same"
	case len(a.pre) == 0:
		return 1, "release-vs-prerelease"
	case len(b.pre) == 0:
		return -1, "release-vs-prerelease"
	}

	for i := 0; i < len(a.pre) && i < len(b.pre); i++ {
		x, y := a.pre[i], b.pre[i]
		if x == y {
			continue
		}

		pos := "later-identifier"
		if i == 0 {
			pos = "first-identifier"
		}

		nx, ny := c31RefIsNumeric(x), c31RefIsNumeric(y)

		switch {
		case nx && ny:
			// no leading zeros in a canonical version: longer is bigger
			kind := "numeric-same-length"
			if len(x) != len(y) {
				kind = "numeric-different-length"

				return c31Sign(len(x) < len(y)), pos + "/" + kind
			}

			return c31Sign(x < y), pos + "/" + kind
		case nx != ny:
			return c31Sign(nx), pos + "/numeric-vs-alphanumeric"
		default:
			return c31Sign(x < y), pos + "/alphanumeric"
		}
	}

	if len(a.pre) != len(b.pre) {
		return c31Sign(len(a.pre) < len(b.pre)), "prerelease-shorter-list"
	}

	if a.build != b.build {
		return 0, "build-metadata-only"
	}

	return 0, "same"
}

// c31RefCmp is c31RefCompare without the description.
func c31RefCmp(as, bs string) int {
	c, _ := c31RefCompare(as, bs)

	return c
}

// c31RefSelfTest: the chain of the specification (item 11.4) and a few more;
// a reference that does not reproduce them is a harness error.
func c31RefSelfTest() {
	chain := []string{
		"v0.9.9", "v1.0.0-1", "v1.0.0-2", "v1.0.0-10", "v1.0.0-1a",
		"v1.0.0-alpha", "v1.0.0-alpha.1", "v1.0.0-alpha.beta", "v1.0.0-beta", "v1.0.0-beta.2", "v1.0.0-beta.11",
		"v1.0.0-rc.1", "v1.0.0-rc.1.1", "v1.0.0-rc.2", "v1.0.0-rc.10", "v1.0.0-rc.a", "v1.0.0", "v1.0.1-rc.1", "v1.0.1", "v1.2.0", "v1.10.0", "v2.0.0-rc.1", "v10.0.0",
	}

	for i := range chain {
		for j := range chain {
			want := 0

			switch {
			case i < j:
				want = -1
			case i > j:
				want = 1
			}

			if got := c31RefCmp(chain[i], chain[j]); got != want {
				panic(fmt.Sprintf("c31 reference self test: compare(%s, %s) = %d, the specification says %d", chain[i], chain[j], got, want))
			}
		}
	}

	if c31RefCmp("v1.0.0+a", "v1.0.0+b") != 0 || c31RefCmp("v1.0.0-rc.1+a", "v1.0.0-rc.1") != 0 {
		panic("c31 reference self test: build metadata is not ignored")
	}
}

// ---- part E: util.Version.Compare against the reference ----

const (
	c31CmpItemBase    = 1 << 22
	c31PreSetItemBase = 1 << 23
)

func c31CompareAlphabet() []string {
	return []string{
		"v0.9.9",
		"v1.0.0-1", "v1.0.0-2", "v1.0.0-10", "v1.0.0-1a", "v1.0.0-a", "v1.0.0-b", "v1.0.0-a-b",
		"v1.0.0-alpha", "v1.0.0-alpha.1", "v1.0.0-alpha.2", "v1.0.0-alpha.beta", "v1.0.0-beta", "v1.0.0-beta.2", "v1.0.0-beta.11",
		"v1.0.0-rc", "v1.0.0-rc.1", "v1.0.0-rc.1.1", "v1.0.0-rc.1.2", "v1.0.0-rc.2", "v1.0.0-rc.10", "v1.0.0-rc.a", "v1.0.0-rc.1+build", "v1.0.0-sc.1",
		"v1.0.0", "v1.0.0+build", "v1.0.0+other",
		"v1.0.1-rc.1", "v1.0.1", "v1.1.0-alpha", "v1.2.0", "v1.10.0", "v2.0.0-rc.1", "v2.0.0", "v10.0.0",
	}
}

// c31VersionCompare: for all ordered pairs of the alphabet the sign of
// util.Version.Compare must be the precedence of the reference, and
// Compare(a, b) == -Compare(b, a).
func c31VersionCompare(r *vlib.Run) {
	c31RefSelfTest()

	alphabet := c31CompareAlphabet()

	versions := make([]util.Version, len(alphabet))

	for i := range alphabet {
		v, err := util.ParseVersion(alphabet[i])
		if err != nil || v.String() != alphabet[i] {
			panic(fmt.Sprintf("c31 compare: %q is not a canonical version (%q, %v)", alphabet[i], v, err))
		}

		versions[i] = v
	}

	r.Set("cmp_versions", len(alphabet))

	sign := func(i int) int {
		switch {
		case i < 0:
			return -1
		case i > 0:
			return 1
		default:
			return 0
		}
	}

	for i := range alphabet {
		if !r.Mine(c31CmpItemBase + i) {
			continue
		}

		for j := range alphabet {
			id := "cmp/" + alphabet[i] + "/" + alphabet[j]
			if !r.Want(id) {
				continue
			}

			r.Eval()
			r.StatesN(1)

			want, where := c31RefCompare(alphabet[i], alphabet[j])
			got := sign(versions[i].Compare(versions[j]))
			back := sign(versions[j].Compare(versions[i]))

			if strings.Contains(where, "identifier") || where == "prerelease-shorter-list" {
				r.Nontrivial(id)
			}

			sig := func(class string) map[string]any {
				return map[string]any{"kind": "version-compare", "class": class, "where": where}
			}

			replay := map[string]any{"a": alphabet[i], "b": alphabet[j]}

			switch {
			case got != want:
				r.Outcome("cmp/wrong-order")
				r.Violation(id, sig("wrong-order"),
					fmt.Sprintf("Compare(%s, %s) = %d; semver precedence: %d (decided at: %s); Compare(%s, %s) = %d",
						alphabet[i], alphabet[j], got, want, where, alphabet[j], alphabet[i], back), replay)
			case got != -back:
				// reported at the pair whose own answer is right
				r.Outcome("cmp/not-antisymmetric")
				r.Violation(id, sig("not-antisymmetric"),
					fmt.Sprintf("Compare(%s, %s) = %d but Compare(%s, %s) = %d (decided at: %s)",
						alphabet[i], alphabet[j], got, alphabet[j], alphabet[i], back, where), replay)
			default:
				r.Outcome("cmp/ok/" + where)
			}
		}
	}
}

// ---- part F: the set with prerelease / build versions, registered in every order ----

func c31PreSetAlphabet(r *vlib.Run) []string {
	out := []string{
		"v1.0.0-rc.1", "v1.0.0-rc.2", "v1.0.0-rc.10", "v1.0.0-rc.a",
		"v1.0.0-alpha", "v1.0.0-alpha.1", "v1.0.0", "v1.0.0+build",
	}

	if r.Thorough() {
		out = append(out, "v1.0.0-beta", "v1.0.0-2", "v1.0.0-rc.1.1", "v1.0.1-rc.1")
	}

	return out
}

// c31PreSet: every sequence of 1..k different versions of the alphabet (one type,
// one major) is registered in a fresh set (cache argument 0 and 1); then the
// lookups by hint, by hint string and by type must answer the entry of the
// highest registered version by the reference (an entry the set refused is not
// registered; entries of equal precedence are both right).
func c31PreSet(r *vlib.Run) {
	c31RefSelfTest()

	alphabet := c31PreSetAlphabet(r)
	maxlen := vlib.Pick(r, 3, 4)

	r.Set("preset_versions", alphabet)
	r.Set("preset_max_registrations", maxlen)

	item := 0

	var seq []int

	var rec func()
	rec = func() {
		if len(seq) > 0 {
			i := item
			item++

			if r.Mine(c31PreSetItemBase+i) && !r.Expired() {
				for _, size := range []int{0, 1} {
					c31PreSetCase(r, size, alphabet, seq)
				}
			}
		}

		if len(seq) == maxlen {
			return
		}

	next:
		for i := range alphabet {
			for _, j := range seq {
				if i == j {
					continue next
				}
			}

			seq = append(seq, i)
			rec()
			seq = seq[:len(seq)-1]
		}
	}

	rec()
}

func c31PreSetCase(r *vlib.Run, size int, alphabet []string, seq []int) {
	var sb strings.Builder

	fmt.Fprintf(&sb, "preset/cache=%d", size)

	for _, i := range seq {
		sb.WriteString("/add:" + alphabet[i])
	}

	path := sb.String()
	if !r.WantPrefix(path) {
		return
	}

	st := NewCompatibleSet[string](size)
	m := &c31Model{}

	for _, i := range seq {
		ht := EnsureParseHint("aa-" + alphabet[i])
		if err := st.Add(ht, alphabet[i]); err == nil {
			m.add(ht, alphabet[i])
			r.Outcome("preset/add/ok")
		} else {
			r.Outcome("preset/add/refused")
		}
	}

	r.Trace()

	want, wfound := m.best(Type("aa"), 1, true)

	type answer struct {
		op    string
		value string
		found bool
	}

	var answers []answer

	{
		v, found := st.Find(EnsureParseHint("aa-v1.0.0"))
		answers = append(answers, answer{"find:aa-v1.0.0", v, found})
	}
	{
		_, v, found, _ := st.FindByString("aa-" + alphabet[seq[0]])
		answers = append(answers, answer{"findstr:first-registered", v, found})
	}
	{
		_, v, found := st.FindBytType(Type("aa"))
		answers = append(answers, answer{"findtype:aa", v, found})
	}
	{
		v, found := st.Find(EnsureParseHint("aa-" + alphabet[seq[len(seq)-1]]))
		answers = append(answers, answer{"find:last-registered", v, found})
	}

	for _, a := range answers {
		id := path + "/" + a.op
		if !r.Want(id) {
			continue
		}

		r.Transition()
		r.Eval()

		if len(m.entries) > 1 {
			r.Nontrivial(id)
		}

		switch {
		case a.found == wfound && (!wfound || m.equivalent(a.value, want)):
			r.Outcome("preset/" + strings.SplitN(a.op, ":", 2)[0] + "/highest")

			continue
		case !a.found:
			r.Outcome("preset/missed")
			r.Violation(id, map[string]any{"kind": "set-lookup", "alphabet": "prerelease", "op": strings.SplitN(a.op, ":", 2)[0], "class": "missed"},
				fmt.Sprintf("history %s: %s finds nothing; highest registered by semver precedence: %q", path, a.op, want.v), map[string]any{"path": id})
		default:
			class := "wrong-entry"

			where := ""

			if e, ok := m.registered(a.value); ok {
				var c int

				if c, where = c31RefCompare(e.ht.Version().String(), want.ht.Version().String()); c < 0 {
					class = "lower-version-returned"
				}
			}

			r.Outcome("preset/" + class)
			r.Violation(id, map[string]any{"kind": "set-lookup", "alphabet": "prerelease", "op": strings.SplitN(a.op, ":", 2)[0], "class": class, "where": where},
				fmt.Sprintf("history %s: %s answers %q; highest registered by semver precedence: %q (they differ at: %s)", path, a.op, a.value, want.v, where), map[string]any{"path": id})
		}
	}
}
