//go:build verif

package hint

import (
	"fmt"
	"sort"
	"strings"
	"testing"

	"github.com/spikeekips/mitum/util"
	"github.com/spikeekips/mitum/zzverif/vlib"
)

// C31: hint strings are an unambiguous encoding; CompatibleSet lookup answers
// like a cache-free model.
//
// Part A (inputs): every Type.IsValid string over a small alphabet up to length
// L, plus a boundary family of long types with the "-v<digit>" marker at every
// position, x a fixed list of versions. NewHint -> String -> ParseHint /
// EnsureParseHint / UnmarshalText must give back the same type and version;
// a parsed hint that IsValid and differs from the printed one is the second
// sentence of the statement.
//
// Part B (histories): BFS over Add / Find / FindByString / FindBytType on a fresh
// real CompatibleSet per history, against a map-only model (no cache).
func TestVerifC31(t *testing.T) {
	r := vlib.Start("C31")
	defer r.Finish()
	r.Rule("A: all strings of length 2..L over the alphabet that pass Type.IsValid, plus long types a^k-v1a^m for every k at lengths {7,8,20,99,100}, each x 6 versions; " +
		"non-trivial = the printed hint contains more than one '-v<digit>' match (type or prerelease carries the separator pattern). " +
		"B: BFS over event histories on a fresh CompatibleSet (cache arg 0, 1, 64), dedup on the dump of the real set's maps + cache; non-trivial = a lookup whose model answer is 'found'. " +
		"C: type lengths around MinTypeLength/MaxTypeLength x every printed version length from 6 to MaxVersionLength+2, 1-7 type shapes and 3-8 version shapes per length, each version also with its last character changed; non-trivial = a valid hint with the type or the version at its maximum length. " +
		"D: BFS over histories of add/find/findstr/findtype/findtypestr/parse over one alphabet of strings that are hint strings, types, both or neither, fresh set (cache arg 0, 1) and fresh parse cache per history, dedup on the dump of set maps + set cache + parse cache; non-trivial = a lookup whose stateless reference answer is 'found'. " +
		"E: all ordered pairs over 35 versions (cores, numeric / alphanumeric / mixed prerelease identifiers of equal and different length and count, build metadata) through util.Version.Compare against the semver 2.0 precedence written in the harness; non-trivial = the pair is decided inside the prerelease. " +
		"F: every sequence of 1..3 (quick) / 1..4 (thorough) different versions out of 8 / 12 prerelease / release / build versions of one type and major registered in a fresh set (cache arg 0, 1), then 4 lookups; non-trivial = more than one entry registered")
	r.Assume("util.Version values are built by util.MustNewVersion (canonical vMAJOR.MINOR.PATCH[-pre][+meta] strings); Masterminds/semver and x/mod/semver are trusted for parsing and validation, not for ordering: the model orders versions by the semver 2.0 precedence rules written in the harness")

	c31VersionCompare(r)
	c31PreSet(r)
	c31SetBFS(r)
	c31LookupHistories(r)
	c31Bounds(r)
	c31Encoding(r)
}

var c31VersionStrings = []string{"v0.0.1", "v1.2.3", "v10.0.0", "v1.0.0-rc1", "v1.0.0-v2", "v0.0.1+b"}

func c31Encoding(r *vlib.Run) {
	alphabet := vlib.Pick(r, "av1-_+.", "av10-_+.")
	maxlen := vlib.Pick(r, 6, 7)
	r.Set("enc_alphabet", alphabet)
	r.Set("enc_type_len_max", maxlen)
	r.Set("enc_versions", c31VersionStrings)

	versions := make([]util.Version, len(c31VersionStrings))
	for i := range c31VersionStrings {
		versions[i] = util.MustNewVersion(c31VersionStrings[i])
	}

	const itemOffset = 3 // items 0..2 are the set BFS variants

	idx := 0
	expired := false
	check := func(ty string) {
		i := idx
		idx++

		if expired || !r.Mine(itemOffset+i) {
			return
		}

		if i%1024 < 16 && r.Expired() {
			expired = true

			return
		}

		tt := Type(ty)
		if tt.IsValid(nil) != nil {
			r.Add("enc_types_filtered_invalid", 1)

			return
		}

		r.Add("enc_types_valid", 1)

		for vi := range versions {
			c31EncodingCase(r, tt, versions[vi])
		}
	}

	// exhaustive small alphabet
	buf := make([]byte, 0, maxlen)

	var rec func(n int)
	rec = func(n int) {
		if len(buf) == n {
			check(string(buf))

			return
		}

		for i := 0; i < len(alphabet); i++ {
			buf = append(buf, alphabet[i])
			rec(n)
			buf = buf[:len(buf)-1]
		}
	}

	for n := 2; n <= maxlen; n++ {
		rec(n)
	}

	// boundary family: long types with the separator pattern at every position
	for _, n := range []int{7, 8, 20, MaxTypeLength - 1, MaxTypeLength, MaxTypeLength + 1} {
		for k := 1; k+3 <= n; k++ {
			check(strings.Repeat("a", k) + "-v1" + strings.Repeat("a", n-k-3))
		}

		check(strings.Repeat("a", n))
	}

	r.Set("enc_long_type_lengths", []int{7, 8, 20, MaxTypeLength - 1, MaxTypeLength, MaxTypeLength + 1})
}

func c31EncodingCase(r *vlib.Run, tt Type, v util.Version) {
	id := "enc/" + tt.String() + "/" + v.String()
	if !r.Want(id) {
		return
	}

	h := NewHint(tt, v)
	if err := h.IsValid(nil); err != nil {
		r.Add("enc_hint_invalid_skipped", 1)

		return
	}

	r.Eval()
	r.StatesN(1)

	s := h.String()

	markers := len(regVersion.FindAllStringIndex(s, -1))
	if markers > 1 {
		r.NontrivialN(1)
	}

	typeHasMarker := regVersion.MatchString(tt.String())

	p, err := ParseHint(s)
	if err != nil {
		r.Outcome("parse-error")
		r.Violation(id, map[string]any{"kind": "roundtrip", "class": "parse-error", "type_has_version_marker": typeHasMarker},
			fmt.Sprintf("NewHint(%q,%q).String()=%q; ParseHint error: %v", tt, v, s, err), map[string]any{"type": tt.String(), "version": v.String()})

		return
	}

	// the other parse entry points must agree with ParseHint
	p2 := EnsureParseHint(s)

	var p3 Hint
	_ = p3.UnmarshalText([]byte(s))

	p4, err4 := ParseHint(s) // second call: served from the package cache

	if err4 != nil || !c31Same(p, p2) || !c31Same(p, p3) || !c31Same(p, p4) {
		r.Outcome("parse-paths-disagree")
		r.Violation(id, map[string]any{"kind": "parse-paths-disagree"},
			fmt.Sprintf("%q: ParseHint=%q EnsureParseHint=%q UnmarshalText=%q cached=%q/%v", s, p, p2, p3, p4, err4), map[string]any{"type": tt.String(), "version": v.String()})

		return
	}

	if p.Type() == tt && p.Version().String() == v.String() && p.String() == s {
		if markers > 1 {
			r.Outcome("roundtrip-ok/multi-marker")
		} else {
			r.Outcome("roundtrip-ok/single-marker")
		}

		if markers > 1 || tt.String() == "a1" {
			r.Sample(map[string]any{"type": tt.String(), "version": v.String(), "printed": s, "parsed_type": p.Type().String(), "parsed_version": p.Version().String()})
		}

		return
	}

	parsedValid := p.IsValid(nil) == nil

	r.Outcome(fmt.Sprintf("mismatch/parsed-valid=%v", parsedValid))
	r.Violation(id,
		map[string]any{"kind": "roundtrip", "class": "mismatch", "type_has_version_marker": typeHasMarker, "parsed_valid": parsedValid},
		fmt.Sprintf("NewHint(type=%q, version=%q) prints %q which parses as type=%q version=%q (parsed hint IsValid: %v)",
			tt, v, s, p.Type(), p.Version(), parsedValid),
		map[string]any{"type": tt.String(), "version": v.String()})
}

func c31Same(a, b Hint) bool {
	return a.Type() == b.Type() && a.Version().String() == b.Version().String() && a.String() == b.String()
}

// ---- part B: CompatibleSet ----

type c31Event struct {
	op string // add | find | findstr | findtype
	s  string // hint string or type
}

func (e c31Event) String() string { return e.op + ":" + e.s }

type c31Entry struct {
	ht Hint
	v  string
}

// c31Model is the cache-free reference: every successfully added (hint, value);
// "highest registered version" is decided by the semver 2.0 precedence written
// in the harness (c31RefCompare), independent of the code's own Compare.
type c31Model struct {
	entries []c31Entry
}

func (m *c31Model) add(ht Hint, v string) { m.entries = append(m.entries, c31Entry{ht: ht, v: v}) }

// best returns the registered entry with the same type (and major, if
// withMajor) and the highest registered version.
func (m *c31Model) best(t Type, major uint64, withMajor bool) (c31Entry, bool) {
	var best c31Entry

	found := false

	for _, e := range m.entries {
		if e.ht.Type() != t {
			continue
		}

		if withMajor && e.ht.Version().Major() != major {
			continue
		}

		// the order of versions is the semver precedence of the harness
		// (c31_semver_test.go), not util.Version.Compare
		if !found || c31RefCmp(e.ht.Version().String(), best.ht.Version().String()) > 0 {
			best, found = e, true
		}
	}

	return best, found
}

// equivalent: the value is the wanted one, or the one of a registered entry of
// the same type and the same precedence (versions that differ in build metadata
// only; the set refuses the second of them, so this is a safety net).
func (m *c31Model) equivalent(value string, want c31Entry) bool {
	if value == want.v {
		return true
	}

	e, ok := m.registered(value)

	return ok && e.ht.Type() == want.ht.Type() && c31RefCmp(e.ht.Version().String(), want.ht.Version().String()) == 0
}

func (m *c31Model) registered(v string) (c31Entry, bool) {
	for _, e := range m.entries {
		if e.v == v {
			return e, true
		}
	}

	return c31Entry{}, false
}

func c31SetBFS(r *vlib.Run) {
	depth := vlib.Pick(r, 4, 6)
	adds := []string{"aa-v1.0.0", "aa-v1.0.1", "aa-v1.1.0", "aa-v2.0.0", "bb-v1.0.0"}
	queries := append(append([]string{}, adds...), "aa-v1.5.0", "aa-v3.0.0")
	types := []string{"aa", "bb"}

	var alphabet []c31Event
	for _, s := range adds {
		alphabet = append(alphabet, c31Event{"add", s})
	}

	for _, s := range queries {
		alphabet = append(alphabet, c31Event{"find", s})
	}

	for _, s := range queries {
		alphabet = append(alphabet, c31Event{"findstr", s})
	}

	for _, s := range types {
		alphabet = append(alphabet, c31Event{"findtype", s})
	}

	r.Set("set_depth", depth)
	r.Set("set_alphabet", len(alphabet))
	r.Set("set_cache_args", []int{0, 1, 64})

	for item, size := range []int{0, 1, 64} {
		if !r.Mine(item) {
			continue
		}

		prefix := fmt.Sprintf("set/cache=%d", size)

		frontier := [][]c31Event{nil}
		r.State(prefix + "|" + c31Dump(NewCompatibleSet[string](size)))

		for d := 1; d <= depth && len(frontier) > 0; d++ {
			var next [][]c31Event

			for _, hist := range frontier {
				if r.Expired() {
					return
				}

				for _, ev := range alphabet {
					path := c31Path(prefix, hist, ev)
					if !r.WantPrefix(path) {
						continue
					}

					st := NewCompatibleSet[string](size)
					m := &c31Model{}

					for _, pe := range hist {
						c31Apply(nil, "", st, m, pe, c31Event{})
					}

					var prev c31Event
					if len(hist) > 0 {
						prev = hist[len(hist)-1]
					}

					r.Transition()
					c31Apply(r, path, st, m, ev, prev)

					if r.State(prefix + "|" + c31Dump(st)) {
						nh := make([]c31Event, len(hist)+1)
						copy(nh, hist)
						nh[len(hist)] = ev
						next = append(next, nh)
					}
				}

				r.Trace()
			}

			r.Max("set_depth_completed", int64(d))
			frontier = next
		}
	}
}

func c31Path(prefix string, hist []c31Event, ev c31Event) string {
	var sb strings.Builder

	sb.WriteString(prefix)

	for _, e := range hist {
		sb.WriteString("/")
		sb.WriteString(e.String())
	}

	sb.WriteString("/")
	sb.WriteString(ev.String())

	return sb.String()
}

// c31Apply runs one event on the real set and on the model; when r != nil the
// real answer is compared with the model's.
func c31Apply(r *vlib.Run, path string, st *CompatibleSet[string], m *c31Model, ev, prev c31Event) {
	switch ev.op {
	case "add":
		ht := EnsureParseHint(ev.s)

		err := st.Add(ht, ev.s)
		if err == nil {
			m.add(ht, ev.s)
		}

		if r != nil {
			if err == nil {
				r.Outcome("add/ok")
			} else {
				r.Outcome("add/error")
			}
		}
	case "find", "findstr":
		ht := EnsureParseHint(ev.s)

		var got string

		var found bool

		switch ev.op {
		case "find":
			got, found = st.Find(ht)
		default:
			var (
				ght Hint
				err error
			)

			ght, got, found, err = st.FindByString(ev.s)
			// the returned hint is only checked for found answers (the statement
			// says nothing about the hint of a negative answer)
			if r != nil && (err != nil || (found && !c31Same(ght, ht))) {
				r.Violation(path, map[string]any{"kind": "set-lookup", "op": ev.op, "class": "wrong-hint-or-error"},
					fmt.Sprintf("FindByString(%q) returned hint %q, err %v", ev.s, ght, err), nil)
			}
		}

		if r == nil {
			return
		}

		want, wfound := m.best(ht.Type(), ht.Version().Major(), true)
		c31Compare(r, path, ev, prev, m, got, found, want, wfound)
	case "findtype":
		ght, got, found := st.FindBytType(Type(ev.s))

		if r == nil {
			return
		}

		want, wfound := m.best(Type(ev.s), 0, false)
		c31Compare(r, path, ev, prev, m, got, found, want, wfound)

		if found && wfound && got == want.v && !c31Same(ght, want.ht) {
			r.Violation(path, map[string]any{"kind": "set-lookup", "op": ev.op, "class": "wrong-hint"},
				fmt.Sprintf("FindBytType(%q) returned hint %q with the value of %q", ev.s, ght, want.ht), nil)
		}
	}
}

func c31Compare(r *vlib.Run, path string, ev, prev c31Event, m *c31Model, got string, found bool, want c31Entry, wfound bool) {
	if wfound {
		r.Nontrivial(path)
	}

	var class string

	switch {
	case found == wfound && (!found || m.equivalent(got, want)):
		if found {
			r.Outcome(ev.op + "/found")
		} else {
			r.Outcome(ev.op + "/absent")
		}

		if found && prev.op == "add" {
			r.Sample(map[string]any{"history": path, "answer": got})
		}

		return
	case !found && wfound:
		class = "missed"
	case found && !wfound:
		class = "phantom"
	default:
		class = "wrong-entry"

		if e, ok := m.registered(got); ok && e.ht.Type() == want.ht.Type() && c31RefCmp(e.ht.Version().String(), want.ht.Version().String()) < 0 {
			class = "lower-version-returned"
		}
	}

	prevrel := "other"

	switch {
	case prev.op == "add" && prev.s == ev.s:
		prevrel = "add-of-queried-hint"
	case prev.op == "add":
		prevrel = "add-of-other-hint"
	case prev.op != "":
		prevrel = "lookup"
	}

	r.Outcome(ev.op + "/" + class)
	r.Violation(path,
		map[string]any{"kind": "set-lookup", "op": ev.op, "class": class, "prev": prevrel},
		fmt.Sprintf("history %s: real answer (%q, found=%v); cache-free model: (%q, found=%v)", path, got, found, want.v, wfound),
		map[string]any{"path": path})
}

// c31Dump is the canonical state of the real set: its four maps and the cache
// content, sorted. Two sets with the same dump answer every future event
// alike, because the methods read nothing else (the LRU recency order is
// irrelevant while nothing is evicted: the cache holds either one entry or
// more slots than the alphabet has keys).
func c31Dump(st *CompatibleSet[string]) string {
	var lines []string

	for t, m := range st.set {
		for major, v := range m {
			lines = append(lines, fmt.Sprintf("set %s %d %s %s", t, major, v, st.hints[t][major]))
		}
	}

	for t, v := range st.typeheads {
		lines = append(lines, fmt.Sprintf("head %s %s %s", t, v, st.typeheadhints[t]))
	}

	if st.cache != nil {
		st.cache.Traverse(func(k string, v any) bool {
			switch x := v.(type) {
			case [2]interface{}:
				lines = append(lines, fmt.Sprintf("cache %s hint=%v value=%v", k, x[0], x[1]))
			default:
				lines = append(lines, fmt.Sprintf("cache %s %v", k, x))
			}

			return true
		})
	}

	sort.Strings(lines)

	return strings.Join(lines, "\n")
}
