//go:build verif

package hint

import (
	"fmt"
	"strings"

	"github.com/spikeekips/mitum/util"
	"github.com/spikeekips/mitum/zzverif/vlib"
)

// Part C (inputs at the length bounds): type lengths at and around
// MinTypeLength / MaxTypeLength x printed version lengths from the shortest up
// to MaxVersionLength+2, several shapes each and for every shape a sibling that
// differs in the last character only. Valid and just-invalid hints go through
// NewHint / IsValid, String, ParseHint (fresh parse cache, from the cache, and
// after the strings one edit at the end away were parsed), EnsureParseHint,
// UnmarshalText and a fresh CompatibleSet (no cache, warm cache, evicted cache,
// after lookups of the neighbour strings): Add, Find, FindByString,
// FindBytType, FindBytTypeString.
//
// Oracles (the three sentences of the statement):
//   - a hint that the code calls valid (Type.IsValid, Version.IsValid and
//     Hint.IsValid; where exactly the code puts the length bounds is recorded,
//     not judged) prints to a string that parses back to the same type and
//     version through every entry point;
//   - whatever was printed, valid or not: a parse result that IsValid and differs
//     from the printed hint is a violation;
//   - a set that accepted the hint finds its value by hint, by printed string, by
//     a lower hint of the same major, by type and by type string; a set that
//     refused it finds nothing (whether it accepts is recorded, not judged).
const c31BoundsItemBase = 1 << 20

type c31BType struct {
	shape string
	s     string
}

type c31BVersion struct {
	shape string
	s     string
	v     util.Version
}

func c31BoundTypeLens() []int {
	return []int{
		MinTypeLength - 1, MinTypeLength, MinTypeLength + 1, 4, 5, 50,
		MaxTypeLength - 2, MaxTypeLength - 1, MaxTypeLength, MaxTypeLength + 1, MaxTypeLength + 2,
	}
}

// c31BoundTypes: all strings have only allowed characters and an allowed first
// and last character; the length alone decides the validity.
func c31BoundTypes() []c31BType {
	var out []c31BType

	rep := strings.Repeat

	for _, n := range c31BoundTypeLens() {
		if n < 1 {
			continue
		}

		add := func(shape, s string) {
			if len(s) != n {
				panic(fmt.Sprintf("c31 bounds: type shape %s: len %d != %d", shape, len(s), n))
			}

			out = append(out, c31BType{shape: fmt.Sprintf("%s:%d", shape, n), s: s})
		}

		add("plain", rep("a", n))

		if n >= 2 {
			add("lastb", rep("a", n-1)+"b")
			add("digits", rep("1", n))
		}

		if n >= 3 {
			add("symbols", "a"+rep("+_-", n)[:n-2]+"a")
		}

		if n >= 4 {
			add("marker-end", rep("a", n-3)+"-v1")
		}

		if n >= 5 {
			add("marker-front", "a-v1"+rep("a", n-4))
		}

		if n >= 8 {
			add("marker-twice", "a-v1"+rep("a", n-7)+"-v2")
		}
	}

	return out
}

func c31BoundVersionLens() (lo, hi int) {
	return len("v0.0.0"), MaxVersionLength + 2
}

func c31BoundVersions() []c31BVersion {
	var out []c31BVersion

	rep := strings.Repeat
	digits := func(n int) string { return "12345678901234567890"[:n] }

	lo, hi := c31BoundVersionLens()

	for n := lo; n <= hi; n++ {
		add := func(shape, s string) {
			for sib := 0; sib < 2; sib++ {
				name := fmt.Sprintf("%s:%d", shape, n)

				if sib == 1 {
					// the sibling: the same string but the last character
					b := []byte(s)

					switch c := b[len(b)-1]; {
					case c == '9', c == 'z':
						b[len(b)-1] = c - 1
					default:
						b[len(b)-1] = c + 1
					}

					s = string(b)
					name += "'"
				}

				v, err := util.ParseVersion(s)
				if err != nil || v.String() != s || len(s) != n {
					panic(fmt.Sprintf("c31 bounds: version shape %s: %q is not a canonical version of %d characters (%q, %v)", name, s, n, v, err))
				}

				out = append(out, c31BVersion{shape: name, s: s, v: v})
			}
		}

		k := n - 5 // digits of the growing number

		add("major", "v"+digits(k)+".0.0")
		add("minor", "v1."+digits(k)+".0")
		add("patch", "v1.2."+digits(k))

		if n >= 8 {
			add("pre", "v1.2.3-"+rep("a", n-7))
			add("meta", "v1.2.3+"+rep("a", n-7))

			b := []byte("a.b1.c.2.d.e3.f.4.g.h"[:n-7])
			if b[len(b)-1] == '.' {
				b[len(b)-1] = 'x'
			}

			add("predots", "v1.2.3-"+string(b))
		}

		switch {
		case n == 9:
			add("pre-marker", "v1.2.3-v2")
		case n == 10:
			add("pre-marker", "v1.2.3-v22")
		case n >= 11:
			add("pre-marker", "v1.2.3-v2."+rep("a", n-10))
		}

		if n >= 12 {
			add("premeta", "v1.2.3-rc1+"+rep("a", n-11))
		}
	}

	return out
}

func c31Rel(n, min, max int) string {
	switch {
	case n < min:
		return "min-"
	case n == min:
		return "min"
	case n == max-1:
		return "max-1"
	case n == max:
		return "max"
	case n == max+1:
		return "max+1"
	case n > max+1:
		return "max++"
	default:
		return "inside"
	}
}

func c31Bounds(r *vlib.Run) {
	types := c31BoundTypes()
	versions := c31BoundVersions()

	lo, hi := c31BoundVersionLens()

	r.Set("bounds_type_lens", c31BoundTypeLens())
	r.Set("bounds_version_lens", []int{lo, hi})
	r.Set("bounds_types", len(types))
	r.Set("bounds_versions", len(versions))

	orig := hintcache
	defer func() { hintcache = orig }()

	for i := range types {
		if !r.Mine(c31BoundsItemBase + i) {
			continue
		}

		if r.Expired() {
			return
		}

		for j := range versions {
			c31BoundCase(r, types[i], versions[j])
		}
	}
}

func c31BoundCase(r *vlib.Run, bt c31BType, bv c31BVersion) {
	id := "bounds/" + bt.shape + "/" + bv.shape
	if !r.Want(id) {
		return
	}

	r.Eval()
	r.StatesN(1)

	tt := Type(bt.s)
	v := bv.v

	trel := c31Rel(len(bt.s), MinTypeLength, MaxTypeLength)
	vrel := c31Rel(len(bv.s), len("v0.0.0"), MaxVersionLength)

	sig := func(class string) map[string]any {
		return map[string]any{"kind": "bounds", "class": class, "type_len": trel, "version_len": vrel}
	}

	desc := fmt.Sprintf("type %s (%d chars, %q...) version %q (%d chars)", bt.shape, len(bt.s), bt.s[:min(len(bt.s), 12)], bv.s, len(bv.s))
	replay := map[string]any{"type": bt.s, "version": bv.s}

	h := NewHint(tt, v)
	s := h.String()

	// "valid" is what the code says (Type.IsValid, Version.IsValid, Hint.IsValid);
	// where the code puts the bounds is recorded, not judged.
	codeValid := tt.IsValid(nil) == nil && v.IsValid(nil) == nil && h.IsValid(nil) == nil
	refValid := codeValid

	near := func(rel string) string {
		if strings.HasPrefix(rel, "max") {
			return rel
		}

		return "below"
	}

	if codeValid {
		r.Outcome("bounds/valid/type=" + near(trel) + "/version=" + near(vrel))
	} else {
		r.Outcome("bounds/invalid/type=" + near(trel) + "/version=" + near(vrel))
	}

	if byConstants := len(bt.s) >= MinTypeLength && len(bt.s) <= MaxTypeLength && len(bv.s) <= MaxVersionLength; byConstants != codeValid {
		r.Add("bounds_validity_differs_from_inclusive_constants", 1)
	}

	if codeValid && (trel == "max" || vrel == "max") {
		r.Nontrivial(id)
	}

	// parsing: with a fresh package parse cache, again from that cache, and on
	// another fresh cache after the neighbours of the string were parsed
	hintcache = util.NewLRUGCache[string, any](64)

	p, perr := ParseHint(s)
	p2 := EnsureParseHint(s)

	var p3 Hint
	_ = p3.UnmarshalText([]byte(s))

	p4, perr4 := ParseHint(s) // served from the package cache

	hintcache = util.NewLRUGCache[string, any](64)

	for _, n := range c31Neighbours(s) {
		_, _ = ParseHint(n)
	}

	p5, perr5 := ParseHint(s)

	same := func(x Hint) bool { return x.Type() == tt && x.Version().String() == bv.s && x.String() == s }

	parsed := []struct {
		how string
		h   Hint
		err error
	}{{"ParseHint", p, perr}, {"EnsureParseHint", p2, nil}, {"UnmarshalText", p3, nil}, {"ParseHint(cached)", p4, perr4}, {"ParseHint(after its neighbours)", p5, perr5}}

	for _, x := range parsed {
		switch {
		case x.err == nil && same(x.h):
			continue
		case refValid && x.err != nil:
			r.Outcome("bounds/valid-hint-not-parsed")
			r.Violation(id, sig("parse-error"), fmt.Sprintf("%s is a valid hint, %d chars printed; %s: %v", desc, len(s), x.how, x.err), replay)

			return
		case refValid:
			r.Outcome("bounds/valid-hint-parsed-differently")
			r.Violation(id, sig("mismatch"), fmt.Sprintf("%s is a valid hint, %d chars printed; %s gives type %q (%d chars) version %q", desc, len(s), x.how, c31Short(x.h.Type().String()), len(x.h.Type()), x.h.Version()), replay)

			return
		case x.err == nil && x.h.IsValid(nil) == nil:
			r.Outcome("bounds/invalid-hint-parsed-to-other-valid")
			r.Violation(id, sig("parsed-valid-differs"), fmt.Sprintf("%s is not a valid hint, %d chars printed; %s gives the VALID hint of type %q (%d chars) version %q", desc, len(s), x.how, c31Short(x.h.Type().String()), len(x.h.Type()), x.h.Version()), replay)

			return
		}
	}

	if refValid {
		r.Outcome("bounds/valid/roundtrip-ok")
	} else {
		r.Outcome("bounds/invalid/no-other-valid-hint")
	}

	if refValid && trel == "max" && vrel == "max" && strings.HasPrefix(bt.shape, "plain") {
		r.Sample(map[string]any{"case": id, "printed_len": len(s), "parsed_type_len": len(p.Type()), "parsed_version": p.Version().String()})
	}

	// the decoder set
	for _, variant := range []string{"cache=0", "cache=1/warm", "cache=1/evicted", "cache=1/neighbours"} {
		hintcache = util.NewLRUGCache[string, any](64)

		c31BoundSet(r, id+"/"+variant, variant, desc, h, refValid, sig, replay)
	}
}

// c31Neighbours: the strings one edit at the end away from s (shorter by one,
// last character changed, longer by one).
func c31Neighbours(s string) []string {
	if len(s) < 2 {
		return nil
	}

	last := s[len(s)-1]

	alt := byte('b')
	if last == 'b' {
		alt = 'a'
	}

	return []string{s[:len(s)-1], s[:len(s)-1] + string(alt), s + "a", s + "1"}
}

func c31Short(s string) string {
	if len(s) <= 16 {
		return s
	}

	return s[:8] + ".." + s[len(s)-6:]
}

func c31BoundSet(r *vlib.Run, id, variant, desc string, h Hint, refValid bool, sig func(string) map[string]any, replay any) {
	size := 0
	if variant != "cache=0" {
		size = 1
	}

	st := NewCompatibleSet[string](size)

	registered := st.Add(h, "the-value") == nil

	if refValid != registered {
		// recorded, not judged: the statement speaks of registered entries
		r.Outcome(fmt.Sprintf("bounds/set/valid=%v/registered=%v", refValid, registered))
	}

	if variant == "cache=1/evicted" {
		// another registration takes the single cache slot
		if err := st.Add(EnsureParseHint("zz-v9.0.0"), "other"); err != nil {
			panic(err)
		}
	}

	if variant == "cache=1/neighbours" {
		// lookups of the strings next to the printed one go first
		for _, n := range c31Neighbours(h.String()) {
			_, _, _, _ = st.FindByString(n)
			_, _ = st.Find(EnsureParseHint(n))
		}
	}

	r.Transition()

	// a lower hint of the same type and major
	q := NewHint(h.Type(), util.EnsureParseVersion(fmt.Sprintf("v%d.0.0", h.Version().Major())))

	type answer struct {
		how   string
		value string
		found bool
		ht    *Hint // returned hint, when the lookup returns one
		want  Hint
		err   error
	}

	var answers []answer

	{
		v, found := st.Find(h)
		answers = append(answers, answer{how: "Find(hint)", value: v, found: found})
	}
	{
		ht, v, found, err := st.FindByString(h.String())
		answers = append(answers, answer{how: "FindByString(printed)", value: v, found: found, ht: &ht, want: h, err: err})
	}
	{
		v, found := st.Find(q)
		answers = append(answers, answer{how: "Find(lower hint of the major)", value: v, found: found})
	}
	{
		ht, v, found, err := st.FindByString(q.String())
		answers = append(answers, answer{how: "FindByString(lower hint of the major)", value: v, found: found, ht: &ht, want: q, err: err})
	}
	{
		ht, v, found := st.FindBytType(h.Type())
		answers = append(answers, answer{how: "FindBytType", value: v, found: found, ht: &ht, want: h})
	}
	{
		ht, v, found, err := st.FindBytTypeString(h.Type().String())
		answers = append(answers, answer{how: "FindBytTypeString", value: v, found: found, ht: &ht, want: h, err: err})
	}
	{
		// and once more by the printed string, after the other lookups went through the cache
		ht, v, found, err := st.FindByString(h.String())
		answers = append(answers, answer{how: "FindByString(printed) again", value: v, found: found, ht: &ht, want: h, err: err})
	}

	for _, a := range answers {
		switch {
		case registered && (!a.found || a.value != "the-value"):
			r.Outcome("bounds/set/missed")
			r.Violation(id, sig("set-missed"), fmt.Sprintf("%s registered in a fresh set (%s); %s answers (%q, found=%v, err=%v)", desc, variant, a.how, a.value, a.found, a.err), replay)

			return
		case registered && a.ht != nil && !(a.ht.Type() == a.want.Type() && a.ht.Version().String() == a.want.Version().String()):
			r.Outcome("bounds/set/wrong-hint")
			r.Violation(id, sig("set-wrong-hint"), fmt.Sprintf("%s registered in a fresh set (%s); %s returns the hint %q", desc, variant, a.how, c31Short(a.ht.String())), replay)

			return
		case !registered && a.found:
			r.Outcome("bounds/set/phantom")
			r.Violation(id, sig("set-phantom"), fmt.Sprintf("%s was refused by the set (%s); %s answers (%q, found=%v)", desc, variant, a.how, a.value, a.found), replay)

			return
		}
	}

	if registered {
		r.Outcome("bounds/set/registered-and-found")
	} else {
		r.Outcome("bounds/set/refused-and-absent")
	}
}
