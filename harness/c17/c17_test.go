//go:build verif

package isaacoperation

import (
	"context"
	"encoding/json"
	"fmt"
	"sort"
	"strings"
	"sync"
	"testing"
	"time"

	"github.com/spikeekips/mitum/base"
	"github.com/spikeekips/mitum/isaac"
	isaacblock "github.com/spikeekips/mitum/isaac/block"
	"github.com/spikeekips/mitum/util"
	"github.com/spikeekips/mitum/util/encoder"
	jsonenc "github.com/spikeekips/mitum/util/encoder/json"
	"github.com/spikeekips/mitum/util/fixedtree"
	"github.com/spikeekips/mitum/util/hint"
	"github.com/spikeekips/mitum/util/valuehash"
	"github.com/spikeekips/mitum/zzverif/vlib"
)

// C17: applying any block of suffrage operations produces a suffrage with
// unique members and the suffrage height increased by one; only unexpired
// candidates signed by themselves and by at least the threshold of distinct
// current members can join; only current members can leave or be expelled; the
// result does not depend on operation order.
//
// Seam: the real isaac.DefaultProposalProcessor (MaxWorkerSize 1) with the real
// isaacblock.Writer / DefaultStatesMerger and the real join / disjoin / expel /
// candidate processors registered like launch.POperationProcessorsMap does.
// Operations of the proposal are pre-processed in proposal order; expel
// operations come from the INIT expel voteproof and are processed after them
// (sorted by SetExpels), exactly like in a node. Only the file system writer
// and the block write database are in-memory stubs.
//
// Reference (sets, integers): J = candidates with an eligible join operation in
// the block, R = members with an eligible disjoin / expel operation;
// new members = (M \ R) + J, suffrage height + 1 iff J+R is not empty.
//   join eligible    : candidate in the candidates state with deadline >= H, not a member, fact.start = candidacy start,
//                      a sign (node = candidate, key = candidate key), and k*1000 >= n*t10 where k = number of DISTINCT
//                      members m having a sign (node = m, key = key of m)
//   disjoin eligible : node is a member, fact.start = member start, a sign (node = member, key = key of member)
//   expel eligible   : node is a member, start <= H <= end
// Part 2 evaluates base.CheckFactSignsBySuffrage directly on the grid n x t (k = the exact requirement -2..+1, 0 and n; every k for four thresholds) against k*1000 >= n*t10.

const (
	c17H  = base.Height(33)
	c17HS = base.Height(7) // suffrage height before the block
)

var c17NetworkID = base.NetworkID([]byte("c17 network id"))

type c17node struct {
	name  string
	addr  base.Address
	priv  base.Privatekey
	start base.Height
}

func c17newnode(name string) c17node {
	priv, err := base.NewMPrivatekeyFromSeed(fmt.Sprintf("c17 fixed seed for the node %-24s", name))
	if err != nil {
		panic(err)
	}

	return c17node{name: name, priv: priv, addr: base.NewStringAddress("c17" + name), start: 1}
}

type c17op struct {
	name   string
	kind   string // join | disjoin | expel | candidate
	op     base.Operation
	valid  bool // op.IsValid(networkID) == nil
	effect string
	target string
}

type c17cand struct {
	node     c17node
	start    base.Height
	deadline base.Height
}

type c17world struct {
	n         int
	t10       int
	threshold base.Threshold
	members   []c17node
	cands     map[string]c17cand // candidates state (also the expired one)
	sufst     base.State
	candst    base.State
	menu      []c17op
	byhash    map[string]base.Operation
	enc       *jsonenc.Encoder
	foreign   c17node
	ghost     base.Address
	dummymap  base.BlockMap
	previous  base.Manifest
}

type c17sign struct {
	n    c17node      // key
	addr base.Address // node address claimed by the sign (nil: n.addr)
}

func (w *c17world) join(name string, cand base.Address, start base.Height, signs ...c17sign) c17op {
	op := NewSuffrageJoin(NewSuffrageJoinFact(base.Token("c17-"+name), cand, start))
	for _, s := range signs {
		addr := s.addr
		if addr == nil {
			addr = s.n.addr
		}
		if err := op.NodeSign(s.n.priv, c17NetworkID, addr); err != nil {
			panic(err)
		}
	}

	return c17op{name: name, kind: "join", op: op}
}

func (w *c17world) disjoin(name string, node base.Address, start base.Height, s c17sign) c17op {
	op := NewSuffrageDisjoin(NewSuffrageDisjoinFact(base.Token("c17-"+name), node, start))
	addr := s.addr
	if addr == nil {
		addr = s.n.addr
	}
	if err := op.NodeSign(s.n.priv, c17NetworkID, addr); err != nil {
		panic(err)
	}

	return c17op{name: name, kind: "disjoin", op: op}
}

func (w *c17world) expel(name string, node base.Address, start, end base.Height, signers []c17node) c17op {
	op := isaac.NewSuffrageExpelOperation(isaac.NewSuffrageExpelFact(node, start, end, "c17 "+name))
	for _, s := range signers {
		if s.addr.Equal(node) {
			continue
		}
		if err := op.NodeSign(s.priv, c17NetworkID, s.addr); err != nil {
			panic(err)
		}
	}

	return c17op{name: name, kind: "expel", op: op}
}

func (w *c17world) candidate(name string, n c17node) c17op {
	op := NewSuffrageCandidate(NewSuffrageCandidateFact(base.Token("c17-"+name), n.addr, n.priv.Publickey()))
	if err := op.NodeSign(n.priv, c17NetworkID, n.addr); err != nil {
		panic(err)
	}

	return c17op{name: name, kind: "candidate", op: op}
}

// duplicate one sign of an operation the way a remote peer could: through the wire format
func (w *c17world) dupsign(o c17op, name string, index int) c17op {
	b, err := w.enc.Marshal(o.op)
	if err != nil {
		panic(err)
	}
	var m map[string]json.RawMessage
	if err := json.Unmarshal(b, &m); err != nil {
		panic(err)
	}
	var signs []json.RawMessage
	if err := json.Unmarshal(m["signs"], &signs); err != nil {
		panic(err)
	}
	signs = append(signs, signs[index])
	m["signs"], _ = json.Marshal(signs)
	nb, _ := json.Marshal(m)

	var op SuffrageJoin
	if err := encoder.Decode(w.enc, nb, &op); err != nil {
		panic(fmt.Sprintf("decode duplicated-sign operation: %+v", err))
	}
	if len(op.Signs()) != len(signs) {
		panic("duplicated sign lost")
	}

	return c17op{name: name, kind: "join", op: op}
}

func c17newworld(n, t10 int) *c17world {
	w := &c17world{n: n, t10: t10, threshold: base.Threshold(float64(t10) / 10), cands: map[string]c17cand{}, byhash: map[string]base.Operation{}}

	w.enc = jsonenc.NewEncoder()
	for _, d := range []encoder.DecodeDetail{
		{Hint: base.StringAddressHint, Instance: base.StringAddress{}},
		{Hint: base.MPublickeyHint, Instance: &base.MPublickey{}},
		{Hint: SuffrageJoinFactHint, Instance: SuffrageJoinFact{}},
		{Hint: SuffrageJoinHint, Instance: SuffrageJoin{}},
	} {
		if err := w.enc.Add(d); err != nil {
			panic(err)
		}
	}

	names := []string{"ma", "mb", "mc", "md", "me"}
	for i := 0; i < n; i++ {
		w.members = append(w.members, c17newnode(names[i]))
	}
	c1, c2, c3 := c17newnode("c1"), c17newnode("c2"), c17newnode("c3")
	w.foreign = c17newnode("fx")
	w.ghost = base.NewStringAddress("c17ghost")

	// states
	nodes := make([]base.SuffrageNodeStateValue, n)
	for i := range w.members {
		nodes[i] = isaac.NewSuffrageNodeStateValue(isaac.NewNode(w.members[i].priv.Publickey(), w.members[i].addr), w.members[i].start)
	}
	w.sufst = base.NewBaseState(c17H-1, isaac.SuffrageStateKey, isaac.NewSuffrageNodesStateValue(c17HS, nodes),
		valuehash.NewSHA256([]byte("c17 previous suffrage state")), []util.Hash{valuehash.NewSHA256([]byte("c17 op"))})

	w.cands[c1.addr.String()] = c17cand{node: c1, start: c17H - 2, deadline: c17H + 10}
	w.cands[c2.addr.String()] = c17cand{node: c2, start: c17H - 20, deadline: c17H - 1} // expired
	w.candst = base.NewBaseState(c17H-1, isaac.SuffrageCandidateStateKey, isaac.NewSuffrageCandidatesStateValue([]base.SuffrageCandidateStateValue{
		isaac.NewSuffrageCandidateStateValue(isaac.NewNode(c1.priv.Publickey(), c1.addr), c17H-2, c17H+10),
		isaac.NewSuffrageCandidateStateValue(isaac.NewNode(c2.priv.Publickey(), c2.addr), c17H-20, c17H-1),
	}), valuehash.NewSHA256([]byte("c17 previous candidates state")), []util.Hash{valuehash.NewSHA256([]byte("c17 op"))})

	w.previous = base.NewDummyManifest(c17H-1, valuehash.NewSHA256([]byte("c17 previous block")))
	w.dummymap = base.NewDummyBlockMap(base.NewDummyManifest(c17H, valuehash.NewSHA256([]byte("c17 block"))))

	self := func(c c17node) c17sign { return c17sign{n: c} }
	ms := func(idx ...int) []c17sign {
		var l []c17sign
		for _, i := range idx {
			l = append(l, c17sign{n: w.members[i]})
		}

		return l
	}
	all := make([]int, n)
	for i := range all {
		all[i] = i
	}
	c1start := w.cands[c1.addr.String()].start

	// join(c1): self sign + every subset of member signers
	for mask := 0; mask < 1<<n; mask++ {
		var idx []int
		var nm string
		for i := 0; i < n; i++ {
			if mask&(1<<i) != 0 {
				idx = append(idx, i)
				nm += names[i][1:]
			}
		}
		if nm == "" {
			nm = "none"
		}
		w.menu = append(w.menu, w.join("join-c1-self+"+nm, c1.addr, c1start, append([]c17sign{self(c1)}, ms(idx...)...)...))
	}
	// "under": one member sign less than the exact requirement ceil(n*t/100)
	need := (n*t10 + 999) / 1000
	under := all[:need-1]
	last := w.members[need-1]
	w.menu = append(w.menu,
		// all members, no sign of the candidate (SuffrageJoin.IsValid rejects; the processor must too)
		w.join("join-c1-noself+all", c1.addr, c1start, ms(all...)...),
		// candidate address signed with a foreign key
		w.join("join-c1-selfwrongkey+all", c1.addr, c1start, append([]c17sign{{n: w.foreign, addr: c1.addr}}, ms(all...)...)...),
		// need-1 members + a foreign node
		w.join("join-c1-self+under+foreign", c1.addr, c1start, append(append([]c17sign{self(c1)}, ms(under...)...), c17sign{n: w.foreign})...),
		// need-1 members + a further member's address signed with a foreign key
		w.join("join-c1-self+under+memberaddr-foreignkey", c1.addr, c1start,
			append(append([]c17sign{self(c1)}, ms(under...)...), c17sign{n: w.foreign, addr: last.addr})...),
		// need-1 members + the first member's key under a non-member address (one key, two node addresses)
		w.join("join-c1-self+under+ghostaddr-memberkey", c1.addr, c1start,
			append(append([]c17sign{self(c1)}, ms(under...)...), c17sign{n: w.members[0], addr: w.ghost})...),
		w.join("join-c2-expired-self+all", c2.addr, w.cands[c2.addr.String()].start, append([]c17sign{self(c2)}, ms(all...)...)...),
		w.join("join-c3-notcandidate-self+all", c3.addr, c17H-2, append([]c17sign{self(c3)}, ms(all...)...)...),
		w.join("join-ma-member-self+all", w.members[0].addr, c17H-2, ms(all...)...),
		w.join("join-c1-wrongstart-self+all", c1.addr, c1start+1, append([]c17sign{self(c1)}, ms(all...)...)...),
	)
	// need-1 distinct members, the first of them signing twice (duplicated node sign; only constructible through the wire format)
	w.menu = append(w.menu, w.dupsign(
		w.join("join-c1-self+under+dup", c1.addr, c1start, append([]c17sign{self(c1)}, ms(under...)...)...),
		"join-c1-self+under+dupfirst", 1))

	a, b := w.members[0], w.members[1]
	w.menu = append(w.menu,
		w.disjoin("disjoin-ma", a.addr, a.start, c17sign{n: a}),
		w.disjoin("disjoin-mb", b.addr, b.start, c17sign{n: b}),
		w.disjoin("disjoin-ma-signedby-mb-key", a.addr, a.start, c17sign{n: b, addr: a.addr}),
		w.disjoin("disjoin-c1-notmember", c1.addr, c1start, c17sign{n: c1}),
		w.disjoin("disjoin-ma-wrongstart", a.addr, a.start+1, c17sign{n: a}),
		w.expel("expel-ma", a.addr, c17H-1, c17H+1, w.members),
		w.expel("expel-mb", b.addr, c17H-1, c17H+1, w.members),
		w.expel("expel-c1-notmember", c1.addr, c17H-1, c17H+1, w.members),
		w.expel("expel-ma-expired", a.addr, c17H-3, c17H-1, w.members),
		w.candidate("candidate-c3", c3),
		w.candidate("candidate-c1-already", c1),
		w.candidate("candidate-ma-member", a),
	)
	if n == 3 {
		// lets a block of 3 removals empty the suffrage
		c := w.members[2]
		w.menu = append(w.menu, w.disjoin("disjoin-mc", c.addr, c.start, c17sign{n: c}))
	}

	for i := range w.menu {
		o := &w.menu[i]
		o.valid = o.op.(util.IsValider).IsValid(c17NetworkID) == nil
		o.effect, o.target = w.model(o.op)
		w.byhash[o.op.Hash().String()] = o.op
	}

	return w
}

func (w *c17world) member(addr base.Address) (c17node, bool) {
	for i := range w.members {
		if w.members[i].addr.Equal(addr) {
			return w.members[i], true
		}
	}

	return c17node{}, false
}

func c17hassign(signs []base.Sign, addr base.Address, key base.Publickey) bool {
	for i := range signs {
		ns, ok := signs[i].(base.NodeSign)
		if ok && ns.Node().Equal(addr) && ns.Signer().Equal(key) {
			return true
		}
	}

	return false
}

// model: the effect one operation is entitled to, from its content only
func (w *c17world) model(op base.Operation) (effect, target string) {
	switch fact := op.Fact().(type) {
	case SuffrageJoinFact:
		cand, found := w.cands[fact.Candidate().String()]
		if _, ismember := w.member(fact.Candidate()); ismember || !found {
			return "", ""
		}
		if cand.deadline < c17H || fact.Start() != cand.start {
			return "", ""
		}
		if !c17hassign(op.Signs(), cand.node.addr, cand.node.priv.Publickey()) {
			return "", ""
		}
		k := 0
		for _, m := range w.members { // distinct members
			if c17hassign(op.Signs(), m.addr, m.priv.Publickey()) {
				k++
			}
		}
		if k*1000 < w.n*w.t10 {
			return "", ""
		}

		return "join", cand.node.addr.String()
	case SuffrageDisjoinFact:
		m, found := w.member(fact.Node())
		if !found || fact.Start() != m.start || !c17hassign(op.Signs(), m.addr, m.priv.Publickey()) {
			return "", ""
		}

		return "remove", m.addr.String()
	case isaac.SuffrageExpelFact:
		m, found := w.member(fact.Node())
		if !found || fact.ExpelStart() > c17H || fact.ExpelEnd() < c17H {
			return "", ""
		}

		return "remove", m.addr.String()
	default:
		return "", ""
	}
}

// ---- in-memory stubs for the two storage back ends of the real block writer

type c17fs struct {
	mu     sync.Mutex
	states []base.State
	m      base.BlockMap
}

func (f *c17fs) SetProposal(context.Context, base.ProposalSignFact) error           { return nil }
func (f *c17fs) SetOperation(context.Context, uint64, uint64, base.Operation) error { return nil }
func (f *c17fs) SetOperationsTree(context.Context, fixedtree.Tree) error            { return nil }
func (f *c17fs) SetState(_ context.Context, _, _ uint64, st base.State) error {
	f.mu.Lock()
	defer f.mu.Unlock()
	f.states = append(f.states, st)

	return nil
}
func (f *c17fs) SetStatesTree(context.Context, fixedtree.Tree) error            { return nil }
func (f *c17fs) SetManifest(context.Context, base.Manifest) error               { return nil }
func (f *c17fs) SetINITVoteproof(context.Context, base.INITVoteproof) error     { return nil }
func (f *c17fs) SetACCEPTVoteproof(context.Context, base.ACCEPTVoteproof) error { return nil }
func (f *c17fs) Save(context.Context) (base.BlockMap, error)                    { return f.m, nil }
func (f *c17fs) Cancel() error                                                  { return nil }

type c17db struct{}

func (c17db) Close() error                              { return nil }
func (c17db) Cancel() error                             { return nil }
func (c17db) BlockMap() (base.BlockMap, error)          { return nil, nil }
func (c17db) SetBlockMap(base.BlockMap) error           { return nil }
func (c17db) SetStates([]base.State) error              { return nil }
func (c17db) SetOperations([]util.Hash) error           { return nil }
func (c17db) SetSuffrageProof(base.SuffrageProof) error { return nil }
func (c17db) SuffrageState() base.State                 { return nil }
func (c17db) NetworkPolicy() base.NetworkPolicy         { return nil }
func (c17db) Write() error                              { return nil }
func (c17db) TempDatabase() (isaac.TempDatabase, error) { return nil, nil }

type c17opresult struct {
	instate bool
	reason  string
}

// the real writer; only records what the proposal processor reports per operation
type c17writer struct {
	*isaacblock.Writer
	mu      sync.Mutex
	results map[string]c17opresult
}

func (w *c17writer) SetProcessResult(ctx context.Context, index uint64, op, facthash util.Hash, instate bool, reason base.OperationProcessReasonError) error {
	w.mu.Lock()
	r := c17opresult{instate: instate}
	if reason != nil {
		r.reason = reason.Msg()
	}
	w.results[op.String()] = r
	w.mu.Unlock()

	return w.Writer.SetProcessResult(ctx, index, op, facthash, instate, reason)
}

type c17outcome struct {
	produced   bool   // a new suffrage state was written
	value      string // canonical members + suffrage height
	members    map[string][2]string
	sufheight  base.Height
	notsuf     string // error of SuffrageNodesStateValue.Suffrage()
	stheight   base.Height
	statehash  string
	candidates string
	results    map[string]c17opresult
}

func (w *c17world) getState(key string) (base.State, bool, error) {
	switch key {
	case isaac.SuffrageStateKey:
		return w.sufst, true, nil
	case isaac.SuffrageCandidateStateKey:
		return w.candst, true, nil
	default:
		return nil, false, nil
	}
}

// apply one block through the real proposal processor
func (w *c17world) apply(t *testing.T, prop []c17op, expels []c17op) c17outcome {
	point := base.NewPoint(c17H, 0)

	ophs := make([][2]util.Hash, len(prop))
	for i := range prop {
		ophs[i] = [2]util.Hash{prop[i].op.Hash(), prop[i].op.Fact().Hash()}
	}
	proposal := isaac.NewProposalSignFact(isaac.NewProposalFact(point, w.members[0].addr, w.previous.Hash(), ophs))

	fs := &c17fs{m: w.dummymap}
	var writer *c17writer

	args := isaac.NewDefaultProposalProcessorArgs()
	args.MaxWorkerSize = 1
	args.GetStateFunc = w.getState
	args.GetOperationFunc = func(_ context.Context, oph, _ util.Hash) (base.Operation, error) {
		op, found := w.byhash[oph.String()]
		if !found {
			return nil, isaac.ErrOperationNotFoundInProcessor.Errorf("c17")
		}

		return op, nil
	}
	args.NewWriterFunc = func(pr base.ProposalSignFact, getStateFunc base.GetStateFunc) (isaac.BlockWriter, error) {
		writer = &c17writer{
			Writer:  isaacblock.NewWriter(pr, getStateFunc, c17db{}, func(isaac.BlockWriteDatabase) error { return nil }, fs, 1),
			results: map[string]c17opresult{},
		}

		return writer, nil
	}
	args.NewOperationProcessorFunc = func(height base.Height, ht hint.Hint, getStateFunc base.GetStateFunc) (base.OperationProcessor, error) {
		switch {
		case ht.IsCompatible(SuffrageCandidateHint):
			return NewSuffrageCandidateProcessor(height, getStateFunc, nil, nil, 20)
		case ht.IsCompatible(SuffrageJoinHint):
			return NewSuffrageJoinProcessor(height, w.threshold, getStateFunc, nil, nil)
		case ht.IsCompatible(isaac.SuffrageExpelOperationHint):
			return NewSuffrageExpelProcessor(height, getStateFunc, nil, nil)
		case ht.IsCompatible(SuffrageDisjoinHint):
			return NewSuffrageDisjoinProcessor(height, getStateFunc, nil, nil)
		default:
			return nil, nil
		}
	}

	pp, err := isaac.NewDefaultProposalProcessor(proposal, w.previous, args)
	if err != nil {
		t.Fatalf("c17: new proposal processor: %+v", err)
	}

	var ivp base.INITVoteproof
	if len(expels) > 0 {
		eops := make([]base.SuffrageExpelOperation, len(expels))
		for i := range expels {
			eops[i] = expels[i].op.(base.SuffrageExpelOperation)
		}
		vp := isaac.NewINITExpelVoteproof(point)
		vp.SetExpels(eops)
		ivp = vp
	} else {
		ivp = isaac.NewINITVoteproof(point)
	}

	manifest, err := pp.Process(context.Background(), ivp)
	if err != nil {
		t.Fatalf("c17: Process: %+v", err)
	}

	avp := isaac.NewACCEPTVoteproof(point)
	avp.SetMajority(isaac.NewACCEPTBallotFact(point, proposal.Fact().Hash(), manifest.Hash(), nil))
	if _, err := pp.Save(context.Background(), avp); err != nil {
		t.Fatalf("c17: Save: %+v", err)
	}

	out := c17outcome{results: writer.results, members: map[string][2]string{}}
	for _, st := range fs.states {
		switch st.Key() {
		case isaac.SuffrageStateKey:
			if out.produced {
				t.Fatalf("c17: two suffrage states written")
			}
			out.produced = true
			out.statehash = st.Hash().String()
			out.stheight = st.Height()
			v := st.Value().(base.SuffrageNodesStateValue)
			out.sufheight = v.Height()
			if _, err := v.Suffrage(); err != nil {
				out.notsuf = err.Error()
			}
			var l []string
			for _, nd := range v.Nodes() {
				s := fmt.Sprintf("%s/%s/%d", nd.Address(), nd.Publickey(), nd.Start())
				l = append(l, s)
				out.members[nd.Address().String()] = [2]string{nd.Publickey().String(), fmt.Sprint(nd.Start())}
			}
			out.value = fmt.Sprintf("h=%d|%s", v.Height(), strings.Join(l, ",")) // order of the nodes is part of the value
		case isaac.SuffrageCandidateStateKey:
			var l []string
			for _, nd := range st.Value().(base.SuffrageCandidatesStateValue).Nodes() {
				l = append(l, fmt.Sprintf("%s/%d/%d", nd.Address(), nd.Start(), nd.Deadline()))
			}
			out.candidates = strings.Join(l, ",")
		}
	}

	return out
}

func c17names(l []c17op) string {
	s := make([]string, len(l))
	for i := range l {
		s[i] = l[i].name
	}

	return strings.Join(s, ">")
}

// the oracle for one applied block; returns the number of violations reported
func (w *c17world) check(r *vlib.Run, id string, block []c17op, out c17outcome) int {
	wantJ, wantR := map[string]bool{}, map[string]bool{}
	allvalid := true
	for _, o := range block {
		switch o.effect {
		case "join":
			wantJ[o.target] = true
		case "remove":
			wantR[o.target] = true
		}
		if !o.valid {
			allvalid = false
		}
	}

	vio := 0
	report := func(sig map[string]any, detail string) {
		sig["all_ops_pass_isvalid"] = allvalid
		sig["n"] = w.n
		r.Violation(id, sig, fmt.Sprintf("n=%d threshold=%v block=[%s]: %s; per-operation results: %v", w.n, w.threshold, c17names(block), detail, out.results), map[string]any{"block": c17names(block)})
		vio++
	}

	old := map[string][2]string{}
	for _, m := range w.members {
		old[m.addr.String()] = [2]string{m.priv.Publickey().String(), fmt.Sprint(m.start)}
	}

	cur := old
	if out.produced {
		cur = out.members
		if out.notsuf != "" {
			kind := "result-not-a-suffrage"
			if len(out.members) == 0 {
				kind = "empty-suffrage"
			}
			report(map[string]any{"kind": kind}, "the produced suffrage state value cannot be turned into a suffrage: "+out.notsuf)
		}
		if out.sufheight != c17HS+1 {
			report(map[string]any{"kind": "suffrage-height"}, fmt.Sprintf("suffrage height %d, expected %d", out.sufheight, c17HS+1))
		}
		if out.stheight != c17H {
			report(map[string]any{"kind": "state-height"}, fmt.Sprintf("state height %d, expected %d", out.stheight, c17H))
		}
	}

	changed := false
	for a, v := range cur {
		ov, was := old[a]
		switch {
		case !was:
			changed = true
			cand, iscand := w.cands[a]
			switch {
			case !wantJ[a]:
				report(map[string]any{"kind": "unexpected-join"}, "node "+a+" joined without an eligible join operation")
			case !iscand || v[0] != cand.node.priv.Publickey().String() || v[1] != fmt.Sprint(c17H+1):
				report(map[string]any{"kind": "joined-node-wrong"}, "node "+a+" joined with key/start "+fmt.Sprint(v))
			}
		case ov != v:
			changed = true
			report(map[string]any{"kind": "member-altered"}, "member "+a+" changed key/start: "+fmt.Sprint(ov, v))
		}
	}
	for a := range old {
		if _, still := cur[a]; !still {
			changed = true
			if !wantR[a] {
				report(map[string]any{"kind": "unexpected-removal"}, "member "+a+" removed without an eligible disjoin/expel operation")
			}
		}
	}
	for a := range wantJ {
		if _, in := cur[a]; !in {
			report(map[string]any{"kind": "missing-join"}, "candidate "+a+" has an eligible join operation (self-signed, unexpired, >= threshold of distinct members) but did not join")
		}
	}
	for a := range wantR {
		if _, in := cur[a]; in {
			report(map[string]any{"kind": "missing-removal"}, "member "+a+" has an eligible disjoin/expel operation but is still a member")
		}
	}
	if out.produced && !changed {
		report(map[string]any{"kind": "height-without-change"}, "a new suffrage state (height+1) was written although the member set did not change")
	}

	return vio
}

func c17perms(n int) [][]int {
	var out [][]int
	var rec func(cur []int, used int)
	rec = func(cur []int, used int) {
		if len(cur) == n {
			out = append(out, append([]int{}, cur...))

			return
		}
		for i := 0; i < n; i++ {
			if used&(1<<i) == 0 {
				rec(append(cur, i), used|1<<i)
			}
		}
	}
	rec(nil, 0)

	return out
}

func c17combos(n, k int) [][]int {
	var out [][]int
	var rec func(start int, cur []int)
	rec = func(start int, cur []int) {
		if len(cur) == k {
			out = append(out, append([]int{}, cur...))

			return
		}
		for i := start; i < n; i++ {
			rec(i+1, append(cur, i))
		}
	}
	rec(0, nil)

	return out
}

func TestVerifC17(t *testing.T) {
	r := vlib.Start("C17")
	defer r.Finish()

	r.Rule("part 1: per world (members n, threshold) every set of <= depth distinct operations of the menu and every order of it; orders that give the same pipeline input " +
		"(proposal order of the non-expel operations + the expel set, which the INIT expel voteproof sorts) are run once; each block is applied by the real DefaultProposalProcessor " +
		"and compared with the set/integer reference; all orders of one set must give the same suffrage value. non-trivial = at least one operation of the block is eligible. " +
		"part 2: CheckFactSignsBySuffrage for every n x threshold 51.0..100.0 with k member signs in {0, need-2..need+1, n} (need = exact requirement; every k for 51.0/67.0/75.0/100.0) against k*1000 >= n*t10")
	r.Assume("signature primitives are trusted; the operations were admitted without a further check (the remote-operation path of launch does not call IsValid), so operations failing IsValid are part of the menu and flagged in the signature")

	type worldspec struct{ n, t10, depth int }
	_, replaying := r.Replaying()
	thorough := r.Thorough() || replaying // a replay runs in the quick tier: enumerate the thorough superset, r.Want filters
	specs := []worldspec{{3, 670, 2}, {4, 750, 2}}
	if thorough {
		specs = []worldspec{{3, 670, 3}, {4, 750, 3}, {4, 670, 2}}
	}
	r.Set("worlds_n_t10_depth", fmt.Sprint(specs))

	item := 0
	for _, sp := range specs {
		w := c17newworld(sp.n, sp.t10)
		r.Set(fmt.Sprintf("menu_size_n%d", sp.n), len(w.menu))
		if sp.n == specs[0].n && sp.t10 == specs[0].t10 {
			var names, invalid []string
			for _, o := range w.menu {
				names = append(names, o.name+"="+o.effect)
				if !o.valid {
					invalid = append(invalid, o.name)
				}
			}
			r.Set("menu", names)
			r.Set("menu_ops_failing_isvalid", invalid)
		}
		wid := fmt.Sprintf("n=%d,t=%v", sp.n, w.threshold)

		for size := 1; size <= sp.depth; size++ {
			perms := c17perms(size)
			for _, cb := range c17combos(len(w.menu), size) {
				item++
				if !r.Mine(item) {
					continue
				}
				if r.Expired() {
					return
				}

				set := make([]c17op, size)
				setnames := make([]string, size)
				for i := range cb {
					set[i] = w.menu[cb[i]]
					setnames[i] = set[i].name
				}
				msid := wid + "/set=" + strings.Join(setnames, "+")
				wantset := r.Want(msid)

				seen := map[string]bool{}
				var firstid, firstvalue string
				var firstproduced bool
				nontrivial := false
				for _, o := range set {
					if o.effect != "" {
						nontrivial = true
					}
				}

				for _, pm := range perms {
					var prop, expels []c17op
					for _, i := range pm {
						if set[i].kind == "expel" {
							expels = append(expels, set[i])
						} else {
							prop = append(prop, set[i])
						}
					}
					// the voteproof sorts its expels: the expel order is not an input
					sort.Slice(expels, func(i, j int) bool { return expels[i].name < expels[j].name })
					key := c17names(prop) + "|expels=" + c17names(expels)
					if seen[key] {
						continue
					}
					seen[key] = true
					id := wid + "/block=" + key
					if !wantset && !r.Want(id) {
						continue
					}

					out := w.apply(t, prop, expels)
					block := append(append([]c17op{}, prop...), expels...)
					r.Eval()
					r.Trace()
					r.TransitionN(int64(len(block)))
					r.State(id)
					if nontrivial {
						r.Nontrivial(id)
					}
					w.check(r, id, block, out)

					oc := "unchanged"
					if out.produced {
						oc = fmt.Sprintf("members=%d", len(out.members))
					}
					for _, o := range block {
						res := out.results[o.op.Hash().String()]
						cls := "applied"
						if !res.instate {
							cls = "rejected"
						}
						r.Outcome(o.kind + ":" + cls)
					}
					r.Outcome("suffrage:" + oc)
					if size == sp.depth {
						r.Sample(map[string]any{"world": wid, "block": key, "new_suffrage_state": out.produced, "value": out.value, "candidates": out.candidates})
					}

					switch {
					case firstid == "":
						firstid, firstvalue, firstproduced = id, out.value, out.produced
					case firstproduced != out.produced || firstvalue != out.value:
						allvalid := true
						for _, o := range set {
							allvalid = allvalid && o.valid
						}
						r.Violation(msid, map[string]any{"kind": "order-dependent", "all_ops_pass_isvalid": allvalid, "n": w.n},
							fmt.Sprintf("same operations, different order, different suffrage: [%s] -> %q but [%s] -> %q", firstid, firstvalue, id, out.value),
							map[string]any{"a": firstid, "b": id})
					}
				}
			}
		}
	}

	// ---- part 2: the sign threshold check itself, on the grid
	N := 100
	if thorough {
		N = 300
	}
	r.Set("grid_n_max", N)
	nodes := make([]base.Node, N)
	signs := make([]base.NodeSign, N)
	for i := range nodes {
		nd := c17newnode(fmt.Sprintf("g%03d", i))
		nodes[i] = isaac.NewNode(nd.priv.Publickey(), nd.addr)
		signs[i] = base.NewBaseNodeSign(nd.addr, nd.priv.Publickey(), base.Signature([]byte("not verified by CheckFactSignsBySuffrage")), time.Time{})
	}
	for n := 1; n <= N; n++ {
		item++
		if !r.Mine(item) {
			continue
		}
		if r.Expired() {
			return
		}
		suf, err := isaac.NewSuffrage(nodes[:n])
		if err != nil {
			t.Fatal(err)
		}
		var accepted, rejected, evals int64
		for t10 := 510; t10 <= 1000; t10++ {
			// every k for four thresholds; for the others the k around the exact requirement and the extremes
			need := (n*t10 + 999) / 1000
			var ks []int
			if t10 == 510 || t10 == 670 || t10 == 750 || t10 == 1000 {
				for k := 0; k <= n; k++ {
					ks = append(ks, k)
				}
			} else {
				seen := map[int]bool{}
				for _, k := range []int{0, need - 2, need - 1, need, need + 1, n} {
					if k >= 0 && k <= n && !seen[k] {
						seen[k] = true
						ks = append(ks, k)
					}
				}
			}
			for _, k := range ks {
				id := fmt.Sprintf("grid/n=%d,k=%d,t10=%d", n, k, t10)
				if replaying && !r.Want(id) {
					continue
				}
				evals++
				got := base.CheckFactSignsBySuffrage(suf, base.Threshold(float64(t10)/10), signs[:k]) == nil
				want := k*1000 >= n*t10
				if got {
					accepted++
				} else {
					rejected++
				}
				if got != want {
					kind := "threshold-false-reject"
					if got {
						kind = "threshold-false-accept"
					}
					r.Violation(id, map[string]any{"kind": kind, "site": "CheckFactSignsBySuffrage"},
						fmt.Sprintf("CheckFactSignsBySuffrage(n=%d members, %d member signs, threshold %.1f) accepted=%v; exact: %d*1000 >= %d*%d is %v (float: (%d/%d)*100 = %v)",
							n, k, float64(t10)/10, got, k, n, t10, want, k, n, (float64(k)/float64(n))*100),
						map[string]any{"n": n, "k": k, "t10": t10})
				}
			}
		}
		r.EvalN(evals)
		r.StatesN(evals)
		r.NontrivialN(evals)
		if accepted > 0 {
			r.Outcome("grid:accepted")
		}
		if rejected > 0 {
			r.Outcome("grid:rejected")
		}
	}
}
