//go:build verif

package isaacblock

import (
	"context"
	crand "crypto/rand"
	"crypto/sha256"
	"encoding/binary"
	"fmt"
	"io"
	"os"
	"reflect"
	"runtime"
	"sort"
	"strings"
	"sync"
	"testing"
	"time"
	"unsafe"

	"github.com/spikeekips/mitum/base"
	"github.com/spikeekips/mitum/isaac"
	isaacdatabase "github.com/spikeekips/mitum/isaac/database"
	isaacoperation "github.com/spikeekips/mitum/isaac/operation"
	leveldbstorage "github.com/spikeekips/mitum/storage/leveldb"
	"github.com/spikeekips/mitum/util"
	"github.com/spikeekips/mitum/util/encoder"
	jsonenc "github.com/spikeekips/mitum/util/encoder/json"
	"github.com/spikeekips/mitum/util/fixedtree"
	"github.com/spikeekips/mitum/util/hint"
	"github.com/spikeekips/mitum/util/valuehash"
	"github.com/spikeekips/mitum/zzverif/vlib"
	"github.com/spikeekips/mitum/zzverif/vsched"
)

// C10: block production is deterministic. Processing the same proposal with
// the same operations over the same prior state always yields the same
// manifest (operations-tree root, states-tree root, suffrage hash), whatever
// the worker count and goroutine scheduling, for the built-in suffrage and
// network-policy operations.
//
// Seam: isaac.DefaultProposalProcessor.Process with the real isaacblock.Writer,
// a real isaacdatabase.LeveldbBlockWrite on an in-memory leveldb, the real
// operation processors of isaac/operation wired as launch.POperationProcessorsMap
// does, and a recording FSWriter stub.
//
// Stage 1 (TestVerifC10Native, engine Q): every ordered selection of <= 2/3
// menu operations, MaxWorkerSize 1/2/64, several native runs each, compared with
// the first sequential run of the same input (samples schedules: fixture and
// differential oracle).
// Stage 2 (TestVerifC10, engine S, the deciding step): the same Process call as
// the thread body under the controlled scheduler; every interleaving within the
// preemption bound of the submitting thread, the job goroutines of the
// processor's worker, the writer's save worker and the states merger's close
// worker; every execution's manifest must equal the sequential reference.

const (
	c10height    = base.Height(33)
	c10threshold = base.Threshold(67)
)

type c10item struct {
	name     string
	kind     string
	op       base.Operation
	oph      util.Hash // hash listed in the proposal
	facth    util.Hash
	reserved bool   // arrives through the expel INIT voteproof
	fetch    string // "" found | "invalid" | "notfound"
}

type c10env struct {
	networkID base.NetworkID
	encs      *encoder.Encoders
	enc       encoder.Encoder
	st        *leveldbstorage.Storage
	nodes     []base.LocalNode
	cands     map[string]base.LocalNode
	states    map[string]base.State
	previous  base.Manifest
	policy    isaac.NetworkPolicy
	menu      []c10item
	byhash    map[string]c10item
}

func c10local(name string) base.LocalNode {
	priv, err := base.NewMPrivatekeyFromSeed(strings.Repeat("c10-"+name+"-", 12)[:48])
	if err != nil {
		panic(err)
	}
	return base.NewBaseLocalNode(isaac.NodeHint, priv, base.NewStringAddress("c10"+name))
}

func c10hash(s string) util.Hash { return valuehash.NewSHA256([]byte("c10-" + s)) }

func c10must(err error) {
	if err != nil {
		panic(err)
	}
}

func c10newEnv() *c10env {
	enc := jsonenc.NewEncoder()
	e := &c10env{
		networkID: base.NetworkID("c10-network"),
		enc:       enc,
		encs:      encoder.NewEncoders(enc, enc),
		st:        leveldbstorage.NewMemStorage(),
		cands:     map[string]base.LocalNode{},
		states:    map[string]base.State{},
		byhash:    map[string]c10item{},
	}
	for _, n := range []string{"n0", "n1", "n2"} {
		e.nodes = append(e.nodes, c10local(n))
	}
	for _, n := range []string{"c1", "c2", "c3", "c4", "c5", "cx"} {
		e.cands[n] = c10local(n)
	}
	h := c10height

	// prior suffrage: n0, n1, n2
	sufnodes := make([]base.SuffrageNodeStateValue, len(e.nodes))
	for i, n := range e.nodes {
		sufnodes[i] = isaac.NewSuffrageNodeStateValue(isaac.NewNode(n.Publickey(), n.Address()), base.GenesisHeight+1)
	}
	e.states[isaac.SuffrageStateKey] = base.NewBaseState(h-1, isaac.SuffrageStateKey,
		isaac.NewSuffrageNodesStateValue(base.Height(22), sufnodes), c10hash("prev-suf"), []util.Hash{c10hash("prev-suf-op")})

	// prior candidates: c1, c2 valid; cx expired
	cand := func(name string, start, deadline base.Height) base.SuffrageCandidateStateValue {
		n := e.cands[name]
		return isaac.NewSuffrageCandidateStateValue(isaac.NewNode(n.Publickey(), n.Address()), start, deadline)
	}
	e.states[isaac.SuffrageCandidateStateKey] = base.NewBaseState(h-2, isaac.SuffrageCandidateStateKey,
		isaac.NewSuffrageCandidatesStateValue([]base.SuffrageCandidateStateValue{
			cand("cx", h-20, h-10), cand("c1", h-1, h+5), cand("c2", h-1, h+5), cand("c4", h-1, h+5), cand("c5", h-1, h+5),
		}), c10hash("prev-cand"), []util.Hash{c10hash("prev-cand-op")})

	// prior network policy
	e.policy = isaac.DefaultNetworkPolicy()
	e.states[isaac.NetworkPolicyStateKey] = base.NewBaseState(h-3, isaac.NetworkPolicyStateKey,
		isaac.NewNetworkPolicyStateValue(e.policy), c10hash("prev-policy"), []util.Hash{c10hash("prev-policy-op")})

	e.previous = isaac.NewManifest(h-1, c10hash("prev-prev"), c10hash("prev-proposal"), c10hash("prev-ops"), c10hash("prev-sts"),
		e.states[isaac.SuffrageStateKey].Hash(), time.Date(2026, 1, 2, 3, 4, 5, 0, time.UTC))

	signAll := func(sign func(base.Privatekey, base.NetworkID, base.Address) error, who ...base.LocalNode) {
		for _, n := range who {
			c10must(sign(n.Privatekey(), e.networkID, n.Address()))
		}
	}
	add := func(name, kind string, op base.Operation, reserved bool, fetch string) {
		if v, ok := op.(util.IsValider); ok && fetch == "" {
			c10must(v.IsValid(e.networkID))
		}
		it := c10item{name: name, kind: kind, op: op, oph: op.Hash(), facth: op.Fact().Hash(), reserved: reserved, fetch: fetch}
		e.menu = append(e.menu, it)
		e.byhash[it.oph.String()] = it
	}
	join := func(token, c string, who ...base.LocalNode) isaacoperation.SuffrageJoin {
		op := isaacoperation.NewSuffrageJoin(isaacoperation.NewSuffrageJoinFact(base.Token(token), e.cands[c].Address(), h-1))
		signAll(op.NodeSign, append([]base.LocalNode{e.cands[c]}, who...)...)
		return op
	}
	add("join-c1", "join", join("t-join-c1", "c1", e.nodes...), false, "")
	add("join-c2", "join", join("t-join-c2-valid", "c2", e.nodes...), false, "")
	add("join-c4", "join", join("t-join-c4", "c4", e.nodes...), false, "")
	add("join-c5", "join", join("t-join-c5", "c5", e.nodes...), false, "")
	add("join-c2-fewsigns", "join", join("t-join-c2", "c2", e.nodes[0]), false, "")
	add("join-c1-dup", "join", join("t-join-c1-dup", "c1", e.nodes...), false, "")
	candop := func(token, c string) isaacoperation.SuffrageCandidate {
		n := e.cands[c]
		op := isaacoperation.NewSuffrageCandidate(isaacoperation.NewSuffrageCandidateFact(base.Token(token), n.Address(), n.Publickey()))
		signAll(op.NodeSign, n)
		return op
	}
	add("cand-c3", "candidate", candop("t-cand-c3", "c3"), false, "")
	add("cand-cx", "candidate", candop("t-cand-cx", "cx"), false, "")
	disjoin := func(token string, n base.LocalNode) isaacoperation.SuffrageDisjoin {
		op := isaacoperation.NewSuffrageDisjoin(isaacoperation.NewSuffrageDisjoinFact(base.Token(token), n.Address(), base.GenesisHeight+1))
		signAll(op.NodeSign, n)
		return op
	}
	add("disjoin-n1", "disjoin", disjoin("t-disjoin-n1", e.nodes[1]), false, "")
	expel := func(target base.LocalNode, reason string) isaac.SuffrageExpelOperation {
		op := isaac.NewSuffrageExpelOperation(isaac.NewSuffrageExpelFact(target.Address(), h-1, h+3, reason))
		signAll(op.NodeSign, e.nodes[0])
		return op
	}
	add("expel-n2", "expel", expel(e.nodes[2], "c10 expel n2"), true, "")
	add("expel-n1", "expel", expel(e.nodes[1], "c10 expel n1"), true, "")
	policyop := func(token string, maxops uint64) isaacoperation.NetworkPolicy {
		p := e.policy
		p.SetMaxOperationsInProposal(maxops)
		op := isaacoperation.NewNetworkPolicy(isaacoperation.NewNetworkPolicyFact(base.Token(token), p))
		signAll(op.NodeSign, e.nodes...)
		return op
	}
	add("policy-a", "policy", policyop("t-policy-a", 111), false, "")
	add("policy-b", "policy", policyop("t-policy-b", 222), false, "")
	// an expel operation listed in the proposal body: getOperation drops it (expels only come by voteproof)
	add("expel-n2-in-proposal", "expel-in-proposal", expel(e.nodes[2], "c10 expel n2 in proposal"), false, "")
	// an operation the pool reports as invalid: becomes a ReasonProcessedOperation (not in state)
	add("invalid-op", "invalid", disjoin("t-disjoin-n0-invalid", e.nodes[0]), false, "invalid")
	return e
}

func (e *c10env) getState(key string) (base.State, bool, error) {
	st, found := e.states[key]
	return st, found, nil
}

func (e *c10env) getOperation(_ context.Context, oph, _ util.Hash) (base.Operation, error) {
	it, found := e.byhash[oph.String()]
	switch {
	case !found || it.fetch == "notfound":
		return nil, isaac.ErrOperationNotFoundInProcessor.Errorf("c10: not found")
	case it.fetch == "invalid":
		return nil, isaac.ErrInvalidOperationInProcessor.Errorf("c10: invalid operation")
	default:
		return it.op, nil
	}
}

// newOperationProcessor mirrors launch.POperationProcessorsMap (hint -> processor constructor)
// and launch.NewSuffrageCandidateLimiterFunc (fixed limiter rule: `limit` new candidates per block).
func (e *c10env) newOperationProcessor(rec *c10rec) isaac.NewOperationProcessorFunc {
	limiter := func(base.Height, base.GetStateFunc) (base.OperationProcessorProcessFunc, error) {
		var counted uint64
		const limit = 2
		return func(context.Context, base.Operation, base.GetStateFunc) (base.OperationProcessReasonError, error) {
			if counted >= limit {
				return base.NewBaseOperationProcessReasonf("reached limit, %d", limit), nil
			}
			counted++
			return nil, nil
		}, nil
	}
	return func(height base.Height, ht hint.Hint, getStatef base.GetStateFunc) (base.OperationProcessor, error) {
		var opp base.OperationProcessor
		var err error
		switch ht.Type() {
		case isaacoperation.SuffrageCandidateHint.Type():
			opp, err = isaacoperation.NewSuffrageCandidateProcessor(height, getStatef, limiter, nil, e.policy.SuffrageCandidateLifespan())
		case isaacoperation.SuffrageJoinHint.Type():
			opp, err = isaacoperation.NewSuffrageJoinProcessor(height, c10threshold, getStatef, nil, nil)
		case isaac.SuffrageExpelOperationHint.Type():
			opp, err = isaacoperation.NewSuffrageExpelProcessor(height, getStatef, nil, nil)
		case isaacoperation.SuffrageDisjoinHint.Type():
			opp, err = isaacoperation.NewSuffrageDisjoinProcessor(height, getStatef, nil, nil)
		case isaacoperation.NetworkPolicyHint.Type():
			opp, err = isaacoperation.NewNetworkPolicyProcessor(height, c10threshold, getStatef, nil, nil)
		default:
			return nil, nil
		}
		if err != nil {
			return nil, err
		}
		_ = rec
		return opp, nil
	}
}

// c10rec records schedule-dependent observables (vacuity guard only; never judged).
type c10rec struct {
	mu         sync.Mutex
	merges     []string // arrival order of SetStates calls (operation index)
	results    []string // arrival order of SetProcessResult calls
	fsops      []string // arrival order / total of FSWriter.SetOperation
	fsstates   []string
	fsmanifest int
}

func (r *c10rec) add(dst *[]string, s string) {
	r.mu.Lock()
	*dst = append(*dst, s)
	r.mu.Unlock()
}

// c10writer is the real *Writer; it only notes the arrival order of SetStates / SetProcessResult.
type c10writer struct {
	*Writer
	rec *c10rec
}

func (w *c10writer) SetStates(ctx context.Context, index uint64, states []base.StateMergeValue, op base.Operation) error {
	w.rec.add(&w.rec.merges, fmt.Sprint(index))
	return w.Writer.SetStates(ctx, index, states, op)
}

func (w *c10writer) SetProcessResult(ctx context.Context, index uint64, op, facthash util.Hash, instate bool, reason base.OperationProcessReasonError) error {
	w.rec.add(&w.rec.results, fmt.Sprint(index))
	return w.Writer.SetProcessResult(ctx, index, op, facthash, instate, reason)
}

// c10fs is the FSWriter stub: records what it is handed.
type c10fs struct{ rec *c10rec }

func (f *c10fs) SetProposal(context.Context, base.ProposalSignFact) error { return nil }
func (f *c10fs) SetOperation(_ context.Context, total, index uint64, _ base.Operation) error {
	f.rec.add(&f.rec.fsops, fmt.Sprintf("%d/%d", index, total))
	return nil
}
func (f *c10fs) SetOperationsTree(context.Context, fixedtree.Tree) error { return nil }
func (f *c10fs) SetState(_ context.Context, total, index uint64, st base.State) error {
	f.rec.add(&f.rec.fsstates, fmt.Sprintf("%d/%d:%s", index, total, st.Key()))
	return nil
}
func (f *c10fs) SetStatesTree(context.Context, fixedtree.Tree) error { return nil }
func (f *c10fs) SetManifest(context.Context, base.Manifest) error {
	f.rec.mu.Lock()
	f.rec.fsmanifest++
	f.rec.mu.Unlock()
	return nil
}
func (f *c10fs) SetINITVoteproof(context.Context, base.INITVoteproof) error     { return nil }
func (f *c10fs) SetACCEPTVoteproof(context.Context, base.ACCEPTVoteproof) error { return nil }
func (f *c10fs) Save(context.Context) (base.BlockMap, error)                    { return nil, nil }
func (f *c10fs) Cancel() error                                                  { return nil }

// c10input: an ordered selection of menu items; reserved ones go into the expel INIT voteproof in selection order.
type c10input struct {
	items    []c10item
	proposal base.ProposalSignFact
	ivp      base.INITVoteproof
}

func (in *c10input) id() string {
	if len(in.items) == 0 {
		return "(empty)"
	}
	ns := make([]string, len(in.items))
	for i, it := range in.items {
		ns[i] = it.name
	}
	return strings.Join(ns, ",")
}

func (in *c10input) kinds() string {
	ks := map[string]bool{}
	for _, it := range in.items {
		ks[it.kind] = true
	}
	var out []string
	for k := range ks {
		out = append(out, k)
	}
	sort.Strings(out)
	return strings.Join(out, "+")
}

func (e *c10env) newInput(sel []int) *c10input {
	in := &c10input{}
	var ophs [][2]util.Hash
	var expels []base.SuffrageExpelOperation
	for _, i := range sel {
		it := e.menu[i]
		in.items = append(in.items, it)
		if it.reserved {
			expels = append(expels, it.op.(base.SuffrageExpelOperation))
		} else {
			ophs = append(ophs, [2]util.Hash{it.oph, it.facth})
		}
	}
	point := base.RawPoint(int64(c10height), 0)
	pr := isaac.NewProposalSignFact(isaac.NewProposalFact(point, e.nodes[0].Address(), e.previous.Hash(), ophs))
	c10must(pr.Sign(e.nodes[0].Privatekey(), e.networkID))
	in.proposal = pr
	if len(expels) > 0 {
		ivp := isaac.NewINITExpelVoteproof(point)
		ivp.SetExpels(expels)
		in.ivp = ivp
	} else {
		in.ivp = isaac.NewINITVoteproof(point)
	}
	return in
}

// c10run is one fresh processor + writer + block-write database for one Process call.
type c10run struct {
	p        *isaac.DefaultProposalProcessor
	w        *c10writer
	rec      *c10rec
	in       *c10input
	manifest base.Manifest
	err      error
	done     bool
}

// c10setField overwrites an unexported field of a struct of another package.
func c10setField(obj any, name string, val any) {
	f := reflect.ValueOf(obj).Elem().FieldByName(name)
	if !f.IsValid() {
		panic("c10: no field " + name)
	}
	reflect.NewAt(f.Type(), unsafe.Pointer(f.UnsafeAddr())).Elem().Set(reflect.ValueOf(val))
}

func c10fnv(s string) uint64 {
	h := uint64(14695981039346656037)
	for i := 0; i < len(s); i++ {
		h ^= uint64(s[i])
		h *= 1099511628211
	}
	return h
}

// newRunLight is newRun for the controlled scheduler: the processor is a field-by-field copy of
// one made by the real constructor, with fresh `oprs` and `stcache` sharded maps whose shard
// placement is chosen by the harness (spread by a fixed hash, or everything in one shard). The
// real constructor allocates a 65535-slot shard table (1 MB, ~1.1 ms here) per processor and
// draws a random djb2 seed; shard count and seed only decide which keys share a lock.
func (e *c10env) newRunLight(tmpl *isaac.DefaultProposalProcessor, in *c10input, workers int64, collide bool) *c10run {
	run := &c10run{in: in, rec: &c10rec{}}
	p := new(isaac.DefaultProposalProcessor)
	reflect.ValueOf(p).Elem().Set(reflect.ValueOf(tmpl).Elem())
	hashf := func(k interface{}, size uint64) (uint64, interface{}) {
		if collide {
			return 0, k
		}
		return c10fnv(k.(string)) % size, k
	}
	oprs, err := util.NewShardedMapWithSeed[string, base.OperationProcessor](1, 1<<5, hashf, nil)
	c10must(err)
	stcache, err := util.NewShardedMapWithSeed[string, [2]interface{}](1, 1<<9, hashf, nil)
	c10must(err)
	c10setField(p, "oprs", oprs)
	c10setField(p, "stcache", stcache)
	c10setField(p, "args", e.newArgs(run, workers))
	run.p = p
	return run
}

func (e *c10env) newRun(in *c10input, workers int64) *c10run {
	run := &c10run{in: in, rec: &c10rec{}}
	p, err := isaac.NewDefaultProposalProcessor(in.proposal, e.previous, e.newArgs(run, workers))
	c10must(err)
	run.p = p
	return run
}

func (e *c10env) newArgs(run *c10run, workers int64) *isaac.DefaultProposalProcessorArgs {
	in := run.in
	_ = in
	args := isaac.NewDefaultProposalProcessorArgs()
	args.MaxWorkerSize = workers
	args.GetStateFunc = e.getState
	args.GetOperationFunc = e.getOperation
	args.NewOperationProcessorFunc = e.newOperationProcessor(run.rec)
	args.EmptyProposalNoBlockFunc = func() bool { return false }
	args.NewWriterFunc = func(proposal base.ProposalSignFact, getStateFunc base.GetStateFunc) (isaac.BlockWriter, error) {
		dbw := isaacdatabase.NewLeveldbBlockWrite(proposal.Point().Height(), e.st, e.encs, e.enc)
		w := NewWriter(proposal, getStateFunc, dbw, func(isaac.BlockWriteDatabase) error { return nil }, &c10fs{rec: run.rec}, workers)
		run.w = &c10writer{Writer: w, rec: run.rec}
		return run.w, nil
	}
	return args
}

func (run *c10run) process() {
	run.manifest, run.err = run.p.Process(context.Background(), run.in.ivp)
	run.done = true
}

type c10result struct {
	manifest, opsroot, stsroot, suffrage, err string
	class                                     string // structural class (deterministic text)
}

func (a c10result) diff(b c10result) string {
	switch {
	case a.err != b.err:
		return "error"
	case a.opsroot != b.opsroot:
		return "operations_tree"
	case a.stsroot != b.stsroot:
		return "states_tree"
	case a.suffrage != b.suffrage:
		return "suffrage"
	case a.manifest != b.manifest:
		return "manifest_hash"
	}
	return ""
}

func (a c10result) String() string {
	return fmt.Sprintf("manifest=%s ops=%s states=%s suffrage=%s err=%q", a.manifest, a.opsroot, a.stsroot, a.suffrage, a.err)
}

func c10hs(h util.Hash) string {
	if h == nil {
		return "-"
	}
	return h.String()
}

func (e *c10env) result(run *c10run) c10result {
	var res c10result
	if !run.done {
		res.err = "(Process did not return)"
		res.class = "err=noreturn"
		return res
	}
	if run.err != nil {
		res.err = strings.SplitN(run.err.Error(), "\n", 2)[0]
		res.class = "err=" + res.err
		return res
	}
	m := run.manifest
	res.manifest, res.opsroot, res.stsroot, res.suffrage = c10hs(m.Hash()), c10hs(m.OperationsTree()), c10hs(m.StatesTree()), c10hs(m.Suffrage())
	var marks []string
	if run.w != nil && run.w.opstree.Len() > 0 {
		_ = run.w.opstree.Traverse(func(_ uint64, n fixedtree.Node) (bool, error) {
			if on, ok := n.(base.OperationFixedtreeNode); ok && on.InState() {
				marks = append(marks, "+")
			} else {
				marks = append(marks, "-")
			}
			return true, nil
		})
	}
	nst := 0
	if run.w != nil {
		nst = run.w.ststree.Len()
	}
	res.class = fmt.Sprintf("err=nil optree=[%s] states=%d suffrage_changed=%v", strings.Join(marks, ""), nst,
		!m.Suffrage().Equal(e.previous.Suffrage()))
	return res
}

// c10quiesce waits until the goroutines of a native run have ended: a plain goroutine that is
// still on its way to a (shimmed) select when the next controlled execution starts would be
// reported as UNTRACKED.
var c10baseGoroutines int

func c10quiesce() {
	for i := 0; i < 20000 && runtime.NumGoroutine() > c10baseGoroutines; i++ {
		runtime.Gosched()
		if i > 100 {
			time.Sleep(50 * time.Microsecond)
		}
	}
}

// finish waits for the writer's save worker (natively) and cancels the writer, which hands the
// state mergers back to the pool as the real proposal processors do.
func (run *c10run) finishNative() {
	if run.w == nil {
		return
	}
	if sw := run.w.Writer.saveWorker(false); sw != nil {
		sw.Done()
		_ = sw.Wait()
	}
	_ = run.w.Writer.Cancel()
}

func c10perms(xs []int) [][]int {
	if len(xs) <= 1 {
		return [][]int{append([]int{}, xs...)}
	}
	var out [][]int
	for i := range xs {
		rest := append(append([]int{}, xs[:i]...), xs[i+1:]...)
		for _, p := range c10perms(rest) {
			out = append(out, append([]int{xs[i]}, p...))
		}
	}
	return out
}

func (e *c10env) sel(names ...string) []int {
	out := make([]int, len(names))
	for i, n := range names {
		out[i] = -1
		for j, it := range e.menu {
			if it.name == n {
				out[i] = j
			}
		}
		if out[i] < 0 {
			panic("unknown menu item " + n)
		}
	}
	return out
}

func c10selections(n, maxlen int) [][]int {
	out := [][]int{{}}
	var rec func(cur []int)
	rec = func(cur []int) {
		if len(cur) == maxlen {
			return
		}
		for i := 0; i < n; i++ {
			used := false
			for _, c := range cur {
				if c == i {
					used = true
				}
			}
			if used {
				continue
			}
			nx := append(append([]int{}, cur...), i)
			out = append(out, nx)
			rec(nx)
		}
	}
	rec(nil)
	return out
}

// ---- stage 1: native differential runs -------------------------------------------------

func c10native(r *vlib.Run, e *c10env) {
	maxlen := vlib.Pick(r, 2, 3)
	reps := vlib.Pick(r, 2, 4)
	sels := c10selections(len(e.menu), maxlen)
	if maxlen < 3 {
		sels = append(sels, c10perms(e.sel("join-c1", "join-c2", "join-c4"))...) // three joins accepted in one block
	}
	sels = append(sels, c10perms(e.sel("join-c1", "join-c2", "join-c4", "join-c5"))[:vlib.Pick(r, 4, 24)]...)
	r.Set("native_inputs_enumerated", len(sels))
	r.Set("native_max_selection", maxlen)
	r.Set("native_runs_per_input", vlib.Pick(r, 1+2*reps, 1+3*reps))
	defer runtime.GOMAXPROCS(runtime.GOMAXPROCS(vlib.Pick(r, 2, 4)))
	for i, sel := range sels {
		if !r.Mine(i) || r.Expired() {
			continue
		}
		in := e.newInput(sel)
		id := "native|" + in.id()
		if !r.Want(id) {
			continue
		}
		t0 := time.Now()
		ref0 := e.newRun(in, 1)
		ref0.process()
		ref := e.result(ref0)
		nmerge := len(ref0.rec.merges)
		ref0.finishNative()
		r.Trace()
		r.State(id)
		r.Outcome(ref.class)
		if nmerge >= 2 {
			r.Nontrivial(id)
		}
		orders := map[string]bool{strings.Join(ref0.rec.merges, "<"): true}
		for _, w := range []int64{1, 2, 64} {
			n := reps
			if w == 1 && !r.Thorough() {
				n = 0 // the reference run is the sequential one
			}
			for k := 0; k < n; k++ {
				run := e.newRun(in, w)
				run.process()
				got := e.result(run)
				orders[strings.Join(run.rec.merges, "<")] = true
				run.finishNative()
				r.Trace()
				r.Eval()
				if d := ref.diff(got); d != "" {
					r.Violation(id, map[string]any{"kind": "manifest-differs-between-runs", "stage": "native", "differs": d, "ops": in.kinds()},
						fmt.Sprintf("input [%s] MaxWorkerSize=%d run %d: %s ; first sequential run: %s", in.id(), w, k, got, ref), nil)
				}
			}
		}
		if len(orders) > 1 {
			r.Add("native_inputs_with_more_than_one_merge_order_seen", 1)
		}
		r.Add("native_inputs", 1)
		r.Add("native_ns", time.Since(t0).Nanoseconds())
		if i%37 == 5 {
			r.Sample(map[string]any{"input": in.id(), "class": ref.class})
		}
	}
}

// ---- stage 2: controlled scheduler ---------------------------------------------------

// c10stream pins crypto/rand.Reader during controlled executions: util.NewShardedMap draws its
// djb2 seed from it, and the seed decides which keys share a shard lock (= which threads block).
type c10stream struct {
	key string
	ctr uint64
	buf []byte
}

func (s *c10stream) reset() { s.ctr, s.buf = 0, nil }

func (s *c10stream) Read(p []byte) (int, error) {
	for i := range p {
		if len(s.buf) == 0 {
			var c [8]byte
			binary.BigEndian.PutUint64(c[:], s.ctr)
			s.ctr++
			h := sha256.Sum256(append([]byte(s.key), c[:]...))
			s.buf = h[:]
		}
		p[i] = s.buf[0]
		s.buf = s.buf[1:]
	}
	return len(p), nil
}

var _ io.Reader = (*c10stream)(nil)

// c10dfs is a delay-bounded explorer on top of vsched.Run: the scheduler's default policy (keep
// running the current thread while it is enabled, else the lowest enabled thread id) is the
// deterministic base schedule; the search enumerates EVERY choice sequence that deviates from it
// in at most `bound` scheduling decisions (a deviation = any other enabled thread is chosen at a
// scheduling point, preemptive or not). Each sequence is generated exactly once (children only
// deviate after the parent's last deviation). First-level branches are dealt out to the shards.
type c10dfs struct {
	build    func() vsched.Scenario
	bound    int
	expired  func() bool
	mine     func(j int64) bool
	lvl1     int64
	execs    int64
	points   int64
	maxPts   int
	byDev    map[int]int64
	outcomes map[string]int64
	found    []vsched.Found
	engine   string
	capped   string
	rootOut  string
}

func (x *c10dfs) runOnce(prefix []int, dev int, count bool) *vsched.Exec {
	sc := x.build()
	e := vsched.Run(vsched.Options{Prefix: prefix, Horizon: 20000}, sc.Roots...)
	if e.Diverged != "" {
		x.engine = e.Diverged + " prefix=" + vsched.ChoicesString(prefix)
		return e
	}
	if e.HorizonHit {
		x.capped = "horizon"
		return e
	}
	out := sc.Outcome(e)
	if prefix == nil {
		x.rootOut = out
	}
	if !count {
		return e
	}
	x.execs++
	x.points += int64(len(e.Points()))
	if n := len(e.Points()); n > x.maxPts {
		x.maxPts = n
	}
	x.byDev[dev]++
	x.outcomes[out]++
	if f := sc.Check(e); f != nil {
		x.outcomes["FAIL:"+vlib.SigString(f.Sig)]++
		if len(x.found) < 3 {
			x.found = append(x.found, vsched.Found{Choices: e.Choices(), Fail: f, Preempt: dev})
		}
	}
	return e
}

func c10samePoint(a, b vsched.PointRec) bool {
	return a.NEnabled == b.NEnabled && a.Kind == b.Kind && a.Thread == b.Thread
}

func (x *c10dfs) explore(countRoot bool) {
	x.byDev, x.outcomes = map[int]int64{}, map[string]int64{}
	// determinism self-test: the base schedule twice
	a := x.runOnce(nil, 0, false)
	if x.engine != "" || x.capped != "" {
		return
	}
	b := x.runOnce(nil, 0, countRoot)
	if x.engine != "" {
		return
	}
	pa, pb := a.Points(), b.Points()
	if len(pa) != len(pb) {
		x.engine = fmt.Sprintf("NONDETERMINISM: base schedule run twice: %d vs %d points", len(pa), len(pb))
		return
	}
	for i := range pa {
		if !c10samePoint(pa[i], pb[i]) {
			x.engine = fmt.Sprintf("NONDETERMINISM: base schedule run twice differs at point %d: %+v vs %+v", i, pa[i], pb[i])
			return
		}
	}
	x.branch(b, nil, 0)
}

func (x *c10dfs) branch(e *vsched.Exec, prefix []int, dev int) {
	if dev >= x.bound {
		return
	}
	pts := e.Points()
	choices := e.Choices()
	for i := len(prefix); i < len(pts); i++ {
		for alt := 1; alt < pts[i].NEnabled; alt++ {
			if dev == 0 {
				x.lvl1++
				if x.mine != nil && !x.mine(x.lvl1) {
					continue
				}
			}
			if x.engine != "" || x.capped != "" {
				return
			}
			if x.expired != nil && x.expired() {
				x.capped = "deadline"
				return
			}
			np := append(append(make([]int, 0, i+1), choices[:i]...), alt)
			c := x.runOnce(np, dev+1, true)
			if x.engine != "" || x.capped != "" {
				return
			}
			cp := c.Points()
			if len(cp) <= i {
				x.engine = fmt.Sprintf("NONDETERMINISM: replayed prefix ended early (%d points) prefix=%s", len(cp), vsched.ChoicesString(np))
				return
			}
			for k := 0; k < i; k++ {
				if !c10samePoint(pts[k], cp[k]) {
					x.engine = fmt.Sprintf("NONDETERMINISM: replayed prefix diverged at point %d: %+v vs %+v prefix=%s", k, pts[k], cp[k], vsched.ChoicesString(np))
					return
				}
			}
			if cp[i].NEnabled != pts[i].NEnabled {
				x.engine = fmt.Sprintf("NONDETERMINISM: enabled set changed at branching point %d prefix=%s", i, vsched.ChoicesString(np))
				return
			}
			x.branch(c, np, dev+1)
		}
	}
}

type c10scenario struct {
	sel     []int
	workers int64
	seed    string // pinned crypto/rand stream: shard placement of the maps mitum creates inside Process
	collide bool   // oprs / stcache of the processor: every key in one shard (true) or spread (false)
	desc    bool   // instrumented map ranges iterate in descending instead of ascending key order
	bound   int
}

func (e *c10env) schedScenarios(r *vlib.Run) []c10scenario {
	idx := map[string]int{}
	for i, it := range e.menu {
		idx[it.name] = i
	}
	sel := func(names ...string) []int {
		out := make([]int, len(names))
		for i, n := range names {
			j, ok := idx[n]
			if !ok {
				panic("unknown menu item " + n)
			}
			out[i] = j
		}
		return out
	}
	// inputs whose operations meet in one state merger / one processor
	conflicts := [][]int{
		sel("join-c1", "join-c2"),              // two nodes appended to the suffrage state, two candidates removed
		sel("join-c2", "join-c1"),              // same, listed the other way round
		sel("join-c1", "join-c1-dup"),          // second join of the same candidate is refused in PreProcess
		sel("disjoin-n1", "expel-n1"),          // same node leaves twice (operation + reserved expel)
		sel("disjoin-n1", "expel-n2"),          // two nodes leave
		sel("policy-a", "policy-b"),            // only one network-policy operation per block
		sel("cand-c3", "cand-cx"),              // two candidates added, one replaces an expired record
		sel("join-c1", "disjoin-n1"),           // join + leave on the suffrage state
		sel("join-c1", "cand-c3"),              // remove + add on the candidates state
		sel("expel-n2", "expel-n1"),            // two reserved operations
		sel("join-c2", "policy-a"),             // three states
		sel("join-c1", "join-c2-fewsigns"),     // second join refused for too few signs
		sel("expel-n2-in-proposal", "join-c1"), // ignored operation leaves a hole in the operations tree
		sel("invalid-op", "cand-c3"),           // reason-processed operation + a state
	}
	var scs []c10scenario
	add := func(sels [][]int, ws []int64, seed string, collide, desc bool, bound int) {
		for _, c := range sels {
			for _, w := range ws {
				scs = append(scs, c10scenario{sel: c, workers: w, seed: seed, collide: collide, desc: desc, bound: bound})
			}
		}
	}
	all2 := c10selections(len(e.menu), 2)
	var singles, all3 [][]int
	for _, c := range c10selections(len(e.menu), 3) {
		switch len(c) {
		case 1:
			singles = append(singles, c)
		case 3:
			all3 = append(all3, c)
		}
	}
	// three / four joins accepted in one block, every order of listing them in the proposal
	joins3 := c10perms(e.sel("join-c1", "join-c2", "join-c4"))
	joins4 := c10perms(e.sel("join-c1", "join-c2", "join-c4", "join-c5"))
	// selections of <= 2 / exactly 3 from the 7 operations of the design menu
	core := map[int]bool{}
	for _, i := range sel("join-c1", "join-c2-fewsigns", "cand-c3", "disjoin-n1", "expel-n2", "policy-a", "join-c1-dup") {
		core[i] = true
	}
	incore := func(c []int) bool {
		for _, i := range c {
			if !core[i] {
				return false
			}
		}
		return true
	}
	var core2, core3 [][]int
	for _, c := range all2 {
		if incore(c) {
			core2 = append(core2, c)
		}
	}
	for _, c := range all3 {
		if incore(c) {
			core3 = append(core3, c)
		}
	}
	if !r.Thorough() {
		add(joins3, []int64{64}, "A", false, false, 1)
		add(joins3[:2], []int64{2}, "A", false, false, 1)
		add(conflicts, []int64{2, 64}, "A", false, false, 1)
		add(conflicts[:6], []int64{1}, "A", false, false, 1)
		add(core2, []int64{2}, "A", false, false, 1)
		add(conflicts[:6], []int64{2}, "B", true, true, 1)
		add(joins3[:1], []int64{64}, "B", true, true, 1)
		return scs
	}
	add(joins3, []int64{2, 64}, "A", false, false, 1)
	add(joins4, []int64{64}, "A", false, false, 1)
	add(joins4[:4], []int64{2, 3}, "A", false, false, 1)
	add(all2, []int64{1, 2, 64}, "A", false, false, 1)
	add(all2, []int64{2}, "B", true, true, 1)
	add(conflicts, []int64{64}, "B", true, true, 1)
	add(joins3, []int64{64}, "B", true, true, 1)
	add(conflicts, []int64{2}, "B", false, true, 1)
	add(conflicts, []int64{2}, "A", true, false, 1)
	add(core3, []int64{2, 64}, "A", false, false, 1)
	add(joins3[:1], []int64{64}, "A", false, false, 2)
	add(singles, []int64{2}, "A", false, false, 2)
	add(conflicts[:5], []int64{2}, "A", false, false, 2)
	add(conflicts[:2], []int64{64}, "A", false, false, 2)
	return scs
}

func c10sched(r *vlib.Run, e *c10env) {
	scs := e.schedScenarios(r)
	r.Set("sched_scenarios_enumerated", len(scs))
	shard, nshards := r.Shard()
	orig := crand.Reader
	defer func() { crand.Reader = orig }()
	var lvl1total int64
	defer func() {
		if !r.Expired() {
			// every shard walks every scenario's base schedule: the totals must agree (min == max in the evidence)
			r.Max("first_level_branches_total_max_over_shards", lvl1total)
			r.Min("first_level_branches_total_min_over_shards", lvl1total)
		}
	}()
	var global int64 // first-level branches over all scenarios, dealt round-robin to the shards
	for _, s := range scs {
		if r.Expired() {
			break
		}
		s := s
		in := e.newInput(s.sel)
		id := fmt.Sprintf("sched|%s|w=%d|seed=%s|collide=%v|desc=%v", in.id(), s.workers, s.seed, s.collide, s.desc)
		if f := os.Getenv("C10_ONLY"); f != "" && !strings.Contains(id, f) {
			continue
		}
		if b := os.Getenv("C10_BOUND"); b != "" {
			fmt.Sscan(b, &s.bound)
		}
		rid, replaying := r.Replaying()
		if replaying {
			if k := strings.LastIndex(rid, "#"); k < 0 || rid[:k] != id {
				continue
			}
		}
		// sequential native reference of this input
		ref0 := e.newRun(in, 1)
		ref0.process()
		ref := e.result(ref0)
		nmerge := len(ref0.rec.merges)
		ref0.finishNative()
		c10quiesce()
		tmpl, err := isaac.NewDefaultProposalProcessor(in.proposal, e.previous, isaac.NewDefaultProposalProcessorArgs())
		c10must(err)

		stream := &c10stream{key: "c10-seed-" + s.seed}
		build := func() vsched.Scenario {
			stream.reset()
			run := e.newRunLight(tmpl, in, s.workers, s.collide)
			return vsched.Scenario{
				Roots: []func(){run.process},
				Outcome: func(*vsched.Exec) string {
					got := e.result(run)
					return fmt.Sprintf("%s | merge-order=%s result-order=%s", got.class, strings.Join(run.rec.merges, "<"), strings.Join(run.rec.results, "<"))
				},
				Check: func(x *vsched.Exec) *vsched.Fail {
					if x.Panic != nil {
						return &vsched.Fail{Sig: map[string]any{"kind": "panic", "stage": "sched"}, Detail: fmt.Sprintf("%v\n%s | %s", x.Panic, x.PanicStack, id)}
					}
					if x.Deadlock || !run.done {
						return &vsched.Fail{Sig: map[string]any{"kind": "deadlock", "stage": "sched"}, Detail: strings.Join(x.Blocked, "; ") + " | " + id}
					}
					got := e.result(run)
					if d := ref.diff(got); d != "" {
						return &vsched.Fail{
							Sig: map[string]any{"kind": "manifest-differs-between-runs", "stage": "sched", "differs": d, "ops": in.kinds()},
							Detail: fmt.Sprintf("input [%s] MaxWorkerSize=%d: %s ; sequential reference: %s ; merge-order=%v result-order=%v",
								in.id(), s.workers, got, ref, run.rec.merges, run.rec.results),
						}
					}
					return nil
				},
			}
		}
		crand.Reader = stream
		vsched.Descending = s.desc
		restore := func() { crand.Reader = orig; vsched.Descending = false }
		if replaying {
			k := strings.LastIndex(rid, "#")
			sc := build()
			x := vsched.Run(vsched.Options{Prefix: vsched.ParseChoices(rid[k+1:])}, sc.Roots...)
			restore()
			if x.Diverged != "" {
				panic("engine error in replay of " + rid + ": " + x.Diverged)
			}
			r.Trace()
			if f := sc.Check(x); f != nil {
				r.Violation(rid, f.Sig, f.Detail, nil)
			}
			continue
		}
		if os.Getenv("C10_TRACE") != "" {
			for k := 0; k < 3; k++ {
				sc := build()
				x := vsched.Run(vsched.Options{Log: true}, sc.Roots...)
				fmt.Println("TRACE", k, id)
				fmt.Println(strings.Join(x.Log, "\n"))
			}
			restore()
			continue
		}
		t0 := time.Now()
		base := global
		x := &c10dfs{build: build, bound: s.bound, expired: r.Expired,
			mine: func(j int64) bool { return nshards <= 1 || int((base+j)%int64(nshards)) == shard }}
		owner := nshards <= 1 || int(base%int64(nshards)) == shard // the shard that counts the base execution of this scenario
		x.explore(owner)
		global += x.lvl1 + 1
		lvl1total += x.lvl1
		restore()
		if x.engine != "" {
			panic("engine error in " + id + ": " + x.engine)
		}
		r.TraceN(x.execs)
		r.TransitionN(x.points)
		r.EvalN(x.execs)
		r.Add("sched_ns", time.Since(t0).Nanoseconds())
		for b, n := range x.byDev {
			r.Add(fmt.Sprintf("sched_executions_with_%d_deviations", b), n)
		}
		if x.capped != "" {
			r.Cap(x.capped + " in " + id)
		}
		r.Max("max_points_per_execution", int64(x.maxPts))
		norders := 0
		for o, n := range x.outcomes {
			if strings.HasPrefix(o, "FAIL:") {
				continue
			}
			norders++
			_ = n
		}
		r.Max("max_arrival_orders_per_scenario_and_shard", int64(norders))
		if owner {
			r.Add("sched_scenarios", 1)
			r.Add(fmt.Sprintf("sched_scenarios_deviation_bound_%d", s.bound), 1)
			r.State(id)
			r.Outcome(strings.SplitN(x.rootOut, " | ", 2)[0])
			if nmerge >= 2 {
				r.Nontrivial(id)
			}
			r.Sample(map[string]any{"scenario": id, "deviation_bound": s.bound, "first_level_branches": x.lvl1, "points_base_schedule": x.maxPts})
		}
		for o := range x.outcomes {
			if !strings.HasPrefix(o, "FAIL:") && o != x.rootOut {
				r.Add("sched_executions_groups_with_other_arrival_order_than_base_schedule", 1)
			}
		}
		for _, f := range x.found {
			r.Violation(id+"#"+vsched.ChoicesString(f.Choices), f.Fail.Sig, f.Fail.Detail+fmt.Sprintf(" (deviations=%d)", f.Preempt), nil)
		}
		if os.Getenv("C10_STATS") != "" {
			fmt.Printf("STATS %s bound=%d execs=%d by=%v lvl1=%d points_max=%d orders=%d ms=%d capped=%q\n", id, s.bound, x.execs, x.byDev, x.lvl1,
				x.maxPts, norders, time.Since(t0).Milliseconds(), x.capped)
		}
	}
}

func TestVerifC10(t *testing.T) {
	r := vlib.Start("C10")
	defer r.Finish()
	r.Rule("inputs = ordered selections without repetition of 15 pre-signed menu operations (valid joins c1/c2/c4/c5, join with too few signs, duplicate join, candidates c3 / expired cx, disjoin n1, expels of n2 / n1 arriving as reserved operations through an expel INIT voteproof, two network-policy changes, an expel listed in the proposal body, an operation the pool reports invalid) over one prior state (suffrage n0,n1,n2; candidates c1,c2,c4,c5 valid, cx expired; one network policy). Stage 1 (native): every selection of <= 2 (quick) / <= 3 (thorough) operations plus the 3-join and 4-join blocks in every / several listing orders, MaxWorkerSize 1/2/64, repeated native runs against the first sequential run. Stage 2 (controlled scheduler, deciding): scenario = selection x MaxWorkerSize x shard placement x map-range order; one thread calls DefaultProposalProcessor.Process on fresh real objects; EVERY schedule deviating from the deterministic base schedule in <= k scheduling decisions (delay bound k) of that thread and all goroutines started by the processor, its job workers, the writer's save worker and the states merger's close worker; each execution's (manifest hash, operations root, states root, suffrage hash, error) must equal the sequential reference; states = inputs and scenarios; non-trivial = >= 2 operations of the input reach the states merger")
	r.Assume("goleveldb and the JSON encoder run as atomic steps of the calling thread; the FSWriter is a recording stub; prior states come from a pure map-backed GetStateFunc")
	r.Assume("stage 2 builds the processor as a copy of one made by NewDefaultProposalProcessor with fresh oprs/stcache sharded maps of 32/512 shards and harness-chosen placement (spread, or all keys in one shard) instead of 32/65535 shards and a random djb2 seed; crypto/rand.Reader is pinned per scenario so that the sharded maps created inside Process get the same seed in every execution (placement decides lock sharing only)")
	e := c10newEnv()
	time.Sleep(2 * time.Millisecond)
	c10baseGoroutines = runtime.NumGoroutine()
	if rid, rp := r.Replaying(); !rp || strings.HasPrefix(rid, "native|") {
		c10native(r, e)
		c10quiesce()
	}
	if rid, rp := r.Replaying(); !rp || strings.HasPrefix(rid, "sched|") {
		c10sched(r, e)
	}
}
