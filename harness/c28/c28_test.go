//go:build verif

package launch

// C28: for every signed protocol object, changing any part of the signed
// content makes validation fail (fact, each signature, signer, node, signing
// time, kind of fact, network id); two facts of different kinds never share a
// hash.
//
// For each signed family a set of valid base documents is built with the real
// constructors and encoded; then EVERY node of the JSON tree x the mutation
// alphabet is applied (exhaustively), the mutated document is decoded with the
// node's encoder and validated with IsValid(networkID).

import (
	"bytes"
	"encoding/json"
	"fmt"
	"sort"
	"strconv"
	"strings"
	"testing"
	"time"

	"github.com/spikeekips/mitum/base"
	"github.com/spikeekips/mitum/isaac"
	isaacoperation "github.com/spikeekips/mitum/isaac/operation"
	"github.com/spikeekips/mitum/util"
	"github.com/spikeekips/mitum/util/encoder"
	jsonenc "github.com/spikeekips/mitum/util/encoder/json"
	"github.com/spikeekips/mitum/util/hint"
	"github.com/spikeekips/mitum/zzverif/vlib"
)

// ---------------------------------------------------------------- base documents

type c28Doc struct {
	fam   string
	name  string
	build func() any
	// nosign: the family is protected by a recomputed hash only (base state); the network-id swap does not apply
	nosign bool
	// validate: what the receiving code runs on the decoded object in addition to IsValid(networkID)
	validate func(y any) error
}

// c28Expected: the interface the receiving code decodes the family into
// (encoder.Decode[T] / util.SetInterfaceValue reject anything else).
func c28Expected(fam string, y any) bool {
	var ok bool

	switch fam {
	case "ballot-sign-fact":
		_, ok = y.(base.BallotSignFact)
	case "proposal-sign-fact":
		_, ok = y.(base.ProposalSignFact)
	case "operation":
		_, ok = y.(base.Operation)
	case "blockmap":
		_, ok = y.(base.BlockMap)
	case "suffrage-proof":
		_, ok = y.(base.SuffrageProof)
	case "state":
		_, ok = y.(base.State)
	case "voteproof":
		_, ok = y.(base.Voteproof)
	case "ballot":
		_, ok = y.(base.Ballot)
	default:
		panic("unknown family " + fam)
	}

	return ok
}

func c28Docs(thorough bool) []c28Doc {
	var ds []c28Doc

	add := func(fam, name string, build func() any) { ds = append(ds, c28Doc{fam: fam, name: name, build: build}) }

	// ballot sign facts, every fact kind
	for k := vfxKINIT; k <= vfxKNotProcessed; k++ {
		k := k
		nexp := 2
		if k == vfxKEmptyProposal || k == vfxKEmptyOperations || k == vfxKNotProcessed {
			nexp = 0
		}

		add("ballot-sign-fact", k.String(), func() any {
			return vfxSignFact(vfxBallotFact(k, base.RawPoint(33, 1), vfxH("h1"), vfxH("h2"), vfxHs("expelfact", nexp)), vfxN(0), true)
		})
	}

	add("proposal-sign-fact", "ops=2", func() any { return vfxProposal(base.RawPoint(33, 1), vfxN(0), 2, true) })

	// operations
	add("operation", "expel", func() any { return vfxExpelOp(vfxN(10), 33, "some reason", vfxNs(0, 1)) })
	add("operation", "candidate", func() any { return vfxCandidateOp(vfxNs(20, 0)) })
	add("operation", "join", func() any { return vfxJoinOp(vfxNs(20, 0)) })
	add("operation", "disjoin", func() any { return vfxDisjoinOp(vfxNs(20)) })
	add("operation", "network-policy", func() any { return vfxNetworkPolicyOp(vfxNs(0, 1)) })
	add("operation", "genesis-network-policy", func() any { return vfxGenesisNetworkPolicyOp(true) })
	add("operation", "genesis-join", func() any { return vfxGenesisJoinOp(2, true) })

	// multi-sign objects: the documents above carry 1 or 2 signs; the same node operations with 3 node signs,
	// and the plain (not node) base.BaseOperation signed by 2 and 3 keys
	// (signed in different milliseconds, see c28NextMillisecond)
	for _, signers := range [][]int{{0, 1}, {0, 1, 2}} {
		signers := signers
		tag := fmt.Sprintf(",signs=%d,spread", len(signers))

		add("operation", "expel"+tag, func() any {
			op := vfxExpelOp(vfxN(10), 33, "some reason", nil)
			c28NodeSignSpread(&op, vfxNs(signers...))

			return op
		})
		add("operation", "network-policy"+tag, func() any {
			op := vfxNetworkPolicyOp(nil)
			c28NodeSignSpread(&op, vfxNs(signers...))

			return op
		})
		add("operation", "candidate"+tag, func() any {
			op := vfxCandidateOp(nil)
			c28NodeSignSpread(&op, vfxNs(append([]int{20}, signers[1:]...)...))

			return op
		})
		add("operation", "join"+tag, func() any {
			op := vfxJoinOp(nil)
			c28NodeSignSpread(&op, vfxNs(append([]int{20}, signers[1:]...)...))

			return op
		})
	}
	add("operation", "plain-base-operation,signs=1", func() any { return c28NewPlainOp(vfxNs(0)) })
	add("operation", "plain-base-operation,signs=2", func() any { return c28NewPlainOp(vfxNs(0, 1)) })
	add("operation", "plain-base-operation,signs=3", func() any { return c28NewPlainOp(vfxNs(0, 1, 2)) })

	// block map, suffrage proof, state
	add("blockmap", "all-items", func() any {
		n := vfxN(0)

		return vfxBlockMap(vfxManifest(33, true), vfxAllItemTypes, &n)
	})
	add("blockmap", "required-items,no-trees", func() any {
		n := vfxN(0)

		return vfxBlockMap(vfxManifest(33, false), vfxAllItemTypes[:2], &n)
	})
	// a suffrage proof is validated by IsValid and then Prove(previous suffrage state) ("Prove should be called after IsValid()")
	ds = append(ds, c28Doc{fam: "suffrage-proof", name: "tree=3", build: func() any { return vfxSuffrageProof(33, 3) },
		validate: func(y any) error {
			return y.(base.SuffrageProof).Prove(vfxPreviousSuffrageState(33)) //nolint:forcetypeassert //...
		}})
	ds = append(ds, c28Doc{fam: "state", name: "suffrage", nosign: true, build: func() any {
		return vfxSuffrageState(33, 2, vfxH("previous-state"), 2)
	}})

	// voteproofs
	vpfact := func(stage base.Stage, efs []util.Hash) base.BallotFact {
		if stage == base.StageINIT {
			return isaac.NewINITBallotFact(base.RawPoint(33, 1), vfxH("block-32"), vfxH("proposal-33"), efs)
		}

		return isaac.NewACCEPTBallotFact(base.RawPoint(33, 1), vfxH("proposal-33"), vfxH("block-33"), efs)
	}

	for _, stage := range []base.Stage{base.StageINIT, base.StageACCEPT} {
		stage := stage

		add("voteproof", stage.String()+",majority", func() any { return vfxMajorityVP(vpfact(stage, nil), vfxNs(0, 1, 2), nil) })
		add("voteproof", stage.String()+",expel", func() any {
			expels := vfxExpels(2, 33)

			return vfxMajorityVP(vpfact(stage, vfxExpelFactHashes(expels)), vfxNs(0, 1, 2), expels)
		})
		add("voteproof", stage.String()+",stuck", func() any {
			expels := vfxExpels(1, 33)

			return vfxVoteproof(vfxVP{
				stage: stage, variant: "stuck", point: base.RawPoint(33, 1),
				sfs: vfxSignFacts(vpfact(stage, nil), vfxNs(0, 1)), expels: expels,
			})
		})

		if thorough || stage == base.StageACCEPT {
			add("voteproof", stage.String()+",split-draw", func() any { return vfxShapeVoteproof(stage, "plain", "split", 3, 0, true) })
		}
	}

	// ballots
	add("ballot", "init,expels=1", func() any { return vfxINITBallot(1) })
	add("ballot", "accept,expels=1", func() any { return vfxACCEPTBallot(1, vfxKACCEPT) })
	add("ballot", "init,suffrage-confirm", func() any { return vfxSuffrageConfirmBallot(1) })

	if thorough {
		add("ballot", "init,expels=2", func() any { return vfxINITBallot(2) })
		add("ballot", "init,round1,accept-draw", func() any { return vfxINITBallotNextRound(base.StageACCEPT) })
		add("ballot", "init,round1,init-draw", func() any { return vfxINITBallotNextRound(base.StageINIT) })
		add("ballot", "accept,empty-operations", func() any { return vfxACCEPTBallot(0, vfxKEmptyOperations) })
		add("ballot", "accept,not-processed", func() any { return vfxACCEPTBallot(0, vfxKNotProcessed) })
		add("ballot", "accept,expels=2", func() any { return vfxACCEPTBallot(2, vfxKACCEPT) })
	}

	return ds
}

// ---------------------------------------------------------------- allow-list

// c28Allowed: fields that are by design outside signed content. Matching is on
// the innermost enclosing hinted object ("owner", by hint type; a trailing * is
// a prefix match), the field path below it (array indices stripped) and the
// mutation class.
type c28Allow struct {
	Name  string   `json:"name"`
	Owner string   `json:"owner"`
	Field string   `json:"field"`
	Muts  []string `json:"mutations"`
	Why   string   `json:"why"`
}

var c28AllowList = []c28Allow{
	{
		Name: "sub-millisecond-time", Owner: "*", Field: "*", Muts: []string{"time+1ns"},
		Why: "every signed or hashed time goes through localtime.Time.Bytes(), which is util.NormalizeTime (millisecond precision) " +
			"(base/sign.go Verify, isaac/proposal.go generateHash, isaac/block.go generateHash, isaac/voteproof.go HashBytes); " +
			"the sub-millisecond part is not signed content. +1ms on the same fields must fail and is checked.",
	},
	{
		Name: "hint-version", Owner: "*", Field: "_hint", Muts: []string{"hint-version"},
		Why: "only the version part of a _hint changes, the type stays: util/hint CompatibleSet decodes any compatible version into the same Go type by design; " +
			"no fact hash or signature covers the hint version (the kind of an object is its hint type, which the hint-swap mutations change)",
	},
	{
		Name: "voteproof-id", Owner: "*voteproof", Field: "id", Muts: []string{"flip", "twin", "sibling"},
		Why: "base/voteproof.go: 'ID is only unique in local machine'; the id is not in HashBytes and nobody signs a voteproof as a whole " +
			"(base.IsValidVoteproof only rejects an empty id)",
	},
	{
		Name: "voteproof-finished-at", Owner: "*voteproof", Field: "finished_at", Muts: []string{"time+1ms", "twin", "sibling", "flip"},
		Why: "local completion time of the collecting node; a voteproof is an aggregate of individually signed sign facts and is not signed itself " +
			"(base.IsValidVoteproof only rejects the zero time)",
	},
	{
		Name: "voteproof-threshold", Owner: "*voteproof", Field: "threshold", Muts: []string{"number", "twin", "sibling", "flip"},
		Why: "not signed by the voters; IsValid only range-checks it (base.Threshold.IsValid) and stuck voteproofs demand 100; " +
			"its use against the suffrage is isaac.IsValidVoteproofWithSuffrage, outside IsValid(networkID) (see C03/C17)",
	},
	{
		Name: "voteproof-majority-pointer", Owner: "*voteproof", Field: "majority", Muts: []string{"null", "delete", "twin", "sibling", "flip"},
		Why: "the majority field only names which of the contained (signed) facts won; whether that is the true result needs the suffrage and is " +
			"checked by base.IsValidVoteproofWithSuffrage (wrong result / wrong majority), outside IsValid(networkID). A hash naming no contained fact decodes to a draw.",
	},
	{
		Name: "voteproof-drop-vote", Owner: "*voteproof", Field: "sign_facts[]", Muts: []string{"delete-element"},
		Why: "removing one complete, individually signed vote leaves a smaller valid set of votes; the number of votes is judged against the suffrage by " +
			"IsValidVoteproofWithSuffrage, outside IsValid(networkID)",
	},
	{
		Name: "suffrage-proof-node-key", Owner: "suffrage-proof", Field: "proof[].key", Muts: []string{"flip", "twin", "sibling"},
		Why: "the merkle proof inside a suffrage proof is not signed content; it is checked by SuffrageProof.Prove (run by this check after IsValid). " +
			"fixedtree.Proof.Prove recomputes parent hashes from the children's hashes, so the key of a proof node other than the proved one is bound by no hash " +
			"(util/fixedtree, reported under C12); every proof[].hash mutation is rejected and is checked.",
	},
	{
		Name: "signs-only-genuine-signs-left", Owner: "*", Field: "signs", Muts: []string{"signs-subset"},
		Why: "the compound sign mutations (copy fields between signs / insert a sign, then recompute the operation's unkeyed digest) can produce a list in which every " +
			"element is, field for field, one of the original signs: an element repeated and/or one missing (copying ALL fields of sign i onto sign j; inserting the exact " +
			"duplicate). No signed content changed and nothing was added that its signer did not produce; every sign in the list is still verified. " +
			"base.BaseNodeOperation rejects a repeated node, base.BaseOperation accepts the repetition; whether the remaining signers suffice is decided against the " +
			"suffrage / the keys of the account (base.CheckFactSignsBySuffrage, isaac operation processors, applications), outside IsValid(networkID) - " +
			"the same reasoning as voteproof-drop-vote. Any altered or invented sign in the list is NOT covered by this entry.",
	},
	{
		Name: "voteproof-variant", Owner: "*voteproof", Field: "_hint",
		Muts: []string{
			"hint-swap:init-voteproof", "hint-swap:init-expel-voteproof", "hint-swap:accept-voteproof", "hint-swap:accept-expel-voteproof",
		},
		Why: "relabelling an expel/stuck voteproof as the expel/plain voteproof of the same stage changes only the unsigned envelope (how the expels list is used); " +
			"every contained sign fact and expel operation is still verified. Whether the votes suffice for that variant is decided with the suffrage " +
			"(isaac.IsValidVoteproofWithSuffrage), outside IsValid(networkID). The reverse direction (plain -> expel/stuck) and any stage change are rejected and are checked.",
	},
}

func c28AllowedBy(owner, field, mut string) *c28Allow {
	for i := range c28AllowList {
		a := &c28AllowList[i]

		switch {
		case a.Owner == "*":
		case strings.HasPrefix(a.Owner, "*"):
			if !strings.HasSuffix(owner, a.Owner[1:]) {
				continue
			}
		case a.Owner != owner:
			continue
		}

		if a.Field != "*" && a.Field != field {
			continue
		}

		for _, m := range a.Muts {
			if m == mut {
				return a
			}
		}
	}

	return nil
}

// ---------------------------------------------------------------- JSON tree

type c28Step struct {
	key string
	idx int // -1: key
}

type c28Path []c28Step

func (p c28Path) String() string {
	var sb strings.Builder

	for i := range p {
		if p[i].idx >= 0 {
			fmt.Fprintf(&sb, "[%d]", p[i].idx)

			continue
		}

		if sb.Len() > 0 {
			sb.WriteByte('.')
		}

		sb.WriteString(p[i].key)
	}

	return sb.String()
}

func (p c28Path) child(s c28Step) c28Path {
	q := make(c28Path, len(p)+1)
	copy(q, p)
	q[len(p)] = s

	return q
}

func c28Parse(b []byte) any {
	d := json.NewDecoder(bytes.NewReader(b))
	d.UseNumber()

	var v any
	if err := d.Decode(&v); err != nil {
		panic(err)
	}

	return v
}

func c28Clone(v any) any {
	switch t := v.(type) {
	case map[string]any:
		m := make(map[string]any, len(t))
		for k, w := range t {
			m[k] = c28Clone(w)
		}

		return m
	case []any:
		a := make([]any, len(t))
		for i := range t {
			a[i] = c28Clone(t[i])
		}

		return a
	default:
		return v
	}
}

func c28Get(root any, p c28Path) (any, bool) {
	v := root

	for _, s := range p {
		switch t := v.(type) {
		case map[string]any:
			if s.idx >= 0 {
				return nil, false
			}

			w, ok := t[s.key]
			if !ok {
				return nil, false
			}

			v = w
		case []any:
			if s.idx < 0 || s.idx >= len(t) {
				return nil, false
			}

			v = t[s.idx]
		default:
			return nil, false
		}
	}

	return v, true
}

// c28Set returns a deep copy of root with the node at p replaced by f(old);
// f returning (nil, true) as second value deletes the node.
func c28Edit(root any, p c28Path, val any, del bool) any {
	if len(p) == 0 {
		return val
	}

	cp := c28Clone(root)

	parent, ok := c28Get(cp, p[:len(p)-1])
	if !ok {
		panic("bad path " + p.String())
	}

	last := p[len(p)-1]

	switch t := parent.(type) {
	case map[string]any:
		if del {
			delete(t, last.key)
		} else {
			t[last.key] = val
		}

		return cp
	case []any:
		var n []any
		if del {
			n = append(append([]any{}, t[:last.idx]...), t[last.idx+1:]...)
		} else {
			n = append([]any{}, t...)
			n[last.idx] = val
		}

		// re-attach the new slice to the grandparent
		if len(p) == 1 {
			return n
		}

		gp, _ := c28Get(cp, p[:len(p)-2])
		pl := p[len(p)-2]

		switch g := gp.(type) {
		case map[string]any:
			g[pl.key] = n
		case []any:
			g[pl.idx] = n
		}

		return cp
	}

	panic("bad parent at " + p.String())
}

// c28Walk visits every node (pre-order, object members in sorted key order).
func c28Walk(v any, p c28Path, f func(p c28Path, v any)) {
	f(p, v)

	switch t := v.(type) {
	case map[string]any:
		ks := make([]string, 0, len(t))
		for k := range t {
			ks = append(ks, k)
		}

		sort.Strings(ks)

		for _, k := range ks {
			c28Walk(t[k], p.child(c28Step{key: k, idx: -1}), f)
		}
	case []any:
		for i := range t {
			c28Walk(t[i], p.child(c28Step{idx: i}), f)
		}
	}
}

// c28Owner: hint type of the innermost object on the path that has a "_hint",
// and the path below it with indices stripped.
func c28Owner(root any, p c28Path) (owner, field string) {
	owner = "?"
	start := 0

	for i := 0; i <= len(p); i++ {
		v, ok := c28Get(root, p[:i])
		if !ok {
			break
		}

		if m, ok := v.(map[string]any); ok {
			if s, ok := m["_hint"].(string); ok && i < len(p) {
				if ht, err := hint.ParseHint(s); err == nil {
					owner = ht.Type().String()
					start = i
				}
			}
		}
	}

	var parts []string

	for _, s := range p[start:] {
		if s.idx >= 0 {
			if len(parts) > 0 {
				parts[len(parts)-1] += "[]"
			} else {
				parts = append(parts, "[]")
			}

			continue
		}

		parts = append(parts, s.key)
	}

	return owner, strings.Join(parts, ".")
}

func c28IsLeaf(v any) bool {
	switch v.(type) {
	case map[string]any, []any:
		return false
	}

	return true
}

// ---------------------------------------------------------------- mutations

type c28Mut struct {
	id    string // deterministic, unique per site
	class string // flip | time+1ns | time+1ms | number | negate | delete | delete-element | null | sibling | twin | swap | dup | hint-swap
	doc   any
	extra map[string]any
}

func c28FlipAt(s string, i int) string {
	b := []byte(s)

	switch c := b[i]; {
	case c == 'a' || c == 'A':
		b[i] = 'b'
	case c == '1':
		b[i] = '2'
	case c >= '0' && c <= '9':
		b[i] = '1'
	default:
		b[i] = 'a'
	}

	return string(b)
}

func c28Time(s string) (time.Time, bool) {
	if len(s) < 20 || s[4] != '-' || s[10] != 'T' {
		return time.Time{}, false
	}

	t, err := time.Parse(time.RFC3339Nano, s)

	return t, err == nil
}

// c28Mutations: every mutation of the alphabet applicable at node p.
func c28Mutations(enc *jsonenc.Encoder, root, twin any, p c28Path, v any, hints []string) []c28Mut {
	var ms []c28Mut

	ps := p.String()
	add := func(name, class string, doc any, extra map[string]any) {
		ms = append(ms, c28Mut{id: ps + "~" + name, class: class, doc: doc, extra: extra})
	}

	if len(p) == 0 {
		return nil
	}

	last := p[len(p)-1]

	// delete / null for every node
	if last.idx >= 0 {
		add("delete", "delete-element", c28Edit(root, p, nil, true), nil)
	} else {
		add("delete", "delete", c28Edit(root, p, nil, true), nil)
	}

	if v != nil {
		add("null", "null", c28Edit(root, p, nil, false), nil)
	}

	// the same field of a sibling element of an enclosing array
	for i := range p {
		if p[i].idx < 0 {
			continue
		}

		arr, _ := c28Get(root, p[:i])
		n := len(arr.([]any)) //nolint:forcetypeassert //...

		if n < 2 {
			continue
		}

		q := make(c28Path, len(p))
		copy(q, p)
		q[i].idx = (p[i].idx + 1) % n

		if w, ok := c28Get(root, q); ok && c28IsLeaf(v) && c28IsLeaf(w) && fmt.Sprint(w) != fmt.Sprint(v) {
			add(fmt.Sprintf("sibling@%d", i), "sibling", c28Edit(root, p, w, false), nil)

			// and the exchange of the two values (swap signer / node / signature / time between two signs)
			if p[i].idx == 0 {
				d := c28Edit(root, p, w, false)
				add(fmt.Sprintf("swap@%d", i), "swap", c28Edit(d, q, v, false), nil)
			}
		}
	}

	// the same field of the twin document (same shape, other values and signers)
	if twin != nil && c28IsLeaf(v) {
		if w, ok := c28Get(twin, p); ok && c28IsLeaf(w) && fmt.Sprint(w) != fmt.Sprint(v) {
			add("twin", "twin", c28Edit(root, p, w, false), nil)
		}
	}

	// duplicate an element of a list (a sign, a sign fact, an expel, an operation pair, ...)
	if arr, ok := v.([]any); ok && len(arr) > 0 {
		d := append(append([]any{}, arr...), c28Clone(arr[0]))
		add("dup0", "dup", c28Edit(root, p, d, false), nil)

		if len(arr) > 1 {
			d := append(append([]any{}, arr...), c28Clone(arr[len(arr)-1]))
			add("duplast", "dup", c28Edit(root, p, d, false), nil)
		}
	}

	switch t := v.(type) {
	case string:
		if last.idx < 0 && last.key == "_hint" {
			from := t

			for _, h := range hints {
				if h == from {
					continue
				}

				fh, _ := hint.ParseHint(from)
				th, _ := hint.ParseHint(h)

				add("hint="+h, "hint-swap", c28Edit(root, p, h, false), map[string]any{"from": fh.Type().String(), "to": th.Type().String()})
			}
		}

		if tm, ok := c28Time(t); ok {
			add("time+1ns", "time+1ns", c28Edit(root, p, tm.Add(time.Nanosecond).Format(time.RFC3339Nano), false), nil)
			add("time+1ms", "time+1ms", c28Edit(root, p, tm.Add(time.Millisecond).Format(time.RFC3339Nano), false), nil)
		}

		if len(t) > 0 {
			seen := map[int]bool{}
			for _, i := range []int{len(t) / 3, len(t) - 1, 0} {
				if seen[i] {
					continue
				}

				seen[i] = true

				class := "flip"

				if last.idx < 0 && last.key == "_hint" {
					a, aerr := hint.ParseHint(t)
					b, berr := hint.ParseHint(c28FlipAt(t, i))

					if aerr == nil && berr == nil && a.Type() == b.Type() {
						class = "hint-version" // same type, other version
					}
				}

				add(fmt.Sprintf("flip@%d", i), class, c28Edit(root, p, c28FlipAt(t, i), false), nil)
			}
		} else {
			add("set-x", "flip", c28Edit(root, p, "x", false), nil)
		}
	case json.Number:
		if n, err := strconv.ParseInt(t.String(), 10, 64); err == nil {
			add("+1", "number", c28Edit(root, p, json.Number(strconv.FormatInt(n+1, 10)), false), nil)
			add("-1", "number", c28Edit(root, p, json.Number(strconv.FormatInt(n-1, 10)), false), nil)
		} else if f, err := strconv.ParseFloat(t.String(), 64); err == nil {
			add("+1", "number", c28Edit(root, p, json.Number(strconv.FormatFloat(f+1, 'f', -1, 64)), false), nil)
			add("-1", "number", c28Edit(root, p, json.Number(strconv.FormatFloat(f-1, 'f', -1, 64)), false), nil)
		}
	case bool:
		add("negate", "negate", c28Edit(root, p, !t, false), nil)
	}

	// the list of signs of one object: compound mutations (see c28_signs_test.go)
	if g := c28SignGroupAt(root, p, v); g != nil {
		ms = append(ms, c28SignMutations(enc, root, twin, g)...)
	}

	return ms
}

// ---------------------------------------------------------------- the check

type c28Prepared struct {
	doc   c28Doc
	id    string
	top   string // top-level hint type
	b0    []byte
	canon []byte
	root  any
	twin  any
	nodes []c28Path
	// lists of signs of one object found in the document (kind:n)
	groups []string
}

func c28Prepare(t *testing.T, enc *jsonenc.Encoder, d c28Doc) c28Prepared {
	p := c28Prepared{doc: d, id: d.fam + "/" + d.name}

	x := d.build()

	b0, err := enc.Marshal(x)
	if err != nil {
		t.Fatalf("%s: marshal: %+v", p.id, err)
	}

	y, err := enc.Decode(b0)
	if err != nil {
		t.Fatalf("%s: base document does not decode: %+v", p.id, err)
	}

	if v, detail := vfxValidity(y, vfxNID); v != "valid" {
		t.Fatalf("%s: base document is not valid: %s", p.id, detail)
	}

	if d.validate != nil {
		if err := d.validate(y); err != nil {
			t.Fatalf("%s: base document fails its extra validation: %+v", p.id, err)
		}
	}

	canon, err := enc.Marshal(y)
	if err != nil {
		t.Fatalf("%s: re-marshal: %+v", p.id, err)
	}

	p.b0, p.canon = b0, c28Canon(canon)
	p.root = c28Parse(b0)
	p.top = y.(hint.Hinter).Hint().Type().String() //nolint:forcetypeassert //...

	vfxTwin(func() {
		tb, err := enc.Marshal(d.build())
		if err != nil {
			t.Fatalf("%s: marshal twin: %+v", p.id, err)
		}

		p.twin = c28Parse(tb)
	})

	c28Walk(p.root, nil, func(q c28Path, v any) {
		if len(q) > 0 {
			p.nodes = append(p.nodes, q)
		}

		// the recomputation of an operation's digest from public data must reproduce the digest of the untouched object
		if g := c28SignGroupAt(p.root, q, v); g != nil {
			p.groups = append(p.groups, fmt.Sprintf("%s:n=%d", g.kind, g.n))

			if g.hasRehash {
				obj, _ := c28Get(c28Clone(p.root), g.rehash)
				m := obj.(map[string]any) //nolint:forcetypeassert //...
				old := m["hash"]

				if !c28Rehash(enc, m) || m["hash"] != old {
					t.Fatalf("%s: recomputed digest of %q is %v, document has %v", p.id, g.rehash.String(), m["hash"], old)
				}
			}
		}
	})

	return p
}

// c28Canon: the JSON value with object members sorted, so that the comparison
// "re-encodes to the original bytes" does not depend on the encoder's map order.
func c28Canon(b []byte) []byte {
	c, err := json.Marshal(c28Parse(b))
	if err != nil {
		panic(err)
	}

	return c
}

func TestVerifC28(t *testing.T) {
	r := vlib.Start("C28")
	defer r.Finish()

	r.Rule("for each valid base document of each signed family: every node of its JSON tree x the whole mutation alphabet " +
		"(flip a character at 3 positions, time +1ns/+1ms, number +-1, negate, delete, null, same field of a sibling list element, exchange with the sibling, " +
		"same field of a twin document with other values and signers, duplicate a list element, replace _hint by every other registered hint); " +
		"for every list of signs of one object (signs of an operation with 1, 2, 3 signs, stand-alone or embedded; sign facts of a voteproof) the compound mutations: " +
		"every non-empty subset of {node, signer, signature, signed_at} copied from sign i to sign j for all ordered pairs, every field of every sign edited alone, " +
		"a sign derived from sign i (exact duplicate / garbage signature / node that never signed / later time) inserted at the front or the end, " +
		"each followed by the recomputation of the operation's unkeyed hash from the public data; " +
		"plus validation under another network id; plus all pairs of fact kinds on identical field values; " +
		"plus the cross-kind replay: for every ordered pair (K1, K2) of the signed fact kinds of the corpus and every type-respecting injective assignment of K1's field values " +
		"to K2's field names, the K1 document re-labelled as K2 (hints of envelope and fact, field names, stage of the point) with hash, token and sign(s) kept. " +
		"non-trivial = the mutated document decodes (validation, not the decoder, has to reject it)")
	r.Assume("validation is IsValid(networkID) of the decoded top-level object (the property's observation point); suffrage-dependent checks (IsValidVoteproofWithSuffrage) are outside it")
	r.Assume("signing times, voteproof ids and uuid fields come from the real constructors (wall clock); they are data, not control flow")
	r.Assume("the hash of an operation is recomputed after a compound sign mutation with the real decoder and HashBytes() (SHA256), as anybody holding the document can; " +
		"the recomputation is checked to reproduce the hash of every untouched base document")
	r.Assume("multi-signature plain base.BaseOperation is exercised through a harness-registered hint (c28PlainOp embeds the real type; no registered operation allows several plain signs)")

	enc := vfxNewEncoder()
	// base.BaseOperation under a hint of its own (c28PlainOp); not in the list of hints tried at every _hint field
	vfxMust(enc.Add(encoder.DecodeDetail{Hint: c28PlainOpHint, Instance: c28PlainOp{}}))

	ds := vfxAllDetails()
	hints := make([]string, len(ds))
	for i := range ds {
		hints[i] = ds[i].Hint.String()
	}
	sort.Strings(hints)

	r.Set("allow_list", c28AllowList)
	r.Set("hints_tried_at_every_hint_field", len(hints))

	docs := c28Docs(r.Thorough())
	names := make([]string, len(docs))
	signgroups := map[string]int{} // "signs:n=3" -> number of such lists in the corpus

	site := 0

	for di := range docs {
		p := c28Prepare(t, enc, docs[di])
		names[di] = fmt.Sprintf("%s (%d nodes, %d bytes, %d sign lists)", p.id, len(p.nodes), len(p.b0), len(p.groups))

		for _, g := range p.groups {
			signgroups[g]++
		}

		// verification under a different network id (one case per document)
		if r.Mine(site) && r.Want(p.id+"#other-network-id") && !p.doc.nosign {
			y, err := enc.Decode(p.b0)
			if err != nil {
				t.Fatal(err)
			}

			r.Eval()
			r.Trace()
			r.State(p.id + "#other-network-id")

			switch v, _ := vfxValidity(y, vfxNID2); v {
			case "valid":
				r.Outcome("violation:other-network-id-accepted")
				r.Violation(p.id+"#other-network-id", map[string]any{"kind": "other-network-id-accepted", "doc": p.top},
					fmt.Sprintf("%s: valid under network id %q is also valid under %q", p.id, vfxNID, vfxNID2), map[string]any{"doc": p.id})
			default:
				r.Outcome("other-network-id:rejected")
				r.Nontrivial(p.id + "#other-network-id")
			}
		}

		site++

		for ni := range p.nodes {
			mine := r.Mine(site)
			site++

			if !mine {
				continue
			}

			if r.Expired() {
				r.Set("documents", names)

				return
			}

			q := p.nodes[ni]
			v, _ := c28Get(p.root, q)

			for _, m := range c28Mutations(enc, p.root, p.twin, q, v, hints) {
				id := p.id + "#" + m.id
				if !r.Want(id) {
					continue
				}

				c28Eval(r, enc, &p, q, m, id)
			}
		}
	}

	r.Set("documents", names)
	r.Set("mutation_sites_total", site)
	r.Set("sign_lists_in_corpus", signgroups)

	c28FactPairs(r)

	// cross-kind replay of signed facts (c28_replay_test.go)
	c28Replay(r, t, enc, docs)
}

func c28Eval(r *vlib.Run, enc *jsonenc.Encoder, p *c28Prepared, q c28Path, m c28Mut, id string) {
	r.Eval()
	r.Trace()
	r.StatesN(1)
	r.Add("mutations."+m.class, 1)

	compound := strings.HasPrefix(m.class, "sign-")
	if compound {
		r.Add(fmt.Sprintf("sign_mutations.%s.%s.n=%v.digest-recomputed=%v", m.class, m.extra["group"], m.extra["n"], m.extra["rehash"]), 1)
	}

	mb, err := json.Marshal(m.doc)
	if err != nil {
		panic(err)
	}

	var y any

	panicked, pmsg := vfxCatch(func() { y, err = enc.Decode(mb) })

	switch {
	case panicked:
		// a decoder panic is a rejection for this property; recorded separately
		r.Outcome("rejected:decode-panic")
		r.Add("decode_panics."+m.class, 1)
		r.Sample(map[string]any{"case": id, "decode_panic": vfxShort([]byte(pmsg))})

		return
	case err != nil || y == nil:
		r.Outcome("rejected:undecodable")

		return
	}

	if !c28Expected(p.doc.fam, y) {
		r.Outcome("rejected:not-the-expected-interface")

		return
	}

	r.Transition()
	r.NontrivialN(1)

	verdict, detail := vfxValidity(y, vfxNID)

	if verdict == "valid" && p.doc.validate != nil {
		var verr error

		if panicked, msg := vfxCatch(func() { verr = p.doc.validate(y) }); panicked {
			verdict, detail = "panic", msg
		} else if verr != nil {
			verdict = "invalid"
		}
	}

	switch verdict {
	case "invalid":
		r.Outcome("rejected:invalid")

		return
	case "panic":
		r.Outcome("rejected:isvalid-panic")
		r.Add("isvalid_panics."+m.class, 1)
		r.Sample(map[string]any{"case": id, "isvalid_panic_on_decoded_document": vfxShort([]byte(detail))})

		return
	}

	// valid: must be a no-op
	b2, err := enc.Marshal(y)
	if err == nil && bytes.Equal(c28Canon(b2), p.canon) {
		r.Outcome("noop:reencodes-to-original")

		return
	}

	owner, field := c28Owner(p.root, q)
	class := m.class
	extra := m.extra

	if compound {
		// what the compound mutation did decides its class: the signs of the existing fixtures may have been made
		// within one millisecond (then a copied signing time is the allowed sub-millisecond change), and a sign
		// list may end up with nothing but genuine, unaltered signs
		if v, ok := c28Get(p.root, q); ok {
			if g := c28SignGroupAt(p.root, q, v); g != nil {
				switch rel := c28SignsRelation(p.root, m.doc, g); {
				case rel == "same":
					class = "time+1ns"
				case rel == "subset" && g.kind == "signs":
					class = "signs-subset"
				}
			}
		}
	}

	// what the mutation did to a leaf decides its class, not how the new value was obtained
	if ov, ok := c28Get(p.root, q); ok {
		if nv, ok := c28Get(m.doc, q); ok {
			os, _ := ov.(string)
			ns, _ := nv.(string)

			if ot, ok := c28Time(os); ok {
				if nt, ok := c28Time(ns); ok && ot.Truncate(time.Millisecond).Equal(nt.Truncate(time.Millisecond)) {
					class = "time+1ns" // only the sub-millisecond part differs
				}
			}

			if len(q) > 0 && q[len(q)-1].key == "_hint" && q[len(q)-1].idx < 0 {
				oh, oerr := hint.ParseHint(os)
				nh, nerr := hint.ParseHint(ns)

				switch {
				case oerr != nil || nerr != nil:
				case oh.Type() == nh.Type():
					class = "hint-version"
				default:
					class = "hint-swap"
					extra = map[string]any{"from": oh.Type().String(), "to": nh.Type().String()}
				}
			}
		}
	}

	if class == "hint-swap" {
		// the owner of a _hint field is the object it labels
		if a := c28AllowedBy(fmt.Sprint(extra["from"]), "_hint", "hint-swap:"+fmt.Sprint(extra["to"])); a != nil {
			r.Outcome("allowed:" + a.Name)
			r.Add("allowed."+a.Name, 1)

			return
		}
	}

	if a := c28AllowedBy(owner, field, class); a != nil {
		r.Outcome("allowed:" + a.Name)
		r.Add("allowed."+a.Name, 1)

		return
	}

	sig := map[string]any{"kind": "survives", "mut": class, "owner": owner, "field": field, "doc": p.top}

	if compound {
		sig["what"] = m.extra["what"]
		sig["signs"] = m.extra["n"]
	}

	if class == "hint-swap" {
		pair := []string{fmt.Sprint(extra["from"]), fmt.Sprint(extra["to"])}
		sort.Strings(pair)

		sig = map[string]any{"kind": "hint-swap", "from": extra["from"], "to": extra["to"], "pair": strings.Join(pair, "|"), "doc": p.top}
	}

	r.Outcome("violation:" + fmt.Sprint(sig["kind"]))
	r.Violation(id, sig,
		fmt.Sprintf("%s: mutation %q at %q (owner %s, field %s) still decodes and passes IsValid(networkID) and is not a no-op; original=%s mutated=%s",
			p.id, m.id, q.String(), owner, field, vfxShort(p.b0), vfxShort(mb)),
		map[string]any{"doc": p.id, "mutation": m.id})
}

// ---------------------------------------------------------------- fact kinds never share a hash

type c28Ctx struct {
	token    base.Token
	newBlock util.Hash
}

type c28FactKind struct {
	name   string
	random bool // the constructor draws part of the content itself; ctx is derived from it
	build  func(c c28Ctx) base.Fact
	derive func(f base.Fact, c *c28Ctx)
}

func c28FactKinds() []c28FactKind {
	point := base.RawPoint(33, 1)
	efs := vfxHs("expelfact", 2)
	a := vfxN(20)

	return []c28FactKind{
		{name: "init-ballot-fact", build: func(c28Ctx) base.Fact { return isaac.NewINITBallotFact(point, vfxH("h1"), vfxH("h2"), efs) }},
		{name: "suffrage-confirm-ballot-fact", build: func(c28Ctx) base.Fact {
			return isaac.NewSuffrageConfirmBallotFact(point, vfxH("h1"), vfxH("h2"), efs)
		}},
		{name: "empty-proposal-init-ballot-fact", random: true, build: func(c28Ctx) base.Fact {
			return isaac.NewEmptyProposalINITBallotFact(point, vfxH("h1"), vfxH("h2"))
		}, derive: func(base.Fact, *c28Ctx) {}},
		{name: "accept-ballot-fact", build: func(c c28Ctx) base.Fact { return isaac.NewACCEPTBallotFact(point, vfxH("h1"), c.newBlock, nil) }},
		{name: "empty-operations-accept-ballot-fact", random: true, build: func(c28Ctx) base.Fact {
			return isaac.NewEmptyOperationsACCEPTBallotFact(point, vfxH("h1"))
		}, derive: func(f base.Fact, c *c28Ctx) { c.newBlock = f.(base.ACCEPTBallotFact).NewBlock() }}, //nolint:forcetypeassert //...
		{name: "not-processed-accept-ballot-fact", random: true, build: func(c28Ctx) base.Fact {
			return isaac.NewNotProcessedACCEPTBallotFact(point, vfxH("h1"))
		}, derive: func(f base.Fact, c *c28Ctx) { c.newBlock = f.(base.ACCEPTBallotFact).NewBlock() }}, //nolint:forcetypeassert //...
		{name: "proposal-fact", random: true, build: func(c28Ctx) base.Fact {
			return isaac.NewProposalFact(point, a.addr, vfxH("h1"), [][2]util.Hash{{vfxH("h2"), vfxH("h3")}})
		}, derive: func(base.Fact, *c28Ctx) {}},
		{name: "suffrage-expel-fact", build: func(c28Ctx) base.Fact { return isaac.NewSuffrageExpelFact(a.addr, 33, 34, "reason") }},
		{name: "suffrage-candidate-fact", build: func(c c28Ctx) base.Fact { return isaacoperation.NewSuffrageCandidateFact(c.token, a.addr, a.pub) }},
		{name: "suffrage-join-fact", build: func(c c28Ctx) base.Fact { return isaacoperation.NewSuffrageJoinFact(c.token, a.addr, 33) }},
		{name: "suffrage-disjoin-fact", build: func(c c28Ctx) base.Fact { return isaacoperation.NewSuffrageDisjoinFact(c.token, a.addr, 33) }},
		{name: "suffrage-genesis-join-fact", build: func(c28Ctx) base.Fact { return vfxGenesisJoinFact(2) }},
		{name: "network-policy-fact", build: func(c c28Ctx) base.Fact { return isaacoperation.NewNetworkPolicyFact(c.token, isaac.DefaultNetworkPolicy()) }},
		{name: "genesis-network-policy-fact", random: true, build: func(c28Ctx) base.Fact {
			return isaacoperation.NewGenesisNetworkPolicyFact(isaac.DefaultNetworkPolicy())
		}, derive: func(f base.Fact, c *c28Ctx) { c.token = f.Token() }},
	}
}

// c28FactPairs: every pair of fact kinds, both built by their real constructor
// from the same field values (values a constructor draws itself are handed to
// the other constructor), must have different hashes.
func c28FactPairs(r *vlib.Run) {
	kinds := c28FactKinds()
	n := 0

	for i := range kinds {
		for j := i + 1; j < len(kinds); j++ {
			n++

			a, b := kinds[i], kinds[j]
			id := "fact-pair#" + a.name + "~" + b.name

			if !r.Mine(n) || !r.Want(id) {
				continue
			}

			c := c28Ctx{token: vfxTok(), newBlock: vfxH("new-block")}

			var fa, fb base.Fact

			if a.random {
				fa = a.build(c)
				a.derive(fa, &c)
			}

			if b.random {
				fb = b.build(c)
				b.derive(fb, &c)
			}

			if fa == nil {
				fa = a.build(c)
			}

			if fb == nil {
				fb = b.build(c)
			}

			r.Eval()
			r.Trace()
			r.State(id)

			va, _ := vfxValidity(fa, vfxNID)
			vb, _ := vfxValidity(fb, vfxNID)

			switch {
			case fa.Hash().Equal(fb.Hash()):
				r.Outcome("violation:fact-hash-collision")
				pair := []string{a.name, b.name}
				sort.Strings(pair)

				r.Violation(id, map[string]any{"kind": "fact-hash-collision", "a": a.name, "b": b.name, "pair": strings.Join(pair, "|")},
					fmt.Sprintf("%s and %s built from the same field values share the hash %s (IsValid: %s / %s)", a.name, b.name, fa.Hash(), va, vb),
					map[string]any{"a": a.name, "b": b.name})
			default:
				r.Outcome("fact-pair:distinct")
				r.Nontrivial(id)
			}
		}
	}

	r.Set("fact_kinds", len(kinds))
	r.Set("fact_pairs", n)
}
