//go:build verif

package launch

// C28, cross-kind replay ("the kind of fact is signed content").
//
// The single-site alphabet changes one _hint at a time, and the fact-pair
// comparison builds both facts with their constructors (which derive the token
// of a ballot fact from its stage point). A RE-LABELLING of a signed fact as
// another kind is a coordinated edit that neither of them makes: the hint of
// the envelope (sign fact / operation) and the hint of the fact are replaced by
// those of kind K2, the fields of the fact are renamed to K2's field names, the
// stage of the point becomes K2's stage (or, as a second variant, stays K1's) -
// while hash, token and every sign stay exactly as the signers of the K1
// document produced them.
//
// For every ordered pair (K1, K2) of signed fact kinds of the corpus (6 ballot
// fact kinds, the proposal fact, the 7 operation fact kinds) and EVERY
// type-respecting assignment of K1's field values to K2's field names
// (hash -> hash, address -> address, number -> number, ...; all injections, so
// "by position" is one of them whatever the order of the hashed fields is)
// document B is built, decoded with the node's encoder and must be rejected:
// fail to decode, not be an object of K2's family, or fail IsValid(networkID).
// A valid B means that a signature made for a fact of kind K1 is a signature
// for a fact of kind K2 (and that two facts of different kinds share a hash).

import (
	"encoding/json"
	"fmt"
	"sort"
	"strings"

	"github.com/spikeekips/mitum/base"
	"github.com/spikeekips/mitum/util"
	jsonenc "github.com/spikeekips/mitum/util/encoder/json"
	"github.com/spikeekips/mitum/util/hint"
	"github.com/spikeekips/mitum/zzverif/vlib"
)

type c28RField struct {
	name string
	typ  string
	val  any
}

type c28RKind struct {
	id      string // corpus document
	fam     string
	name    string // hint type of the fact
	envHint string
	envType string
	fhint   string
	root    map[string]any
	fact    map[string]any
	fields  []c28RField // the content of the fact other than _hint, hash, token, point; sorted by name
	point   map[string]any
	stage   string // "" when the point has no stage (proposal fact) or the fact has no point (operation facts)
	nsigns  int    // -1: single "sign"
}

// c28RType: the type of a field value as far as the wire format shows it.
func c28RType(v any) string {
	switch t := v.(type) {
	case nil:
		return "null"
	case bool:
		return "bool"
	case json.Number:
		return "number"
	case map[string]any:
		if s, ok := t["_hint"].(string); ok {
			if ht, err := hint.ParseHint(s); err == nil {
				return "object:" + ht.Type().String()
			}
		}

		return "object"
	case []any:
		if len(t) < 1 {
			return "list"
		}

		return "list:" + c28RType(t[0])
	case string:
		switch {
		case strings.HasSuffix(t, base.StringAddressHint.Type().String()):
			return "address"
		case strings.HasSuffix(t, base.MPublickeyHint.Type().String()):
			return "publickey"
		}

		if _, ok := c28Time(t); ok {
			return "time"
		}

		// a hash is what the real hash decoder reads as 32 bytes; anything else is free text
		if b, err := util.DecodeHash(t); err == nil && len(b) == 32 {
			return "hash"
		}

		return "text"
	}

	return "?"
}

func c28ReplayKinds(t interface{ Fatalf(string, ...any) }, enc *jsonenc.Encoder, docs []c28Doc) []c28RKind {
	var ks []c28RKind

	for _, d := range docs {
		switch {
		case d.fam == "ballot-sign-fact", d.fam == "proposal-sign-fact":
		case d.fam == "operation" && !strings.Contains(d.name, ","):
		default:
			continue
		}

		b, err := enc.Marshal(d.build())
		if err != nil {
			t.Fatalf("replay: marshal %s/%s: %+v", d.fam, d.name, err)
		}

		root, ok := c28Parse(b).(map[string]any)
		if !ok {
			t.Fatalf("replay: %s/%s is not an object", d.fam, d.name)
		}

		fact, ok := root["fact"].(map[string]any)
		if !ok {
			t.Fatalf("replay: %s/%s has no fact", d.fam, d.name)
		}

		k := c28RKind{id: d.fam + "/" + d.name, fam: d.fam, root: root, fact: fact, nsigns: -1}
		k.envHint, _ = root["_hint"].(string)
		k.fhint, _ = fact["_hint"].(string)

		eh, eerr := hint.ParseHint(k.envHint)
		fh, ferr := hint.ParseHint(k.fhint)

		if eerr != nil || ferr != nil {
			t.Fatalf("replay: %s: hints %q %q", k.id, k.envHint, k.fhint)
		}

		k.envType, k.name = eh.Type().String(), fh.Type().String()

		if _, ok := fact["hash"].(string); !ok {
			t.Fatalf("replay: %s: fact without hash", k.id)
		}

		if _, ok := fact["token"].(string); !ok {
			t.Fatalf("replay: %s: fact without token", k.id)
		}

		if l, ok := root["signs"].([]any); ok {
			k.nsigns = len(l)
		} else if _, ok := root["sign"].(map[string]any); !ok {
			t.Fatalf("replay: %s: neither sign nor signs", k.id)
		}

		names := make([]string, 0, len(fact))
		for n := range fact {
			names = append(names, n)
		}

		sort.Strings(names)

		for _, n := range names {
			switch n {
			case "_hint", "hash", "token":
			case "point":
				k.point, _ = fact[n].(map[string]any)
				k.stage, _ = k.point["stage"].(string)
			default:
				k.fields = append(k.fields, c28RField{name: n, typ: c28RType(fact[n]), val: fact[n]})
			}
		}

		ks = append(ks, k)
	}

	return ks
}

// c28RAssignment: K2 field index -> K1 field index (-1: no value of that type
// left in K1; the field keeps the value of K2's own valid document, or is left
// out when it is a list).
type c28RAssignment []int

// c28RAssignments: every injective, type-respecting assignment of K1 values to
// K2 fields, in a deterministic order. A K2 field takes a K1 value whenever an
// unused one of its type exists (maximal assignments only).
func c28RAssignments(k1, k2 *c28RKind) []c28RAssignment {
	var out []c28RAssignment

	cur := make(c28RAssignment, len(k2.fields))
	used := make([]bool, len(k1.fields))

	var rec func(i int)

	rec = func(i int) {
		if i == len(k2.fields) {
			out = append(out, append(c28RAssignment{}, cur...))

			return
		}

		any1 := false

		for j := range k1.fields {
			if used[j] || k1.fields[j].typ != k2.fields[i].typ {
				continue
			}

			any1 = true
			used[j], cur[i] = true, j
			rec(i + 1)
			used[j] = false
		}

		if !any1 {
			cur[i] = -1
			rec(i + 1)
		}
	}

	rec(0)

	return out
}

type c28RCase struct {
	doc          map[string]any
	mapping      string // k1field>k2field,...
	renamed      bool   // a value sits under another field name than in K1
	dropped      []string
	filled       []string
	unique       bool // no K2 field had more than one candidate value
	stageChanged bool // the stage of B's point is not the stage the signers of K1 signed
	stageKept    bool // B keeps K1's stage although K2 is a kind of the other stage
	envChanged   bool
	sign         string // which sign(s) of K1 are carried
}

// c28RBuild: document of kind K2 carrying the values of the K1 document.
func c28RBuild(enc *jsonenc.Encoder, k1, k2 *c28RKind, as c28RAssignment, signidx int, keepStage bool) c28RCase {
	c := c28RCase{unique: true, envChanged: k1.envType != k2.envType, stageKept: keepStage}

	fact := map[string]any{
		"_hint": k2.fhint,
		"hash":  k1.fact["hash"],  // kept
		"token": k1.fact["token"], // kept
	}

	// the point: K2's shape (its stage, or none), K1's height and round
	if k2.point != nil {
		p, _ := c28Clone(k2.point).(map[string]any)

		if k1.point != nil {
			for _, n := range []string{"height", "round"} {
				if v, ok := k1.point[n]; ok {
					p[n] = v
				}
			}
		} else {
			c.filled = append(c.filled, "point")
		}

		if keepStage {
			p["stage"] = k1.stage
		}

		fact["point"] = p
	} else if k1.point != nil {
		c.dropped = append(c.dropped, "point")
	}

	c.stageChanged = k1.stage != k2.stage && !keepStage

	var parts []string

	consumed := make([]bool, len(k1.fields))

	for i := range k2.fields {
		f2 := &k2.fields[i]
		ncand := 0

		for j := range k1.fields {
			if k1.fields[j].typ == f2.typ {
				ncand++
			}
		}

		if ncand > 1 {
			c.unique = false
		}

		switch j := as[i]; {
		case j >= 0:
			consumed[j] = true
			fact[f2.name] = c28Clone(k1.fields[j].val)
			parts = append(parts, k1.fields[j].name+">"+f2.name)

			if k1.fields[j].name != f2.name {
				c.renamed = true
			}
		case strings.HasPrefix(f2.typ, "list"):
			// optional list (expel facts): left out
		default:
			fact[f2.name] = c28Clone(f2.val)
			c.filled = append(c.filled, f2.name)
		}
	}

	for j := range k1.fields {
		if consumed[j] {
			continue
		}

		f1 := &k1.fields[j]

		// an optional list of K1 that K2's own document happens not to carry (omitempty) stays where it is
		if _, taken := fact[f1.name]; !taken && strings.HasPrefix(f1.typ, "list") {
			fact[f1.name] = c28Clone(f1.val)
			parts = append(parts, f1.name+">"+f1.name)

			continue
		}

		c.dropped = append(c.dropped, f1.name)
	}

	sort.Strings(parts)
	c.mapping = strings.Join(parts, ",")

	// the envelope: K2's hint, K1's sign(s) untouched
	doc := map[string]any{"_hint": k2.envHint, "fact": fact}

	var signs []any

	if k1.nsigns < 0 {
		signs = []any{c28Clone(k1.root["sign"])}
		c.sign = "sign"
	} else {
		l, _ := k1.root["signs"].([]any)

		if signidx < 0 {
			signs, _ = c28Clone(l).([]any)
			c.sign = "signs:all"
		} else {
			signs = []any{c28Clone(l[signidx])}
			c.sign = fmt.Sprintf("signs:%d", signidx)
		}
	}

	if k2.nsigns < 0 {
		doc["sign"] = signs[0]
	} else {
		doc["signs"] = signs
		doc["hash"] = k1.root["hash"]

		if doc["hash"] == nil {
			doc["hash"] = k2.root["hash"]
		}

		// the hash of an operation is an unkeyed digest of fact hash and signs: recomputed from the public data
		c28Rehash(enc, doc)
	}

	c.doc = doc

	return c
}

// c28RSignChoices: which signs of K1 travel (each untouched). A single sign: that one. A list of signs into
// an envelope with a list: all of them, and each one alone (K2 may allow fewer signers than K1 needs; the
// operation's unkeyed digest is recomputed). A list of signs into a single-sign envelope: each one in turn.
func c28RSignChoices(k1, k2 *c28RKind) []int {
	if k1.nsigns < 0 {
		return []int{-1}
	}

	var is []int

	if k2.nsigns >= 0 {
		is = append(is, -1)
	}

	if k2.nsigns < 0 || k1.nsigns > 1 {
		for i := 0; i < k1.nsigns; i++ {
			is = append(is, i)
		}
	}

	return is
}

func c28Replay(r *vlib.Run, t interface{ Fatalf(string, ...any) }, enc *jsonenc.Encoder, docs []c28Doc) {
	ks := c28ReplayKinds(t, enc, docs)

	names := make([]string, len(ks))
	for i := range ks {
		fs := make([]string, len(ks[i].fields))
		for j := range ks[i].fields {
			fs[j] = ks[i].fields[j].name + ":" + ks[i].fields[j].typ
		}

		names[i] = fmt.Sprintf("%s (%s in %s; stage=%q; %s)", ks[i].name, ks[i].id, ks[i].envType, ks[i].stage, strings.Join(fs, " "))
	}

	r.Set("replay_kinds", names)

	pairs, cases := 0, 0

	for i := range ks {
		for j := range ks {
			if i == j {
				continue
			}

			pairs++

			if !r.Mine(pairs) {
				continue
			}

			if r.Expired() {
				return
			}

			k1, k2 := &ks[i], &ks[j]

			// the stage of B: K2's own; and, when both kinds have a stage and they differ, also the one K1's signers signed
			stages := []bool{false}
			if k1.stage != "" && k2.stage != "" && k1.stage != k2.stage {
				stages = append(stages, true)
			}

			for ai, as := range c28RAssignments(k1, k2) {
				for _, si := range c28RSignChoices(k1, k2) {
					for _, keep := range stages {
						c := c28RBuild(enc, k1, k2, as, si, keep)
						id := fmt.Sprintf("replay#%s>%s#a%d[%s]#%s", k1.name, k2.name, ai, c.mapping, c.sign)

						if keep {
							id += "#stage-kept"
						}

						if !r.Want(id) {
							continue
						}

						cases++

						c28ReplayEval(r, enc, k1, k2, &c, id)
					}
				}
			}
		}
	}

	r.Set("replay_ordered_pairs", pairs)
	r.Add("replay_cases", int64(cases))
}

func c28ReplayEval(r *vlib.Run, enc *jsonenc.Encoder, k1, k2 *c28RKind, c *c28RCase, id string) {
	r.Eval()
	r.Trace()
	r.State(id)
	r.Add("mutations.cross-kind-replay", 1)

	// nothing but the fact's _hint differs: this is the single-site hint swap, already enumerated (and judged) above
	if !c.envChanged && !c.stageChanged && !c.renamed && len(c.dropped) < 1 && len(c.filled) < 1 {
		r.Outcome("replay:is-the-single-site-hint-swap")
		r.Add("replay.equals_single_site_hint_swap", 1)

		return
	}

	mb, err := json.Marshal(c.doc)
	if err != nil {
		panic(err)
	}

	var y any

	panicked, _ := vfxCatch(func() { y, err = enc.Decode(mb) })

	switch {
	case panicked:
		r.Outcome("replay-rejected:decode-panic")

		return
	case err != nil || y == nil:
		r.Outcome("replay-rejected:undecodable")

		return
	case !c28Expected(k2.fam, y):
		r.Outcome("replay-rejected:not-the-expected-interface")

		return
	}

	if h, ok := y.(hint.Hinter); !ok || h.Hint().Type().String() != k2.envType {
		r.Outcome("replay-rejected:not-the-expected-interface")

		return
	}

	r.Transition()
	r.Nontrivial(id)

	switch verdict, _ := vfxValidity(y, vfxNID); verdict {
	case "invalid":
		r.Outcome("replay-rejected:invalid")

		return
	case "panic":
		r.Outcome("replay-rejected:isvalid-panic")

		return
	}

	pair := []string{k1.name, k2.name}
	sort.Strings(pair)

	// A valid B carries K1's hash as the (recomputed and accepted) hash of a K2 fact. When the stage is the same,
	// every value keeps its only possible place and nothing was dropped or filled in, that is precisely "K1 and K2
	// built from the same field values share a hash" (the class of the fact-pair comparison); every other accepted
	// replay is a class of its own.
	kind := "cross-kind-replay"
	if !c.stageChanged && !c.stageKept && c.unique && len(c.dropped) < 1 && len(c.filled) < 1 {
		kind = "fact-hash-collision"
	}

	sig := map[string]any{
		"kind": kind, "via": "cross-kind-replay", "from": k1.name, "to": k2.name, "a": pair[0], "b": pair[1], "pair": strings.Join(pair, "|"),
		"token_kept": true, "stage_changed": c.stageChanged, "stage_of_other_kind_kept": c.stageKept,
		"envelope_changed": c.envChanged, "fields_renamed": c.renamed,
		"dropped": len(c.dropped) > 0, "filled": len(c.filled) > 0,
	}

	r.Outcome("violation:" + kind + ":replay")
	r.Violation(id, sig,
		fmt.Sprintf("signed %s (%s) re-labelled as %s (%s): hash, token and sign(s) kept (%s), stage %q -> %q (kept: %v), fields %s, dropped %v, filled from a %s document %v: "+
			"decodes and passes IsValid(networkID); original=%s replayed=%s",
			k1.name, k1.envType, k2.name, k2.envType, c.sign, k1.stage, k2.stage, c.stageKept, c.mapping, c.dropped, k2.name, c.filled,
			vfxShort(c28MustJSON(k1.root)), vfxShort(mb)),
		map[string]any{"from": k1.id, "to": k2.id, "mapping": c.mapping, "sign": c.sign})
}

func c28MustJSON(v any) []byte {
	b, err := json.Marshal(v)
	if err != nil {
		panic(err)
	}

	return b
}
