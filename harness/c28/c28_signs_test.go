//go:build verif

package launch

// C28, objects with several signs.
//
// An operation carries a list of signs and a hash, which is an UNKEYED digest
// of (fact hash, every sign); anybody can recompute it. A single-site edit of
// one sign is therefore always stopped by "hash does not match", whatever the
// verification of the signs does. The mutations here are the compound ones an
// attacker would really make: edit the signs, then recompute the hash from the
// public data (with the real HashBytes()) - so that the ONLY thing left to
// reject the document is the verification of every sign.
//
// For every list of signs of one object ("signs" of an operation, stand-alone
// or embedded in ballots and voteproofs; the signs of the "sign_facts" of a
// voteproof) with n elements:
//
//	sign-copy   every non-empty subset of the sign's fields (node, signer, signature, signed_at) copied from
//	            sign i to sign j, for every ordered pair i != j
//	sign-edit   every field of every sign changed alone (flip, +1ms, twin value), digest recomputed
//	sign-append a new element derived from element i, inserted at the front or at the end: the exact duplicate,
//	            a garbage signature in the name of the same signer (same node / a node that never signed),
//	            the genuine signature under a node that never signed, a later signing time
//
// Oracle unchanged: the mutated document must not decode, or not pass
// IsValid(networkID), or change nothing that is signed: it re-encodes to the
// original, differs only below the signed millisecond precision of a time, or
// its sign list holds nothing but original, unaltered signs (allow-list entry
// signs-only-genuine-signs-left). Any altered or invented sign that validates
// is a violation.

import (
	"encoding/json"
	"fmt"
	"sort"
	"strings"
	"time"

	"github.com/spikeekips/mitum/base"
	isaacoperation "github.com/spikeekips/mitum/isaac/operation"
	jsonenc "github.com/spikeekips/mitum/util/encoder/json"
	"github.com/spikeekips/mitum/util/hint"
	"github.com/spikeekips/mitum/util/valuehash"
)

// ---------------------------------------------------------------- plain multi-sign operation

// c28PlainOp is base.BaseOperation itself (every method is the promoted real
// one: Sign, IsValid, HashBytes, MarshalJSON, DecodeJSON) under a hint that
// only this check registers. None of the operations registered by launch may
// carry more than one plain (not node) sign, but BaseOperation is the type
// applications build their multi-signature operations on.
type c28PlainOp struct {
	base.BaseOperation
}

var c28PlainOpHint = hint.MustNewHint("verif-plain-operation-v0.0.1")

// The fact is a suffrage candidate fact: a registered fact kind whose hash no
// other kind shares (the plain operation does not assert the type of its fact).
func c28NewPlainOp(signers []vfxNode) c28PlainOp {
	c := vfxN(20)
	fact := isaacoperation.NewSuffrageCandidateFact(vfxTok(), c.addr, c.pub)
	op := c28PlainOp{BaseOperation: base.NewBaseOperation(c28PlainOpHint, fact)}

	for i := range signers {
		c28NextMillisecond(i)
		vfxMust(op.Sign(signers[i].priv, vfxNID))
	}

	return op
}

// c28NextMillisecond: the signing time is taken from the wall clock by the real
// constructors and only its millisecond part is signed; the signs of one
// object are made in different milliseconds so that a signing time copied from
// one sign to another is a change of signed content. Data only, no oracle.
func c28NextMillisecond(i int) {
	if i > 0 {
		time.Sleep(2 * time.Millisecond)
	}
}

type c28NodeSigner interface {
	NodeSign(base.Privatekey, base.NetworkID, base.Address) error
}

func c28NodeSignSpread(op c28NodeSigner, signers []vfxNode) {
	for i := range signers {
		c28NextMillisecond(i)
		vfxMust(op.NodeSign(signers[i].priv, vfxNID, signers[i].addr))
	}
}

// ---------------------------------------------------------------- sign groups

type c28SignGroup struct {
	kind      string  // "signs" | "sign_facts"
	list      c28Path // the list
	sub       c28Path // from a list element to its sign object (nil: the element is the sign)
	rehash    c28Path // the object whose "hash" is the unkeyed digest over the list
	hasRehash bool
	n         int
}

func c28IsSign(v any) bool {
	m, ok := v.(map[string]any)
	if !ok {
		return false
	}

	_, a := m["signer"].(string)
	_, b := m["signature"].(string)

	return a && b
}

// c28SignGroupAt: is the node at p a list of signs of one object?
func c28SignGroupAt(root any, p c28Path, v any) *c28SignGroup {
	if len(p) < 1 || p[len(p)-1].idx >= 0 {
		return nil
	}

	arr, ok := v.([]any)
	if !ok || len(arr) < 1 {
		return nil
	}

	g := &c28SignGroup{kind: p[len(p)-1].key, list: p, n: len(arr)}

	switch g.kind {
	case "signs":
		for i := range arr {
			if !c28IsSign(arr[i]) {
				return nil
			}
		}

		parent, _ := c28Get(root, p[:len(p)-1])
		if m, ok := parent.(map[string]any); ok {
			if _, ok := m["hash"].(string); ok {
				g.rehash, g.hasRehash = p[:len(p)-1], true
			}
		}
	case "sign_facts":
		g.sub = c28Path{{key: "sign", idx: -1}}

		for i := range arr {
			m, ok := arr[i].(map[string]any)
			if !ok || !c28IsSign(m["sign"]) {
				return nil
			}
		}
	default:
		return nil
	}

	return g
}

func (g *c28SignGroup) sign(doc any, i int) map[string]any {
	v, ok := c28Get(doc, g.list.child(c28Step{idx: i}))
	if !ok {
		panic("bad sign group")
	}

	for _, s := range g.sub {
		v = v.(map[string]any)[s.key] //nolint:forcetypeassert //...
	}

	return v.(map[string]any) //nolint:forcetypeassert //...
}

func (g *c28SignGroup) setList(doc any, l []any) {
	parent, _ := c28Get(doc, g.list[:len(g.list)-1])
	parent.(map[string]any)[g.list[len(g.list)-1].key] = l //nolint:forcetypeassert //...
}

func (g *c28SignGroup) getList(doc any) []any {
	v, _ := c28Get(doc, g.list)

	return v.([]any) //nolint:forcetypeassert //...
}

// c28Rehash recomputes the unkeyed digest of obj (an operation) from its
// public content with the real code: decode, HashBytes(), SHA256. false: the
// object does not decode any more (the stale hash is then left alone; the
// document will be rejected by the decoder anyway).
func c28Rehash(enc *jsonenc.Encoder, obj map[string]any) bool {
	b, err := json.Marshal(obj)
	if err != nil {
		panic(err)
	}

	var y any

	if panicked, _ := vfxCatch(func() { y, err = enc.Decode(b) }); panicked || err != nil || y == nil {
		return false
	}

	hb, ok := y.(interface{ HashBytes() []byte })
	if !ok {
		return false
	}

	var bs []byte

	if panicked, _ := vfxCatch(func() { bs = hb.HashBytes() }); panicked {
		return false
	}

	obj["hash"] = valuehash.NewSHA256(bs).String()

	return true
}

var c28GarbageSignature = hexEncode("verif: nobody produced this signature, it is only in the right place")

func hexEncode(s string) string { return fmt.Sprintf("%x", []byte(s)) }

// c28FreshNode: an address of the same type that is not in the document.
func c28FreshNode(node string) string { return "vneversigned" + node }

func c28SubsetName(fs []string, mask int) (name string, sel []string) {
	for i := range fs {
		if mask&(1<<i) != 0 {
			sel = append(sel, fs[i])
		}
	}

	return strings.Join(sel, "+"), sel
}

// c28SignMutations: the compound mutations of one sign group.
func c28SignMutations(enc *jsonenc.Encoder, root, twin any, g *c28SignGroup) []c28Mut {
	var ms []c28Mut

	ps := g.list.String()

	finish := func(name, class, what string, d any) {
		rehashed := "n/a"

		if g.hasRehash {
			obj, _ := c28Get(d, g.rehash)

			rehashed = "failed"
			if c28Rehash(enc, obj.(map[string]any)) { //nolint:forcetypeassert //...
				rehashed = "ok"
			}
		}

		ms = append(ms, c28Mut{
			id: ps + "~" + name, class: class, doc: d,
			extra: map[string]any{"what": what, "rehash": rehashed, "group": g.kind, "n": g.n},
		})
	}

	// the fields of a sign (node only in node signs)
	var fields []string

	for k, v := range g.sign(root, 0) {
		if _, ok := v.(string); ok {
			fields = append(fields, k)
		}
	}

	sort.Strings(fields)

	// copy a subset of fields from sign i to sign j
	for i := 0; i < g.n; i++ {
		for j := 0; j < g.n; j++ {
			if i == j {
				continue
			}

			for mask := 1; mask < 1<<len(fields); mask++ {
				name, sel := c28SubsetName(fields, mask)

				d := c28Clone(root)
				from, to := g.sign(d, i), g.sign(d, j)
				changed := false

				for _, f := range sel {
					if _, ok := to[f]; !ok {
						continue
					}

					if fmt.Sprint(to[f]) != fmt.Sprint(from[f]) {
						changed = true
					}

					to[f] = from[f]
				}

				if !changed {
					continue
				}

				finish(fmt.Sprintf("signs:copy:%s:%d>%d", name, i, j), "sign-copy", name, d)
			}
		}
	}

	// one field of one sign changed alone, digest recomputed (without a digest this is the ordinary single-site mutation)
	if g.hasRehash {
		for j := 0; j < g.n; j++ {
			for _, f := range fields {
				old, _ := g.sign(root, j)[f].(string)
				if len(old) < 1 {
					continue
				}

				edits := map[string]string{"flip": c28FlipAt(old, len(old)/3)}

				if tm, ok := c28Time(old); ok {
					edits["time+1ms"] = tm.Add(time.Millisecond).Format(time.RFC3339Nano)
				}

				if twin != nil {
					if tl, ok := c28Get(twin, g.list); ok {
						if ta, ok := tl.([]any); ok && j < len(ta) && c28IsSign(ta[j]) {
							if w, ok := ta[j].(map[string]any)[f].(string); ok && w != old { //nolint:forcetypeassert //...
								edits["twin"] = w
							}
						}
					}
				}

				for _, e := range []string{"flip", "time+1ms", "twin"} {
					nv, ok := edits[e]
					if !ok {
						continue
					}

					d := c28Clone(root)
					g.sign(d, j)[f] = nv

					finish(fmt.Sprintf("signs:edit:%s:%s@%d", f, e, j), "sign-edit", f+":"+e, d)
				}
			}
		}
	}

	// a new element derived from element i, at the front or at the end
	type variant struct {
		name string
		edit func(sign map[string]any) bool
	}

	hasNode := func(sign map[string]any) bool { _, ok := sign["node"].(string); return ok }

	variants := []variant{
		{"dup", func(map[string]any) bool { return true }},
		{"signature=garbage", func(s map[string]any) bool { s["signature"] = c28GarbageSignature; return true }},
		{"signature=garbage,signed_at+1ms", func(s map[string]any) bool {
			tm, ok := c28Time(fmt.Sprint(s["signed_at"]))
			if !ok {
				return false
			}

			s["signature"] = c28GarbageSignature
			s["signed_at"] = tm.Add(time.Millisecond).Format(time.RFC3339Nano)

			return true
		}},
		{"signed_at+1ms", func(s map[string]any) bool {
			tm, ok := c28Time(fmt.Sprint(s["signed_at"]))
			if !ok {
				return false
			}

			s["signed_at"] = tm.Add(time.Millisecond).Format(time.RFC3339Nano)

			return true
		}},
		{"node=never-signed", func(s map[string]any) bool {
			if !hasNode(s) {
				return false
			}

			s["node"] = c28FreshNode(fmt.Sprint(s["node"]))

			return true
		}},
		{"node=never-signed,signature=garbage", func(s map[string]any) bool {
			if !hasNode(s) {
				return false
			}

			s["node"] = c28FreshNode(fmt.Sprint(s["node"]))
			s["signature"] = c28GarbageSignature

			return true
		}},
	}

	for i := 0; i < g.n; i++ {
		for _, vr := range variants {
			for _, pos := range []string{"front", "end"} {
				d := c28Clone(root)
				l := g.getList(d)
				el := c28Clone(l[i])

				sign := el
				for _, s := range g.sub {
					sign = sign.(map[string]any)[s.key] //nolint:forcetypeassert //...
				}

				if !vr.edit(sign.(map[string]any)) { //nolint:forcetypeassert //...
					continue
				}

				var nl []any
				if pos == "front" {
					nl = append([]any{el}, l...)
				} else {
					nl = append(append([]any{}, l...), el)
				}

				g.setList(d, nl)

				finish(fmt.Sprintf("signs:append:%s:of%d@%s", vr.name, i, pos), "sign-append", vr.name, d)
			}
		}
	}

	return ms
}

// c28TruncTimes: every time string of the JSON value cut to the millisecond
// (what localtime.Time.Bytes() signs and hashes).
func c28TruncTimes(v any) any {
	switch t := v.(type) {
	case map[string]any:
		for k := range t {
			t[k] = c28TruncTimes(t[k])
		}
	case []any:
		for i := range t {
			t[i] = c28TruncTimes(t[i])
		}
	case string:
		if tm, ok := c28Time(t); ok {
			return tm.UTC().Truncate(time.Millisecond).Format(time.RFC3339Nano)
		}
	}

	return v
}

// c28SignsRelation compares the mutated document with the original one, both
// with times cut to the signed precision:
//
//	"same"    identical but for the sub-millisecond part of times
//	"subset"  identical outside the sign list (and the unkeyed digest over it), and every element of the
//	          mutated list is, field for field, an element of the original list (an element is repeated
//	          and/or missing; nothing that nobody produced was added, no sign was altered)
//	""        anything else
func c28SignsRelation(orig, mutated any, g *c28SignGroup) string {
	type parts struct {
		whole string
		rest  string
		set   map[string]bool
	}

	split := func(doc any) (p parts, ok bool) {
		d := c28TruncTimes(c28Clone(doc))

		b, err := json.Marshal(d)
		if err != nil {
			panic(err)
		}

		p.whole = string(b)

		lv, found := c28Get(d, g.list)
		if !found {
			return p, false
		}

		l, isarr := lv.([]any)
		if !isarr {
			return p, false
		}

		p.set = map[string]bool{}

		for i := range l {
			b, err := json.Marshal(l[i])
			if err != nil {
				panic(err)
			}

			p.set[string(b)] = true
		}

		g.setList(d, nil)

		if g.hasRehash {
			obj, _ := c28Get(d, g.rehash)
			delete(obj.(map[string]any), "hash") //nolint:forcetypeassert //...
		}

		if b, err = json.Marshal(d); err != nil {
			panic(err)
		}

		p.rest = string(b)

		return p, true
	}

	a, aok := split(orig)
	b, bok := split(mutated)

	switch {
	case !aok || !bok:
		return ""
	case a.whole == b.whole:
		return "same"
	case a.rest != b.rest || len(b.set) < 1:
		return ""
	}

	for k := range b.set {
		if !a.set[k] {
			return ""
		}
	}

	return "subset"
}
