//go:build verif

package isaacdatabase

import (
	"fmt"
	"strings"

	"github.com/alicebob/miniredis/v2"
	"github.com/spikeekips/mitum/base"
	"github.com/spikeekips/mitum/zzverif/vlib"
)

// C26, height-base dimension.
//
// Both back-ends keep "the last" block map / suffrage proof by ORDERING keys
// that embed a height: the leveldb one iterates big-endian int64 keys
// (block map by block height, suffrage proof by suffrage height), the redis one
// asks ZRANGE BYLEX REV LIMIT 1 of sorted sets whose members embed the decimal
// block height (blockmaps, suffrage proofs by block height; the latter is also
// searched by SuffrageProofByBlockHeight). Which key is the last one is decided
// when the database is (re)opened. A chain that starts at 0 and has <= 4 blocks
// keeps every height inside one decimal width and one byte, so that order is
// never asked to be the numeric one. Here the same kind of chains start at a
// base height (block height AND suffrage height of the first block) so that the
// heights cross 9->10, 99->100, 999->1000 (decimal width) or 255->256,
// 65535->65536 (byte width):
//
//	for every configuration x every base x every sequence of block kinds (G first, then S/F/P/O):
//	  merge block 1, reopen both, merge block 2, reopen both, ...   (thorough also: merge all, reopen once)
//
// and after EVERY event (each merge and each reopen) every read over the query
// domain {0, base-1 .. base+blocks+1} (block heights and suffrage heights) is
// made on both back-ends and compared, as in the DFS.

type c26HeightBase struct {
	base  int
	label string
}

func c26HeightBases(offsets []int) []c26HeightBase {
	var l []c26HeightBase

	for _, b := range []struct {
		first int // first height of the new width
		label string
	}{
		{10, "crossing-decimal-width"},
		{100, "crossing-decimal-width"},
		{1000, "crossing-decimal-width"},
		{256, "crossing-byte-width"},
		{65536, "crossing-byte-width"},
	} {
		for _, o := range offsets {
			l = append(l, c26HeightBase{base: b.first - o, label: b.label})
		}
	}

	return l
}

func (s *c26Search) heightsLabel() string {
	if s.base < 1 {
		return "from-genesis"
	}

	return s.heights
}

// domain of the reads: like vfEnv.domain, with the heights moved to the chain.
func (s *c26Search) domain(ever []*vfBlock) *vfDomain {
	d := s.env.domain(s.maxblocks, ever)

	if s.base < 1 {
		return d
	}

	d.heights, d.sufheights = nil, nil

	hs := []base.Height{0}

	for h := s.base - 1; h <= s.base+s.maxblocks+1; h++ {
		if h > 0 {
			hs = append(hs, base.Height(h))
		}
	}

	d.heights = hs
	d.sufheights = append([]base.Height(nil), hs...)

	return d
}

func c26KindSequences(n int) [][]byte {
	seqs := [][]byte{{'G'}}

	for i := 1; i < n; i++ {
		var next [][]byte

		for _, s := range seqs {
			for _, k := range []byte("SFPO") {
				next = append(next, append(append([]byte(nil), s...), k))
			}
		}

		seqs = next
	}

	return seqs
}

func c26Heights(r *vlib.Run, env *vfEnv, mredis *miniredis.Miniredis, configs []c26Config, maxblocks int, counter *int) {
	bases := c26HeightBases(vlib.Pick(r, []int{1}, []int{2, 1}))
	modes := vlib.Pick(r, []string{"reopen-after-every-merge"}, []string{"reopen-after-every-merge", "reopen-after-last-merge"})
	seqs := c26KindSequences(maxblocks)

	var bl []int
	for _, b := range bases {
		bl = append(bl, b.base)
	}

	r.Set("height_bases", bl)
	r.Set("height_chain_kind_sequences", len(seqs))
	r.Set("height_chain_reopen_modes", modes)

	for _, cfg := range configs {
		for _, hb := range bases {
			for _, mode := range modes {
				for _, seq := range seqs {
					var hist []string

					for i, k := range seq {
						hist = append(hist, "W"+string(k))

						if mode == "reopen-after-every-merge" || i == len(seq)-1 {
							hist = append(hist, "X")
						}
					}

					id := fmt.Sprintf("%s@h%d/%s", cfg.name, hb.base, strings.Join(hist, "/"))

					idx := *counter
					*counter++

					if !r.Mine(idx) || !r.Want(id) || r.Expired() {
						continue
					}

					s := &c26Search{
						r: r, env: env, mredis: mredis, cfg: cfg, maxblocks: maxblocks,
						base: hb.base, heights: hb.label, all: true,
					}

					vios, outcome := s.execute(hist)

					r.Eval()
					r.TransitionN(int64(len(hist)))
					r.Trace()
					r.State(id)
					r.Outcome(outcome)
					r.Nontrivial(id)
					r.Add("height_chain_executions", 1)
					r.Add("height_chain_steps_compared", int64(len(hist)))

					if len(vios) > 0 {
						r.Outcome("violation")
					}

					// one violation per signature and case is enough
					seen := map[string]bool{}

					for _, v := range vios {
						k := vlib.SigString(v.sig)
						if seen[k] {
							continue
						}

						seen[k] = true

						r.Violation(id, v.sig, v.detail, map[string]any{"config": cfg.name, "base": hb.base, "history": hist})
					}

					if idx%199 == 0 {
						r.Sample(map[string]any{"history": id, "violations": len(vios), "outcome": outcome})
					}
				}
			}
		}
	}

	r.Set("histories_and_height_chains_total", *counter)
}
