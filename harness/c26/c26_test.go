//go:build verif

package isaacdatabase

import (
	"context"
	"fmt"
	"strings"
	"testing"
	"time"

	"github.com/alicebob/miniredis/v2"
	"github.com/redis/go-redis/v9"
	"github.com/spikeekips/mitum/isaac"
	leveldbstorage "github.com/spikeekips/mitum/storage/leveldb"
	redisstorage "github.com/spikeekips/mitum/storage/redis"
	"github.com/spikeekips/mitum/zzverif/vlib"
	goleveldbstorage "github.com/syndtr/goleveldb/leveldb/storage"
)

// C26: the Redis-backed permanent database behaves like the leveldb-backed one.
//
// Every history over the events
//
//	WG (first) / WS WF WP WO   build the next block with the real LeveldbBlockWrite, take its TempLeveldb and
//	                           MergeTempDatabase it into BOTH permanent databases (the same temp object)
//	X                          reopen both: close + leveldb.Open on the same goleveldb storage + NewLeveldbPermanent;
//	                           a new redis client on the same prefix + NewRedisPermanent
//
// up to the stated depth is executed on a real LeveldbPermanent (in-memory
// goleveldb) and a real RedisPermanent (miniredis served in-process over
// loopback TCP). After EVERY event every PermanentDatabase read over the full
// query domain is made on both and compared: objects through the fixture's
// identity table (hash + deep equality), every part of every *Bytes read
// verbatim. Configurations: state cache off / on (permanent databases and
// block writer, size 16) / on in the permanent databases only (the temp has no
// state cache, as a temp reloaded after a restart or an imported block), x temp
// handed over as written / reloaded from its prefix (NewTempLeveldbFromPrefix,
// what Center does after a restart).
//
// The histories form a tree without merging (the state is the history), so the
// search is a plain exhaustive DFS; each history is replayed from scratch on
// fresh databases (redis: FLUSHALL).
//
// A second enumeration (c26_heights_test.go) runs chains that start at a base
// height, so that the heights embedded in the keys cross a decimal-width or a
// byte-width boundary, with a reopen after every merge.

type c26Config struct {
	name      string
	permcache int
	tempcache int
	reloaded  bool
	permbatch int // LeveldbPermanent.batchlimit (0: default 333)
}

type c26Pair struct {
	env *vfEnv
	cfg c26Config

	mredis *miniredis.Miniredis

	raw   goleveldbstorage.Storage
	lst   *leveldbstorage.Storage
	lperm *LeveldbPermanent

	rst   *redisstorage.Storage
	rperm *RedisPermanent

	tst *leveldbstorage.Storage // where the block writers put their temps
}

func (x *c26Pair) openLeveldb() {
	st, err := leveldbstorage.NewStorage(x.raw, vfStorageOptions())
	vfMust(err)

	x.lst = st

	perm, err := NewLeveldbPermanent(st, x.env.encs, x.env.enc, x.cfg.permcache)
	vfMust(err)

	x.lperm = perm

	if x.cfg.permbatch > 0 {
		perm.batchlimit = x.cfg.permbatch
	}
}

func (x *c26Pair) openRedis() {
	// NOTE generous timeouts: on a busy machine the in-process server may answer later than go-redis's
	// default 3 s; an i/o timeout is an environment failure the check does not model
	st, err := redisstorage.NewStorage(context.Background(), &redis.Options{
		Network: "tcp", Addr: x.mredis.Addr(),
		DialTimeout: 2 * time.Minute, ReadTimeout: 5 * time.Minute, WriteTimeout: 5 * time.Minute, PoolTimeout: 5 * time.Minute,
		MaxRetries: -1,
	}, "vf-c26")
	vfMust(err)

	x.rst = st

	perm, err := NewRedisPermanent(st, x.env.encs, x.env.enc, x.cfg.permcache)
	vfMust(err)

	x.rperm = perm
}

func c26NewPair(env *vfEnv, mredis *miniredis.Miniredis, cfg c26Config) *c26Pair {
	x := &c26Pair{env: env, cfg: cfg, mredis: mredis, raw: goleveldbstorage.NewMemStorage()}

	mredis.FlushAll()

	x.openLeveldb()
	x.openRedis()

	tst, err := leveldbstorage.NewStorage(goleveldbstorage.NewMemStorage(), vfStorageOptions())
	vfMust(err)

	x.tst = tst

	return x
}

func (x *c26Pair) closePerms() {
	vfMust(x.lperm.Close())
	vfMust(x.lst.Close())
	vfMust(x.rperm.Close())
}

func (x *c26Pair) close() {
	x.closePerms()
	vfMust(x.tst.Close())
}

func (x *c26Pair) reopen() {
	x.closePerms()
	x.openLeveldb()
	x.openRedis()
}

func (x *c26Pair) merge(b *vfBlock) (lerr, rerr error) {
	wst := NewLeveldbBlockWrite(b.height, x.tst, x.env.encs, x.env.enc)
	vfFillWriter(wst, b, x.cfg.tempcache)

	temp, err := wst.TempDatabase()
	vfMust(err)

	if x.cfg.reloaded {
		temp, err = NewTempLeveldbFromPrefix(x.tst, temp.(*TempLeveldb).Prefix(), x.env.encs, x.env.enc) //nolint:forcetypeassert //...
		vfMust(err)
	}

	lerr = x.lperm.MergeTempDatabase(context.Background(), temp)
	rerr = x.rperm.MergeTempDatabase(context.Background(), temp)

	return lerr, rerr
}

type c26Vio struct {
	sig    map[string]any
	detail string
}

func c26Compare(cfg c26Config, heights string, m *vfModel, reopened bool, l, r vfAnswers) []c26Vio {
	var vios []c26Vio

	phase := "after-merge"
	if reopened {
		phase = "after-reopen"
	}

	for _, q := range vfSortedKeys(l, r) {
		lv, lok := l[q]
		rv, rok := r[q]

		if lok == rok && lv == rv {
			continue
		}

		if part := vfPart(q); part != "object" && part != "found" {
			f := q[:len(q)-len(part)] + "found"
			if l[f] != r[f] {
				continue
			}
		}

		class := "different-values"

		switch {
		case strings.HasPrefix(rv, "error("):
			class = "redis-error"
		case strings.HasPrefix(lv, "error("):
			class = "leveldb-error"
		case rv == vfNotFound || !rok:
			class = "redis-not-found"
		case lv == vfNotFound || !lok:
			class = "leveldb-not-found"
		case strings.HasPrefix(lv, "UNKNOWN-body(len=0,"):
			class = "leveldb-empty-bytes"
		case strings.HasPrefix(rv, "UNKNOWN-body(len=0,"):
			class = "redis-empty-bytes"
		}

		vios = append(vios, c26Vio{
			sig: map[string]any{
				"kind": "backend-mismatch", "read": vfMethod(q), "part": vfPart(q), "class": class, "phase": phase,
				"statecache": cfg.permcache > 0, "temp_has_statecache": cfg.tempcache > 0 && !cfg.reloaded,
				"heights": heights,
			},
			detail: fmt.Sprintf("[%s, heights %s] %s %s: leveldb = %s, redis = %s; merged chain [%s]",
				cfg.name, heights, phase, q, vfShow(lv, lok), vfShow(rv, rok), m.ids()),
		})
	}

	return vios
}

type c26Search struct {
	r         *vlib.Run
	env       *vfEnv
	mredis    *miniredis.Miniredis
	cfg       c26Config
	depth     int
	maxblocks int
	counter   *int

	// height-base dimension (c26_heights_test.go): the chain starts at block height base (and, when base > 0,
	// suffrage height base) instead of 0; all: every step of the history is compared, not only the last one
	base    int
	heights string
	all     bool
}

func (s *c26Search) enabled(nblocks int) []string {
	var evs []string

	if nblocks < s.maxblocks {
		switch {
		case nblocks < 1:
			evs = append(evs, "WG")
		default:
			evs = append(evs, "WS", "WF", "WP", "WO")
		}
	}

	return append(evs, "X")
}

func (s *c26Search) execute(hist []string) (vios []c26Vio, outcome string) {
	x := c26NewPair(s.env, s.mredis, s.cfg)
	defer x.close()

	var m vfModel

	var ever []*vfBlock

	reopened := false

	for i, ev := range hist {
		last := i == len(hist)-1

		switch {
		case ev == "X":
			x.reopen()

			reopened = true
		default:
			sufh := m.sufh()
			if len(m.blocks) < 1 && s.base > 0 {
				sufh = s.base - 1
			}

			b := s.env.block(s.base+len(m.blocks), ev[1], sufh, 0)
			m.blocks = append(m.blocks, b)
			m.merged = len(m.blocks)
			ever = append(ever, b)

			switch lerr, rerr := x.merge(b); {
			case lerr == nil && rerr == nil:
			case !last && !s.all:
				panic(fmt.Sprintf("harness: merge failed in a replay: %v / %v", lerr, rerr))
			default:
				return append(vios, c26Vio{
					sig: map[string]any{
						"kind": "merge-error", "leveldb": lerr != nil, "redis": rerr != nil, "heights": s.heightsLabel(),
					},
					detail: fmt.Sprintf("[%s, heights %s] MergeTempDatabase of %s: leveldb: %v, redis: %v",
						s.cfg.name, s.heightsLabel(), b.id, lerr, rerr),
				}), "merge-error"
			}

			reopened = false
		}

		// every step reads everything on both (reads fill the state caches); in the DFS only the last step is
		// compared, the earlier ones were when that prefix was the history
		d := s.domain(ever)
		l := s.env.readAll(x.lperm, d)
		r := s.env.readAll(x.rperm, d)

		if !last && !s.all {
			continue
		}

		s.r.Add("reads_compared", int64(len(l)))

		vios = append(vios, c26Compare(s.cfg, s.heightsLabel(), &m, reopened, l, r)...)

		// vacuity guard: how much of the domain is answered with something
		found := 0

		for _, v := range l {
			if v != vfNotFound {
				found++
			}
		}

		outcome = fmt.Sprintf("%s:blocks=%d:found>%d", ev[:1], len(m.blocks), found/20*20)
		if s.base > 0 {
			outcome = s.heights + ":" + outcome
		}
	}

	return vios, outcome
}

func (s *c26Search) dfs(hist []string, nblocks int) {
	r := s.r

	if len(hist) >= s.depth {
		return
	}

	for _, ev := range s.enabled(nblocks) {
		h := append(append([]string(nil), hist...), ev)
		id := s.cfg.name + "/" + strings.Join(h, "/")

		idx := *s.counter
		*s.counter++

		if r.Mine(idx) && r.Want(id) && !r.Expired() {
			vios, outcome := s.execute(h)

			r.Eval()
			r.Transition()
			r.Trace()
			r.State(id)
			r.Outcome(outcome)

			if len(vios) > 0 {
				r.Outcome("violation")
			}

			nb := nblocks
			if ev != "X" {
				nb++
			}

			if nb >= 2 {
				r.Nontrivial(id)
			}

			for _, v := range vios {
				r.Violation(id, v.sig, v.detail, map[string]any{"config": s.cfg.name, "history": h})
			}

			if idx%499 == 0 {
				r.Sample(map[string]any{"history": id, "violations": len(vios), "outcome": outcome})
			}

			r.Max("depth_reached", int64(len(h)))
		}

		nb := nblocks
		if ev != "X" {
			nb++
		}

		s.dfs(h, nb)
	}
}

func TestVerifC26(t *testing.T) {
	r := vlib.Start("C26")
	defer r.Finish()

	env := vfNewEnv()

	mredis, err := miniredis.Run()
	if err != nil {
		t.Fatal(err)
	}

	defer mredis.Close()

	depth := vlib.Pick(r, 5, 7)
	maxblocks := vlib.Pick(r, 3, 4)

	configs := []c26Config{
		{name: "nocache-batch2", permcache: 0, tempcache: 0, permbatch: 2},
		{name: "cache-batch3", permcache: 16, tempcache: 16, permbatch: 3},
		{name: "permcache-only", permcache: 16, tempcache: 0},
		{name: "nocache-reloaded-temp", permcache: 0, tempcache: 0, reloaded: true},
		{name: "cache-reloaded-temp", permcache: 16, tempcache: 16, reloaded: true},
	}

	r.Rule("every history over {merge the next block of kind S/F/P/O (genesis G first) into both permanent databases, reopen both} up to the stated depth with at most the stated number of blocks, for each of 5 cache/temp configurations (in two of them the leveldb permanent database merges in batches of 2 / 3 keys); " +
		"after every event every PermanentDatabase read over the full query domain (heights 0..bound+1, suffrage heights 0..bound+1, 5 state keys, every operation/fact hash of every merged block + an unknown one) on both, compared part by part; " +
		"each history is one state (no merging); non-trivial = at least two merged blocks. " +
		"Height-base dimension: for each configuration x base height (first block at block height = suffrage height = B-1 (thorough also B-2), B in {10,100,1000,256,65536}) x every kind sequence of max_blocks blocks (G then S/F/P/O): " +
		"merge, reopen both, merge, reopen both, ... (thorough also: one reopen after the last merge), every read over heights {0, base-1..base+max_blocks+1} compared after every merge and every reopen; every such chain is non-trivial (its heights cross the boundary)")
	r.Assume("miniredis v2.33.0 answers SET/GET/EXISTS/ZADD NX/ZRANGE BYLEX REV LIMIT like a Redis server; the go-redis client is trusted")
	r.Assume("block map is base.DummyBlockMap over a real isaac.Manifest and the suffrage proof is the harness type vfProof (isaac/block cannot be imported from inside isaac/database)")
	r.Set("depth", depth)
	r.Set("max_blocks", maxblocks)
	r.Set("configs", len(configs))

	counter := 0

	for _, cfg := range configs {
		s := &c26Search{r: r, env: env, mredis: mredis, cfg: cfg, depth: depth, maxblocks: maxblocks, counter: &counter}
		s.dfs(nil, 0)
	}

	r.Set("histories_total", counter)

	c26Heights(r, env, mredis, configs, maxblocks, &counter)

	var _ isaac.PermanentDatabase = (*RedisPermanent)(nil)
}
