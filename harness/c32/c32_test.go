//go:build verif

package util

import (
	"fmt"
	"sort"
	"strings"
	"sync"
	"testing"
	"time"

	"github.com/spikeekips/mitum/zzverif/vlib"
	"github.com/spikeekips/mitum/zzverif/vsched"
)

// C32: every history of concurrent operations on Locked, SingleLockedMap,
// ShardedMap and the deep sharded map is linearizable w.r.t. a sequential
// map / value, and at quiescence Len() equals the number of keys.
//
// Engine S: util/lock.go is built with the vsync/vatomic shims; every
// interleaving (preemption bound 2 quick / 3 thorough) of 2 threads x 2
// operations and 3 threads x 1 operation is executed on the real structure.
// Oracle: the recorded call/return history must have a linearization - found by
// brute force over all orders consistent with real time - whose results are
// those of a plain Go map (the reference model below).

// ---- reference model: a plain map + closed flag ----

type c32model struct {
	m       map[int]int
	closed  bool
	sharded bool
}

type c32op struct {
	name string
	key  int
	val  int
}

func (o c32op) String() string {
	switch o.name {
	case "SetValue", "GetOrCreate":
		return fmt.Sprintf("%s(%d,%d)", o.name, o.key, o.val)
	case "Traverse", "Len", "Empty", "Close", "Map":
		return o.name + "()"
	}
	return fmt.Sprintf("%s(%d)", o.name, o.key)
}

func sortedMap(m map[int]int) string {
	ks := make([]int, 0, len(m))
	for k := range m {
		ks = append(ks, k)
	}
	sort.Ints(ks)
	var sb strings.Builder
	for _, k := range ks {
		fmt.Fprintf(&sb, "%d:%d,", k, m[k])
	}
	return "{" + sb.String() + "}"
}

// apply returns the result string the operation must produce on model state m.
func (md *c32model) apply(o c32op) string {
	_, found := md.m[o.key]
	switch o.name {
	case "SetValue":
		if md.closed {
			return "false"
		}
		md.m[o.key] = o.val
		return fmt.Sprint(!found)
	case "Value":
		if md.closed || !found {
			return "0,false"
		}
		return fmt.Sprintf("%d,true", md.m[o.key])
	case "Exists":
		return fmt.Sprint(found && !md.closed)
	case "RemoveValue":
		if md.closed || !found {
			return "false"
		}
		delete(md.m, o.key)
		return "true"
	case "Set": // f: found -> v+10, else 7
		if md.closed {
			return "closed"
		}
		nv := 7
		if found {
			nv = md.m[o.key] + 10
		}
		md.m[o.key] = nv
		return fmt.Sprintf("%d,%v", nv, !found)
	case "GetOrCreate":
		if md.closed {
			return "closed"
		}
		if found {
			return fmt.Sprintf("%d,false", md.m[o.key])
		}
		md.m[o.key] = o.val
		return fmt.Sprintf("%d,true", o.val)
	case "SetOrRemove": // found -> remove, else set 5
		if md.closed {
			return "closed"
		}
		if found {
			delete(md.m, o.key)
			return "removed"
		}
		md.m[o.key] = 5
		return "created"
	case "Remove":
		if md.closed || !found {
			return "false"
		}
		delete(md.m, o.key)
		return "true"
	case "Traverse", "Map":
		if md.closed {
			return "{}"
		}
		return sortedMap(md.m)
	case "Len":
		if md.closed {
			return "0"
		}
		return fmt.Sprint(len(md.m))
	case "Empty":
		md.m = map[int]int{}
		return ""
	case "Close":
		md.m = map[int]int{}
		md.closed = true
		return ""
	}
	panic("unknown op " + o.name)
}

// ---- the same operations on the real structure ----

func c32run(l LockedMap[int, int], o c32op) string {
	switch o.name {
	case "SetValue":
		return fmt.Sprint(l.SetValue(o.key, o.val))
	case "Value":
		v, found := l.Value(o.key)
		return fmt.Sprintf("%d,%v", v, found)
	case "Exists":
		return fmt.Sprint(l.Exists(o.key))
	case "RemoveValue":
		return fmt.Sprint(l.RemoveValue(o.key))
	case "Set":
		v, created, err := l.Set(o.key, func(v int, found bool) (int, error) {
			vsched.Point("callback", nil) // a callback is the caller's code: another thread may be scheduled while it runs
			if found {
				return v + 10, nil
			}
			return 7, nil
		})
		if err != nil {
			return "closed"
		}
		return fmt.Sprintf("%d,%v", v, created)
	case "GetOrCreate":
		var got string
		err := l.GetOrCreate(o.key, func(v int, created bool) error {
			vsched.Point("callback", nil)
			got = fmt.Sprintf("%d,%v", v, created)
			return nil
		}, func() (int, error) { return o.val, nil })
		if err != nil {
			return "closed"
		}
		return got
	case "SetOrRemove":
		_, created, removed, err := l.SetOrRemove(o.key, func(v int, found bool) (int, bool, error) {
			vsched.Point("callback", nil)
			if found {
				return 0, true, nil
			}
			return 5, false, nil
		})
		switch {
		case err != nil:
			return "closed"
		case removed:
			return "removed"
		case created:
			return "created"
		}
		return "?"
	case "Remove":
		removed, err := l.Remove(o.key, func(int, bool) error { vsched.Point("callback", nil); return nil })
		if err != nil {
			return "false" // closed: nothing removed
		}
		return fmt.Sprint(removed)
	case "Traverse":
		m := map[int]int{}
		l.Traverse(func(k, v int) bool { m[k] = v; return true })
		return sortedMap(m)
	case "Map":
		return sortedMap(l.Map())
	case "Len":
		return fmt.Sprint(l.Len())
	case "Empty":
		l.Empty()
		return ""
	case "Close":
		l.Close()
		return ""
	}
	panic("unknown op " + o.name)
}

type c32event struct {
	op        c32op
	thread    int
	call, ret int
	res       string
}

// linearizable: brute force over all orders consistent with real time.
func c32linearizable(init map[int]int, evs []c32event, finalMap string, checkFinal bool) bool {
	n := len(evs)
	used := make([]bool, n)
	var rec func(md *c32model, done int) bool
	rec = func(md *c32model, done int) bool {
		if done == n {
			if !checkFinal {
				return true
			}
			want := sortedMap(md.m)
			if md.closed {
				want = "{}"
			}
			return want == finalMap
		}
		for i := 0; i < n; i++ {
			if used[i] {
				continue
			}
			// i may go next only if no unused event returned before i was called
			ok := true
			for j := 0; j < n; j++ {
				if j != i && !used[j] && evs[j].ret < evs[i].call {
					ok = false
					break
				}
			}
			if !ok {
				continue
			}
			c := &c32model{m: map[int]int{}, closed: md.closed}
			for k, v := range md.m {
				c.m[k] = v
			}
			if c.apply(evs[i].op) != evs[i].res {
				continue
			}
			used[i] = true
			if rec(c, done+1) {
				used[i] = false
				return true
			}
			used[i] = false
		}
		return false
	}
	md := &c32model{m: map[int]int{}}
	for k, v := range init {
		md.m[k] = v
	}
	return rec(md, 0)
}

func c32new(kind string) LockedMap[int, int] {
	switch kind {
	case "single":
		return NewSingleLockedMap[int, int]()
	case "sharded":
		m, err := NewShardedMapWithSeed[int, int](7, 2, func(k interface{}, size uint64) (uint64, interface{}) {
			return defaultHashFunc(7, k, size)
		}, nil)
		if err != nil {
			panic(err)
		}
		return m
	case "deep":
		m, err := NewDeepShardedMap[int, int]([]uint64{2, 2}, nil)
		if err != nil {
			panic(err)
		}
		return m
	}
	panic(kind)
}

// c32nativeMu is a REAL mutex (this file is not instrumented): under the controlled scheduler only one thread
// runs at a time so it is never contended and adds no scheduling point.
var c32nativeMu sync.Mutex

// c32raceScenario builds the thread bodies of one scenario for the free-running -race pass.
func c32raceRoots(s c32scenario) []func() {
	l := c32new(s.kind)
	for k, v := range s.init {
		l.SetValue(k, v)
	}
	var roots []func()
	for _, p := range s.progs {
		p := p
		roots = append(roots, func() {
			for _, o := range p {
				_ = c32run(l, o)
			}
		})
	}
	return roots
}

type c32scenario struct {
	kind  string
	init  map[int]int
	progs [][]c32op
}

func (s c32scenario) id() string {
	var ps []string
	for _, p := range s.progs {
		var os []string
		for _, o := range p {
			os = append(os, o.String())
		}
		ps = append(ps, strings.Join(os, ";"))
	}
	return fmt.Sprintf("%s|init=%s|%s", s.kind, sortedMap(s.init), strings.Join(ps, " || "))
}

func c32involves(s c32scenario, name string) bool {
	for _, p := range s.progs {
		for _, o := range p {
			if o.name == name {
				return true
			}
		}
	}
	return false
}

func c32explore(r *vlib.Run, s c32scenario, bound int) {
	id := s.id()
	var evs []c32event
	var clock int
	var l LockedMap[int, int]
	build := func() vsched.Scenario {
		evs = evs[:0]
		clock = 0
		l = c32new(s.kind)
		for k, v := range s.init {
			l.SetValue(k, v)
		}
		var roots []func()
		for ti, p := range s.progs {
			ti, p := ti, p
			roots = append(roots, func() {
				for _, o := range p {
					c32nativeMu.Lock() // uncontended under the scheduler; orders the log in the free-running -race pass
					clock++
					c := clock
					c32nativeMu.Unlock()
					res := c32run(l, o)
					c32nativeMu.Lock()
					clock++
					evs = append(evs, c32event{op: o, thread: ti, call: c, ret: clock, res: res})
					c32nativeMu.Unlock()
				}
			})
		}
		return vsched.Scenario{
			Roots: roots,
			Outcome: func(*vsched.Exec) string {
				var rs []string
				for _, e := range evs {
					rs = append(rs, fmt.Sprintf("%d:%s", e.thread, e.res))
				}
				sort.Strings(rs)
				return strings.Join(rs, " ")
			},
			Check: func(x *vsched.Exec) *vsched.Fail {
				if x.Panic != nil {
					return &vsched.Fail{Sig: map[string]any{"kind": "panic", "struct": s.kind}, Detail: fmt.Sprintf("panic: %v\n%s", x.Panic, x.PanicStack)}
				}
				if x.Deadlock {
					return &vsched.Fail{Sig: map[string]any{"kind": "deadlock", "struct": s.kind}, Detail: strings.Join(x.Blocked, "; ")}
				}
				final := sortedMap(l.Map())
				hist := func() string {
					var sb strings.Builder
					for _, e := range evs {
						fmt.Fprintf(&sb, "T%d %s -> %q [call %d ret %d]; ", e.thread, e.op, e.res, e.call, e.ret)
					}
					return sb.String()
				}
				if !c32linearizable(s.init, evs, final, true) {
					// cause analysis: which read-only multi-shard operation has to be dropped
					// from the history to make the rest linearizable?
					drop := func(names ...string) []c32event {
						var out []c32event
						for _, e := range evs {
							skip := false
							for _, n := range names {
								if e.op.name == n {
									skip = true
								}
							}
							if !skip {
								out = append(out, e)
							}
						}
						return out
					}
					inv := "other"
					for _, n := range []string{"Traverse", "Len", "Map"} {
						if c32involves(s, n) && c32linearizable(s.init, drop(n), final, true) {
							inv = n
							break
						}
					}
					if inv == "other" && c32linearizable(s.init, drop("Traverse", "Len", "Map"), final, true) {
						inv = "several-of-Traverse-Len-Map"
					}
					return &vsched.Fail{
						Sig:    map[string]any{"kind": "not-linearizable", "struct": s.kind, "involves": inv},
						Detail: "history has no linearization w.r.t. a plain map (linearizable once the " + inv + " events are dropped): " + hist() + " final=" + final,
					}
				}
				if n, keys := l.Len(), len(l.Map()); n != keys {
					// cause: a mutating operation overlapping in time with Empty/Close
					inv := "other"
					for _, a := range evs {
						if a.op.name != "Empty" && a.op.name != "Close" {
							continue
						}
						for _, b := range evs {
							switch b.op.name {
							case "SetValue", "Set", "GetOrCreate", "SetOrRemove", "RemoveValue", "Remove":
								if b.call < a.ret && a.call < b.ret {
									inv = "mutator-overlapping-" + a.op.name
								}
							}
						}
					}
					return &vsched.Fail{
						Sig:    map[string]any{"kind": "len-mismatch", "struct": s.kind, "involves": inv},
						Detail: fmt.Sprintf("at quiescence Len()=%d but %d keys: %s", n, keys, hist()),
					}
				}
				return nil
			},
		}
	}
	if rid, rp := r.Replaying(); rp {
		// replay id = scenario id + "#" + choices
		i := strings.LastIndex(rid, "#")
		if i < 0 || rid[:i] != id {
			return
		}
		sc := build()
		x := vsched.Run(vsched.Options{Prefix: vsched.ParseChoices(rid[i+1:])}, sc.Roots...)
		r.Trace()
		if f := sc.Check(x); f != nil {
			r.Violation(rid, f.Sig, f.Detail, nil)
		}
		return
	}
	_, nsh := r.Shard()
	res := vsched.Explore(vsched.Config{Name: id, Bound: bound, Build: build, Expired: r.Expired, MaxFound: 2, Horizon: 2000})
	_ = nsh
	if res.EngineError != "" {
		panic("engine error in " + id + ": " + res.EngineError)
	}
	r.TraceN(res.Executions)
	r.TransitionN(res.Points)
	r.EvalN(res.Executions)
	r.Add("scenarios", 1)
	if res.Capped != "" {
		r.Cap(res.Capped)
	} else {
		r.Min("preemption_bound_completed", int64(res.BoundCompleted))
	}
	r.Max("max_points_per_execution", int64(res.MaxPoints))
	if len(res.Outcomes) > 1 {
		r.Nontrivial(id)
	}
	for o := range res.Outcomes {
		r.State(id + "=>" + o) // a state = (scenario, observable outcome)
		if strings.HasPrefix(o, "FAIL:") {
			r.Outcome(o)
		}
	}
	r.Outcome(fmt.Sprintf("outcomes=%d", len(res.Outcomes)))
	for _, f := range res.Found {
		cid := id + "#" + vsched.ChoicesString(f.Choices)
		r.Violation(cid, f.Fail.Sig, f.Fail.Detail+fmt.Sprintf(" (preemptions=%d)", f.Preempt), nil)
	}
	r.Sample(map[string]any{"scenario": id, "executions": res.Executions, "distinct_outcomes": len(res.Outcomes)})
}

func TestVerifC32(t *testing.T) {
	r := vlib.Start("C32")
	defer r.Finish()
	r.Rule("scenario = structure kind x initial content x thread programs (2 threads x 2 ops, 3 threads x 1 op) over an operation alphabet on keys 0,2 (same shard) and 1 (other shard); every interleaving within the preemption bound is executed on the real structure built with the vsync/vatomic shims; non-trivial = scenario with more than one observable outcome; states = distinct (scenario, outcome)")
	r.Assume("scheduling points before Lock/RLock/atomic operations are sufficient (no unsynchronised shared access); callbacks run inside the structure's lock")
	bound := vlib.Pick(r, 2, 3)
	r.Set("preemption_bound", bound)

	// Locked[T] (single value)
	c32locked(r, bound)

	full := []c32op{
		{"SetValue", 0, 1}, {"SetValue", 2, 2}, {"SetValue", 1, 3},
		{"Value", 0, 0}, {"Exists", 0, 0}, {"RemoveValue", 0, 0},
		{"Set", 0, 0}, {"GetOrCreate", 0, 4}, {"SetOrRemove", 0, 0}, {"Remove", 0, 0},
		{"Traverse", 0, 0}, {"Len", 0, 0}, {"Map", 0, 0}, {"Empty", 0, 0}, {"Close", 0, 0},
	}
	quickA := []c32op{
		{"SetValue", 0, 1}, {"SetValue", 1, 3}, {"Value", 0, 0}, {"Remove", 0, 0}, // Remove (callback with a scheduling point) rather than RemoveValue: thorough has both
		{"Set", 0, 0}, {"SetOrRemove", 0, 0}, {"Traverse", 0, 0}, {"Len", 0, 0}, {"Map", 0, 0}, {"Empty", 0, 0}, {"Close", 0, 0},
	}
	alpha := vlib.Pick(r, quickA, full)
	kinds := []string{"single", "sharded", "deep"}
	inits := []map[int]int{{}, {0: 9, 1: 8}}
	idx := 0
	for _, kind := range kinds {
		for _, init := range inits {
			// 3 threads x 1 op (unordered multisets)
			for a := 0; a < len(alpha); a++ {
				for b := a; b < len(alpha); b++ {
					for c := b; c < len(alpha); c++ {
						idx++
						if !r.Mine(idx) || r.Expired() {
							continue
						}
						c32explore(r, c32scenario{kind, init, [][]c32op{{alpha[a]}, {alpha[b]}, {alpha[c]}}}, bound)
					}
				}
			}
			// 2 threads x 2 ops: program pairs (unordered)
			var progs [][]c32op
			for a := range alpha {
				for b := range alpha {
					progs = append(progs, []c32op{alpha[a], alpha[b]})
				}
			}
			if !r.Thorough() {
				// quick: every sixth program pair (fixed selection)
				var sel [][]c32op
				for i, p := range progs {
					if i%6 == 0 {
						sel = append(sel, p)
					}
				}
				progs = sel
			}
			for a := 0; a < len(progs); a++ {
				for b := a; b < len(progs); b++ {
					idx++
					if !r.Mine(idx) || r.Expired() {
						continue
					}
					c32explore(r, c32scenario{kind, init, [][]c32op{progs[a], progs[b]}}, bound)
				}
			}
		}
	}
	r.Set("scenarios_enumerated", idx)
}

// ---- Locked[T] ----

func c32locked(r *vlib.Run, bound int) {
	type lop struct{ name string }
	ops := []string{"Value", "SetValue1", "SetValue2", "EmptyValue", "GetOrCreate3", "Set+10", "Empty"}
	apply := func(v *int, empty *bool, o string) string {
		switch o {
		case "Value":
			if *empty {
				return "0,true"
			}
			return fmt.Sprintf("%d,false", *v)
		case "SetValue1":
			*v, *empty = 1, false
		case "SetValue2":
			*v, *empty = 2, false
		case "EmptyValue", "Empty":
			*v, *empty = 0, true
		case "GetOrCreate3":
			if *empty {
				*v, *empty = 3, false
				return "3,true"
			}
			return fmt.Sprintf("%d,false", *v)
		case "Set+10":
			if *empty {
				*v = 7
			} else {
				*v += 10
			}
			*empty = false
			return fmt.Sprint(*v)
		}
		return ""
	}
	run := func(l *Locked[int], o string) string {
		switch o {
		case "Value":
			v, e := l.Value()
			return fmt.Sprintf("%d,%v", v, e)
		case "SetValue1":
			l.SetValue(1)
		case "SetValue2":
			l.SetValue(2)
		case "EmptyValue":
			l.EmptyValue()
		case "Empty":
			_ = l.Empty(func(int, bool) error { return nil })
		case "GetOrCreate3":
			var got string
			_ = l.GetOrCreate(func(v int, created bool) error { got = fmt.Sprintf("%d,%v", v, created); return nil },
				func() (int, error) { return 3, nil })
			return got
		case "Set+10":
			v, _ := l.Set(func(v int, isempty bool) (int, error) {
				if isempty {
					return 7, nil
				}
				return v + 10, nil
			})
			return fmt.Sprint(v)
		}
		return ""
	}
	type ev struct {
		o         string
		call, ret int
		res       string
	}
	idx := 1000000
	for a := 0; a < len(ops); a++ {
		for b := 0; b < len(ops); b++ {
			for c := b; c < len(ops); c++ {
				idx++
				if !r.Mine(idx) || r.Expired() {
					continue
				}
				progs := [][]string{{ops[a], ops[c]}, {ops[b], "Value"}}
				id := fmt.Sprintf("locked|%v", progs)
				var evs []ev
				var clock int
				var l *Locked[int]
				build := func() vsched.Scenario {
					evs, clock = evs[:0], 0
					l = EmptyLocked[int]()
					var roots []func()
					for _, p := range progs {
						p := p
						roots = append(roots, func() {
							for _, o := range p {
								clock++
								c := clock
								res := run(l, o)
								clock++
								evs = append(evs, ev{o, c, clock, res})
							}
						})
					}
					return vsched.Scenario{Roots: roots,
						Outcome: func(*vsched.Exec) string {
							var rs []string
							for _, e := range evs {
								rs = append(rs, e.o+"="+e.res)
							}
							sort.Strings(rs)
							return strings.Join(rs, " ")
						},
						Check: func(x *vsched.Exec) *vsched.Fail {
							if x.Panic != nil || x.Deadlock {
								return &vsched.Fail{Sig: map[string]any{"kind": "panic-or-deadlock", "struct": "locked"}, Detail: fmt.Sprint(x.Panic, x.Blocked)}
							}
							fv, fe := l.Value()
							n := len(evs)
							used := make([]bool, n)
							var rec func(v int, e bool, done int) bool
							rec = func(v int, e bool, done int) bool {
								if done == n {
									return v == fv && e == fe || (e && fe)
								}
								for i := 0; i < n; i++ {
									if used[i] {
										continue
									}
									ok := true
									for j := 0; j < n; j++ {
										if j != i && !used[j] && evs[j].ret < evs[i].call {
											ok = false
										}
									}
									if !ok {
										continue
									}
									nv, ne := v, e
									if apply(&nv, &ne, evs[i].o) != evs[i].res {
										continue
									}
									used[i] = true
									if rec(nv, ne, done+1) {
										used[i] = false
										return true
									}
									used[i] = false
								}
								return false
							}
							if !rec(0, true, 0) {
								return &vsched.Fail{Sig: map[string]any{"kind": "not-linearizable", "struct": "locked"}, Detail: fmt.Sprintf("history %v final=(%d,%v) has no linearization", evs, fv, fe)}
							}
							return nil
						}}
				}
				if rid, rp := r.Replaying(); rp {
					i := strings.LastIndex(rid, "#")
					if i < 0 || rid[:i] != id {
						continue
					}
					sc := build()
					x := vsched.Run(vsched.Options{Prefix: vsched.ParseChoices(rid[i+1:])}, sc.Roots...)
					if f := sc.Check(x); f != nil {
						r.Violation(rid, f.Sig, f.Detail, nil)
					}
					continue
				}
				res := vsched.Explore(vsched.Config{Name: id, Bound: bound, Build: build, Expired: r.Expired, MaxFound: 2, Horizon: 2000})
				if res.EngineError != "" {
					panic("engine error in " + id + ": " + res.EngineError)
				}
				r.TraceN(res.Executions)
				r.TransitionN(res.Points)
				r.EvalN(res.Executions)
				r.Add("scenarios", 1)
				if res.Capped != "" {
					r.Cap(res.Capped)
				}
				if len(res.Outcomes) > 1 {
					r.Nontrivial(id)
				}
				for o := range res.Outcomes {
					r.State(id + "=>" + o)
				}
				for _, f := range res.Found {
					r.Violation(id+"#"+vsched.ChoicesString(f.Choices), f.Fail.Sig, f.Fail.Detail, nil)
				}
			}
		}
	}
}

// TestVerifC32Race: free-running pass of scenario bodies under `go test -race` (thorough tier only); checks the
// assumption that lock/atomic operations are the only interaction points of util/lock.go. Never a verdict.
func TestVerifC32Race(t *testing.T) {
	r := vlib.Start("C32")
	defer r.Finish()
	ops := []c32op{
		{"SetValue", 0, 1}, {"SetValue", 2, 2}, {"SetValue", 1, 3}, {"Value", 0, 0}, {"Exists", 0, 0}, {"RemoveValue", 0, 0},
		{"Set", 0, 0}, {"GetOrCreate", 0, 4}, {"SetOrRemove", 0, 0}, {"Remove", 0, 0},
		{"Traverse", 0, 0}, {"Len", 0, 0}, {"Map", 0, 0}, {"Empty", 0, 0}, {"Close", 0, 0},
	}
	n := 0
	for _, kind := range []string{"single", "sharded", "deep"} {
		for a := range ops {
			for b := range ops {
				for rep := 0; rep < 6; rep++ {
					c := ops[(a+b+rep)%len(ops)]
					sc := c32scenario{kind, map[int]int{0: 9}, [][]c32op{{ops[a], c}, {ops[b], ops[a]}, {c, ops[b]}}}
					if !vsched.RunNative(20*time.Second, c32raceRoots(sc)...) {
						t.Fatalf("free-running scenario %s did not finish", sc.id())
					}
					n++
				}
			}
		}
	}
	r.Add("race_pass_free_running_executions", int64(n))
}
