//go:build verif

package isaac

// C03, second exploration: voteproofs whose sign facts / majority fact belong to
// ANOTHER stage point than the voteproof's own.
//
// An honest node signs, by protocol, one INIT fact and one ACCEPT fact for every
// (height, round) it takes part in, and facts for other rounds and heights. None of
// that is equivocation: the property counts nodes that sign two different facts for
// the SAME stage point. So the signed material an attacker can wrap into a voteproof
// for the stage point T is not only what was signed for T. This file enumerates
// voteproofs for T = (33, 1, S), S in {INIT, ACCEPT}, plain and expelling one node,
// whose sign facts are drawn from the facts of 10 "origins" (T itself and 9 foreign
// stage points: the other stage of the same height and round, the previous / next
// round, the previous / next height, each in both stages), with every claimed
// majority, and validates each one by the real isaac.IsValidVoteproofWithSuffrage and
// Voteproof.IsValid. The accepted set is compared pairwise with the oracle of the
// property: same stage point T, different majority facts, and at most f nodes that
// signed two different facts for one stage point (the fact's OWN stage point).

import (
	"fmt"
	"sort"
	"strings"
	"sync"

	"github.com/spikeekips/mitum/base"
	"github.com/spikeekips/mitum/util"
	"github.com/spikeekips/mitum/util/valuehash"
	"github.com/spikeekips/mitum/zzverif/vlib"
)

// ---------------------------------------------------------------- grammar

type c03fOrigin struct {
	dh, dr int  // height / round relative to the voteproof's point
	other  bool // the other stage (INIT <-> ACCEPT)
	name   string
	class  string // what differs from the voteproof's stage point
}

// origin 0 is the voteproof's own stage point.
var c03fOrigins = []c03fOrigin{
	{0, 0, false, "own", "own"},
	{0, 0, true, "stage", "stage"},
	{0, -1, false, "r-1", "round"},
	{0, -1, true, "r-1+stage", "round+stage"},
	{0, 1, false, "r+1", "round"},
	{0, 1, true, "r+1+stage", "round+stage"},
	{-1, 0, false, "h-1", "height"},
	{-1, 0, true, "h-1+stage", "height+stage"},
	{1, 0, false, "h+1", "height"},
	{1, 0, true, "h+1+stage", "height+stage"},
}

type c03fFact struct {
	Org  int  `json:"o"`           // index into c03fOrigins
	Prop int  `json:"p"`           // 0 = proposal A, 1 = proposal B
	Ex   bool `json:"x,omitempty"` // the fact lists the expel fact of the expelled node
}

type c03fVote struct {
	Node int      `json:"n"`
	Fact c03fFact `json:"f"`
}

type c03fCand struct {
	Expel bool       `json:"xvp"` // INIT/ACCEPTExpelVoteproof expelling the LAST node, the expel signed by all others
	Votes []c03fVote `json:"v"`
	Maj   *c03fFact  `json:"m"` // claimed majority; nil = DRAW
}

func (f c03fFact) name(n int) string {
	s := "A"
	if f.Prop == 1 {
		s = "B"
	}

	if f.Ex {
		s += "{" + c03NodeName(n-1, n) + "}"
	}

	if f.Org != 0 {
		s += "@" + c03fOrigins[f.Org].name
	}

	return s
}

func (c *c03fCand) id(n int) string {
	var sb strings.Builder

	if c.Expel {
		sb.WriteString("X[" + c03NodeName(n-1, n) + "<all]")
	} else {
		sb.WriteString("P")
	}

	sb.WriteString("V[")

	for i := range c.Votes {
		if i > 0 {
			sb.WriteByte(',')
		}

		sb.WriteString(c03NodeName(c.Votes[i].Node, n))
		sb.WriteByte(':')
		sb.WriteString(c.Votes[i].Fact.name(n))
	}

	sb.WriteString("]M=")

	if c.Maj == nil {
		sb.WriteString("DRAW")
	} else {
		sb.WriteString(c.Maj.name(n))
	}

	return sb.String()
}

func (c *c03fCand) clone() *c03fCand {
	d := &c03fCand{Expel: c.Expel, Votes: append([]c03fVote(nil), c.Votes...)}

	if c.Maj != nil {
		m := *c.Maj
		d.Maj = &m
	}

	return d
}

// foreign origins used by the sign facts and the majority.
func (c *c03fCand) foreign() (mask int) {
	for i := range c.Votes {
		if o := c.Votes[i].Fact.Org; o != 0 {
			mask |= 1 << o
		}
	}

	if c.Maj != nil && c.Maj.Org != 0 {
		mask |= 1 << c.Maj.Org
	}

	return mask
}

// toPlain maps a candidate WITHOUT foreign facts into the grammar of the first
// exploration (for the reference rule).
func (c *c03fCand) toPlain(n int) *c03Cand {
	conv := func(f c03fFact) c03Fact {
		k := c03Fact{Prop: f.Prop, Ex: -1}
		if f.Ex {
			k.Ex = 1 << (n - 1)
		}

		return k
	}

	d := &c03Cand{ExpelVP: c.Expel}

	if c.Expel {
		e := c03Expel{Target: n - 1}
		for s := 0; s < n-1; s++ {
			e.Signers = append(e.Signers, s)
		}

		d.Expels = []c03Expel{e}
	}

	for i := range c.Votes {
		d.Votes = append(d.Votes, c03Vote{Node: c.Votes[i].Node, Fact: conv(c.Votes[i].Fact)})
	}

	if c.Maj != nil {
		m := conv(*c.Maj)
		d.Maj = &m
	}

	return d
}

// ---------------------------------------------------------------- world

type c03fWorld struct {
	n     int
	stage base.Stage
	nid   base.NetworkID
	nodes []base.LocalNode
	suf   Suffrage
	point base.Point // the voteproof's point
	xfact SuffrageExpelFact
	xsign []base.NodeSign
	facts map[c03fFact]base.BallotFact
	sfs   map[c03fFact][]base.BallotSignFact // by node
}

func c03fOtherStage(s base.Stage) base.Stage {
	if s == base.StageINIT {
		return base.StageACCEPT
	}

	return base.StageINIT
}

func newC03fWorld(n int, stage base.Stage) *c03fWorld {
	w := &c03fWorld{
		n: n, stage: stage,
		nid:   base.NetworkID([]byte("c03-network-id")),
		point: base.RawPoint(33, 1),
		facts: map[c03fFact]base.BallotFact{},
		sfs:   map[c03fFact][]base.BallotSignFact{},
	}

	nodes := make([]base.Node, n)

	for i := 0; i < n; i++ {
		priv, err := base.NewMPrivatekeyFromSeed(fmt.Sprintf("c03 fixed seed for node key %02d -- padding to 36 bytes", i))
		c03Must(err)

		l := NewLocalNode(priv, base.NewStringAddress(fmt.Sprintf("c03n%02d", i)))
		w.nodes = append(w.nodes, l)
		nodes[i] = l
	}

	suf, err := NewSuffrage(nodes)
	c03Must(err)
	w.suf = suf

	// the expel of the last node, valid at heights 32..34, signed by every other node
	w.xfact = NewSuffrageExpelFact(w.nodes[n-1].Address(), base.Height(32), base.Height(35), "c03 expel")

	for s := 0; s < n-1; s++ {
		ns, err := base.NewBaseNodeSignFromFact(w.nodes[s].Address(), w.nodes[s].Privatekey(), w.nid, w.xfact)
		c03Must(err)
		w.xsign = append(w.xsign, ns)
	}

	hashes := map[string]c03fFact{}

	for o := range c03fOrigins {
		for p := 0; p < 2; p++ {
			for x := 0; x < 2; x++ {
				k := c03fFact{Org: o, Prop: p, Ex: x == 1}
				f := w.newFact(k)
				c03Must(f.IsValid(w.nid))

				if other, found := hashes[f.Hash().String()]; found {
					panic(fmt.Sprintf("c03: facts %v and %v share a hash", other, k))
				}

				hashes[f.Hash().String()] = k
				w.facts[k] = f

				sfs := make([]base.BallotSignFact, n)
				for node := 0; node < n; node++ {
					sfs[node] = w.newSignFact(f, node)
				}

				w.sfs[k] = sfs
			}
		}
	}

	return w
}

func (w *c03fWorld) originStagePoint(o int) base.StagePoint {
	org := c03fOrigins[o]

	st := w.stage
	if org.other {
		st = c03fOtherStage(st)
	}

	return base.NewStagePoint(
		base.NewPoint(w.point.Height()+base.Height(org.dh), base.Round(int(w.point.Round())+org.dr)), st)
}

func (w *c03fWorld) newFact(k c03fFact) base.BallotFact {
	sp := w.originStagePoint(k.Org)

	prev := valuehash.NewSHA256([]byte("c03 previous block"))
	pr := valuehash.NewSHA256([]byte(fmt.Sprintf("c03 proposal %d", k.Prop)))
	blk := valuehash.NewSHA256([]byte(fmt.Sprintf("c03 new block %d", k.Prop)))

	var expelfacts []util.Hash
	if k.Ex {
		expelfacts = []util.Hash{w.xfact.Hash()}
	}

	var f base.BallotFact

	if sp.Stage() == base.StageINIT {
		f = NewINITBallotFact(sp.Point, prev, pr, expelfacts)
	} else {
		f = NewACCEPTBallotFact(sp.Point, pr, blk, expelfacts)
	}

	if !f.Point().Equal(sp) {
		panic("c03: fact not built for the intended stage point")
	}

	return f
}

// newSignFact: the honest sign fact of `node` for `fact` (typed by the fact's own stage).
func (w *c03fWorld) newSignFact(fact base.BallotFact, node int) base.BallotSignFact {
	l := w.nodes[node]

	switch t := fact.(type) {
	case base.INITBallotFact:
		sf := NewINITBallotSignFact(t)
		c03Must(sf.NodeSign(l.Privatekey(), w.nid, l.Address()))

		return sf
	case base.ACCEPTBallotFact:
		sf := NewACCEPTBallotSignFact(t)
		c03Must(sf.NodeSign(l.Privatekey(), w.nid, l.Address()))

		return sf
	default:
		panic("c03: unknown fact type")
	}
}

func (w *c03fWorld) newExpelOp() base.SuffrageExpelOperation {
	op := NewSuffrageExpelOperation(w.xfact)
	c03Must(op.SetNodeSigns(append([]base.NodeSign(nil), w.xsign...)))

	return op
}

func (w *c03fWorld) build(c *c03fCand, t10 int, xop base.SuffrageExpelOperation) base.Voteproof {
	sfs := make([]base.BallotSignFact, len(c.Votes))
	for i := range c.Votes {
		sfs[i] = w.sfs[c.Votes[i].Fact][c.Votes[i].Node]
	}

	var maj base.BallotFact
	if c.Maj != nil {
		maj = w.facts[*c.Maj]
	}

	th := base.Threshold(float64(t10) / 10)

	switch {
	case w.stage == base.StageINIT && !c.Expel:
		vp := NewINITVoteproof(w.point)
		vp.SetMajority(maj).SetSignFacts(sfs).SetThreshold(th).Finish()

		return vp
	case w.stage == base.StageINIT:
		vp := NewINITExpelVoteproof(w.point)
		vp.SetMajority(maj).SetSignFacts(sfs).SetThreshold(th)
		vp.SetExpels([]base.SuffrageExpelOperation{xop})
		vp.Finish()

		return vp
	case !c.Expel:
		vp := NewACCEPTVoteproof(w.point)
		vp.SetMajority(maj).SetSignFacts(sfs).SetThreshold(th).Finish()

		return vp
	default:
		vp := NewACCEPTExpelVoteproof(w.point)
		vp.SetMajority(maj).SetSignFacts(sfs).SetThreshold(th)
		vp.SetExpels([]base.SuffrageExpelOperation{xop})
		vp.Finish()

		return vp
	}
}

// ---------------------------------------------------------------- accepted descriptors and the oracle

type c03fAccepted struct {
	cand    *c03fCand
	id      string
	foreign int  // mask of foreign origins carried
	outside bool // accepted by the real code, rejected by the reference rule
}

// c03fEquivocators = nodes that signed two different facts for ONE stage point
// (the stage point of the facts), over the sign facts of both voteproofs.
func c03fEquivocators(a, b *c03fCand) []int {
	type key struct{ node, org int }

	signed := map[key]map[c03fFact]bool{}

	for _, c := range []*c03fCand{a, b} {
		for _, v := range c.Votes {
			k := key{v.Node, v.Fact.Org}
			if signed[k] == nil {
				signed[k] = map[c03fFact]bool{}
			}

			signed[k][v.Fact] = true
		}
	}

	who := map[int]bool{}

	for k, fs := range signed {
		if len(fs) > 1 {
			who[k.node] = true
		}
	}

	l := make([]int, 0, len(who))
	for node := range who {
		l = append(l, node)
	}

	sort.Ints(l)

	return l
}

func c03fClasses(mask int) string {
	seen := map[string]bool{}

	var l []string

	for o := 1; o < len(c03fOrigins); o++ {
		if mask&(1<<o) != 0 && !seen[c03fOrigins[o].class] {
			seen[c03fOrigins[o].class] = true
			l = append(l, c03fOrigins[o].class)
		}
	}

	sort.Strings(l)

	if len(l) < 1 {
		return "none"
	}

	return strings.Join(l, ",")
}

type c03fReplay struct {
	Kind  string    `json:"kind"` // "foreign"
	N     int       `json:"n"`
	T10   int       `json:"t10"`
	Stage string    `json:"stage"`
	A     *c03fCand `json:"a"`
	B     *c03fCand `json:"b"`
}

func c03fCaseID(n, t10 int, stage base.Stage, x, y *c03fAccepted) string {
	if y.id < x.id {
		x, y = y, x
	}

	return fmt.Sprintf("foreign|n=%d,t10=%d,%s|%s|%s", n, t10, stage, x.id, y.id)
}

// c03fConflict decides ONE pair of accepted voteproofs of the same stage point.
func c03fConflict(n, t10 int, a, b *c03fAccepted) (sig map[string]any, who []int, violated bool) {
	if a.cand.Maj == nil || b.cand.Maj == nil || *a.cand.Maj == *b.cand.Maj {
		return nil, nil, false
	}

	who = c03fEquivocators(a.cand, b.cand)
	if len(who) > c03F(n, t10) {
		return nil, who, false
	}

	kinds := []string{"plain", "plain"}
	if a.cand.Expel {
		kinds[0] = "expel"
	}

	if b.cand.Expel {
		kinds[1] = "expel"
	}

	sort.Strings(kinds)

	gt := (a.cand.Expel || b.cand.Expel) && 1 > n-c03Quorum(n, t10)

	return map[string]any{
		"kind":                            "conflict",
		"some_vp_expels_gt_n_minus_q":     gt,
		"accepted_outside_reference_rule": a.outside || b.outside,
		"vp_kinds":                        kinds[0] + "/" + kinds[1],
		"facts_of_other_stage_point":      c03fClasses(a.foreign | b.foreign),
	}, who, true
}

func c03fReport(r *vlib.Run, n, t10 int, stage base.Stage, a, b *c03fAccepted, sig map[string]any, who []int) {
	x, y := a, b
	if y.id < x.id {
		x, y = y, x
	}

	names := make([]string, len(who))
	for i := range who {
		names[i] = c03NodeName(who[i], n)
	}

	detail := fmt.Sprintf(
		"n=%d t=%.1f q=%d f=n-q=%d, both voteproofs are for the stage point (33,1,%s) and pass IsValidVoteproofWithSuffrage and "+
			"IsValid; majorities %s != %s; nodes that signed two different facts for one stage point: %d %v (<= f); "+
			"facts of another stage point than the voteproof's: %s; vp1=%s vp2=%s",
		n, float64(t10)/10, c03Quorum(n, t10), c03F(n, t10), stage, x.cand.Maj.name(n), y.cand.Maj.name(n),
		len(who), names, c03fClasses(a.foreign|b.foreign), x.id, y.id)

	r.Violation(c03fCaseID(n, t10, stage, a, b), sig, detail,
		c03fReplay{Kind: "foreign", N: n, T10: t10, Stage: stage.String(), A: x.cand, B: y.cand})
}

// ---------------------------------------------------------------- enumeration

type c03fLocal struct {
	xop                                          base.SuffrageExpelOperation
	evals, withForeign, passedSuffrage, accepted int64
	acceptedForeign, mismatch                    int64
	outcomes                                     map[string]int64
	reasons                                      map[string]string
	acc                                          []*c03fAccepted
}

func newC03fLocal(w *c03fWorld) *c03fLocal {
	return &c03fLocal{outcomes: map[string]int64{}, reasons: map[string]string{}, xop: w.newExpelOp()}
}

// reason = c03Reason(err), cached by the raw message (few distinct messages; the regular expressions are slow)
func (l *c03fLocal) reason(err error) string {
	raw := err.Error()

	if s, found := l.reasons[raw]; found {
		return s
	}

	s := c03Reason(err)
	if len(l.reasons) < 4096 {
		l.reasons[raw] = s
	}

	return s
}

func (w *c03fWorld) eval(l *c03fLocal, t10 int, c *c03fCand) {
	vp := w.build(c, t10, l.xop)

	l.evals++

	foreign := c.foreign()
	tag := "own-facts-only"

	if foreign != 0 {
		l.withForeign++

		tag = "other-point-facts"
	}

	// reference rule: every fact must be of the voteproof's stage point, then the rule of the first exploration
	mok := false
	if foreign == 0 {
		mok, _ = c03ModelAccept(w.n, t10, c.toPlain(w.n))
	}

	// both entry points; the signature-free suffrage check first (accepted == both nil, in any order)
	if err := IsValidVoteproofWithSuffrage(vp, w.suf); err != nil {
		l.outcomes["foreign:"+tag+":rejected-by-IsValidVoteproofWithSuffrage:"+l.reason(err)]++

		if mok {
			l.mismatch++
		}

		return
	}

	l.passedSuffrage++

	if err := vp.IsValid(w.nid); err != nil {
		l.outcomes["foreign:"+tag+":passes-IsValidVoteproofWithSuffrage,rejected-by-IsValid:"+l.reason(err)]++

		if mok {
			l.mismatch++
		}

		return
	}

	l.accepted++

	res := "majority"
	if c.Maj == nil {
		res = "draw"
	}

	l.outcomes["foreign:"+tag+":accepted:"+res]++

	if foreign != 0 {
		l.acceptedForeign++
	}

	if !mok {
		l.mismatch++
	}

	l.acc = append(l.acc, &c03fAccepted{cand: c.clone(), id: c.id(w.n), foreign: foreign, outside: !mok})
}

// claims, full: DRAW, every fact of the menu (voted or not), and the two facts of the
// voteproof's own stage point even when nobody voted them ("relabel").
func c03fClaims(menu []c03fFact, ex bool) []*c03fFact {
	claims := []*c03fFact{nil}
	seen := map[c03fFact]bool{}

	add := func(f c03fFact) {
		if !seen[f] {
			seen[f] = true
			g := f
			claims = append(claims, &g)
		}
	}

	for _, f := range menu {
		add(f)
	}

	add(c03fFact{Org: 0, Prop: 0, Ex: ex})
	add(c03fFact{Org: 0, Prop: 1, Ex: ex})

	return claims
}

// claims, reduced (quick tier): DRAW, every most-voted fact (all of them on a tie)
// and its counterpart of the voteproof's own stage point ("relabel").
func c03fTopClaims(votes []c03fVote, buf []*c03fFact) []*c03fFact {
	claims := append(buf[:0], nil)

	var counts [2 * 16]int // by origin and proposal

	top := 0

	for i := range votes {
		k := votes[i].Fact.Org*2 + votes[i].Fact.Prop
		counts[k]++

		if counts[k] > top {
			top = counts[k]
		}
	}

	var own [2]bool

	ex := len(votes) > 0 && votes[0].Fact.Ex

	for k := range counts {
		if top > 0 && counts[k] == top {
			claims = append(claims, &c03fFact{Org: k / 2, Prop: k % 2, Ex: ex})

			if k/2 == 0 {
				own[k%2] = true
			}
		}
	}

	for k := range counts {
		if top > 0 && counts[k] == top && !own[k%2] {
			own[k%2] = true
			claims = append(claims, &c03fFact{Org: 0, Prop: k % 2, Ex: ex})
		}
	}

	return claims
}

// job: every assignment (absent | A@o | B@o, o in D) of the voters that uses EVERY
// origin of D (so that the union over all D with |D| <= maxD is every assignment
// with at most maxD distinct origins, each exactly once) x every claim.
func (w *c03fWorld) job(l *c03fLocal, t10 int, expel, allClaims bool, dmask int) {
	n := w.n

	voters := n
	if expel {
		voters = n - 1
	}

	var menu []c03fFact

	for o := range c03fOrigins {
		if dmask&(1<<o) != 0 {
			menu = append(menu, c03fFact{Org: o, Prop: 0, Ex: expel}, c03fFact{Org: o, Prop: 1, Ex: expel})
		}
	}

	claims := c03fClaims(menu, expel)

	m := len(menu) + 1
	total := 1

	for i := 0; i < voters; i++ {
		total *= m
	}

	c := &c03fCand{Expel: expel}
	votes := make([]c03fVote, 0, voters)

	for x := 0; x < total; x++ {
		votes = votes[:0]
		y, used := x, 0

		for node := 0; node < voters; node++ {
			if d := y % m; d > 0 {
				votes = append(votes, c03fVote{Node: node, Fact: menu[d-1]})
				used |= 1 << menu[d-1].Org
			}

			y /= m
		}

		if used != dmask {
			continue
		}

		c.Votes = votes

		if !allClaims {
			claims = c03fTopClaims(votes, claims)
		}

		for _, claim := range claims {
			c.Maj = claim
			w.eval(l, t10, c)
		}
	}
}

func c03fPopcount(m int) (k int) {
	for ; m != 0; m &= m - 1 {
		k++
	}

	return k
}

type c03fConfig struct {
	n         int
	t10       int
	stage     base.Stage
	expel     bool
	maxD      int  // at most maxD distinct origins (own included) among the sign facts of one voteproof
	maxF      int  // at most maxF distinct FOREIGN origins among them
	allClaims bool // every claim of c03fClaims instead of c03fTopClaims
}

func (c c03fConfig) String() string {
	k := "plain"
	if c.expel {
		k = "expel1"
	}

	cl := "topclaims"
	if c.allClaims {
		cl = "allclaims"
	}

	return fmt.Sprintf("foreign:n=%d,t10=%d,%s,%s,origins<=%d,foreign<=%d,%s", c.n, c.t10, c.stage, k, c.maxD, c.maxF, cl)
}

func (c c03fConfig) allowed(dmask int) bool {
	return c03fPopcount(dmask) <= c.maxD && c03fPopcount(dmask&^1) <= c.maxF
}

func c03fConfigs(r *vlib.Run) []c03fConfig {
	var cs []c03fConfig

	type nd struct{ n, maxD, maxF int }

	ts := vlib.Pick(r, []int{670}, []int{670, 750, 800, 1000})

	for _, t10 := range ts {
		var sizes []nd

		switch {
		case !r.Thorough():
			// n=2 complete; n=3: three voters on three origins cannot agree, so <=2 origins loses no majority voteproof
			sizes = []nd{{1, 1, 1}, {2, 2, 2}, {3, 2, 2}, {4, 2, 1}}
		case t10 == 670:
			// n<=3 complete; n=4: four voters on four origins never reach q>=3 equal votes
			sizes = []nd{{1, 1, 1}, {2, 2, 2}, {3, 3, 3}, {4, 3, 3}, {5, 2, 1}, {6, 1, 1}, {7, 1, 1}}
		default:
			sizes = []nd{{1, 1, 1}, {2, 2, 2}, {3, 3, 3}, {4, 2, 2}}
		}

		for _, st := range []base.Stage{base.StageINIT, base.StageACCEPT} {
			for _, s := range sizes {
				cs = append(cs, c03fConfig{n: s.n, t10: t10, stage: st, maxD: s.maxD, maxF: s.maxF, allClaims: r.Thorough()})

				// one expelled node is within f (not the shape of the finding expel-over-f) iff n-q >= 1
				if s.n-c03Quorum(s.n, t10) >= 1 {
					cs = append(cs, c03fConfig{n: s.n, t10: t10, stage: st, expel: true,
						maxD: s.maxD, maxF: s.maxF, allClaims: r.Thorough()})
				}
			}
		}
	}

	sort.SliceStable(cs, func(i, j int) bool { // heaviest first
		if cs[i].n != cs[j].n {
			return cs[i].n > cs[j].n
		}

		return cs[i].maxD > cs[j].maxD
	})

	return cs
}

const c03fMaxReportedPerClass = 40

func c03fRunConfig(r *vlib.Run, cfg c03fConfig, workers int) {
	w := newC03fWorld(cfg.n, cfg.stage)
	n := cfg.n

	var jobs []int

	for dmask := 1; dmask < 1<<len(c03fOrigins); dmask++ {
		if cfg.allowed(dmask) {
			jobs = append(jobs, dmask)
		}
	}

	ch := make(chan int)
	locals := make([]*c03fLocal, workers)

	var wg sync.WaitGroup

	for i := 0; i < workers; i++ {
		locals[i] = newC03fLocal(w)

		wg.Add(1)

		go func(l *c03fLocal) {
			defer wg.Done()

			for dmask := range ch {
				w.job(l, cfg.t10, cfg.expel, cfg.allClaims, dmask)
			}
		}(locals[i])
	}

	var skipped bool

	for _, j := range jobs {
		if r.Expired() {
			skipped = true

			break
		}

		ch <- j
	}

	close(ch)
	wg.Wait()

	if skipped {
		r.Cap("config " + cfg.String() + " not completed")
	}

	var list []*c03fAccepted

	var evals int64

	for _, l := range locals {
		evals += l.evals
		r.Add("foreign_candidates", l.evals)
		r.Add("foreign_candidates_carrying_facts_of_another_stage_point", l.withForeign)
		r.Add("foreign_candidates_passing_IsValidVoteproofWithSuffrage", l.passedSuffrage)
		r.Add("foreign_accepted_candidates", l.accepted)
		r.Add("foreign_accepted_candidates_carrying_facts_of_another_stage_point", l.acceptedForeign)
		r.Add("foreign_reference_rule_disagrees", l.mismatch)

		for k, v := range l.outcomes {
			for i := int64(0); i < v; i++ {
				r.Outcome(k)
			}
		}

		list = append(list, l.acc...)
	}

	r.EvalN(evals)
	r.TraceN(evals)
	r.StatesN(evals) // every (assignment, claim) is generated exactly once

	sort.Slice(list, func(i, j int) bool {
		if len(list[i].id) != len(list[j].id) {
			return len(list[i].id) < len(list[j].id)
		}

		return list[i].id < list[j].id
	})

	for _, a := range list {
		r.Nontrivial(cfg.String() + "|" + a.id)
	}

	var pairs, conflicts int64

	reported := map[string]int{}

	for i := range list {
		if list[i].cand.Maj == nil {
			continue
		}

		for j := i + 1; j < len(list); j++ {
			if list[j].cand.Maj == nil {
				continue
			}

			pairs++

			sig, who, violated := c03fConflict(n, cfg.t10, list[i], list[j])
			if !violated {
				continue
			}

			conflicts++

			if k := vlib.SigString(sig); reported[k] < c03fMaxReportedPerClass {
				reported[k]++

				c03fReport(r, n, cfg.t10, cfg.stage, list[i], list[j], sig, who)
			}
		}
	}

	r.TransitionN(pairs)
	r.Add("foreign_pairs_compared", pairs)
	r.Add("foreign_conflicting_pairs_within_f", conflicts)

	if len(list) > 0 {
		r.Sample(map[string]any{"config": cfg.String(), "candidates": evals, "accepted": len(list), "pairs": pairs,
			"first_accepted": list[0].id, "last_accepted": list[len(list)-1].id})
	}
}

func c03fReplayCase(r *vlib.Run) {
	var rp c03fReplay

	if err := r.ReplayData(&rp); err != nil {
		panic(err)
	}

	stage := base.StageINIT
	if rp.Stage == base.StageACCEPT.String() {
		stage = base.StageACCEPT
	}

	w := newC03fWorld(rp.N, stage)
	l := newC03fLocal(w)

	w.eval(l, rp.T10, rp.A)
	w.eval(l, rp.T10, rp.B)

	r.EvalN(2)
	r.TraceN(2)

	for k := range l.outcomes {
		r.Outcome(k)
	}

	if len(l.acc) != 2 {
		return
	}

	if r.Want(c03fCaseID(rp.N, rp.T10, stage, l.acc[0], l.acc[1])) {
		r.Transition()

		if sig, who, violated := c03fConflict(rp.N, rp.T10, l.acc[0], l.acc[1]); violated {
			c03fReport(r, rp.N, rp.T10, stage, l.acc[0], l.acc[1], sig, who)
		}
	}
}

const c03fRule = " FOREIGN (second exploration): per (n, t, stage S, plain | expelling the last node with the expel signed by all " +
	"others [only where 1 <= n-q]): every voteproof for the stage point T=(33,1,S) whose sign facts are (absent | A@o | B@o) " +
	"per non-expelled node, o ranging over 10 origins = T itself and 9 other stage points (other stage of the same height and " +
	"round; round-1, round+1, height-1, height+1, each in both stages), with at most maxD distinct origins (T included) and at " +
	"most maxF distinct foreign origins in one voteproof. quick (maxD,maxF): n=1,2 everything, n=3 (2,2) [three voters on three " +
	"origins cannot agree], n=4 (2,1). thorough, t=67: n<=3 everything, n=4 (3,3) [four voters on four origins never reach q>=3 " +
	"equal votes], n=5 (2,1), n=6,7 (1,1); other t: n<=3 everything, n=4 (2,2). Claimed majority: thorough {DRAW, every A@o/B@o " +
	"of the used origins, A and B of T}; quick {DRAW, every most-voted fact (all on a tie), its counterpart A/B of T}. Sign facts " +
	"are the honest, correctly signed sign facts of the fact's own stage (an INIT sign fact stays an INITBallotSignFact inside an " +
	"ACCEPT voteproof). Each candidate is validated by IsValidVoteproofWithSuffrage then Voteproof.IsValid; all pairs of accepted " +
	"voteproofs with a majority are compared: different majority facts and <= f nodes having signed two different facts for one " +
	"stage point (the facts' own stage point; signing facts for different stage points is not equivocation) = violation. " +
	"non-trivial = accepted candidate."
