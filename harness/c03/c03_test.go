//go:build verif

package isaac

// C03: agreement of accepted voteproofs.
//
// For a suffrage of n nodes and threshold t >= 67, every candidate voteproof of a
// finite grammar (expelled set, expel signer sets, voter set, voter->fact
// assignment, claimed majority; plus single-deviation negatives) is built with REAL
// signatures and validated ONCE by the real code:
//     accepted := isaac.IsValidVoteproofWithSuffrage(vp, suf) == nil && vp.IsValid(networkID) == nil
// The accepted set is then compared pairwise on abstract descriptors: two accepted
// voteproofs for the same stage point with different majority facts, such that the
// number of nodes that signed two different facts for that stage point is
// <= f = floor(n - n*t/100), violate the property. Expel signatures never count as
// equivocation (property statement).

import (
	"context"
	"fmt"
	"os"
	"reflect"
	"regexp"
	"runtime"
	"runtime/debug"
	"sort"
	"strings"
	"sync"
	"sync/atomic"
	"testing"
	"unsafe"

	"github.com/spikeekips/mitum/base"
	"github.com/spikeekips/mitum/util"
	"github.com/spikeekips/mitum/util/valuehash"
	"github.com/spikeekips/mitum/zzverif/vlib"
)

// ---------------------------------------------------------------- candidate grammar

type c03Fact struct {
	Prop  int `json:"p"`           // 0 = proposal A, 1 = proposal B
	Ex    int `json:"x"`           // bit mask of the nodes whose expel facts the ballot fact lists; -1 = none
	Round int `json:"r,omitempty"` // 1 = fact for ANOTHER point (negative)
}

type c03Vote struct {
	Node   int     `json:"n"` // node index; == n is the non-member "x"
	Fact   c03Fact `json:"f"`
	BadSig bool    `json:"bad,omitempty"` // signature made over another fact (negative)
}

type c03Expel struct {
	Target    int   `json:"t"`
	Signers   []int `json:"s"`             // node indexes (== n: non-member; == Target: self sign)
	Expired   bool  `json:"exp,omitempty"` // expel fact whose end height is below the voteproof height (negative)
	DupSigner bool  `json:"dup,omitempty"` // the first sign is repeated inside the operation (negative)
}

type c03Cand struct {
	ExpelVP bool       `json:"xvp"` // INIT/ACCEPTExpelVoteproof instead of the plain type
	Stuck   bool       `json:"stuck,omitempty"` // INIT/ACCEPTStuckVoteproof (ExpelVP is set too); see c03_stuck_test.go
	ThNet   bool       `json:"thnet,omitempty"` // stuck only: the threshold field carries the network's t instead of 100 (negative)
	Expels  []c03Expel `json:"e,omitempty"`
	Votes   []c03Vote  `json:"v"`
	Maj     *c03Fact   `json:"m"` // claimed majority; nil = DRAW
}

func c03NodeName(i, n int) string {
	if i >= n {
		return "x"
	}

	return string(rune('a' + i))
}

func c03MaskName(mask, n int) string {
	var sb strings.Builder
	for i := 0; i <= n; i++ {
		if mask&(1<<i) != 0 {
			sb.WriteString(c03NodeName(i, n))
		}
	}

	return sb.String()
}

func (f c03Fact) name(n int) string {
	s := "A"
	if f.Prop == 1 {
		s = "B"
	}

	if f.Ex >= 0 {
		s += "{" + c03MaskName(f.Ex, n) + "}"
	}

	if f.Round != 0 {
		s += "@otherpoint"
	}

	return s
}

func (c *c03Cand) id(n int) string {
	var sb strings.Builder

	if c.Stuck {
		sb.WriteString("S")

		if c.ThNet {
			sb.WriteString("!thnet")
		}
	}

	if c.ExpelVP {
		sb.WriteString("X[")

		for i := range c.Expels {
			e := c.Expels[i]
			if i > 0 {
				sb.WriteByte(',')
			}

			sb.WriteString(c03NodeName(e.Target, n))
			sb.WriteByte('<')

			for j := range e.Signers {
				sb.WriteString(c03NodeName(e.Signers[j], n))
			}

			if e.Expired {
				sb.WriteString("!expired")
			}

			if e.DupSigner {
				sb.WriteString("!dup")
			}
		}

		sb.WriteString("]")
	} else {
		sb.WriteString("P")
	}

	sb.WriteString("V[")

	for i := range c.Votes {
		v := c.Votes[i]
		if i > 0 {
			sb.WriteByte(',')
		}

		sb.WriteString(c03NodeName(v.Node, n))
		sb.WriteByte(':')
		sb.WriteString(v.Fact.name(n))

		if v.BadSig {
			sb.WriteString("!badsig")
		}
	}

	sb.WriteString("]M=")

	if c.Maj == nil {
		sb.WriteString("DRAW")
	} else {
		sb.WriteString(c.Maj.name(n))
	}

	return sb.String()
}

func (c *c03Cand) clone() *c03Cand {
	d := &c03Cand{ExpelVP: c.ExpelVP, Stuck: c.Stuck, ThNet: c.ThNet}
	d.Expels = make([]c03Expel, len(c.Expels))

	for i := range c.Expels {
		d.Expels[i] = c.Expels[i]
		d.Expels[i].Signers = append([]int(nil), c.Expels[i].Signers...)
	}

	d.Votes = append([]c03Vote(nil), c.Votes...)

	if c.Maj != nil {
		m := *c.Maj
		d.Maj = &m
	}

	return d
}

// ---------------------------------------------------------------- world: real keys, facts, signatures

type c03SFKey struct {
	f    c03Fact
	node int
	bad  bool
}

type c03OpKey struct {
	target  int
	signers int // bit mask over 0..n
	expired bool
	dup     bool
}

type c03World struct {
	n          int
	stage      base.Stage
	nid        base.NetworkID
	nodes      []base.LocalNode // n members + 1 non-member
	suf        Suffrage
	point      base.Point
	expelFacts [2][]SuffrageExpelFact // [expired][target]
	expelSigns [2][][]base.NodeSign   // [expired][target][signer]
	facts      map[c03Fact]base.BallotFact
	sfs        map[c03SFKey]base.BallotSignFact
}

func c03Must(err error) {
	if err != nil {
		panic(err)
	}
}

func newC03World(n int, stage base.Stage) *c03World {
	w := &c03World{
		n: n, stage: stage,
		nid:   base.NetworkID([]byte("c03-network-id")),
		point: base.RawPoint(33, 0),
		facts: map[c03Fact]base.BallotFact{},
		sfs:   map[c03SFKey]base.BallotSignFact{},
	}

	nodes := make([]base.Node, n)

	for i := 0; i <= n; i++ {
		priv, err := base.NewMPrivatekeyFromSeed(fmt.Sprintf("c03 fixed seed for node key %02d -- padding to 36 bytes", i))
		c03Must(err)

		l := NewLocalNode(priv, base.NewStringAddress(fmt.Sprintf("c03n%02d", i)))
		w.nodes = append(w.nodes, l)

		if i < n {
			nodes[i] = l
		}
	}

	suf, err := NewSuffrage(nodes)
	c03Must(err)
	w.suf = suf

	// expel facts and every single (target, signer) sign, once
	for x := 0; x < 2; x++ {
		start, end := base.Height(33), base.Height(34)
		if x == 1 {
			start, end = base.Height(31), base.Height(32) // expired at height 33
		}

		w.expelFacts[x] = make([]SuffrageExpelFact, n+1)
		w.expelSigns[x] = make([][]base.NodeSign, n+1)

		for e := 0; e <= n; e++ {
			fact := NewSuffrageExpelFact(w.nodes[e].Address(), start, end, "c03 expel")
			w.expelFacts[x][e] = fact
			w.expelSigns[x][e] = make([]base.NodeSign, n+1)

			for s := 0; s <= n; s++ {
				ns, err := base.NewBaseNodeSignFromFact(w.nodes[s].Address(), w.nodes[s].Privatekey(), w.nid, fact)
				c03Must(err)
				w.expelSigns[x][e][s] = ns
			}
		}
	}

	// ballot facts: 2 proposals x (no expel facts | expel facts of every non-empty node set incl. the non-member)
	hashes := map[string]c03Fact{}

	for p := 0; p < 2; p++ {
		for ex := -1; ex < 1<<(n+1); ex++ {
			if ex == 0 {
				continue // an empty list is the same fact as "none"
			}

			k := c03Fact{Prop: p, Ex: ex}
			w.facts[k] = w.newFact(k)
		}

		k := c03Fact{Prop: p, Ex: -1, Round: 1}
		w.facts[k] = w.newFact(k)
	}

	for k, f := range w.facts {
		c03Must(f.IsValid(w.nid))

		if o, found := hashes[f.Hash().String()]; found {
			panic(fmt.Sprintf("c03: facts %v and %v share a hash", o, k))
		}

		hashes[f.Hash().String()] = k

		for node := 0; node <= n; node++ {
			w.sfs[c03SFKey{f: k, node: node}] = w.newSignFact(f, f, node)
		}
	}

	// bad signatures: the sign was made over the other proposal's fact
	for k, f := range w.facts {
		if k.Round != 0 || k.Ex != -1 {
			continue
		}

		other := w.facts[c03Fact{Prop: 1 - k.Prop, Ex: -1}]

		for node := 0; node <= n; node++ {
			w.sfs[c03SFKey{f: k, node: node, bad: true}] = w.newSignFact(f, other, node)
		}
	}

	return w
}

func (w *c03World) expelFactHashes(mask int) []util.Hash {
	if mask < 0 {
		return nil
	}

	var hs []util.Hash

	for i := 0; i <= w.n; i++ {
		if mask&(1<<i) != 0 {
			hs = append(hs, w.expelFacts[0][i].Hash())
		}
	}

	return hs
}

func (w *c03World) newFact(k c03Fact) base.BallotFact {
	point := w.point
	if k.Round != 0 {
		point = base.RawPoint(33, 1)
	}

	prev := valuehash.NewSHA256([]byte("c03 previous block"))
	pr := valuehash.NewSHA256([]byte(fmt.Sprintf("c03 proposal %d", k.Prop)))
	blk := valuehash.NewSHA256([]byte(fmt.Sprintf("c03 new block %d", k.Prop)))

	if w.stage == base.StageINIT {
		return NewINITBallotFact(point, prev, pr, w.expelFactHashes(k.Ex))
	}

	return NewACCEPTBallotFact(point, pr, blk, w.expelFactHashes(k.Ex))
}

// newSignFact returns a sign fact carrying `fact` whose signature was made by
// `node` over `signed` (== fact for an honest sign).
func (w *c03World) newSignFact(fact, signed base.BallotFact, node int) base.BallotSignFact {
	l := w.nodes[node]

	sign, err := base.NewBaseNodeSignFromFact(l.Address(), l.Privatekey(), w.nid, signed)
	c03Must(err)

	if w.stage == base.StageINIT {
		sf := NewINITBallotSignFact(fact.(base.INITBallotFact)) //nolint:forcetypeassert //...
		sf.sign = sign

		return sf
	}

	sf := NewACCEPTBallotSignFact(fact.(base.ACCEPTBallotFact)) //nolint:forcetypeassert //...
	sf.sign = sign

	return sf
}

type c03OpCache map[c03OpKey]SuffrageExpelOperation

func (w *c03World) op(cache c03OpCache, e c03Expel) SuffrageExpelOperation {
	var mask int
	for _, s := range e.Signers {
		mask |= 1 << s
	}

	key := c03OpKey{target: e.Target, signers: mask, expired: e.Expired, dup: e.DupSigner}
	if op, found := cache[key]; found {
		return op
	}

	x := 0
	if e.Expired {
		x = 1
	}

	op := NewSuffrageExpelOperation(w.expelFacts[x][e.Target])

	signs := make([]base.NodeSign, 0, len(e.Signers))

	for s := 0; s <= w.n; s++ {
		if mask&(1<<s) != 0 {
			signs = append(signs, w.expelSigns[x][e.Target][s])
		}
	}

	c03Must(op.SetNodeSigns(signs))

	if e.DupSigner && len(signs) > 0 {
		// the API refuses duplicates; a decoded operation could carry them. Write
		// the unexported fields the way the decoder does, with a consistent hash.
		dsigns := make([]base.Sign, 0, len(signs)+1)
		dsigns = append(dsigns, signs[0])

		for i := range signs {
			dsigns = append(dsigns, signs[i])
		}

		bs := make([]util.Byter, len(dsigns)+1)
		bs[0] = op.Fact().Hash()

		for i := range dsigns {
			bs[i+1] = dsigns[i]
		}

		h := util.Hash(valuehash.NewSHA256(util.ConcatByters(bs...)))

		bo := reflect.ValueOf(&op.BaseNodeOperation.BaseOperation).Elem()
		fs := bo.FieldByName("signs")
		reflect.NewAt(fs.Type(), unsafe.Pointer(fs.UnsafeAddr())).Elem().Set(reflect.ValueOf(dsigns))
		fh := bo.FieldByName("h")
		reflect.NewAt(fh.Type(), unsafe.Pointer(fh.UnsafeAddr())).Elem().Set(reflect.ValueOf(&h).Elem())

		if !op.Hash().Equal(valuehash.NewSHA256(op.HashBytes())) || len(op.Signs()) != len(signs)+1 {
			panic("c03: duplicate-signer operation not constructed as intended")
		}
	}

	cache[key] = op

	return op
}

func (w *c03World) build(c *c03Cand, t10 int, cache c03OpCache) base.Voteproof {
	sfs := make([]base.BallotSignFact, len(c.Votes))

	for i := range c.Votes {
		v := c.Votes[i]

		sf, found := w.sfs[c03SFKey{f: v.Fact, node: v.Node, bad: v.BadSig}]
		if !found {
			panic(fmt.Sprintf("c03: no sign fact for %+v", v))
		}

		sfs[i] = sf
	}

	var maj base.BallotFact

	if c.Maj != nil {
		m, found := w.facts[*c.Maj]
		if !found {
			panic(fmt.Sprintf("c03: no fact for %+v", *c.Maj))
		}

		maj = m
	}

	th := base.Threshold(float64(t10) / 10)

	var expels []base.SuffrageExpelOperation

	if c.ExpelVP {
		expels = make([]base.SuffrageExpelOperation, len(c.Expels))
		for i := range c.Expels {
			expels[i] = w.op(cache, c.Expels[i])
		}
	}

	if c.Stuck {
		return w.buildStuck(c, th, sfs, maj, expels)
	}

	switch {
	case w.stage == base.StageINIT && !c.ExpelVP:
		vp := NewINITVoteproof(w.point)
		vp.SetMajority(maj).SetSignFacts(sfs).SetThreshold(th).Finish()

		return vp
	case w.stage == base.StageINIT:
		vp := NewINITExpelVoteproof(w.point)
		vp.SetMajority(maj).SetSignFacts(sfs).SetThreshold(th)
		vp.SetExpels(expels)
		vp.Finish()

		return vp
	case !c.ExpelVP:
		vp := NewACCEPTVoteproof(w.point)
		vp.SetMajority(maj).SetSignFacts(sfs).SetThreshold(th).Finish()

		return vp
	default:
		vp := NewACCEPTExpelVoteproof(w.point)
		vp.SetMajority(maj).SetSignFacts(sfs).SetThreshold(th)
		vp.SetExpels(expels)
		vp.Finish()

		return vp
	}
}

// validate runs the real code. The (signature-free) suffrage check runs first so
// that the signature-heavy IsValid is only paid by structurally accepted
// candidates; accepted == both return nil, in any order.
func (w *c03World) validate(vp base.Voteproof) error {
	if err := IsValidVoteproofWithSuffrage(vp, w.suf); err != nil {
		return err
	}

	return vp.IsValid(w.nid)
}

// ---------------------------------------------------------------- reference model

func c03Quorum(n, t10 int) int { return (n*t10 + 999) / 1000 } // ceil(n*t/100)
func c03F(n, t10 int) int      { return n * (1000 - t10) / 1000 } // floor(n - n*t/100)

type c03VoteResult int

const (
	c03NotYet c03VoteResult = iota
	c03Draw
	c03Majority
)

// c03ModelAccept is the documented acceptance rule (anchors: "expel-reduced
// suffrage, 100% threshold", "per-expel sign threshold min(q, n-k)"). It is NOT
// the oracle of C03; it only (a) refines the violation signature: a conflicting
// pair in which a voteproof was accepted although this rule rejects it is a
// different class than the known one, and (b) counts disagreements with the real
// code as information.
func c03ModelAccept(n, t10 int, c *c03Cand) (bool, string) {
	if c.Stuck {
		return c03ModelAcceptStuck(n, t10, c)
	}

	q := c03Quorum(n, t10)

	if len(c.Votes) < 1 {
		return false, "no votes"
	}

	voted := map[int]bool{}

	for _, v := range c.Votes {
		switch {
		case voted[v.Node]:
			return false, "duplicate voter"
		case v.Fact.Round != 0:
			return false, "vote for another point"
		case v.BadSig:
			return false, "bad vote signature"
		}

		voted[v.Node] = true
	}

	if c.Maj != nil {
		if c.Maj.Round != 0 {
			return false, "majority of another point"
		}

		var found bool
		for _, v := range c.Votes {
			if v.Fact == *c.Maj {
				found = true
			}
		}

		if !found {
			return false, "majority not voted"
		}
	}

	rn, rth := n, q
	expelled := map[int]bool{}

	if c.ExpelVP {
		k := len(c.Expels)
		if k < 1 {
			return false, "no expels"
		}

		var mask int

		for _, e := range c.Expels {
			switch {
			case expelled[e.Target]:
				return false, "duplicate expel target"
			case e.Target >= n:
				return false, "expel of non-member"
			case e.Expired:
				return false, "expired expel"
			case e.DupSigner && len(e.Signers) > 0:
				return false, "duplicate expel signer"
			}

			expelled[e.Target] = true
			mask |= 1 << e.Target
		}

		th := q
		if k > n-q {
			th = n - k
		}

		for _, e := range c.Expels {
			seen := map[int]bool{}
			cnt := 0

			for _, s := range e.Signers {
				if seen[s] {
					return false, "duplicate expel signer"
				}

				seen[s] = true

				if s == e.Target {
					continue // a self sign is ignored
				}

				if s >= n {
					return false, "expel signed by non-member"
				}

				cnt++
			}

			if cnt < 1 || cnt < th {
				return false, "expel under-signed"
			}
		}

		for _, v := range c.Votes {
			if expelled[v.Node] {
				return false, "expelled node voted"
			}
		}

		if c.Maj != nil && c.Maj.Ex >= 0 && c.Maj.Ex != mask {
			return false, "majority lists other expels"
		}

		rn = n - k
		rth = rn

		if rn < 1 {
			return false, "everybody expelled"
		}
	}

	counts := map[c03Fact]int{}

	for _, v := range c.Votes {
		if v.Node >= n {
			return false, "non-member voted"
		}

		counts[v.Fact]++
	}

	res, top := c03Count(rn, rth, len(c.Votes), counts)

	switch {
	case res == c03NotYet:
		return false, "not enough votes"
	case res == c03Draw && c.Maj != nil:
		return false, "draw but majority claimed"
	case res == c03Majority && (c.Maj == nil || *c.Maj != top):
		return false, "wrong majority claimed"
	}

	return true, ""
}

func c03Count(rn, rth, sum int, counts map[c03Fact]int) (c03VoteResult, c03Fact) {
	var top c03Fact

	topc := -1

	for f, c := range counts {
		if c > topc || (c == topc && (f.Prop < top.Prop || (f.Prop == top.Prop && f.Ex < top.Ex))) {
			top, topc = f, c
		}
	}

	switch {
	case topc >= rth:
		return c03Majority, top
	case rn-sum+topc < rth:
		return c03Draw, top
	default:
		return c03NotYet, top
	}
}

// c03Plurality is the most voted fact (ties: the lowest fact); nil without votes.
// It is the only claim that can turn the votes into a MAJORITY voteproof.
func c03Plurality(c *c03Cand) *c03Fact {
	counts := map[c03Fact]int{}
	for _, v := range c.Votes {
		counts[v.Fact]++
	}

	if len(counts) < 1 {
		return nil
	}

	_, top := c03Count(1, 1, len(c.Votes), counts)

	return &top
}

// naturalMajority is what an honest counter would write into the voteproof.
func c03NaturalMajority(n, t10 int, c *c03Cand) *c03Fact {
	rn, rth := n, c03Quorum(n, t10)
	if c.ExpelVP {
		rn = n - len(c.Expels)
		rth = rn
	}

	counts := map[c03Fact]int{}
	for _, v := range c.Votes {
		counts[v.Fact]++
	}

	if len(counts) < 1 {
		return nil
	}

	res, top := c03Count(rn, rth, len(c.Votes), counts)
	if res == c03Draw {
		return nil
	}

	return &top
}

// ---------------------------------------------------------------- accepted descriptors and the oracle

type c03Accepted struct {
	cand      *c03Cand
	id        string
	maj       *c03Fact
	votes     map[int][]c03Fact // node -> distinct facts signed in this voteproof
	expelled  int               // number of distinct expelled nodes
	gt        bool              // expels more than n-q nodes
	outside   bool              // accepted by the real code, rejected by the reference rule
	needsExSg bool              // some expel has fewer than the required signs when signs of expelled nodes are not counted
	stuck     bool              // stuck voteproof
}

func c03Describe(n, t10 int, c *c03Cand, outside bool) *c03Accepted {
	a := &c03Accepted{cand: c, id: c.id(n), maj: c.Maj, votes: map[int][]c03Fact{}, outside: outside, stuck: c.Stuck}

	for _, v := range c.Votes {
		var dup bool
		for _, f := range a.votes[v.Node] {
			if f == v.Fact {
				dup = true
			}
		}

		if !dup {
			a.votes[v.Node] = append(a.votes[v.Node], v.Fact)
		}
	}

	if c.ExpelVP {
		ex := map[int]bool{}
		for _, e := range c.Expels {
			ex[e.Target] = true
		}

		a.expelled = len(ex)
		a.gt = a.expelled > n-c03Quorum(n, t10)

		th := c03Quorum(n, t10)
		if a.gt || c.Stuck { // a stuck voteproof carries threshold 100: every expel needs n-k signs only
			th = n - a.expelled
		}

		for _, e := range c.Expels {
			cnt := 0
			for _, s := range e.Signers {
				if s != e.Target && !ex[s] && s < n {
					cnt++
				}
			}

			if cnt < th {
				a.needsExSg = true
			}
		}
	}

	return a
}

func (a *c03Accepted) key() string {
	nodes := make([]int, 0, len(a.votes))
	for k := range a.votes {
		nodes = append(nodes, k)
	}

	sort.Ints(nodes)

	var sb strings.Builder

	for _, k := range nodes {
		fs := append([]c03Fact(nil), a.votes[k]...)
		sort.Slice(fs, func(i, j int) bool {
			return fmt.Sprint(fs[i]) < fmt.Sprint(fs[j])
		})
		fmt.Fprintf(&sb, "%d:%v;", k, fs)
	}

	m := "draw"
	if a.maj != nil {
		m = fmt.Sprint(*a.maj)
	}

	k := fmt.Sprintf("%s|m=%s|k=%d|gt=%v|out=%v|xs=%v", sb.String(), m, a.expelled, a.gt, a.outside, a.needsExSg)
	if a.stuck {
		k += "|stuck"
	}

	return k
}

// equivocators = nodes that signed two different facts for the stage point,
// looking at the sign facts of both voteproofs.
func c03Equivocators(a, b *c03Accepted) (cnt int, who []int) {
	seen := map[int]bool{}

	for _, m := range []map[int][]c03Fact{a.votes, b.votes} {
		for node := range m {
			if seen[node] {
				continue
			}

			seen[node] = true

			fs := map[c03Fact]bool{}
			for _, f := range a.votes[node] {
				fs[f] = true
			}

			for _, f := range b.votes[node] {
				fs[f] = true
			}

			if len(fs) > 1 {
				who = append(who, node)
			}
		}
	}

	sort.Ints(who)

	return len(who), who
}

func c03Kinds(a, b *c03Accepted) string {
	ka, kb := "plain", "plain"
	if a.cand.ExpelVP {
		ka = "expel"
	}

	if b.cand.ExpelVP {
		kb = "expel"
	}

	if a.cand.Stuck {
		ka = "stuck"
	}

	if b.cand.Stuck {
		kb = "stuck"
	}

	if ka > kb {
		ka, kb = kb, ka
	}

	return ka + "/" + kb
}

type c03Replay struct {
	N     int      `json:"n"`
	T10   int      `json:"t10"`
	Stage string   `json:"stage"`
	A     *c03Cand `json:"a"`
	B     *c03Cand `json:"b"`
}

func c03CheckPair(r *vlib.Run, n, t10 int, stage base.Stage, a, b *c03Accepted) bool {
	if a.maj == nil || b.maj == nil || *a.maj == *b.maj {
		return false
	}

	f := c03F(n, t10)

	cnt, who := c03Equivocators(a, b)
	if cnt > f {
		return false
	}

	x, y := a, b
	if y.id < x.id {
		x, y = y, x
	}

	caseID := fmt.Sprintf("n=%d,t10=%d,%s|%s|%s", n, t10, stage, x.id, y.id)
	sig := map[string]any{
		"kind":                             "conflict",
		"some_vp_expels_gt_n_minus_q":      a.gt || b.gt,
		"accepted_outside_reference_rule":  a.outside || b.outside,
		"vp_kinds":                         c03Kinds(a, b),
	}

	if a.stuck || b.stuck {
		// only set when true: the classes of the other pairs keep their signature
		sig["stuck_voteproof_with_majority"] = true
	}

	names := make([]string, len(who))
	for i := range who {
		names[i] = c03NodeName(who[i], n)
	}

	detail := fmt.Sprintf(
		"n=%d t=%.1f q=%d f=n-q=%d stage=%s: both voteproofs pass IsValidVoteproofWithSuffrage and IsValid; "+
			"majorities %s != %s; nodes that signed two different facts: %d %v (<= f); "+
			"vp1 expels %d node(s), vp2 expels %d; expel signs of expelled nodes needed: %v/%v; vp1=%s vp2=%s",
		n, float64(t10)/10, c03Quorum(n, t10), f, stage, x.maj.name(n), y.maj.name(n), cnt, names,
		x.expelled, y.expelled, x.needsExSg, y.needsExSg, x.id, y.id)

	r.Violation(caseID, sig, detail, c03Replay{N: n, T10: t10, Stage: stage.String(), A: x.cand, B: y.cand})

	return true
}

// ---------------------------------------------------------------- enumeration

var c03ReDigits = regexp.MustCompile(`[0-9]+`)
var c03ReQuoted = regexp.MustCompile(`"[^"]*"|'[^']*'`)

func c03Reason(err error) string {
	s := err.Error()
	if i := strings.Index(s, "\n"); i >= 0 {
		s = s[:i]
	}

	s = c03ReQuoted.ReplaceAllString(s, "_")
	s = c03ReDigits.ReplaceAllString(s, "#")

	// the innermost wrapped message
	if i := strings.LastIndex(s, " - "); i >= 0 {
		s = s[i+3:]
	}

	if len(s) > 110 {
		s = s[:110]
	}

	return s
}

type c03Local struct {
	evals, honest, accepted, modelMismatchStrict, modelMismatchLoose int64
	outcomes                                                 map[string]int64
	acc                                                      map[string]*c03Accepted
	samples                                                  []string
	cache                                                    c03OpCache
}

func newC03Local() *c03Local {
	return &c03Local{outcomes: map[string]int64{}, acc: map[string]*c03Accepted{}, cache: c03OpCache{}}
}

// eval validates ONE candidate on the real code and records it.
func (w *c03World) eval(l *c03Local, t10 int, c *c03Cand) {
	vp := w.build(c, t10, l.cache)
	err := w.validate(vp)

	l.evals++

	mok, mwhy := c03ModelAccept(w.n, t10, c)

	switch {
	case err == nil:
		l.accepted++

		kind := "plain"
		if c.ExpelVP {
			kind = "expel"
		}

		if c.Stuck {
			kind = "stuck"
		}

		res := "majority"
		if c.Maj == nil {
			res = "draw"
		}

		l.outcomes["accepted:"+kind+":"+res]++

		if !mok {
			l.modelMismatchStrict++
			l.outcomes["accepted-but-reference-rule-rejects:"+mwhy]++

			if len(l.samples) < 5 {
				l.samples = append(l.samples, c.id(w.n)+" :: "+mwhy)
			}
		}

		a := c03Describe(w.n, t10, c.clone(), !mok)
		if k := a.key(); l.acc[k] == nil || len(a.id) < len(l.acc[k].id) || (len(a.id) == len(l.acc[k].id) && a.id < l.acc[k].id) {
			l.acc[k] = a
		}
	default:
		l.outcomes["rejected:"+c03Reason(err)]++

		if mok {
			l.modelMismatchLoose++
			l.outcomes["rejected-but-reference-rule-accepts"]++

			if len(l.samples) < 5 {
				l.samples = append(l.samples, c.id(w.n)+" :: real code: "+c03Reason(err))
			}
		}
	}

}

func c03Bits(mask int) []int {
	var v []int
	for i := 0; mask>>i != 0; i++ {
		if mask&(1<<i) != 0 {
			v = append(v, i)
		}
	}

	return v
}

// fact menu of one voter in a voteproof expelling `emask`
func c03Menu(emask int, reduced bool) []c03Fact {
	if emask == 0 {
		return []c03Fact{{Prop: 0, Ex: -1}, {Prop: 1, Ex: -1}}
	}

	if reduced {
		return []c03Fact{{Prop: 0, Ex: emask}, {Prop: 1, Ex: emask}}
	}

	return []c03Fact{{Prop: 0, Ex: emask}, {Prop: 1, Ex: emask}, {Prop: 0, Ex: -1}, {Prop: 1, Ex: -1}}
}

// forEachAssignment calls fn with every assignment of (absent | menu fact) to the
// given voters.
func c03ForEachAssignment(voters []int, menu []c03Fact, fn func([]c03Vote)) {
	m := len(menu) + 1
	total := 1

	for range voters {
		total *= m
	}

	votes := make([]c03Vote, 0, len(voters))

	for x := 0; x < total; x++ {
		votes = votes[:0]
		y := x

		for _, node := range voters {
			if d := y % m; d > 0 {
				votes = append(votes, c03Vote{Node: node, Fact: menu[d-1]})
			}

			y /= m
		}

		fn(votes)
	}
}

const (
	c03SignersAll      = iota // every subset of N\{target}
	c03SignersBanded          // every size 0..n-1 x {live signers first, expelled signers first}
	c03SignersBoundary        // sizes {th-1, th, n-1} x {live signers first, expelled signers first}
)

// signer-set options of ONE expel.
func c03SignerOptions(n, t10, emask, target int, mode int) [][]int {
	others := make([]int, 0, n)
	for i := 0; i < n; i++ {
		if i != target {
			others = append(others, i)
		}
	}

	if mode == c03SignersAll {
		opts := make([][]int, 0, 1<<len(others))

		for m := 0; m < 1<<len(others); m++ {
			var s []int
			for j := range others {
				if m&(1<<j) != 0 {
					s = append(s, others[j])
				}
			}

			opts = append(opts, s)
		}

		return opts
	}

	k := len(c03Bits(emask))
	th := c03Quorum(n, t10)

	if k > n-th {
		th = n - k
	}

	var live, dead []int

	for _, i := range others {
		if emask&(1<<i) != 0 {
			dead = append(dead, i)
		} else {
			live = append(live, i)
		}
	}

	orders := [][]int{append(append([]int(nil), live...), dead...), append(append([]int(nil), dead...), live...)}
	seen := map[string]bool{}

	var opts [][]int

	sizes := []int{th - 1, th, n - 1}
	if mode == c03SignersBanded {
		sizes = sizes[:0]
		for i := 0; i < n; i++ {
			sizes = append(sizes, i)
		}
	}

	for _, size := range sizes {
		if size < 0 || size > len(others) {
			continue
		}

		for _, o := range orders {
			s := append([]int(nil), o[:size]...)
			sort.Ints(s)

			if key := fmt.Sprint(s); !seen[key] {
				seen[key] = true
				opts = append(opts, s)
			}
		}
	}

	return opts
}

type c03Job struct {
	emask int
	first int // index of the signer option of the first expel (full mode), or -1
}

// mainProduct: every (expelled set E, signer tuple, voter assignment) with the
// natural claimed majority.
func (w *c03World) mainProduct(l *c03Local, t10 int, job c03Job, reduced bool, mode int) {
	n := w.n
	targets := c03Bits(job.emask)

	var voters []int

	for i := 0; i < n; i++ {
		if job.emask&(1<<i) == 0 {
			voters = append(voters, i)
		}
	}

	menu := c03Menu(job.emask, reduced)
	c := &c03Cand{ExpelVP: job.emask != 0}

	run := func() {
		c03ForEachAssignment(voters, menu, func(votes []c03Vote) {
			c.Votes = votes
			c.Maj = c03Plurality(c)
			w.eval(l, t10, c)
		})
	}

	if job.emask == 0 {
		run()

		return
	}

	opts := make([][][]int, len(targets))
	for i, e := range targets {
		opts[i] = c03SignerOptions(n, t10, job.emask, e, mode)
	}

	c.Expels = make([]c03Expel, len(targets))
	for i, e := range targets {
		c.Expels[i].Target = e
	}

	if mode == c03SignersAll {
		// full product of signer sets; the first expel's option is fixed by the job
		var rec func(i int)
		rec = func(i int) {
			if i == len(targets) {
				run()

				return
			}

			if i == 0 {
				c.Expels[0].Signers = opts[0][job.first]
				rec(1)

				return
			}

			for _, s := range opts[i] {
				c.Expels[i].Signers = s
				rec(i + 1)
			}
		}
		rec(0)

		return
	}

	// banded / boundary: the same option for every expel, plus ONE expel deviating
	// (boundary mode: deviations only from the options of exactly the required size)
	no := len(opts[0])
	for i := range opts {
		if len(opts[i]) < no {
			no = len(opts[i])
		}
	}

	th := c03Quorum(n, t10)
	if len(targets) > n-th {
		th = n - len(targets)
	}

	seen := map[string]bool{}
	once := func() {
		var sb strings.Builder
		for i := range c.Expels {
			fmt.Fprint(&sb, c.Expels[i].Signers, ";")
		}

		if !seen[sb.String()] {
			seen[sb.String()] = true

			run()
		}
	}

	for u := 0; u < no; u++ {
		for i := range targets {
			c.Expels[i].Signers = opts[i][u]
		}

		once()

		if mode == c03SignersBoundary && len(opts[0][u]) != th {
			continue
		}

		for d := range targets {
			for v := range opts[d] {
				if v == u {
					continue
				}

				c.Expels[d].Signers = opts[d][v]
				once()
			}

			c.Expels[d].Signers = opts[d][u]
		}
	}
}

// deviations: single-deviation negatives around a base candidate whose expels
// are signed by every other node (or by exactly the required number).
// thin (n>=6 and the quick n=5): bases in which the first m non-expelled nodes vote A (with the expel
// facts of E) and the others are absent, m in {required-1, required, all}, and the same with the last
// voter voting B; otherwise every assignment over {A_E, B_E, A}.
func (w *c03World) deviations(l *c03Local, t10 int, emask int, thin bool) {
	n := w.n
	targets := c03Bits(emask)

	var voters []int

	for i := 0; i < n; i++ {
		if emask&(1<<i) == 0 {
			voters = append(voters, i)
		}
	}

	menu := c03Menu(emask, false)
	if len(menu) > 3 {
		menu = menu[:3]
	}

	if thin {
		menu = menu[:2]
	}

	rth := c03Quorum(n, t10)
	if emask != 0 {
		rth = len(voters)
	}

	bc := &c03Cand{ExpelVP: emask != 0}
	bc.Expels = make([]c03Expel, len(targets))

	for i, e := range targets {
		bc.Expels[i].Target = e

		for s := 0; s < n; s++ {
			if s != e {
				bc.Expels[i].Signers = append(bc.Expels[i].Signers, s)
			}
		}
	}

	seen := map[string]bool{} // a deviation that coincides with an earlier one of this E is evaluated once

	ev := func(c *c03Cand) {
		if id := c.id(n); !seen[id] {
			seen[id] = true

			w.eval(l, t10, c)
		}
	}

	if emask != 0 {
		// an expel voteproof type without expels / a plain voteproof cannot carry expels by type
		c := &c03Cand{ExpelVP: true}
		c03ForEachAssignment(voters, menu[:1], func(votes []c03Vote) {
			c.Votes = votes
			c.Maj = c03NaturalMajority(n, t10, c)
			ev(c)
		})
	}

	c03ForEachAssignment(voters, menu, func(votes []c03Vote) {
		if thin && !c03ThinBase(votes, voters, menu, rth) {
			return
		}

		bc.Votes = votes
		bc.Maj = c03NaturalMajority(n, t10, bc)

		// claimed majority: every other voted fact, DRAW, a fact nobody voted, a fact listing other expels
		claims := []*c03Fact{nil}
		seen := map[c03Fact]bool{}

		for _, v := range votes {
			if !seen[v.Fact] {
				seen[v.Fact] = true
				f := v.Fact
				claims = append(claims, &f)
			}
		}

		claims = append(claims, &c03Fact{Prop: 1, Ex: -1}, &c03Fact{Prop: 0, Ex: -1, Round: 1})
		if emask != 0 {
			claims = append(claims, &c03Fact{Prop: 0, Ex: emask ^ 1}, &c03Fact{Prop: 0, Ex: emask | 1<<n})
		}

		plur := c03Plurality(bc) // that claim is a candidate of the main product

		for _, m := range claims {
			if (m == nil) == (plur == nil) && (m == nil || *m == *plur) {
				continue
			}

			if m != nil && m.Ex == 0 {
				continue
			}

			c := bc.clone()
			c.Maj = m
			ev(c)
		}

		// all voters vote a fact that lists OTHER expels than the voteproof carries
		if emask != 0 && len(votes) > 0 {
			for _, ex := range []int{emask ^ 1, emask ^ (1 << (n - 1)), emask | 1<<n} {
				if ex == 0 {
					continue
				}

				c := bc.clone()
				for i := range c.Votes {
					c.Votes[i].Fact = c03Fact{Prop: 0, Ex: ex}
				}

				c.Maj = &c03Fact{Prop: 0, Ex: ex}
				ev(c)
			}
		}

		// extra voters: an expelled node, the non-member, a duplicate of a voter (same / other fact)
		extra := []c03Vote{{Node: n, Fact: menu[0]}}
		for _, e := range targets {
			extra = append(extra, c03Vote{Node: e, Fact: menu[0]})
		}

		for _, v := range votes {
			extra = append(extra, v)

			o := v
			o.Fact = menu[0]

			if o.Fact == v.Fact {
				o.Fact = menu[1]
			}

			extra = append(extra, o)
		}

		for _, x := range extra {
			c := bc.clone()
			c.Votes = append(c.Votes, x)
			c.Maj = c03NaturalMajority(n, t10, c)
			ev(c)

			if bc.Maj != nil && (c.Maj == nil || *c.Maj != *bc.Maj) {
				c = c.clone()
				c.Maj = bc.Maj
				ev(c)
			}
		}

		// one voter signs a fact of another point / carries a signature over another fact
		for i := range votes {
			c := bc.clone()
			c.Votes[i].Fact = c03Fact{Prop: votes[i].Fact.Prop, Ex: -1, Round: 1}
			ev(c)

			c = bc.clone()
			c.Votes[i].Fact = c03Fact{Prop: votes[i].Fact.Prop, Ex: -1}
			c.Votes[i].BadSig = true
			c.Maj = c03NaturalMajority(n, t10, c)
			ev(c)
		}

		// expel deviations (on the first and the last expel)
		if emask == 0 {
			return
		}

		idx := []int{0}
		if len(targets) > 1 {
			idx = append(idx, len(targets)-1)
		}

		for _, i := range idx {
			e := targets[i]

			c := bc.clone() // also signed by the expelled node itself
			c.Expels[i].Signers = append(c.Expels[i].Signers, e)
			ev(c)

			c = bc.clone() // ONLY signed by the expelled node itself
			c.Expels[i].Signers = []int{e}
			ev(c)

			c = bc.clone() // also signed by the non-member
			c.Expels[i].Signers = append(c.Expels[i].Signers, n)
			ev(c)

			c = bc.clone() // expired expel
			c.Expels[i].Expired = true
			ev(c)

			c = bc.clone() // duplicated sign inside the operation
			c.Expels[i].DupSigner = true
			ev(c)

			if len(bc.Expels[i].Signers) > 0 {
				c = bc.clone() // one honest sign + the same sign again: would a duplicate count twice?
				c.Expels[i].Signers = c.Expels[i].Signers[:1]
				c.Expels[i].DupSigner = true
				ev(c)
			}

			c = bc.clone() // the same node expelled twice (same operation, and a differently signed one)
			c.Expels = append(c.Expels, c.Expels[i])
			ev(c)

			if len(bc.Expels[i].Signers) > 0 {
				c = bc.clone()
				d := c.Expels[i]
				d.Signers = d.Signers[:len(d.Signers)-1]
				c.Expels = append(c.Expels, d)
				ev(c)
			}

			c = bc.clone() // expel of the non-member
			c.Expels = append(c.Expels, c03Expel{Target: n, Signers: c.Expels[i].Signers})
			ev(c)
		}
	})
}

func c03ThinBase(votes []c03Vote, voters []int, menu []c03Fact, rth int) bool {
	m := len(votes)
	if m != rth-1 && m != rth && m != len(voters) {
		return false
	}

	for i := range votes {
		switch {
		case votes[i].Node != voters[i]:
			return false
		case votes[i].Fact == menu[0]:
		case i == m-1 && votes[i].Fact == menu[1]:
		default:
			return false
		}
	}

	return true
}

// ---------------------------------------------------------------- honest constructions (non-vacuity)

func (w *c03World) honest(r *vlib.Run, l *c03Local, t10 int) {
	n := w.n
	height := w.point.Height()

	for emask := 1; emask < 1<<n-1; emask++ {
		targets := c03Bits(emask)

		db := newDummySuffrageExpelPool()
		sv := NewSuffrageVoting(w.nodes[n].Address(), db,
			func(util.Hash) (bool, error) { return false, nil }, nil)

		// every live node signs the expel of every node of E. (The operation is voted once, carrying all
		// signs: merging sign by sign fails at the third merge with the test pool, which hands back the
		// pointer that SuffrageVoting.merge stored; unrelated to C03.)
		for _, e := range targets {
			var signers []int

			for s := 0; s < n; s++ {
				if emask&(1<<s) == 0 {
					signers = append(signers, s)
				}
			}

			op := w.op(c03OpCache{}, c03Expel{Target: e, Signers: signers})
			if _, err := sv.Vote(op); err != nil {
				panic(err)
			}
		}

		ops, err := sv.Find(context.Background(), height, w.suf)
		c03Must(err)
		r.Trace()

		if len(ops) < 1 {
			l.outcomes["honest:find-nothing"]++

			continue
		}

		// the honest voteproof: all live nodes vote A with the expel facts found
		c := &c03Cand{ExpelVP: true}

		var fmask int

		for _, op := range ops {
			var e c03Expel

			for i := 0; i <= n; i++ {
				if w.nodes[i].Address().Equal(op.ExpelFact().Node()) {
					e.Target = i
				}
			}

			for _, s := range op.NodeSigns() {
				for i := 0; i <= n; i++ {
					if w.nodes[i].Address().Equal(s.Node()) {
						e.Signers = append(e.Signers, i)
					}
				}
			}

			sort.Ints(e.Signers)
			fmask |= 1 << e.Target
			c.Expels = append(c.Expels, e)
		}

		sort.Slice(c.Expels, func(i, j int) bool { return c.Expels[i].Target < c.Expels[j].Target })

		for i := 0; i < n; i++ {
			if fmask&(1<<i) == 0 {
				c.Votes = append(c.Votes, c03Vote{Node: i, Fact: c03Fact{Prop: 0, Ex: fmask}})
			}
		}

		c.Maj = &c03Fact{Prop: 0, Ex: fmask}

		// validate a voteproof that carries the operations Find returned (not rebuilt ones)
		vp := w.build(c, t10, l.cache)

		expels := make([]base.SuffrageExpelOperation, len(ops))
		copy(expels, ops)

		switch t := vp.(type) {
		case INITExpelVoteproof:
			t.SetExpels(expels)
			vp = t
		case ACCEPTExpelVoteproof:
			t.SetExpels(expels)
			vp = t
		}

		err = w.validate(vp)
		l.honest++

		switch {
		case err != nil:
			l.outcomes["honest:rejected:"+c03Reason(err)]++
		case fmask == emask:
			l.outcomes["honest:accepted"]++
		default:
			l.outcomes["honest:accepted-subset"]++
		}

		if err == nil {
			ok, _ := c03ModelAccept(n, t10, c)
			a := c03Describe(n, t10, c, !ok)

			if l.acc[a.key()] == nil {
				l.acc[a.key()] = a
			}
		}
	}
}

// ---------------------------------------------------------------- driver

type c03Config struct {
	n        int
	t10      int
	stage    base.Stage
	reduced  bool // n>=6: boundary signer sets and the reduced fact menu
	tupleCap int  // full product of all signer subsets while (2^(n-1))^k <= tupleCap, banded beyond
}

func (c c03Config) signerMode(k int) int {
	if c.reduced {
		return c03SignersBoundary
	}

	tuples := 1
	for i := 0; i < k; i++ {
		tuples *= 1 << (c.n - 1)
		if tuples > c.tupleCap {
			return c03SignersBanded
		}
	}

	return c03SignersAll
}

func (c c03Config) String() string {
	m := "full"
	if c.reduced {
		m = "reduced"
	}

	return fmt.Sprintf("n=%d,t10=%d,%s,%s,cap=%d", c.n, c.t10, c.stage, m, c.tupleCap)
}

// weight = measured relative cost, used to spread the configs over the shards
func (c c03Config) weight() int {
	switch {
	case c.n == 5 && !c.reduced && c.tupleCap > 256:
		return 250
	case c.n == 5 && !c.reduced:
		return 75
	case c.n == 7:
		return 55
	case c.n == 6:
		return 17
	case c.n == 5:
		return 5
	case c.n == 4:
		return 4
	default:
		return 1
	}
}

func c03Configs(r *vlib.Run) []c03Config {
	var cs []c03Config

	type nr struct {
		n       int
		reduced bool
		cap     int
	}

	ts := vlib.Pick(r, []int{670}, []int{670, 750, 800, 1000})

	for _, t10 := range ts {
		for _, st := range []base.Stage{base.StageINIT, base.StageACCEPT} {
			sizes := []nr{{1, false, 4096}, {2, false, 4096}, {3, false, 4096}, {4, false, 4096}}

			switch {
			case r.Thorough() && st == base.StageINIT:
				// n=5: all signer-subset tuples for |E|<=2 (every larger E is > f for t>=67), banded beyond
				sizes = append(sizes, nr{5, false, 256}, nr{6, true, 0}, nr{7, true, 0})
			case r.Thorough():
				// ACCEPT differs from INIT only in the voteproof type wrappers
				sizes = append(sizes, nr{5, true, 0})
			case st == base.StageINIT:
				sizes = append(sizes, nr{5, true, 0})
			}

			for _, s := range sizes {
				cs = append(cs, c03Config{n: s.n, t10: t10, stage: st, reduced: s.reduced, tupleCap: s.cap})
			}
		}
	}

	sort.SliceStable(cs, func(i, j int) bool { return cs[i].weight() > cs[j].weight() })

	return cs
}

func c03RunConfig(r *vlib.Run, cfg c03Config, workers int, stop *atomic.Bool) {
	w := newC03World(cfg.n, cfg.stage)
	n := cfg.n

	var jobs []func(l *c03Local)

	for emask := 0; emask < 1<<n; emask++ {
		emask := emask

		mode := cfg.signerMode(len(c03Bits(emask)))

		switch {
		case emask == 0 || mode != c03SignersAll:
			jobs = append(jobs, func(l *c03Local) {
				w.mainProduct(l, cfg.t10, c03Job{emask: emask, first: -1}, cfg.reduced, mode)
			})
		default:
			first := c03SignerOptions(n, cfg.t10, emask, c03Bits(emask)[0], c03SignersAll)
			for i := range first {
				i := i
				jobs = append(jobs, func(l *c03Local) {
					w.mainProduct(l, cfg.t10, c03Job{emask: emask, first: i}, false, c03SignersAll)
				})
			}
		}

		jobs = append(jobs, func(l *c03Local) { w.deviations(l, cfg.t10, emask, cfg.reduced) })

		if emask != 0 && emask != 1<<n-1 {
			jobs = append(jobs, func(l *c03Local) { w.stuckProduct(l, cfg.t10, emask, cfg.reduced) })
		}
	}

	if cfg.t10 == 670 && n >= 2 && n <= 6 {
		jobs = append(jobs, func(l *c03Local) { w.honest(r, l, cfg.t10) })
	}

	ch := make(chan func(l *c03Local))
	locals := make([]*c03Local, workers)

	var wg sync.WaitGroup

	for i := 0; i < workers; i++ {
		locals[i] = newC03Local()

		wg.Add(1)

		go func(l *c03Local) {
			defer wg.Done()

			for j := range ch {
				if stop.Load() {
					continue
				}

				j(l)
			}
		}(locals[i])
	}

	var skipped bool

	for _, j := range jobs {
		if r.Expired() {
			stop.Store(true)

			skipped = true

			break
		}

		ch <- j
	}

	close(ch)
	wg.Wait()

	if skipped {
		r.Cap("config " + cfg.String() + " not completed")
	}

	// merge
	acc := map[string]*c03Accepted{}

	var evals, honest int64

	for _, l := range locals {
		evals += l.evals
		honest += l.honest
		r.Add("accepted_candidates", l.accepted)
		r.Add("accepted_but_reference_rule_rejects", l.modelMismatchStrict)
		r.Add("rejected_but_reference_rule_accepts", l.modelMismatchLoose)

		for k, v := range l.outcomes {
			for i := int64(0); i < v; i++ {
				r.Outcome(k)
			}
		}

		for _, s := range l.samples {
			r.Sample(map[string]any{"config": cfg.String(), "reference_rule_disagrees": s})
		}

		for k, a := range l.acc {
			if o := acc[k]; o == nil || len(a.id) < len(o.id) || (len(a.id) == len(o.id) && a.id < o.id) {
				acc[k] = a
			}
		}
	}

	r.EvalN(evals + honest)
	r.TraceN(evals + honest)
	r.StatesN(evals) // distinct candidates; the honest constructions re-validate members of the grammar
	r.Add("honest_constructions_validated", honest)

	list := make([]*c03Accepted, 0, len(acc))
	for _, a := range acc {
		list = append(list, a)
		r.Nontrivial(cfg.String() + "|" + a.key())
	}

	sort.Slice(list, func(i, j int) bool {
		if len(list[i].id) != len(list[j].id) {
			return len(list[i].id) < len(list[j].id)
		}

		return list[i].id < list[j].id
	})

	var pairs, conflicts, withMaj int64

	for i := range list {
		if list[i].maj == nil {
			continue // a DRAW voteproof carries no majority fact
		}

		withMaj++

		for j := i + 1; j < len(list); j++ {
			if list[j].maj == nil {
				continue
			}

			pairs++

			if c03CheckPair(r, n, cfg.t10, cfg.stage, list[i], list[j]) {
				conflicts++
			}
		}
	}

	r.TransitionN(pairs)
	r.Add("pairs_compared", pairs)
	r.Add("accepted_descriptors", int64(len(list)))
	r.Add("accepted_descriptors_with_majority", withMaj)
	r.Add("conflicting_pairs_within_f", conflicts)
	r.Max("n_max_completed", int64(n))

	if len(list) > 0 {
		r.Sample(map[string]any{"config": cfg.String(), "candidates": evals, "accepted_descriptors": len(list),
			"pairs": pairs, "first_accepted": list[0].id, "last_accepted": list[len(list)-1].id})
	}
}

func c03ReplayCase(r *vlib.Run) {
	var rp c03Replay

	if err := r.ReplayData(&rp); err != nil {
		panic(err)
	}

	stage := base.StageINIT
	if rp.Stage == base.StageACCEPT.String() {
		stage = base.StageACCEPT
	}

	w := newC03World(rp.N, stage)
	l := newC03Local()

	var acc []*c03Accepted

	for _, c := range []*c03Cand{rp.A, rp.B} {
		l.acc = map[string]*c03Accepted{}
		w.eval(l, rp.T10, c)

		for _, a := range l.acc {
			acc = append(acc, a)
		}
	}

	r.EvalN(2)
	r.TraceN(2)

	for k := range l.outcomes {
		r.Outcome(k)
	}

	if len(acc) == 2 {
		id := fmt.Sprintf("n=%d,t10=%d,%s|%s|%s", rp.N, rp.T10, stage, acc[0].id, acc[1].id)
		if acc[1].id < acc[0].id {
			id = fmt.Sprintf("n=%d,t10=%d,%s|%s|%s", rp.N, rp.T10, stage, acc[1].id, acc[0].id)
		}

		if r.Want(id) {
			r.Transition()
			c03CheckPair(r, rp.N, rp.T10, stage, acc[0], acc[1])
		}
	}
}

func TestVerifC03(t *testing.T) {
	r := vlib.Start("C03")
	defer r.Finish()

	r.Rule("per (n, t, stage): MAIN = every candidate voteproof (expelled set E) x (signer set of each expel) x " +
		"(absent | fact) per non-expelled node, facts {A,B} x {without expel facts, with the expel facts of E}, claiming " +
		"the most voted fact as majority. Signer sets: all subsets of N\\{e} per expel while the tuple count " +
		"(2^(n-1))^|E| <= cap (cap 4096 for n<=4 = everything; 256 for n=5 = |E|<=2), beyond the cap 'banded' = every " +
		"size 0..n-1 taken live-nodes-first or expelled-nodes-first, same choice for all expels plus ONE deviating expel. " +
		"'reduced' configs (n=6,7 INIT; n=5 in quick and for ACCEPT): sizes {th-1,th,n-1} only, deviations only from size th, " +
		"facts {A_E,B_E}. DEVIATIONS = around bases with fully signed expels (n<=5 full configs: every assignment over " +
		"{A_E,B_E,A}; reduced: first m nodes vote A, m in {required-1, required, all}, optionally the last votes B): " +
		"every other claimed majority incl. DRAW / unvoted fact / fact of another point / fact listing other expels, " +
		"extra voter (expelled node, non-member, duplicate with same or other fact), a vote of another point, a bad " +
		"signature, expel signed additionally or only by its target / by a non-member / with a duplicated sign, " +
		"expired expel, node expelled twice, non-member expelled, expel voteproof type without expels. Each candidate is " +
		"built with real signatures and validated ONCE by IsValidVoteproofWithSuffrage + Voteproof.IsValid; honest " +
		"constructions through SuffrageVoting.Find are validated too (t=67). non-trivial = distinct ACCEPTED " +
		"descriptor (voter->facts map, majority, number of expelled nodes, class flags); all pairs of accepted " +
		"descriptors that carry a majority are compared: different majority facts and <= f nodes having signed two " +
		"different facts = violation." + c03sRule + c03fRule)
	r.Assume("accepted == IsValidVoteproofWithSuffrage(vp, suf)==nil && vp.IsValid(networkID)==nil, evaluated in that order (both are pure)")
	r.Assume("both voteproofs of a pair carry the network's threshold t in their threshold field; the field itself is attacker-chosen and is compared with the local parameter elsewhere")
	r.Assume("suffrage-confirm facts are not enumerated: they share the INIT fact hash")

	if _, replaying := r.Replaying(); replaying {
		var probe struct {
			Kind string `json:"kind"`
		}

		if err := r.ReplayData(&probe); err == nil && probe.Kind == "foreign" {
			c03fReplayCase(r)

			return
		}

		c03ReplayCase(r)

		return
	}

	debug.SetGCPercent(400) // validation allocates a lot of short-lived garbage; the live heap is tiny

	_, nsh := r.Shard()

	workers := runtime.NumCPU() / nsh
	if workers < 1 {
		workers = 1
	}

	if workers > 16 {
		workers = 16
	}

	r.Set("workers_per_shard", workers)
	r.Set("thresholds_t10", vlib.Pick(r, []int{670}, []int{670, 750, 800, 1000}))

	var stop atomic.Bool

	cfgs := c03Configs(r)
	names := make([]string, len(cfgs))

	for i := range cfgs {
		names[i] = cfgs[i].String()
	}

	r.Set("configs", names)

	only := os.Getenv("VERIF_C03_ONLY") // development aid: run the configs whose name contains this

	for i, cfg := range cfgs {
		if !r.Mine(i) {
			continue
		}

		if only != "" && !strings.Contains(cfg.String(), only) {
			r.Cap("VERIF_C03_ONLY set")

			continue
		}

		if r.Expired() {
			r.Cap("config " + cfg.String() + " not started")

			continue
		}

		c03RunConfig(r, cfg, workers, &stop)
	}

	// second exploration: voteproofs carrying facts of another stage point (c03_foreign_test.go)
	fcfgs := c03fConfigs(r)
	fnames := make([]string, len(fcfgs))

	for i := range fcfgs {
		fnames[i] = fcfgs[i].String()
	}

	r.Set("foreign_configs", fnames)

	for i, cfg := range fcfgs {
		if !r.Mine(len(cfgs) + i) {
			continue
		}

		if only != "" && !strings.Contains(cfg.String(), only) {
			r.Cap("VERIF_C03_ONLY set")

			continue
		}

		if r.Expired() {
			r.Cap("config " + cfg.String() + " not started")

			continue
		}

		c03fRunConfig(r, cfg, workers)
	}
}
