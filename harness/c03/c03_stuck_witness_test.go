//go:build verif

package isaac

// Standalone reproduction of the C03 defect "stuck voteproof with a majority is
// accepted", without any enumeration machinery. Not part of the check (not listed in
// check.json); run by hand:
//
//	cd /repo && echo '{"Replace":{"/repo/isaac/zz_c03_stuck_witness_test.go":"/verif/harness/c03/c03_stuck_witness_test.go"}}' > /tmp/ov-c03s.json
//	go test -tags 'test verif' -overlay /tmp/ov-c03s.json -vet=off -count=1 -run TestVerifC03StuckWitness -v ./isaac/
//
// n=4, t=67 (q=3, f=1). a, b, c sign the expel of d (1 expel <= f). For the stage
// point (33,0,INIT) a and b sign the fact A, c signs the fact B: nobody signs two
// facts. The honest plain voteproof {a,b,c... } is not even needed: two STUCK
// voteproofs over the same three sign facts, one with SetMajority(A) and one with
// SetMajority(B) after Finish() (= what the JSON decoder yields for a "majority" hash
// that matches a sign fact), are MAJORITY voteproofs for one stage point with
// different majority facts. FAILS on the tree without harness/c03/fix.proposed.diff
// (both are accepted by IsValid and IsValidVoteproofWithSuffrage), passes with it.

import (
	"testing"

	"github.com/spikeekips/mitum/base"
	"github.com/spikeekips/mitum/util/valuehash"
)

func TestVerifC03StuckWitness(t *testing.T) {
	nid := base.NetworkID([]byte("c03-stuck-witness"))
	suf, nodes := NewTestSuffrage(4)
	point := base.RawPoint(33, 0)

	op := NewSuffrageExpelOperation(NewSuffrageExpelFact(nodes[3].Address(), 33, 34, "unreachable"))
	for _, s := range nodes[:3] {
		if err := op.NodeSign(s.Privatekey(), nid, s.Address()); err != nil {
			t.Fatal(err)
		}
	}

	prev := valuehash.NewSHA256([]byte("prev"))
	facts := []INITBallotFact{
		NewINITBallotFact(point, prev, valuehash.NewSHA256([]byte("proposal A")), nil),
		NewINITBallotFact(point, prev, valuehash.NewSHA256([]byte("proposal B")), nil),
	}

	sfs := make([]base.BallotSignFact, 3)

	for i, s := range nodes[:3] {
		sf := NewINITBallotSignFact(facts[i/2]) // a:A b:A c:B
		if err := sf.NodeSign(s.Privatekey(), nid, s.Address()); err != nil {
			t.Fatal(err)
		}

		sfs[i] = sf
	}

	// what the node itself produces (Ballotbox.StuckVoteproof): DRAW, must stay valid
	own := NewINITStuckVoteproof(point)
	_ = own.SetSignFacts(sfs).SetMajority(facts[0])
	_ = own.SetExpels([]base.SuffrageExpelOperation{op})
	_ = own.Finish()

	if own.Majority() != nil || own.Result() != base.VoteResultDraw {
		t.Fatalf("node-built stuck voteproof carries a majority: %v", own.Result())
	}

	if err := own.IsValid(nid); err != nil {
		t.Fatalf("node-built stuck voteproof, IsValid: %+v", err)
	}

	if err := IsValidVoteproofWithSuffrage(own, suf); err != nil {
		t.Fatalf("node-built stuck voteproof, IsValidVoteproofWithSuffrage: %+v", err)
	}

	accepted := 0

	for i := range facts {
		vp := NewINITStuckVoteproof(point)
		_ = vp.SetSignFacts(sfs)
		_ = vp.SetExpels([]base.SuffrageExpelOperation{op})
		_ = vp.Finish()
		_ = vp.SetMajority(facts[i])

		e1 := vp.IsValid(nid)
		e2 := IsValidVoteproofWithSuffrage(vp, suf)

		t.Logf("stuck voteproof %v result=%v majority=%v (1 of 3 / 2 of 3 votes): IsValid=%v IsValidVoteproofWithSuffrage=%v",
			vp.Point(), vp.Result(), vp.Majority().Hash(), e1, e2)

		if e1 == nil && e2 == nil {
			accepted++
		}
	}

	if accepted > 0 {
		t.Fatalf("%d stuck voteproof(s) with a majority accepted for one stage point (1 expel <= f, no node signed two facts)", accepted)
	}
}
