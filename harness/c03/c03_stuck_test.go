//go:build verif

package isaac

// C03: stuck voteproofs (INITStuckVoteproof / ACCEPTStuckVoteproof) as members of
// the candidate alphabet of the first exploration.
//
// A stuck voteproof says "the nodes of E are expelled and the remaining nodes did
// NOT agree"; the node builds it in Ballotbox.StuckVoteproof, whose Finish() always
// clears the majority and sets the threshold field to 100. The count of the votes
// is skipped for it in base.IsValidVoteproofWithSuffrage. The candidates here are
// what a peer can DECODE: the same type carrying any majority (nil / a voted fact /
// a fact nobody voted), any vote set of the non-expelled nodes (with and without a
// real majority, with absent voters), expelled sets of every size (<= f and > f).
// They join the accepted set of their (n, t, stage) config and are compared with
// every other accepted voteproof (plain, expel, stuck) by the oracle of the property.

import (
	"github.com/spikeekips/mitum/base"
)

// buildStuck builds the voteproof the way a decoder would leave it: everything the
// node's own Finish() fixes (majority nil, threshold 100) can be overwritten.
func (w *c03World) buildStuck(
	c *c03Cand, th base.Threshold, sfs []base.BallotSignFact, maj base.BallotFact, expels []base.SuffrageExpelOperation,
) base.Voteproof {
	if w.stage == base.StageINIT {
		vp := NewINITStuckVoteproof(w.point)
		vp.SetSignFacts(sfs)
		vp.SetExpels(expels)
		vp.Finish()
		vp.SetMajority(maj)

		if c.ThNet {
			vp.SetThreshold(th)
		}

		return vp
	}

	vp := NewACCEPTStuckVoteproof(w.point)
	vp.SetSignFacts(sfs)
	vp.SetExpels(expels)
	vp.Finish()
	vp.SetMajority(maj)

	if c.ThNet {
		vp.SetThreshold(th)
	}

	return vp
}

// buildStuckLikeBallotbox repeats voterecords.newStuckVoteproof: the counted
// majority is handed in BEFORE Finish().
func (w *c03World) buildStuckLikeBallotbox(
	sfs []base.BallotSignFact, maj base.BallotFact, expels []base.SuffrageExpelOperation,
) base.Voteproof {
	if w.stage == base.StageINIT {
		vp := NewINITStuckVoteproof(w.point)
		_ = vp.SetSignFacts(sfs).SetMajority(maj)
		_ = vp.SetExpels(expels)
		_ = vp.Finish()

		return vp
	}

	vp := NewACCEPTStuckVoteproof(w.point)
	_ = vp.SetSignFacts(sfs).SetMajority(maj)
	_ = vp.SetExpels(expels)
	_ = vp.Finish()

	return vp
}

// c03ModelAcceptStuck: reference rule of a stuck voteproof (not the oracle; it
// refines the violation signature and counts disagreements with the real code):
// threshold field 100; >= 1 valid expels, each signed by n-k members other than
// its target (the threshold field 100 makes NewSuffrageWithExpels ask for n-k signs);
// every non-expelled node voted exactly once, a fact of the voteproof's point,
// correctly signed; NO majority.
func c03ModelAcceptStuck(n, t10 int, c *c03Cand) (bool, string) {
	k := len(c.Expels)

	switch {
	case k < 1:
		return false, "no expels"
	case c.ThNet && t10 != 1000:
		return false, "stuck threshold not 100"
	}

	expelled := map[int]bool{}

	for _, e := range c.Expels {
		switch {
		case expelled[e.Target]:
			return false, "duplicate expel target"
		case e.Target >= n:
			return false, "expel of non-member"
		case e.Expired:
			return false, "expired expel"
		case e.DupSigner && len(e.Signers) > 0:
			return false, "duplicate expel signer"
		}

		expelled[e.Target] = true
	}

	if n-k < 1 {
		return false, "everybody expelled"
	}

	for _, e := range c.Expels {
		seen := map[int]bool{}
		cnt := 0

		for _, s := range e.Signers {
			if seen[s] {
				return false, "duplicate expel signer"
			}

			seen[s] = true

			if s == e.Target {
				continue
			}

			if s >= n {
				return false, "expel signed by non-member"
			}

			cnt++
		}

		if cnt < 1 || cnt < n-k {
			return false, "expel under-signed"
		}
	}

	voted := map[int]bool{}

	for _, v := range c.Votes {
		switch {
		case voted[v.Node]:
			return false, "duplicate voter"
		case v.Node >= n:
			return false, "non-member voted"
		case expelled[v.Node]:
			return false, "expelled node voted"
		case v.Fact.Round != 0:
			return false, "vote for another point"
		case v.BadSig:
			return false, "bad vote signature"
		}

		voted[v.Node] = true
	}

	if len(c.Votes) != n-k {
		return false, "not every remaining node voted"
	}

	if c.Maj != nil {
		return false, "stuck voteproof with majority"
	}

	return true, ""
}

// stuckProduct: for the expelled set E (non-empty, proper):
//   - signer set of every expel in {all other nodes, the non-expelled nodes, the
//     non-expelled nodes but one (negative; only tried with full vote sets)},
//   - every assignment (absent | fact) of the non-expelled nodes, facts {A, B, A_E, B_E}
//     (reduced configs: the first j nodes vote A, the others B, every j; the last one optionally A_E or absent),
//   - claimed majority: nil, every voted fact, one fact nobody voted, a fact of another point,
//   - threshold field 100, and the network's t (negative) when t != 100,
//
// plus ONE construction in the ballotbox's own order per E (majority set before Finish).
func (w *c03World) stuckProduct(l *c03Local, t10 int, emask int, reduced bool) {
	n := w.n
	targets := c03Bits(emask)

	var voters []int

	for i := 0; i < n; i++ {
		if emask&(1<<i) == 0 {
			voters = append(voters, i)
		}
	}

	menu := []c03Fact{{Prop: 0, Ex: -1}, {Prop: 1, Ex: -1}, {Prop: 0, Ex: emask}, {Prop: 1, Ex: emask}}
	if reduced {
		menu = menu[:3]
	}

	var others [][]int // per target: all other nodes

	for _, e := range targets {
		var s []int

		for i := 0; i < n; i++ {
			if i != e {
				s = append(s, i)
			}
		}

		others = append(others, s)
	}

	signerOptions := [][][]int{others, nil, nil}

	for range targets {
		signerOptions[1] = append(signerOptions[1], voters)
		signerOptions[2] = append(signerOptions[2], voters[:len(voters)-1])
	}

	c := &c03Cand{ExpelVP: true, Stuck: true}
	c.Expels = make([]c03Expel, len(targets))

	for i, e := range targets {
		c.Expels[i].Target = e
	}

	for so, signers := range signerOptions {
		for i := range targets {
			c.Expels[i].Signers = signers[i]
		}

		c03ForEachAssignment(voters, menu, func(votes []c03Vote) {
			full := len(votes) == len(voters)

			switch {
			case so == 2 && !full:
				return
			case reduced && !c03StuckThin(votes, voters, menu):
				return
			}

			c.Votes = votes

			claims := []*c03Fact{nil}
			seen := map[c03Fact]bool{}

			for _, v := range votes {
				if !seen[v.Fact] {
					seen[v.Fact] = true
					f := v.Fact
					claims = append(claims, &f)
				}
			}

			for _, f := range []c03Fact{{Prop: 1, Ex: emask}, {Prop: 1, Ex: -1}, {Prop: 0, Ex: emask}} {
				if !seen[f] {
					g := f
					claims = append(claims, &g) // a fact nobody voted

					break
				}
			}

			claims = append(claims, &c03Fact{Prop: 0, Ex: -1, Round: 1})

			for _, m := range claims {
				c.Maj = m
				c.ThNet = false
				w.eval(l, t10, c)

				if t10 != 1000 && full && so < 2 {
					c.ThNet = true
					w.eval(l, t10, c)
					c.ThNet = false
				}
			}
		})
	}

	// what the node itself produces (voterecords.newStuckVoteproof): must stay accepted, as a DRAW
	for _, split := range []bool{false, true} {
		hc := &c03Cand{ExpelVP: true, Stuck: true}

		for i, e := range targets {
			hc.Expels = append(hc.Expels, c03Expel{Target: e, Signers: signerOptions[1][i]})
		}

		for i, node := range voters {
			f := menu[0]
			if split && i == len(voters)-1 {
				f = menu[1]
			}

			hc.Votes = append(hc.Votes, c03Vote{Node: node, Fact: f})
		}

		sfs := make([]base.BallotSignFact, len(hc.Votes))
		for i, v := range hc.Votes {
			sfs[i] = w.sfs[c03SFKey{f: v.Fact, node: v.Node}]
		}

		expels := make([]base.SuffrageExpelOperation, len(hc.Expels))
		for i := range hc.Expels {
			expels[i] = w.op(l.cache, hc.Expels[i])
		}

		vp := w.buildStuckLikeBallotbox(sfs, w.facts[menu[0]], expels)
		err := w.validate(vp)
		l.honest++

		switch {
		case err != nil:
			l.outcomes["honest-stuck:rejected:"+c03Reason(err)]++
		case vp.Majority() != nil || vp.Result() != base.VoteResultDraw:
			l.outcomes["honest-stuck:accepted-with-majority"]++
		default:
			l.outcomes["honest-stuck:accepted:draw"]++
		}
	}
}

// reduced configs: the first j non-expelled nodes vote A and the others B (every j), optionally the last
// one votes A_E instead or is absent.
func c03StuckThin(votes []c03Vote, voters []int, menu []c03Fact) bool {
	if len(votes) < 1 || len(votes) < len(voters)-1 {
		return false
	}

	sawB := false

	for i := range votes {
		switch {
		case votes[i].Node != voters[i]: // only the last voter may be absent
			return false
		case i == len(voters)-1 && votes[i].Fact == menu[2]:
		case votes[i].Fact == menu[0]:
			if sawB {
				return false
			}
		case votes[i].Fact == menu[1]:
			sawB = true
		default:
			return false
		}
	}

	return true
}

const c03sRule = " STUCK: per (n, t, stage) and non-empty proper expelled set E also every INIT/ACCEPT STUCK voteproof: each expel " +
	"signed by {all other nodes | the non-expelled nodes | the non-expelled nodes but one (negative)} x (absent | fact) per " +
	"non-expelled node over {A,B,A_E,B_E} (reduced configs: the first j nodes vote A and the others B, every j, the last one optionally A_E or absent) x claimed majority " +
	"{nil, every voted fact, a fact nobody voted, a fact of another point} x threshold field {100, the network's t (negative)}, " +
	"built the way a decoded voteproof looks (majority and threshold written after Finish); plus per E two constructions in the " +
	"ballotbox's own order (majority handed in before Finish; all agree / one disagrees), which must be accepted as DRAW. They " +
	"join the accepted descriptors of the config and all pairs (stuck/plain, stuck/expel, stuck/stuck) are compared."
