//go:build verif

package isaac

// Standalone reproduction of the C03 known finding, without any enumeration
// machinery. Not part of the check (not listed in check.json); run by hand:
//
//	cd /repo && echo '{"Replace":{"/repo/isaac/zz_c03_witness_test.go":"/verif/harness/c03/c03_witness_test.go"}}' > /tmp/ov-c03.json
//	go test -tags 'test verif' -overlay /tmp/ov-c03.json -vet=off -count=1 -run TestVerifC03Witness -v ./isaac/
//
// n=4, t=67 (q=3, f=1): {a,b} expel c,d and vote A; {c,d} expel a,b and vote B.
// Nobody signs two facts; both voteproofs are accepted.

import (
	"testing"

	"github.com/spikeekips/mitum/base"
	"github.com/spikeekips/mitum/util"
	"github.com/spikeekips/mitum/util/valuehash"
)

func TestVerifC03Witness(t *testing.T) {
	nid := base.NetworkID([]byte("c03-witness"))
	suf, nodes := NewTestSuffrage(4)
	point := base.RawPoint(33, 0)

	mk := func(live, expelled []base.LocalNode, proposal string) INITExpelVoteproof {
		ops := make([]base.SuffrageExpelOperation, len(expelled))
		efs := make([]util.Hash, len(expelled))

		for i, e := range expelled {
			op := NewSuffrageExpelOperation(NewSuffrageExpelFact(e.Address(), 33, 34, "unreachable"))
			for _, s := range live {
				if err := op.NodeSign(s.Privatekey(), nid, s.Address()); err != nil {
					t.Fatal(err)
				}
			}

			ops[i] = op
			efs[i] = op.Fact().Hash()
		}

		fact := NewINITBallotFact(point, valuehash.NewSHA256([]byte("prev")), valuehash.NewSHA256([]byte(proposal)), efs)

		sfs := make([]base.BallotSignFact, len(live))
		for i, s := range live {
			sf := NewINITBallotSignFact(fact)
			if err := sf.NodeSign(s.Privatekey(), nid, s.Address()); err != nil {
				t.Fatal(err)
			}

			sfs[i] = sf
		}

		vp := NewINITExpelVoteproof(point)
		vp.SetMajority(fact).SetSignFacts(sfs).SetThreshold(base.Threshold(67))
		vp.SetExpels(ops)
		vp.Finish()

		return vp
	}

	vp1 := mk(nodes[:2], nodes[2:], "proposal A")
	vp2 := mk(nodes[2:], nodes[:2], "proposal B")

	for i, vp := range []INITExpelVoteproof{vp1, vp2} {
		if err := vp.IsValid(nid); err != nil {
			t.Fatalf("vp%d IsValid: %+v", i+1, err)
		}

		if err := IsValidVoteproofWithSuffrage(vp, suf); err != nil {
			t.Fatalf("vp%d IsValidVoteproofWithSuffrage: %+v", i+1, err)
		}

		t.Logf("vp%d accepted: point=%v result=%v majority=%v voters=%d expels=%d", i+1, vp.Point(), vp.Result(),
			vp.Majority().Hash(), len(vp.SignFacts()), len(vp.Expels()))
	}

	if vp1.Majority().Hash().Equal(vp2.Majority().Hash()) {
		t.Fatal("same majority")
	}

	for _, a := range vp1.SignFacts() {
		for _, b := range vp2.SignFacts() {
			if a.Node().Equal(b.Node()) {
				t.Fatal("a node voted in both voteproofs")
			}
		}
	}

	t.Logf("CONFLICT: same stage point %v, different majority facts, 0 double voters (f=1)", vp1.Point())
}
