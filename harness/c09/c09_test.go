//go:build verif

package isaacstates

import (
	"fmt"
	"sort"
	"strings"
	"testing"

	"github.com/pkg/errors"
	"github.com/spikeekips/mitum/base"
	"github.com/spikeekips/mitum/zzverif/vlib"
	"github.com/spikeekips/mitum/zzverif/vsched"
)

// C09: the node state machine only switches along allowed edges.
//
//   - Stopped goes only to Booting or Broken
//   - a request whose origin is not the current state has no effect
//   - a node that is not allowed to take part in consensus never enters Joining or
//     Consensus except by completing a handover; it goes to or stays in Syncing
//   - every reported switch matches the state the machine is actually in afterwards
//
// The real States (NewStates; loop goroutine not started) is driven through
// switchState / ensureSwitchState / Hold / AskMoveState / SetAllowConsensus with
// scripted stub handlers (the in-package replacement of the property's
// hook_needed helper). The stub handlers are the observers: exit/enter run under
// the state lock, so what they see in st.cs IS the current state at the moment a
// request takes effect.
//
// Part Q (sequential, engine Q): transition relation from every (current, allow)
// state under every request with <= 2 handler-outcome deviations, plus all
// histories of bounded length; compared with a reference model and with the
// statement-level invariants.
// Part S (concurrent, engine S): 2-3 threads (state loop body, Hold, direct
// switchState, SetAllowConsensus, AskMoveState + loop body) under the controlled
// scheduler; the same invariants are evaluated inside the handler callbacks and
// at quiescence.

var c09States = []StateType{StateStopped, StateBooting, StateJoining, StateConsensus, StateSyncing, StateHandover, StateBroken}

var c09Short = map[StateType]string{
	StateStopped: "ST", StateBooting: "BO", StateJoining: "JO", StateConsensus: "CO",
	StateSyncing: "SY", StateHandover: "HA", StateBroken: "BR", StateEmpty: "--",
}

func c09Long(s string) StateType {
	for k, v := range c09Short {
		if v == s {
			return k
		}
	}

	panic("c09: unknown state " + s)
}

func c09IsConsensusState(s StateType) bool { return s == StateJoining || s == StateConsensus }

type c09vio struct {
	sig    map[string]any
	detail string
}

// ---------------------------------------------------------------- stub handlers / observer

type c09env struct {
	st       *States
	async    bool // S: a notified Joining/Consensus handler asks (AskMoveState) for Syncing from a new thread, as the real handlers do
	clock    int
	ncall    int            // ordinal of the next handler exit/enter call (Q: per event)
	devs     map[int]string // call ordinal -> alternative outcome
	devUsed  int
	nextID   int
	calls    []string
	ckinds   []string    // kind (exit/enter) of every handler call, by ordinal
	switches []StateType // successful enters, in order: the switches the machine made
	reports  []StateType // WhenStateSwitchedFunc calls, in order
	vios     []c09vio
	pending  []switchContext // Q: requests issued by handlers notified of "not allowed"
	lastExit *c09handler     // handler whose exit was the latest handler call
	opOf     map[int]string  // S: thread id -> kind of the operation it is executing
	part     string
}

func (e *c09env) tick() int { e.clock++; return e.clock }

func (e *c09env) op() string {
	if e.opOf == nil {
		return "seq"
	}

	if s, ok := e.opOf[vsched.ThreadID()]; ok {
		return s
	}

	return "other"
}

func (e *c09env) vio(sig map[string]any, format string, args ...any) {
	sig["part"] = e.part
	e.vios = append(e.vios, c09vio{sig: sig, detail: fmt.Sprintf(format, args...) + " | calls: " + strings.Join(e.calls, " ")})
}

type c09newHandler struct {
	env *c09env
	s   StateType
}

func (n c09newHandler) new() (handler, error) {
	n.env.nextID++

	return &c09handler{env: n.env, s: n.s, id: n.env.nextID}, nil
}

func (c09newHandler) setStates(*States) {}

type c09handler struct {
	env            *c09env
	s              StateType
	id             int
	exits          int
	enteredNoAllow bool // entered Joining/Consensus while not allowed (only legitimate from Handover)
	notifiedFalse  bool
}

func (h *c09handler) name() string { return fmt.Sprintf("%s#%d", c09Short[h.s], h.id) }

func (h *c09handler) state() StateType { return h.s }

func (h *c09handler) newVoteproof(base.Voteproof) error { return nil }

func (h *c09handler) allowedConsensus() bool { return h.env.st.AllowedConsensus() }

func c09ctxString(sctx switchContext) string {
	if sctx == nil {
		return "<nil>"
	}

	return c09Short[sctx.from()] + ">" + c09Short[sctx.next()]
}

// exit is called by exitAndEnter under the state write lock.
func (h *c09handler) exit(sctx switchContext) (func(), error) {
	e := h.env
	ord := e.ncall
	e.ncall++

	actual := e.st.cs
	e.calls = append(e.calls, fmt.Sprintf("[%d %s exit(%s) of %s cur=%s]", e.tick(), e.op(), c09ctxString(sctx), h.name(), c09handlerName(actual)))

	h.exits++
	e.lastExit = h
	e.ckinds = append(e.ckinds, "exit")

	switch {
	case actual != handler(h):
		e.vio(map[string]any{"kind": "stale-request-took-effect", "at": "exit", "by": e.op(), "next": c09Short[sctx.next()]},
			"request %s of %q exits handler %s, but the current handler is %s: a request whose origin is not the current state took effect",
			c09ctxString(sctx), e.op(), h.name(), c09handlerName(actual))
	case sctx.from() != actual.state():
		e.vio(map[string]any{"kind": "request-origin-not-current", "at": "exit", "by": e.op()},
			"request %s exits the current handler %s although its origin differs", c09ctxString(sctx), h.name())
	}

	switch alt := e.devs[ord]; alt {
	case "err":
		e.devUsed++

		return nil, errors.Errorf("c09: exit of %s failed", h.name())
	case "ign":
		e.devUsed++

		return nil, ErrIgnoreSwitchingState.Errorf("c09: %s ignores", h.name())
	}

	return nil, nil
}

func c09handlerName(h handler) string {
	switch t := h.(type) {
	case nil:
		return "<nil>"
	case *c09handler:
		return t.name()
	default:
		return string(h.state())
	}
}

// enter is called by exitAndEnter under the state write lock.
func (h *c09handler) enter(from StateType, sctx switchContext) (func(), error) {
	e := h.env
	ord := e.ncall
	e.ncall++

	actual := e.st.cs
	allow := e.st.AllowedConsensus()

	e.calls = append(e.calls, fmt.Sprintf("[%d %s enter(%s from=%s) of %s cur=%s allow=%v]",
		e.tick(), e.op(), c09ctxString(sctx), c09Short[from], h.name(), c09handlerName(actual), allow))

	lastExit := e.lastExit
	e.lastExit = nil
	e.ckinds = append(e.ckinds, "enter")

	if actual != nil {
		switch {
		case lastExit == nil || handler(lastExit) != actual:
			e.vio(map[string]any{"kind": "stale-request-took-effect", "at": "enter", "by": e.op(), "next": c09Short[h.s]},
				"%s is entered (request %s of %q) but the handler exited immediately before (%s) is not the current one (%s)",
				h.name(), c09ctxString(sctx), e.op(), c09handlerName(handlerOrNil(lastExit)), c09handlerName(actual))
		case from != actual.state() || sctx.from() != actual.state():
			e.vio(map[string]any{"kind": "request-origin-not-current", "at": "enter", "by": e.op()},
				"%s is entered with from=%s by request %s while the current state is %s", h.name(), c09Short[from], c09ctxString(sctx), c09Short[actual.state()])
		}

		if actual.state() == StateStopped && h.s != StateBooting && h.s != StateBroken {
			e.vio(map[string]any{"kind": "stopped-to-forbidden-state", "next": c09Short[h.s], "by": e.op()},
				"Stopped switches to %s (request %s)", c09Short[h.s], c09ctxString(sctx))
		}

		if c09IsConsensusState(h.s) && !allow {
			h.enteredNoAllow = true

			if actual.state() != StateHandover {
				e.vio(map[string]any{"kind": "enters-consensus-states-not-allowed", "next": c09Short[h.s], "by": e.op()},
					"%s is entered from %s (request %s of %q) although consensus is not allowed at this moment and no handover is completed",
					h.name(), c09Short[actual.state()], c09ctxString(sctx), e.op())
			}
		}
	}

	alt := e.devs[ord]

	switch {
	case alt == "err":
		e.devUsed++

		return nil, errors.Errorf("c09: enter of %s failed", h.name())
	case strings.HasPrefix(alt, "r:"): // redirect, origin = the state just entered
		e.devUsed++

		return nil, newBaseSwitchContext(h.s, c09Long(alt[2:]))
	case strings.HasPrefix(alt, "w:"): // redirect with a wrong origin (the state left)
		e.devUsed++

		return nil, newBaseSwitchContext(from, c09Long(alt[2:]))
	}

	e.switches = append(e.switches, h.s)

	return nil, nil
}

func handlerOrNil(h *c09handler) handler {
	if h == nil {
		return nil
	}

	return h
}

// whenSetAllowConsensus is called by SetAllowConsensus under the state read lock.
func (h *c09handler) whenSetAllowConsensus(allow bool) {
	e := h.env
	e.calls = append(e.calls, fmt.Sprintf("[%d %s notify(%v) %s]", e.tick(), e.op(), allow, h.name()))

	if allow || !c09IsConsensusState(h.s) {
		return
	}

	h.notifiedFalse = true

	// the real Joining/Consensus handlers ask for Syncing
	sctx := emptySyncingSwitchContext(h.s)

	switch {
	case e.async:
		opOf := e.opOf

		vsched.Go(func() {
			if opOf != nil {
				opOf[vsched.ThreadID()] = "handler-ask"
			}

			_ = e.st.AskMoveState(sctx)
		})
	default:
		e.pending = append(e.pending, sctx)
	}
}

func (e *c09env) report(s StateType) {
	e.reports = append(e.reports, s)
	e.calls = append(e.calls, fmt.Sprintf("[%d %s report(%s) cur=%s]", e.tick(), e.op(), c09Short[s], c09handlerName(e.st.cs)))
}

func c09NewEnv(part string, cur StateType, allow bool) *c09env {
	e := &c09env{part: part, devs: map[int]string{}}

	args := NewStatesArgs()
	args.AllowConsensus = allow
	args.WhenStateSwitchedFunc = e.report

	st, err := NewStates(base.NetworkID("c09"), nil, args)
	if err != nil {
		panic(err)
	}

	for _, s := range c09States {
		st.newHandlers[s] = c09newHandler{env: e, s: s}
	}

	e.st = st

	if cur != StateEmpty {
		h, _ := st.newHandlers[cur].new()
		st.cs = h
	}

	return e
}

func c09Seq(l []StateType) string {
	s := make([]string, len(l))
	for i := range l {
		s[i] = c09Short[l[i]]
	}

	return strings.Join(s, ",")
}

// ---------------------------------------------------------------- reference model (written from the statement)

type c09model struct {
	cur     StateType
	allow   bool
	reports []StateType
	ncall   int
	devs    map[int]string
}

// admit: is the request accepted in the current state, and which state does it lead to.
func (m *c09model) admit(from, next StateType) (StateType, bool) {
	switch {
	case m.cur == StateStopped && next != StateBooting && next != StateBroken:
		return "", false // Stopped goes only to Booting or Broken
	case next == m.cur:
		return "", false
	case from != m.cur:
		return "", false // origin is not the current state: no effect
	case next == StateBroken:
		return next, true
	case next == StateHandover:
		return "", false // no handover is under way in the harness (brokers are nil)
	case !m.allow && m.cur != StateHandover && c09IsConsensusState(next):
		if m.cur == StateSyncing {
			return "", false // stays in Syncing
		}

		return StateSyncing, true // goes to Syncing instead
	}

	return next, true
}

func (m *c09model) take(exit bool) string {
	alt := m.devs[m.ncall]
	m.ncall++

	switch {
	case exit && (alt == "err" || alt == "ign"):
		return alt
	case !exit && (alt == "err" || strings.HasPrefix(alt, "r:") || strings.HasPrefix(alt, "w:")):
		return alt
	}

	return ""
}

const (
	c09mIgnored = iota
	c09mOK
	c09mErr
	c09mRedirect
)

func (m *c09model) switchOnce(from, next StateType) (int, StateType, StateType) {
	target, ok := m.admit(from, next)
	if !ok {
		return c09mIgnored, "", ""
	}

	switch alt := m.take(true); {
	case target == StateBroken: // nothing keeps the machine from Broken
	case alt == "err":
		return c09mErr, "", ""
	case alt == "ign":
		return c09mIgnored, "", ""
	}

	prev := m.cur

	switch alt := m.take(false); {
	case alt == "err":
		return c09mErr, "", ""
	case strings.HasPrefix(alt, "r:"):
		m.cur = target

		return c09mRedirect, target, c09Long(alt[2:])
	case strings.HasPrefix(alt, "w:"):
		m.cur = target

		return c09mRedirect, prev, c09Long(alt[2:])
	}

	m.cur = target
	m.reports = append(m.reports, target)

	return c09mOK, "", ""
}

// ensure: the loop keeps switching until the machine rests: redirects are
// followed, a failure leads to Broken.
func (m *c09model) ensure(from, next StateType) {
	n := 0

	for {
		if n > 3 {
			n, next = 0, StateBroken

			continue
		}

		n++

		switch res, rf, rn := m.switchOnce(from, next); res {
		case c09mOK, c09mIgnored:
			return
		case c09mErr:
			if next == StateBroken {
				return
			}

			n, next = 0, StateBroken
		case c09mRedirect:
			from, next = rf, rn
		}
	}
}

// ---------------------------------------------------------------- part Q

type c09event struct {
	kind  string // E ensureSwitchState | S switchState | H Hold | A SetAllowConsensus (+ the loop serving the handler's request)
	from  StateType
	next  StateType
	allow bool
	devs  map[int]string
}

func (ev c09event) id() string {
	var s string

	switch ev.kind {
	case "E", "S":
		s = ev.kind + ":" + c09Short[ev.from] + ">" + c09Short[ev.next]
	case "H":
		s = "H"
	case "A":
		s = "A-"
		if ev.allow {
			s = "A+"
		}
	}

	if len(ev.devs) > 0 {
		ks := make([]int, 0, len(ev.devs))
		for k := range ev.devs {
			ks = append(ks, k)
		}

		sort.Ints(ks)

		parts := make([]string, len(ks))
		for i, k := range ks {
			parts[i] = fmt.Sprintf("%d=%s", k, ev.devs[k])
		}

		s += "|" + strings.Join(parts, ",")
	}

	return s
}

type c09root struct {
	cur   StateType
	allow bool
}

func (r c09root) id() string {
	if r.allow {
		return c09Short[r.cur] + "+"
	}

	return c09Short[r.cur] + "-"
}

// c09qRun replays a history on a fresh real States and on the model; the oracle
// is evaluated for the last event.
type c09qres struct {
	vios    []c09vio
	obs     string
	key     string
	changed bool
	devUsed int
	ckinds  []string
}

func c09qRun(root c09root, path []c09event) (res c09qres) {
	var obs, key string
	var changed bool
	var devUsed int

	e := c09NewEnv("Q", root.cur, root.allow)
	st := e.st
	m := &c09model{cur: root.cur, allow: root.allow}

	for i, ev := range path {
		last := i == len(path)-1

		e.ncall, e.devs, e.devUsed = 0, ev.devs, 0
		e.calls, e.ckinds, e.switches, e.reports, e.vios, e.pending = nil, nil, nil, nil, nil, nil
		m.ncall, m.devs, m.reports = 0, ev.devs, nil

		if e.devs == nil {
			e.devs = map[int]string{}
		}

		before := st.cs
		beforeState := before.state()
		beforeAllow := st.AllowedConsensus()

		switch ev.kind {
		case "E":
			_ = st.ensureSwitchState(newBaseSwitchContext(ev.from, ev.next))
			m.ensure(ev.from, ev.next)
		case "S":
			_ = st.switchState(newBaseSwitchContext(ev.from, ev.next))
			m.switchOnce(ev.from, ev.next)
		case "H":
			_ = st.Hold()
			m.switchOnce(m.cur, StateStopped)
		case "A":
			isset := st.SetAllowConsensus(ev.allow)

			for len(e.pending) > 0 { // the state loop serves what the notified handler asked for
				p := e.pending[0]
				e.pending = e.pending[1:]
				_ = st.ensureSwitchState(p)
			}

			if (m.allow != ev.allow) != isset {
				e.vio(map[string]any{"kind": "model-mismatch", "field": "SetAllowConsensus-result"}, "SetAllowConsensus(%v) returned %v with allow=%v before", ev.allow, isset, m.allow)
			}

			if m.allow != ev.allow {
				m.allow = ev.allow

				if !ev.allow && c09IsConsensusState(m.cur) {
					m.ensure(m.cur, StateSyncing)
				}
			}
		}

		if !last {
			continue
		}

		after := st.cs
		afterState := after.state()
		changed = after != before
		devUsed = e.devUsed

		// ---- statement-level invariants (independent of the model)
		if (ev.kind == "E" || ev.kind == "S") && ev.from != beforeState {
			if e.ncall > 0 || len(e.reports) > 0 || changed {
				e.vio(map[string]any{"kind": "stale-request-took-effect", "at": "sequential", "by": ev.kind},
					"request %s with current state %s: handler calls=%d reports=%d changed=%v", ev.id(), c09Short[beforeState], e.ncall, len(e.reports), changed)
			}
		}

		if e.devUsed == 0 && beforeState == StateStopped && afterState != StateStopped && afterState != StateBooting && afterState != StateBroken {
			e.vio(map[string]any{"kind": "stopped-to-forbidden-state", "next": c09Short[afterState], "by": ev.kind},
				"%s moved Stopped to %s", ev.id(), c09Short[afterState])
		}

		if c09Seq(e.reports) != c09Seq(e.switches) {
			e.vio(map[string]any{"kind": "report-sequence-mismatch", "by": ev.kind},
				"%s: reported switches %s, switches made %s", ev.id(), c09Seq(e.reports), c09Seq(e.switches))
		}

		if len(e.reports) > 0 && e.devUsed == 0 && e.reports[len(e.reports)-1] != afterState {
			e.vio(map[string]any{"kind": "last-report-not-current", "by": ev.kind},
				"%s: last reported switch %s, current state %s", ev.id(), c09Short[e.reports[len(e.reports)-1]], c09Short[afterState])
		}

		if e.devUsed == 0 && !st.AllowedConsensus() {
			switch {
			case ev.kind == "A" && beforeAllow && c09IsConsensusState(beforeState) && afterState != StateSyncing:
				e.vio(map[string]any{"kind": "not-allowed-but-not-syncing", "by": "A"},
					"consensus disallowed in %s: the machine is in %s afterwards, not in Syncing", c09Short[beforeState], c09Short[afterState])
			case (ev.kind == "E" || ev.kind == "S") && ev.from == beforeState && c09IsConsensusState(ev.next) && ev.next != beforeState &&
				beforeState != StateStopped && beforeState != StateHandover && afterState != StateSyncing:
				e.vio(map[string]any{"kind": "not-allowed-but-not-syncing", "by": ev.kind},
					"%s while not allowed from %s: the machine is in %s afterwards, not in Syncing", ev.id(), c09Short[beforeState], c09Short[afterState])
			}
		}

		// ---- reference model
		switch {
		case afterState != m.cur:
			e.vio(map[string]any{"kind": "model-mismatch", "field": "current", "by": ev.kind},
				"%s from (%s allow=%v): current state %s, model %s", ev.id(), c09Short[beforeState], beforeAllow, c09Short[afterState], c09Short[m.cur])
		case st.AllowedConsensus() != m.allow:
			e.vio(map[string]any{"kind": "model-mismatch", "field": "allow", "by": ev.kind}, "%s: allow %v, model %v", ev.id(), st.AllowedConsensus(), m.allow)
		case c09Seq(e.reports) != c09Seq(m.reports):
			e.vio(map[string]any{"kind": "model-mismatch", "field": "reports", "by": ev.kind},
				"%s from (%s allow=%v): reports %s, model %s", ev.id(), c09Short[beforeState], beforeAllow, c09Seq(e.reports), c09Seq(m.reports))
		}

		res := "ignored"

		switch {
		case afterState != beforeState:
			res = "switched"

			if (ev.kind == "E" || ev.kind == "S") && afterState != ev.next {
				res = "diverted-to-" + c09Short[afterState]
			}
		case changed:
			res = "re-entered"
		case beforeAllow != st.AllowedConsensus():
			res = "toggled"
		}

		obs = fmt.Sprintf("%s:%s/reports=%d/deviations=%d", ev.kind, res, len(e.reports), e.devUsed)
		key = fmt.Sprintf("%s/allow=%v", c09Short[afterState], st.AllowedConsensus())
	}

	return c09qres{vios: e.vios, obs: obs, key: key, changed: changed, devUsed: devUsed, ckinds: e.ckinds}
}

func c09BaseEvents(kinds string) []c09event {
	var evs []c09event

	for _, k := range []string{"E", "S"} {
		if !strings.Contains(kinds, k) {
			continue
		}

		for _, f := range c09States {
			for _, n := range c09States {
				evs = append(evs, c09event{kind: k, from: f, next: n})
			}
		}
	}

	if strings.Contains(kinds, "H") {
		evs = append(evs, c09event{kind: "H"})
	}

	if strings.Contains(kinds, "A") {
		evs = append(evs, c09event{kind: "A", allow: true}, c09event{kind: "A", allow: false})
	}

	return evs
}

// c09Deviations: every way to deviate from "handler says ok" at <= maxDev of the
// first maxOrd handler calls of one event.
func c09Deviations(alts []string, maxOrd, maxDev int) []map[int]string {
	out := []map[int]string{nil}

	if maxDev >= 1 {
		for k := 0; k < maxOrd; k++ {
			for _, a := range alts {
				out = append(out, map[int]string{k: a})
			}
		}
	}

	if maxDev >= 2 {
		for k1 := 0; k1 < maxOrd; k1++ {
			for k2 := k1 + 1; k2 < maxOrd; k2++ {
				for _, a1 := range alts {
					for _, a2 := range alts {
						out = append(out, map[int]string{k1: a1, k2: a2})
					}
				}
			}
		}
	}

	return out
}

func c09PathID(prefix string, root c09root, path []c09event) string {
	parts := []string{prefix, root.id()}
	for _, ev := range path {
		parts = append(parts, ev.id())
	}

	return strings.Join(parts, "/")
}

func c09qAccount(r *vlib.Run, id string, root c09root, path []c09event) c09qres {
	res := c09qRun(root, path)
	vios, obs, key, changed, devUsed := res.vios, res.obs, res.key, res.changed, res.devUsed

	r.Transition()
	r.Trace()
	r.Eval()
	r.Outcome(obs)
	r.State(key + fmt.Sprintf("/deviations-left=%d", 2-c09PathDevs(path)))
	r.Max("q_max_depth", int64(len(path)))

	if changed || devUsed > 0 {
		r.Nontrivial(id)
	}

	evs := make([]string, len(path))
	for i := range path {
		evs[i] = path[i].id()
	}

	for _, v := range vios {
		r.Outcome("violation:" + fmt.Sprint(v.sig["kind"]))
		r.Violation(id, v.sig, v.detail, map[string]any{"root": root.id(), "events": evs})
	}

	return res
}

func c09PathDevs(path []c09event) int {
	n := 0
	for _, ev := range path {
		n += len(ev.devs)
	}

	return n
}

var c09Alts = map[string][]string{
	"exit":  {"err", "ign"},
	"enter": {"err", "r:SY", "r:BR", "r:CO", "r:JO", "r:ST", "r:BO", "r:HA", "w:SY", "w:CO"},
}

func c09PartQ(r *vlib.Run, item *int) {
	var roots []c09root
	for _, s := range c09States {
		roots = append(roots, c09root{s, true}, c09root{s, false})
	}

	// Q1: the transition relation: one event from every root; handler answers deviate
	// from "ok" at <= 2 of the exit/enter calls the event really makes (every reached
	// call position, every alternative answer of that call's kind)
	base1 := c09BaseEvents("ESHA")

	var q1 func(root c09root, ev c09event, lastOrd int)

	q1 = func(root c09root, ev c09event, lastOrd int) {
		id := c09PathID("q1", root, []c09event{ev})

		var res c09qres

		switch {
		case r.Want(id):
			res = c09qAccount(r, id, root, []c09event{ev})
		default:
			res = c09qRun(root, []c09event{ev})
		}

		if len(ev.devs) >= 2 {
			return
		}

		for k := lastOrd + 1; k < len(res.ckinds); k++ {
			for _, alt := range c09Alts[res.ckinds[k]] {
				nev := ev
				nev.devs = map[int]string{k: alt}

				for pk, pa := range ev.devs {
					nev.devs[pk] = pa
				}

				q1(root, nev, k)
			}
		}
	}

	for _, root := range roots {
		for _, bev := range base1 {
			*item++
			if !r.Mine(*item) {
				continue
			}

			if r.Expired() {
				return
			}

			q1(root, bev, -1)
		}
	}

	// Q2: histories: every sequence over per-position alphabets, <= 2 deviations per path
	mkalpha := func(kinds string, alts []string) []c09event {
		var alpha []c09event

		for _, bev := range c09BaseEvents(kinds) {
			for _, d := range c09Deviations(alts, 2, 1) {
				if d != nil && bev.kind != "E" {
					continue
				}

				ev := bev
				ev.devs = d
				alpha = append(alpha, ev)
			}
		}

		return alpha
	}

	tiny := mkalpha("EHA", []string{"err"})
	full := mkalpha("ESHA", []string{"err", "ign", "r:SY", "r:BR"})
	plain := mkalpha("EHA", nil)

	shapes := vlib.Pick(r, [][][]c09event{{tiny, tiny}}, [][][]c09event{{full, full}, {tiny, plain, plain}})

	var shapetxt []string

	for _, sh := range shapes {
		var l []string
		for _, a := range sh {
			l = append(l, fmt.Sprint(len(a)))
		}

		shapetxt = append(shapetxt, strings.Join(l, "x"))
	}

	r.Set("q2_history_shapes", shapetxt)

	var rec func(root c09root, shape [][]c09event, path []c09event)

	rec = func(root c09root, shape [][]c09event, path []c09event) {
		if len(path) == len(shape) {
			id := c09PathID("q2", root, path)
			if r.Want(id) {
				c09qAccount(r, id, root, path)
			}

			return
		}

		for _, ev := range shape[len(path)] {
			if c09PathDevs(path)+len(ev.devs) > 2 {
				continue
			}

			rec(root, shape, append(append([]c09event{}, path...), ev))
		}
	}

	for _, shape := range shapes {
		for _, root := range roots {
			for _, ev := range shape[0] {
				*item++
				if !r.Mine(*item) {
					continue
				}

				if r.Expired() {
					return
				}

				rec(root, shape, []c09event{ev})
			}
		}
	}
}

// ---------------------------------------------------------------- part S

type c09op struct {
	kind  string // sw | ens | hold | allow | ask | loop
	from  StateType
	next  StateType
	allow bool
	n     int // loop: number of requests served
}

func (o c09op) id() string {
	switch o.kind {
	case "sw", "ens", "ask":
		return o.kind + ":" + c09Short[o.from] + ">" + c09Short[o.next]
	case "allow":
		if o.allow {
			return "allow+"
		}

		return "allow-"
	case "loop":
		return fmt.Sprintf("loop%d", o.n)
	}

	return o.kind
}

type c09scfg struct {
	start   StateType
	allow   bool
	threads [][]c09op
}

func (c c09scfg) id() string {
	ts := make([]string, len(c.threads))

	for i, t := range c.threads {
		ops := make([]string, len(t))
		for j := range t {
			ops[j] = t[j].id()
		}

		ts[i] = strings.Join(ops, ";")
	}

	a := "-"
	if c.allow {
		a = "+"
	}

	return "s/" + c09Short[c.start] + a + "/" + strings.Join(ts, "||")
}

func (c c09scfg) kinds() string {
	var ks []string

	for _, t := range c.threads {
		for _, o := range t {
			ks = append(ks, o.kind)
		}
	}

	sort.Strings(ks)

	return strings.Join(ks, "+")
}

func c09sBuild(c c09scfg) vsched.Scenario {
	e := c09NewEnv("S", c.start, c.allow)
	e.async = true
	e.opOf = map[int]string{}
	st := e.st
	first := st.cs
	done := make([]int, len(c.threads))
	hasLoop := false

	var roots []func()

	for ti := range c.threads {
		ti := ti
		ops := c.threads[ti]

		for _, o := range ops {
			if o.kind == "loop" {
				hasLoop = true
			}
		}

		roots = append(roots, func() {
			for _, o := range ops {
				e.opOf[ti] = o.kind

				switch o.kind {
				case "sw":
					_ = st.switchState(newBaseSwitchContext(o.from, o.next))
				case "ens":
					_ = st.ensureSwitchState(newBaseSwitchContext(o.from, o.next))
				case "hold":
					_ = st.Hold()
				case "allow":
					_ = st.SetAllowConsensus(o.allow)
				case "ask":
					_ = st.AskMoveState(newBaseSwitchContext(o.from, o.next))
				case "loop":
					// the body of startStatesSwitch's loop: receive a request, ensureSwitchState
					vsched.SetDaemon(true)

					for i := 0; i < o.n; i++ {
						sctx := vsched.Recv((<-chan switchContext)(st.statech))
						_ = st.ensureSwitchState(sctx)
						done[ti]++
					}

					continue
				}

				done[ti]++
			}
		})
	}

	fail := func(v c09vio) *vsched.Fail {
		v.sig["ops"] = c.kinds()

		return &vsched.Fail{Sig: v.sig, Detail: v.detail + " | " + c.id()}
	}

	return vsched.Scenario{
		Roots: roots,
		Outcome: func(*vsched.Exec) string {
			return fmt.Sprintf("final=%s allow=%v switches=%s", c09Short[st.cs.state()], st.AllowedConsensus(), c09Seq(e.switches))
		},
		Check: func(x *vsched.Exec) *vsched.Fail {
			e.part = "S"

			if x.Panic != nil {
				return fail(c09vio{map[string]any{"kind": "panic", "part": "S"}, fmt.Sprintf("panic: %v\n%s", x.Panic, x.PanicStack)})
			}

			if x.Deadlock {
				var at []string

				for _, b := range x.Blocked {
					if strings.Contains(b, "(root") {
						if k := strings.Index(b, "blocked at "); k >= 0 {
							at = append(at, b[k+len("blocked at "):])
						}
					}
				}

				sort.Strings(at)

				return fail(c09vio{map[string]any{"kind": "deadlock", "part": "S", "blocked_at": strings.Join(at, "+")},
					"threads never return: " + strings.Join(x.Blocked, "; ") + " | calls: " + strings.Join(e.calls, " ")})
			}

			if len(e.vios) > 0 {
				return fail(e.vios[0])
			}

			if c09Seq(e.reports) != c09Seq(e.switches) {
				e.vio(map[string]any{"kind": "report-sequence-mismatch"},
					"switches were made in the order %s but reported in the order %s: the last report (%s) is not the state the machine is in (%s)",
					c09Seq(e.switches), c09Seq(e.reports), c09Short[e.reports[len(e.reports)-1]], c09Short[st.cs.state()])

				return fail(e.vios[0])
			}

			// not allowed at quiescence: the machine may rest in Joining/Consensus only via a handover
			if cur, ok := st.cs.(*c09handler); ok && c09IsConsensusState(cur.s) && !st.AllowedConsensus() && cur != first && !cur.enteredNoAllow {
				switch {
				case !cur.notifiedFalse:
					e.vio(map[string]any{"kind": "not-allowed-in-consensus-states-unnotified", "state": c09Short[cur.s]},
						"consensus was disallowed, the machine rests in %s and the handler was never told", cur.name())

					return fail(e.vios[0])
				case hasLoop:
					e.vio(map[string]any{"kind": "not-allowed-but-not-syncing", "state": c09Short[cur.s]},
						"consensus was disallowed, handler %s was told and asked for Syncing, the loop served it, but the machine rests in %s", cur.name(), c09Short[cur.s])

					return fail(e.vios[0])
				}
			}

			return nil
		},
	}
}

func c09Scenarios(thorough bool) []c09scfg {
	var cfgs []c09scfg

	sw := func(f, n StateType) c09op { return c09op{kind: "sw", from: f, next: n} }
	ens := func(f, n StateType) c09op { return c09op{kind: "ens", from: f, next: n} }
	ask := func(f, n StateType) c09op { return c09op{kind: "ask", from: f, next: n} }
	hold := c09op{kind: "hold"}
	allow := func(v bool) c09op { return c09op{kind: "allow", allow: v} }
	loop := func(n int) c09op { return c09op{kind: "loop", n: n} }
	T := func(ops ...c09op) []c09op { return ops }

	type edge struct{ from, a, b StateType }

	edges := []edge{
		{StateBooting, StateJoining, StateSyncing},
		{StateSyncing, StateJoining, StateConsensus},
		{StateConsensus, StateSyncing, StateBroken},
		{StateJoining, StateConsensus, StateSyncing},
		{StateStopped, StateBooting, StateBroken},
		{StateBroken, StateSyncing, StateStopped},
	}

	for _, ed := range edges {
		// the state loop and Hold (the two callers that really run concurrently)
		cfgs = append(cfgs, c09scfg{ed.from, true, [][]c09op{T(ens(ed.from, ed.a)), T(hold)}})
		// two requests with the same origin, directly on the seam
		cfgs = append(cfgs, c09scfg{ed.from, true, [][]c09op{T(sw(ed.from, ed.a)), T(sw(ed.from, ed.b))}})
		cfgs = append(cfgs, c09scfg{ed.from, true, [][]c09op{T(ens(ed.from, ed.a)), T(sw(ed.from, ed.b))}})
		// a chain on the loop, a stale request beside it
		cfgs = append(cfgs, c09scfg{ed.from, true, [][]c09op{T(ens(ed.from, ed.a), ens(ed.a, ed.b)), T(sw(ed.from, ed.b))}})
	}

	// allow / disallow against a request into (or out of) the consensus states
	for _, from := range []StateType{StateBooting, StateSyncing, StateJoining, StateConsensus} {
		for _, next := range []StateType{StateJoining, StateConsensus, StateSyncing} {
			if from == next {
				continue
			}

			cfgs = append(cfgs,
				c09scfg{from, true, [][]c09op{T(ens(from, next)), T(allow(false))}},
				c09scfg{from, false, [][]c09op{T(ens(from, next)), T(allow(true))}},
				c09scfg{from, true, [][]c09op{T(ens(from, next)), T(allow(false), allow(true))}},
				// through AskMoveState and the loop body, handlers reacting to "not allowed"
				c09scfg{from, true, [][]c09op{T(ask(from, next)), T(loop(2)), T(allow(false))}},
			)

			if thorough || (from == StateSyncing && next == StateConsensus) {
				cfgs = append(cfgs,
					c09scfg{from, true, [][]c09op{T(ens(from, next)), T(allow(false)), T(hold)}},
					c09scfg{from, false, [][]c09op{T(ask(from, next)), T(loop(2)), T(allow(true), allow(false))}},
				)
			}
		}
	}

	// Stopped: nothing but Booting/Broken, whatever races
	cfgs = append(cfgs,
		c09scfg{StateStopped, true, [][]c09op{T(ens(StateStopped, StateBooting)), T(sw(StateStopped, StateSyncing))}},
		c09scfg{StateStopped, true, [][]c09op{T(ens(StateStopped, StateBooting)), T(sw(StateBooting, StateStopped)), T(sw(StateStopped, StateJoining))}},
		c09scfg{StateBooting, true, [][]c09op{T(hold), T(ens(StateBooting, StateJoining)), T(sw(StateStopped, StateJoining))}},
	)

	return cfgs
}

func c09PartS(r *vlib.Run) {
	bound := vlib.Pick(r, 1, 2)
	r.Set("s_preemption_bound", bound)

	cfgs := c09Scenarios(r.Thorough())
	r.Set("s_scenarios_enumerated", len(cfgs))

	sh, nsh := r.Shard()

	for _, c := range cfgs {
		c := c
		id := c.id()
		build := func() vsched.Scenario { return c09sBuild(c) }

		if rid, rp := r.Replaying(); rp {
			k := strings.LastIndex(rid, "#")
			if k < 0 || rid[:k] != id {
				continue
			}

			sc := build()
			x := vsched.Run(vsched.Options{Prefix: vsched.ParseChoices(rid[k+1:])}, sc.Roots...)
			r.Trace()

			if f := sc.Check(x); f != nil {
				r.Violation(rid, f.Sig, f.Detail, nil)
			}

			continue
		}

		if r.Expired() {
			continue
		}

		// every shard explores every scenario, each a disjoint set of first-level subtrees
		res := vsched.Explore(vsched.Config{Name: id, Bound: bound, Build: build, Expired: r.Expired, MaxFound: 3, Horizon: 5000,
			Mine: func(l int) bool { return nsh <= 1 || l%nsh == sh }, Secondary: sh != 0})
		if res.EngineError != "" {
			panic("engine error in " + id + ": " + res.EngineError)
		}

		r.TraceN(res.Executions)
		r.TransitionN(res.Points)
		r.EvalN(res.Executions)
		r.Add("s_executions", res.Executions)

		if sh == 0 {
			r.Add("s_scenarios", 1)
		}

		if res.Capped != "" {
			r.Cap(res.Capped + " in " + id)
		} else {
			r.Min("s_preemption_bound_completed", int64(res.BoundCompleted))
		}

		r.Max("s_max_points_per_execution", int64(res.MaxPoints))

		if len(res.Outcomes) > 1 {
			r.Nontrivial(id)
		}

		for o := range res.Outcomes {
			r.State(id + "=>" + o)
			r.Outcome("S:" + o)
		}

		for _, f := range res.Found {
			r.Violation(id+"#"+vsched.ChoicesString(f.Choices), f.Fail.Sig, f.Fail.Detail+fmt.Sprintf(" (preemptions=%d)", f.Preempt), nil)
		}

		if sh == 0 {
			r.Sample(map[string]any{"scenario": id, "executions_of_shard_0": res.Executions, "distinct_outcomes_of_shard_0": len(res.Outcomes)})
		}
	}
}

func TestVerifC09(t *testing.T) {
	r := vlib.Start("C09")
	defer r.Finish()

	r.Rule("part Q: from each of the 14 (current state, allow) roots, Q1 = every single request (ensureSwitchState/switchState over 7x7 (from,next), Hold, SetAllowConsensus true/false followed by the loop serving the notified handler's request) " +
		"with every choice of <= 2 deviating handler answers among the first 4 exit/enter calls (exit: error, ignore; enter: error, redirect to SY/BR/CO/ST/JO, redirect with wrong origin), " +
		"Q2 = every history of D events (<= 2 deviations per path) replayed on a fresh real States; state key = (current, allow, deviations left): the stub handlers are stateless and the brokers nil, so these decide all futures; " +
		"part S: every interleaving within the preemption bound of the listed thread programs on a fresh real States; " +
		"non-trivial = the event changed the current handler or consumed a deviation (Q) / the scenario has more than one outcome (S)")
	r.Assume("handover brokers are nil (no handover under way): requests for Handover are ignored and the only exemption path is starting in Handover")
	r.Assume("stub handlers answer as scripted; a Joining/Consensus stub told 'not allowed' asks for Syncing like the real handlers")
	r.Assume("reported switches are compared as a sequence with the switches made (a report delayed past the next switch but delivered in order is accepted)")

	var item int

	if rid, rp := r.Replaying(); !rp || strings.HasPrefix(rid, "s/") {
		c09PartS(r)
	}

	if rid, rp := r.Replaying(); !rp || strings.HasPrefix(rid, "q") {
		c09PartQ(r, &item)
	}
}
