//go:build verif

package isaacdatabase

import (
	"testing"

	"github.com/spikeekips/mitum/zzverif/vlib"
)

// C23 (height alphabet): the two sequential explorations (c23_test.go: every small
// set, all lookups and remove-by-height; c23_fact_test.go: BFS over set /
// remove-by-height / remove-by-fact histories) repeated with the same small range
// shapes shifted to the byte boundaries of the end height inside the record key
// (c23Bases: 7, 97, 250..258, 509..513, 65533..65537, around 2^24, 2^31, 2^32 and,
// thorough, 2^40, 2^48, 2^56), and the BFS also on universes that mix operations of
// two magnitudes. Same reference model; only the heights differ.
func TestVerifC23Bounds(t *testing.T) {
	r := vlib.Start("C23")
	defer r.Finish()

	if !c23RunSets(t, r, true) {
		return
	}

	c23fRun(t, r, true)
}
