//go:build verif

package isaacdatabase

import (
	"context"
	"fmt"
	"sort"
	"strings"
	"testing"

	"github.com/spikeekips/mitum/base"
	"github.com/spikeekips/mitum/isaac"
	leveldbstorage "github.com/spikeekips/mitum/storage/leveldb"
	"github.com/spikeekips/mitum/util/encoder"
	jsonenc "github.com/spikeekips/mitum/util/encoder/json"
	"github.com/spikeekips/mitum/zzverif/vlib"
	leveldbopt "github.com/syndtr/goleveldb/leveldb/opt"
	goleveldbstorage "github.com/syndtr/goleveldb/leveldb/storage"
	leveldbutil "github.com/syndtr/goleveldb/leveldb/util"
)

// C23: expel-operation pool lookups match the stored ranges.
//
// Exhaustive input enumeration on the REAL TempPool (in-memory leveldb):
// 20 expel operations = nodes {n1,n2} x validity ranges [s,e] within [1..4]
// (10 ranges); every set of at most K of them is stored in a fresh pool; then
// at every height 0..5
//   T  TraverseSuffrageExpelOperations(h)        visited == {op : s <= h <= e}
//   L  SuffrageExpelOperation(h, node)           found  <=> node has an op covering h (node in n1, n2, unknown n3)
//   R  RemoveSuffrageExpelOperationsByHeight(h)  remaining == {op : e > h}  (fresh pool per h), followed by T and L
//                                                 at every height on what is left (history: set*, remove, lookups)
// The reference is a plain list filter written from the statement.

type c23Op struct {
	name       string
	node       int // 0,1
	start, end int64
	op         isaac.SuffrageExpelOperation
	facthash   string
}

type c23Env struct {
	encs    *encoder.Encoders
	enc     encoder.Encoder
	nodes   [3]base.Address
	ops     []c23Op
	byfh    map[string]int
	bases   []int64 // the range shapes [s,e] within [1..4] are shifted by each base (start/end of c23Op are absolute)
	heights []int64 // every queried / removed height: base+0 .. base+5 of every base, ascending
}

// c23Bases is the height alphabet: the same small range shapes shifted so that
// the stored end heights and the queried heights straddle the byte boundaries of
// the 8-byte big-endian end height inside the record key (2^8, 2*2^8, 2^16, 2^24,
// 2^31, 2^32 and, thorough, 2^40, 2^48, 2^56), plus the decimal digit boundaries
// 9/10 and 99/100 (thorough 999/1000, 9999/10000) for anything that orders heights
// by their text.
func c23Bases(thorough bool) []int64 {
	bs := []int64{0, 7, 97}

	for b := int64(250); b <= 258; b++ {
		bs = append(bs, b)
	}

	for b := int64(509); b <= 513; b++ {
		bs = append(bs, b)
	}

	for b := int64(65533); b <= 65537; b++ {
		bs = append(bs, b)
	}

	bs = append(bs, 1<<24-3, 1<<31-3, 1<<32-3)

	if thorough {
		bs = append(bs, 997, 9997, 1<<24-2, 1<<32-2, 1<<40-3, 1<<48-3, 1<<56-3)
	}

	return bs
}

func c23NewEnv(t *testing.T) *c23Env {
	return c23NewEnvAt(t, 0)
}

func c23NewEnvAt(t *testing.T, bases ...int64) *c23Env {
	env := &c23Env{byfh: map[string]int{}, bases: bases}

	for _, b := range bases {
		for h := int64(0); h <= 5; h++ {
			env.heights = append(env.heights, b+h)
		}
	}

	sort.Slice(env.heights, func(i, j int) bool { return env.heights[i] < env.heights[j] })
	env.enc = jsonenc.NewEncoder()
	env.encs = encoder.NewEncoders(env.enc, env.enc)

	for _, d := range []encoder.DecodeDetail{
		{Hint: base.MPublickeyHint, Instance: &base.MPublickey{}},
		{Hint: base.StringAddressHint, Instance: base.StringAddress{}},
		{Hint: isaac.SuffrageExpelFactHint, Instance: isaac.SuffrageExpelFact{}},
		{Hint: isaac.SuffrageExpelOperationHint, Instance: isaac.SuffrageExpelOperation{}},
	} {
		if err := env.encs.AddDetail(d); err != nil {
			t.Fatal(err)
		}
	}

	priv, err := base.NewMPrivatekeyFromSeed("c23-fixed-seed-for-the-signing-node-0123456789")
	if err != nil {
		t.Fatal(err)
	}

	signer := base.NewStringAddress("c23-signer")
	nid := base.NetworkID("c23-network")

	for i := range env.nodes {
		env.nodes[i] = base.NewStringAddress(fmt.Sprintf("c23-node-n%d", i+1))
	}

	for bi, b := range bases {
		for n := 0; n < 2; n++ {
			for s := int64(1); s <= 4; s++ {
				for e := s; e <= 4; e++ {
					fact := isaac.NewSuffrageExpelFact(env.nodes[n], base.Height(b+s), base.Height(b+e), "c23")
					op := isaac.NewSuffrageExpelOperation(fact)

					if err := op.NodeSign(priv, nid, signer); err != nil {
						t.Fatal(err)
					}

					if err := op.IsValid(nid); err != nil {
						t.Fatal(err)
					}

					name := fmt.Sprintf("n%d:%d-%d", n+1, s, e) // relative to the base
					if len(bases) > 1 {
						name += fmt.Sprintf("@%d", bi)
					}

					env.byfh[fact.Hash().String()] = len(env.ops)
					env.ops = append(env.ops, c23Op{
						name: name, node: n, start: b + s, end: b + e, op: op, facthash: fact.Hash().String(),
					})
				}
			}
		}
	}

	return env
}

func (env *c23Env) newPool(set []int) *TempPool {
	st, err := leveldbstorage.NewStorage(goleveldbstorage.NewMemStorage(), &leveldbopt.Options{
		WriteBuffer:        64 * leveldbopt.KiB, // goleveldb allocates the whole write buffer per Open
		BlockCacheCapacity: 64 * leveldbopt.KiB,
	})
	if err != nil {
		panic(err)
	}

	db, err := newTempPool(st, env.encs, env.enc, 0)
	if err != nil {
		panic(err)
	}

	for _, i := range set {
		if err := db.SetSuffrageExpelOperation(env.ops[i].op); err != nil {
			panic(err)
		}
	}

	return db
}

// stored reads the expel records straight from leveldb (ascending key order).
func (env *c23Env) stored(db *TempPool) []int {
	pst, err := db.st()
	if err != nil {
		panic(err)
	}

	var got []int

	if err := pst.Iter(leveldbutil.BytesPrefix(leveldbKeySuffrageExpelOperation[:]), func(_, b []byte) (bool, error) {
		var op base.SuffrageExpelOperation

		enchint, _, body, err := ReadFrameHeaderSuffrageExpelOperation(b)
		if err != nil {
			return false, err
		}

		if err := DecodeFrame(env.encs, enchint, body, &op); err != nil {
			return false, err
		}

		i, ok := env.byfh[op.ExpelFact().Hash().String()]
		if !ok {
			return false, fmt.Errorf("unknown stored expel operation")
		}

		got = append(got, i)

		return true, nil
	}, true); err != nil {
		panic(err)
	}

	return got
}

func (env *c23Env) names(set []int) string {
	s := make([]string, len(set))
	for i := range set {
		s[i] = env.ops[set[i]].name
	}

	return strings.Join(s, "+")
}

func c23Sorted(a []int) []int {
	b := append([]int{}, a...)
	sort.Ints(b)

	return b
}

type c23Check struct {
	r   *vlib.Run
	env *c23Env
}

// lookups runs T and L at every height on db whose content must be `set`.
func (c *c23Check) lookups(db *TempPool, set []int, idprefix string, replay any) {
	r, env := c.r, c.env

	for hi, h := range env.heights {
		var covering []int
		var shadow bool // a non-covering record whose end is not below h (it is met before/among the covering ones in the scan)

		for _, i := range set {
			o := env.ops[i]

			switch {
			case o.start <= h && h <= o.end:
				covering = append(covering, i)
			case o.end >= h:
				shadow = true
			}
		}

		nontrivial := len(covering) > 0 && len(covering) < len(set)

		// ---- T
		if id := fmt.Sprintf("%s/h%d/T", idprefix, hi); r.Want(id) {
			var visited []int
			var unknown int

			err := db.TraverseSuffrageExpelOperations(context.Background(), base.Height(h),
				func(op base.SuffrageExpelOperation) (bool, error) {
					i, ok := env.byfh[op.ExpelFact().Hash().String()]
					if !ok {
						unknown++

						return true, nil
					}

					visited = append(visited, i)

					return true, nil
				})

			r.Eval()
			r.Transition()
			r.Outcome(fmt.Sprintf("traverse:visited=%d", len(visited)))

			if nontrivial {
				r.Nontrivial(id)
			}

			want := fmt.Sprint(c23Sorted(covering))

			switch got := fmt.Sprint(c23Sorted(visited)); {
			case err != nil:
				r.Violation(id, map[string]any{"kind": "error", "call": "TraverseSuffrageExpelOperations"}, err.Error(), replay)
			case unknown > 0:
				r.Violation(id, map[string]any{"kind": "traverse-unknown-operation"}, "visited an operation that was never stored", replay)
			case got != want:
				kind := "traverse-visited-noncovering"
				if len(visited) < len(covering) {
					kind = "traverse-missed-covering"
				}

				r.Violation(id, map[string]any{"kind": kind, "noncovering_with_end_not_below_height": shadow},
					fmt.Sprintf("stored {%s}, traverse at height %d visited {%s}, covering are {%s}",
						env.names(set), h, env.names(visited), env.names(covering)), replay)
			}
		}

		// ---- L
		for n := 0; n < 3; n++ {
			id := fmt.Sprintf("%s/h%d/L%d", idprefix, hi, n+1)
			if !r.Want(id) {
				continue
			}

			var mine []int
			var nodeshadow bool

			for _, i := range set {
				o := env.ops[i]
				if o.node != n {
					continue
				}

				switch {
				case o.start <= h && h <= o.end:
					mine = append(mine, i)
				case o.end >= h:
					nodeshadow = true
				}
			}

			op, found, err := db.SuffrageExpelOperation(base.Height(h), env.nodes[n])

			r.Eval()
			r.Transition()
			r.Outcome(fmt.Sprintf("lookup:found=%v", found))

			if len(mine) > 0 && nodeshadow {
				r.Nontrivial(id)
			}

			switch {
			case err != nil:
				r.Violation(id, map[string]any{"kind": "error", "call": "SuffrageExpelOperation"}, err.Error(), replay)
			case found != (len(mine) > 0):
				kind := "lookup-found-nonexisting"
				if !found {
					kind = "lookup-missed-existing"
				}

				r.Violation(id, map[string]any{"kind": kind, "noncovering_with_end_not_below_height": nodeshadow},
					fmt.Sprintf("stored {%s}, lookup of n%d at height %d: found=%v, covering operations of that node are {%s}",
						env.names(set), n+1, h, found, env.names(mine)), replay)
			case found:
				i, ok := env.byfh[op.ExpelFact().Hash().String()]

				good := false
				for _, j := range mine {
					if ok && i == j {
						good = true
					}
				}

				if !good || !op.ExpelFact().Node().Equal(env.nodes[n]) {
					r.Violation(id, map[string]any{"kind": "lookup-wrong-operation"},
						fmt.Sprintf("stored {%s}, lookup of n%d at height %d returned an operation that does not cover it (known=%v index=%d)",
							env.names(set), n+1, h, ok, i), replay)
				}
			}
		}
	}
}

func TestVerifC23(t *testing.T) {
	r := vlib.Start("C23")
	defer r.Finish()

	c23RunSets(t, r, false)
}

// c23RunSets: bounds=false is the unshifted enumeration (base 0), bounds=true the
// same enumeration at every other base of the height alphabet (unit TestVerifC23Bounds).
func c23RunSets(t *testing.T, r *vlib.Run, bounds bool) bool {
	maxset := vlib.Pick(r, 3, 4)
	orders := vlib.Pick(r, []string{"fwd"}, []string{"fwd", "rev"})

	// the height alphabet: at the shifted bases every set of at most 2 of 6 shapes (quick) / of all 20 (thorough) is stored
	bmaxset := 2
	bshapes := vlib.Pick(r, []string{"n1:1-2", "n1:2-4", "n1:3-3", "n1:4-4", "n2:1-2", "n2:2-3"}, nil)
	borders := orders

	_, replaying := r.Replaying()
	if replaying {
		maxset, orders = 4, []string{"fwd", "rev"} // the recorded case may come from the thorough tier
		bmaxset, bshapes, borders = 4, nil, orders
	}

	bases := []int64{0}
	if bounds {
		bases = c23Bases(r.Thorough() || replaying)[1:]
	}

	if !bounds {
		r.Set("max_set_size", maxset)
		r.Set("heights", "0..5")
		r.Set("insertion_orders", orders)
		r.Rule("every set of at most K of the 20 expel operations (nodes {n1,n2} x ranges [s,e] in [1..4]) is stored in a fresh real TempPool (in ascending and, thorough, descending insertion order); " +
			"at every height 0..5: traverse, lookup of n1/n2/unknown n3, and remove-by-height on a fresh copy followed by traverse/lookup at every height on the rest; " +
			"each (set, order) is a state, each call on the real pool a transition; non-trivial = a traverse/lookup where the stored set holds a covering and a non-covering record")
		r.Assume("leveldb in-memory storage behaves like the on-disk one for single-process sequential use; key order among records with the same end height is the fact-hash order (fixed by the fixed nodes/ranges)")
	} else {
		r.Set("height_bases", bases)
		r.Set("boundary_max_set_size", bmaxset)
	}

	var idx, btotal int // idx: running index over (base, set) for sharding

	stop := false

	for _, b := range bases {
		if stop {
			break
		}

		env := c23NewEnvAt(t, b)
		c := &c23Check{r: r, env: env}

		idprefix, maxset, orders, shapes := "", maxset, orders, []string(nil)
		if b != 0 {
			idprefix, maxset, orders, shapes = fmt.Sprintf("b%d/", b), bmaxset, borders, bshapes

			if !r.WantPrefix(idprefix) {
				continue
			}
		}

		// candidate operations
		var cand []int

		for i := range env.ops {
			ok := len(shapes) < 1

			for _, n := range shapes {
				if env.ops[i].name == n {
					ok = true
				}
			}

			if ok {
				cand = append(cand, i)
			}
		}

		if b == 0 {
			r.Set("operations", len(cand))
		} else {
			r.Set("boundary_operations", len(cand))
		}

		var nsets int

		visit := func(set []int) {
			idx++
			nsets++

			if !r.Mine(idx) || stop {
				return
			}

			if r.Expired() {
				stop = true

				return
			}

			setid := idprefix + "{" + env.names(set) + "}"

			for _, ord := range orders {
				prefix := setid + "/" + ord
				if !r.WantPrefix(prefix + "/") {
					continue
				}

				ins := append([]int{}, set...)
				if ord == "rev" {
					for i, j := 0, len(ins)-1; i < j; i, j = i+1, j-1 {
						ins[i], ins[j] = ins[j], ins[i]
					}
				}

				replay := map[string]any{"set": env.names(set), "order": ord, "base": b}

				r.State(prefix)

				// stored content must be the set
				db := env.newPool(ins)
				r.Trace()

				if got := fmt.Sprint(c23Sorted(env.stored(db))); got != fmt.Sprint(c23Sorted(set)) && r.Want(prefix+"/stored") {
					r.Violation(prefix+"/stored", map[string]any{"kind": "set-lost-or-duplicated"},
						fmt.Sprintf("stored {%s}, leveldb holds %s", env.names(set), got), replay)
				}

				c.lookups(db, set, prefix, replay)

				if err := db.DeepClose(); err != nil {
					panic(err)
				}

				// remove by height, on a fresh copy per height
				for hi, h := range env.heights {
					rprefix := fmt.Sprintf("%s/R%d", prefix, hi)
					if !r.WantPrefix(rprefix) {
						continue
					}

					db := env.newPool(ins)
					r.Trace()

					var left []int
					for _, i := range set {
						if env.ops[i].end > h {
							left = append(left, i)
						}
					}

					err := db.RemoveSuffrageExpelOperationsByHeight(base.Height(h))

					r.Eval()
					r.Transition()
					r.Outcome(fmt.Sprintf("remove:removed=%d", len(set)-len(left)))

					if len(left) > 0 && len(left) < len(set) {
						r.Nontrivial(rprefix)
					}

					got := env.stored(db)

					if r.Want(rprefix) {
						switch {
						case err != nil:
							r.Violation(rprefix, map[string]any{"kind": "error", "call": "RemoveSuffrageExpelOperationsByHeight"}, err.Error(), replay)
						case fmt.Sprint(c23Sorted(got)) != fmt.Sprint(c23Sorted(left)):
							what := "removed-not-ended"
							if len(got) > len(left) {
								what = "kept-ended"
							}

							r.Violation(rprefix, map[string]any{"kind": "remove-by-height-wrong", "what": what},
								fmt.Sprintf("base %d: stored {%s}, remove by height %d left {%s}, expected {%s} (end > height)",
									b, env.names(set), h, env.names(got), env.names(left)), replay)
						}
					}

					// history: lookups after the removal see exactly what is left
					c.lookups(db, c23Sorted(got), rprefix, replay)

					if err := db.DeepClose(); err != nil {
						panic(err)
					}
				}
			}

			if b == 0 && idx <= 60 && len(set) == 2 {
				r.Sample(map[string]any{"set": env.names(set), "checked": "T,L1..L3 at h=0..5; R0..R5 then T,L at h=0..5"})
			}
		}

		var rec func(start int, cur []int)

		rec = func(start int, cur []int) {
			visit(cur)

			if len(cur) == maxset {
				return
			}

			for i := start; i < len(cand); i++ {
				rec(i+1, append(append([]int{}, cur...), cand[i]))
			}
		}

		rec(0, nil)

		if b == 0 {
			r.Set("sets_enumerated", nsets)
		} else {
			btotal += nsets
		}
	}

	if bounds {
		r.Set("boundary_sets_enumerated", btotal)
	}

	return !stop
}
