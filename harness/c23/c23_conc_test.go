//go:build verif

package isaacdatabase

import (
	"context"
	"fmt"
	"os"
	"sort"
	"strings"
	"testing"

	"github.com/spikeekips/mitum/base"
	"github.com/spikeekips/mitum/isaac"
	"github.com/spikeekips/mitum/zzverif/vlib"
	"github.com/spikeekips/mitum/zzverif/vsched"
	leveldbutil "github.com/syndtr/goleveldb/leveldb/util"
)

// C23 (concurrent half, engine S): the expel-operation pool under concurrent
// callers.
//
// 2-3 threads x 1-2 calls of SetSuffrageExpelOperation / SuffrageExpelOperation /
// TraverseSuffrageExpelOperations / RemoveSuffrageExpelOperationsByFact /
// RemoveSuffrageExpelOperationsByHeight on a REAL TempPool (in-memory leveldb)
// under the controlled scheduler: every interleaving within the preemption
// bound. storage/leveldb/db.go is instrumented, so every leveldb Iter / Put /
// Write of the pool is preceded by a scheduling point (the storage's RLock);
// goleveldb itself runs as an atomic step of the calling thread.
//
// Oracle (the sequential reference of c23_test.go, lifted to histories):
//   - the recorded call/return history is linearizable (brute force over all
//     total orders consistent with real time, <= 6 calls) against the model
//     "stored = map fact -> operation; traverse(h) = the stored operations whose
//     range covers h; lookup(h, node) = one of the node's operations covering h,
//     none exactly when there is none; remove-by-height(h) removes exactly the
//     operations with end <= h; remove-by-fact removes exactly the listed facts";
//   - the leveldb records at quiescence equal the model state of that order;
//   - no reader that starts after a remover returned sees an entry that remover
//     removed, unless a setter of it could have run after the remover.
//
// The fixtures (c23Env: nodes, the 20 signed operations) are the ones of the
// sequential half (c23_test.go); this file uses prefix c23c.

type c23cOp struct {
	kind  string   // S RF RH T TP L
	names []string // S: one operation name (suffix ' = the same fact signed by one more node); RF: the facts
	h     int64    // RH T TP L
	node  int      // L
}

func (o c23cOp) String() string {
	switch o.kind {
	case "S":
		return "S(" + o.names[0] + ")"
	case "RF":
		return "RF(" + strings.Join(o.names, "+") + ")"
	case "RH":
		return fmt.Sprintf("RH(%d)", o.h)
	case "T", "TP":
		return fmt.Sprintf("%s(%d)", o.kind, o.h)
	case "L":
		return fmt.Sprintf("L(%d,n%d)", o.h, o.node+1)
	}

	panic("unknown op " + o.kind)
}

type c23cEvent struct {
	thread    int
	op        c23cOp
	call, ret int
	res       string
}

type c23cScenario struct {
	name    string
	init    []string // operation names stored before the threads start
	threads [][]c23cOp
}

func (s c23cScenario) id() string {
	var ts []string

	for _, t := range s.threads {
		var xs []string
		for _, o := range t {
			xs = append(xs, o.String())
		}

		ts = append(ts, strings.Join(xs, ","))
	}

	return fmt.Sprintf("%s|init=%s|%s", s.name, strings.Join(s.init, "+"), strings.Join(ts, " || "))
}

// ---- fixtures on top of c23Env

type c23cEnv struct {
	*c23Env
	byname map[string]int
	alt    map[int]isaac.SuffrageExpelOperation // the same fact signed by one more node (what SuffrageVoting.merge stores)
	byhash map[string]string                    // operation hash -> name (with ' for the re-signed one)
}

func c23cNewEnv(t *testing.T) *c23cEnv {
	env := &c23cEnv{c23Env: c23NewEnv(t), byname: map[string]int{}, alt: map[int]isaac.SuffrageExpelOperation{}, byhash: map[string]string{}}

	priv2, err := base.NewMPrivatekeyFromSeed("c23-fixed-seed-for-the-second-signing-node-0123456789")
	if err != nil {
		t.Fatal(err)
	}

	nid := base.NetworkID("c23-network")
	signer2 := base.NewStringAddress("c23-signer-2")

	for i := range env.ops {
		o := env.ops[i]
		env.byname[o.name] = i
		env.byhash[o.op.Hash().String()] = o.name

		alt := o.op // value copy; AddNodeSigns builds a new sign slice
		if err := alt.NodeSign(priv2, nid, signer2); err != nil {
			t.Fatal(err)
		}

		if err := alt.IsValid(nid); err != nil {
			t.Fatal(err)
		}

		if alt.Hash().Equal(o.op.Hash()) || len(o.op.NodeSigns()) != 1 || len(alt.NodeSigns()) != 2 {
			t.Fatal("re-signed operation is not distinguishable")
		}

		env.alt[i] = alt
		env.byhash[alt.Hash().String()] = o.name + "'"
	}

	return env
}

func (env *c23cEnv) index(name string) (int, bool) {
	alt := strings.HasSuffix(name, "'")

	i, ok := env.byname[strings.TrimSuffix(name, "'")]
	if !ok {
		panic("unknown operation " + name)
	}

	return i, alt
}

func (env *c23cEnv) opOf(name string) base.SuffrageExpelOperation {
	i, alt := env.index(name)
	if alt {
		return env.alt[i]
	}

	return env.ops[i].op
}

func (env *c23cEnv) nameOf(op base.SuffrageExpelOperation) string {
	if n, ok := env.byhash[op.Hash().String()]; ok {
		return n
	}

	return "foreign"
}

// ---- the sequential specification

const c23cMaxEvents = 8

type c23cModel struct {
	set  uint32                // stored facts
	alt  uint32                // of those, the ones holding the re-signed operation
	pend [c23cMaxEvents]uint32 // split model only: what a remove-by-height scan saw
}

func (env *c23cEnv) modelNames(m c23cModel, mask uint32) []string {
	var xs []string

	for i := range env.ops {
		if m.set&mask&(1<<i) == 0 {
			continue
		}

		n := env.ops[i].name
		if m.alt&(1<<i) != 0 {
			n += "'"
		}

		xs = append(xs, n)
	}

	sort.Strings(xs)

	return xs
}

func (env *c23cEnv) covering(h int64, node int) uint32 {
	var m uint32

	for i, o := range env.ops {
		if o.start <= h && h <= o.end && (node < 0 || o.node == node) {
			m |= 1 << i
		}
	}

	return m
}

func (env *c23cEnv) ended(h int64) uint32 {
	var m uint32

	for i, o := range env.ops {
		if o.end <= h {
			m |= 1 << i
		}
	}

	return m
}

func (env *c23cEnv) factmask(names []string) uint32 {
	var m uint32

	for _, n := range names {
		i, _ := env.index(n)
		m |= 1 << i
	}

	return m
}

// a linearization step: kind is the op kind, or "RHs"/"RHd" (scan / delete half
// of a remove-by-height in the split model used for the cause analysis only).
type c23cStep struct {
	kind      string
	ev        int // index of the event
	call, ret int
	after     int // index of the step that must precede (-1 = none)
}

func (env *c23cEnv) apply(m c23cModel, kind string, ev int, e c23cEvent) (c23cModel, bool) {
	o := e.op

	switch kind {
	case "S":
		i, alt := env.index(o.names[0])
		m.set |= 1 << i
		m.alt &^= 1 << i

		if alt {
			m.alt |= 1 << i
		}

		return m, e.res == "ok"
	case "RF":
		m.set &^= env.factmask(o.names)
		m.alt &= m.set

		return m, e.res == "ok"
	case "RH":
		m.set &^= env.ended(o.h)
		m.alt &= m.set

		return m, e.res == "ok"
	case "RHs":
		m.pend[ev] = m.set & env.ended(o.h)

		return m, true
	case "RHd":
		m.set &^= m.pend[ev]
		m.alt &= m.set
		m.pend[ev] = 0

		return m, e.res == "ok"
	case "T", "TP":
		return m, e.res == strings.Join(env.modelNames(m, env.covering(o.h, -1)), "+")
	case "L":
		mine := env.modelNames(m, env.covering(o.h, o.node))
		if len(mine) < 1 {
			return m, e.res == "none"
		}

		for _, n := range mine {
			if n == e.res {
				return m, true
			}
		}

		return m, false
	}

	panic("unknown step " + kind)
}

func (env *c23cEnv) final(m c23cModel) string {
	return "{" + strings.Join(env.modelNames(m, ^uint32(0)), "+") + "}"
}

// c23cLinearizable: brute force over all total orders consistent with real time.
func (env *c23cEnv) linearizable(init c23cModel, evs []c23cEvent, steps []c23cStep, final string) bool {
	n := len(steps)
	used := make([]bool, n)

	var rec func(md c23cModel, done int) bool

	rec = func(md c23cModel, done int) bool {
		if done == n {
			return env.final(md) == final
		}

		for i := 0; i < n; i++ {
			if used[i] || (steps[i].after >= 0 && !used[steps[i].after]) {
				continue
			}

			// i may go next only if no unused step returned before i was called
			ok := true

			for j := 0; j < n; j++ {
				if j != i && !used[j] && steps[j].ret < steps[i].call {
					ok = false

					break
				}
			}

			if !ok {
				continue
			}

			next, allowed := env.apply(md, steps[i].kind, steps[i].ev, evs[steps[i].ev])
			if !allowed {
				continue
			}

			used[i] = true
			found := rec(next, done+1)
			used[i] = false

			if found {
				return true
			}
		}

		return false
	}

	return rec(init, 0)
}

func c23cSteps(evs []c23cEvent, split bool) []c23cStep {
	var steps []c23cStep

	for i, e := range evs {
		if split && e.op.kind == "RH" {
			steps = append(steps, c23cStep{kind: "RHs", ev: i, call: e.call, ret: e.ret, after: -1})
			steps = append(steps, c23cStep{kind: "RHd", ev: i, call: e.call, ret: e.ret, after: len(steps) - 1})

			continue
		}

		steps = append(steps, c23cStep{kind: e.op.kind, ev: i, call: e.call, ret: e.ret, after: -1})
	}

	return steps
}

// ---- running the real pool

func c23cDo(env *c23cEnv, db *TempPool, o c23cOp) string {
	switch o.kind {
	case "S":
		if err := db.SetSuffrageExpelOperation(env.opOf(o.names[0])); err != nil {
			return "error:" + err.Error()
		}

		return "ok"
	case "RF":
		facts := make([]base.SuffrageExpelFact, len(o.names))
		for i, n := range o.names {
			facts[i] = env.opOf(n).ExpelFact()
		}

		if err := db.RemoveSuffrageExpelOperationsByFact(facts); err != nil {
			return "error:" + err.Error()
		}

		return "ok"
	case "RH":
		if err := db.RemoveSuffrageExpelOperationsByHeight(base.Height(o.h)); err != nil {
			return "error:" + err.Error()
		}

		return "ok"
	case "T", "TP":
		var visited []string

		if err := db.TraverseSuffrageExpelOperations(context.Background(), base.Height(o.h),
			func(op base.SuffrageExpelOperation) (bool, error) {
				if o.kind == "TP" { // a callback that synchronises with somebody else (SuffrageVoting.Find's callback asks the suffrage)
					vsched.Point("traverse-callback", nil)
				}

				visited = append(visited, env.nameOf(op))

				return true, nil
			}); err != nil {
			return "error:" + err.Error()
		}

		sort.Strings(visited)

		return strings.Join(visited, "+")
	case "L":
		switch op, found, err := db.SuffrageExpelOperation(base.Height(o.h), env.nodes[o.node]); {
		case err != nil:
			return "error:" + err.Error()
		case !found:
			return "none"
		default:
			return env.nameOf(op)
		}
	}

	panic("unknown op " + o.kind)
}

// c23cStored reads the expel records straight from leveldb.
func c23cStored(env *c23cEnv, db *TempPool) string {
	pst, err := db.st()
	if err != nil {
		panic(err)
	}

	var got []string

	if err := pst.Iter(leveldbutil.BytesPrefix(leveldbKeySuffrageExpelOperation[:]), func(_, b []byte) (bool, error) {
		var op base.SuffrageExpelOperation

		enchint, _, body, err := ReadFrameHeaderSuffrageExpelOperation(b)
		if err != nil {
			return false, err
		}

		if err := DecodeFrame(env.encs, enchint, body, &op); err != nil {
			return false, err
		}

		got = append(got, env.nameOf(op))

		return true, nil
	}, true); err != nil {
		panic(err)
	}

	sort.Strings(got)

	return "{" + strings.Join(got, "+") + "}"
}

func c23cKinds(s c23cScenario) string {
	seen := map[string]bool{}

	for _, t := range s.threads {
		for _, o := range t {
			k := o.kind
			if k == "TP" {
				k = "T"
			}

			seen[k] = true
		}
	}

	var ks []string
	for k := range seen {
		ks = append(ks, k)
	}

	sort.Strings(ks)

	return strings.Join(ks, "+")
}

func c23cBuild(env *c23cEnv, s c23cScenario) vsched.Scenario {
	db := env.newPool(nil)

	var initm c23cModel

	for _, n := range s.init {
		if res := c23cDo(env, db, c23cOp{kind: "S", names: []string{n}}); res != "ok" {
			panic("init " + n + " -> " + res)
		}

		initm, _ = env.apply(initm, "S", 0, c23cEvent{op: c23cOp{kind: "S", names: []string{n}}, res: "ok"})
	}

	var evs []c23cEvent
	var clock int

	tick := func() int { clock++; return clock }

	var roots []func()

	for ti, ops := range s.threads {
		ti, ops := ti, ops

		roots = append(roots, func() {
			for _, o := range ops {
				call := tick()
				res := c23cDo(env, db, o)
				evs = append(evs, c23cEvent{thread: ti, op: o, call: call, ret: tick(), res: res})
			}
		})
	}

	hist := func() string {
		sorted := append([]c23cEvent{}, evs...)
		sort.Slice(sorted, func(i, j int) bool { return sorted[i].call < sorted[j].call })

		var sb strings.Builder
		for _, e := range sorted {
			fmt.Fprintf(&sb, "T%d %s -> %q [call %d ret %d]; ", e.thread, e.op, e.res, e.call, e.ret)
		}

		return sb.String()
	}

	var fin string // leveldb records at quiescence; read by Check (which runs first and closes the pool)

	return vsched.Scenario{
		Roots: roots,
		Outcome: func(*vsched.Exec) string {
			sorted := append([]c23cEvent{}, evs...)
			sort.Slice(sorted, func(i, j int) bool {
				if sorted[i].thread != sorted[j].thread {
					return sorted[i].thread < sorted[j].thread
				}

				return sorted[i].call < sorted[j].call
			})

			var xs []string
			for _, e := range sorted {
				xs = append(xs, e.res)
			}

			return strings.Join(xs, ",") + "=>" + fin
		},
		Check: func(x *vsched.Exec) *vsched.Fail {
			defer func() { _ = db.DeepClose() }()

			fin = c23cStored(env, db)

			kinds := c23cKinds(s)

			if x.Panic != nil {
				return &vsched.Fail{Sig: map[string]any{"kind": "panic", "half": "concurrent", "ops": kinds}, Detail: fmt.Sprintf("%v\n%s", x.Panic, x.PanicStack)}
			}

			if x.Deadlock {
				return &vsched.Fail{Sig: map[string]any{"kind": "deadlock", "half": "concurrent", "ops": kinds}, Detail: strings.Join(x.Blocked, ";")}
			}

			if len(evs) > c23cMaxEvents {
				panic("too many events")
			}

			for _, e := range evs {
				if strings.HasPrefix(e.res, "error:") || strings.Contains(e.res, "foreign") {
					return &vsched.Fail{Sig: map[string]any{"kind": "bad-result", "half": "concurrent", "op": e.op.kind},
						Detail: s.id() + ": " + hist()}
				}
			}

			// a reader that started after a remover returned must not see what that remover removed,
			// unless a setter of the same fact may have taken effect after the remover
			for _, rd := range evs {
				if rd.op.kind != "T" && rd.op.kind != "TP" && rd.op.kind != "L" || rd.res == "" || rd.res == "none" {
					continue
				}

				for _, name := range strings.Split(rd.res, "+") {
					i, _ := env.index(name)

					for _, rm := range evs {
						var removes bool

						switch rm.op.kind {
						case "RF":
							removes = env.factmask(rm.op.names)&(1<<i) != 0
						case "RH":
							removes = env.ended(rm.op.h)&(1<<i) != 0
						}

						if !removes || rm.ret > rd.call {
							continue
						}

						var readded bool

						for _, st := range evs {
							if st.op.kind == "S" && env.factmask(st.op.names) == 1<<i && st.ret > rm.call {
								readded = true
							}
						}

						if !readded {
							return &vsched.Fail{
								Sig: map[string]any{"kind": "removed-entry-returned", "half": "concurrent", "remover": rm.op.kind, "reader": rd.op.kind},
								Detail: fmt.Sprintf("%s returned %s although %s had returned before it was called and no setter could have re-added it: %s final leveldb records %s | scenario %s",
									rd.op, name, rm.op, hist(), fin, s.id()),
							}
						}
					}
				}
			}

			if env.linearizable(initm, evs, c23cSteps(evs, false), fin) {
				return nil
			}

			// cause analysis: is the history explained by a remove-by-height that scans (snapshot) and deletes
			// what it saw in a later, separate step - everything else being atomic?
			cause := "other"
			if env.linearizable(initm, evs, c23cSteps(evs, true), fin) {
				cause = "remove-by-height-scan-then-delete-not-atomic"
			}

			return &vsched.Fail{
				Sig: map[string]any{"kind": "not-linearizable", "half": "concurrent", "cause": cause, "ops": kinds},
				Detail: fmt.Sprintf("no linearization against the stored-ranges model (%s): %s final leveldb records %s | scenario %s",
					cause, hist(), fin, s.id()),
			}
		},
	}
}

func c23cScenarios() []c23cScenario {
	set := func(n string) c23cOp { return c23cOp{kind: "S", names: []string{n}} }
	rf := func(ns ...string) c23cOp { return c23cOp{kind: "RF", names: ns} }
	rh := func(h int64) c23cOp { return c23cOp{kind: "RH", h: h} }
	tr := func(h int64) c23cOp { return c23cOp{kind: "T", h: h} }
	tp := func(h int64) c23cOp { return c23cOp{kind: "TP", h: h} }
	lk := func(h int64, node int) c23cOp { return c23cOp{kind: "L", h: h, node: node} }

	// n1 ranges: A ends at 2, B covers 2..4, D only 3, E only 1, F not started before 3; n2: C ends at 2, G covers 2..3
	const A, A2, B, D, E, F, C, G = "n1:1-2", "n1:1-2'", "n1:2-4", "n1:3-3", "n1:1-1", "n1:3-4", "n2:1-2", "n2:2-3"

	type T = [][]c23cOp

	return []c23cScenario{
		// setters of one node with different ranges, readers
		{"two-setters-traverser", nil, T{{set(A)}, {set(B)}, {tr(2), tr(2)}}},
		{"two-setters-read-back", nil, T{{set(A), lk(2, 0)}, {set(B), lk(2, 0)}}},
		{"two-setters-lookup-not-started", []string{F}, T{{set(A)}, {set(B)}, {lk(2, 0), lk(1, 0)}}},
		{"same-fact-resigned", nil, T{{set(A)}, {set(A2)}, {lk(1, 0), tr(2)}}},
		{"resign-stored-traversers", []string{A, C}, T{{set(A2)}, {tr(1), tr(1)}, {lk(2, 0)}}},

		// remove by height
		{"setter-remover-h-traverser", []string{A}, T{{set(E)}, {rh(2)}, {tr(1)}}},
		{"setter-remover-h-two-traverses", []string{A, B}, T{{set(C)}, {rh(2)}, {tr(2), tr(2)}}},
		{"setters-remover-h", []string{A, B}, T{{set(D)}, {set(E)}, {rh(2)}}},
		{"remover-h-readers", []string{A, C, B}, T{{rh(2)}, {tr(2), lk(1, 1)}}},
		{"remover-h-lookups", []string{A, C, G}, T{{rh(2)}, {lk(2, 0), lk(2, 1)}, {lk(2, 1), lk(2, 0)}}},
		{"remover-h-readd-traverser", []string{A}, T{{rh(2)}, {set(A2)}, {tr(2)}}},
		{"two-removers-h", []string{A, B, D}, T{{rh(2)}, {rh(3)}, {tr(2), tr(3)}}},
		{"remover-h-after-set", nil, T{{set(A), rh(2)}, {set(C), tr(2)}}},

		// remove by fact
		{"remover-f-readd-traverser", []string{A, B}, T{{rf(A), set(A)}, {tr(2), tr(2)}}},
		{"remover-f-many-readers", []string{A, B, C}, T{{rf(A, C)}, {tr(2)}, {lk(2, 1), lk(1, 0)}}},
		{"setter-remover-f-lookups", nil, T{{set(A)}, {rf(A)}, {lk(2, 0), lk(2, 0)}}},
		{"remover-f-resign", []string{A}, T{{rf(A)}, {set(A2)}, {tr(1), lk(1, 0)}}},
		{"two-removers-f", []string{A, B, C}, T{{rf(A, B)}, {rf(B, C)}, {tr(2), tr(2)}}},
		{"remover-f-unknown-fact", []string{A}, T{{rf(C, D)}, {set(C)}, {tr(2)}}},

		// both removers
		{"removers-h-f-setter", []string{A, B}, T{{rh(2)}, {rf(B)}, {set(A), tr(2)}}},
		{"removers-h-f-same-entry", []string{A, C}, T{{rh(2)}, {rf(A), set(A)}, {tr(2)}}},

		// a traverse whose callback yields
		{"yielding-traverse-remover-f-setter", []string{A, B}, T{{tp(2)}, {rf(A)}, {set(C)}}},
		{"yielding-traverse-remover-h", []string{A, B, C}, T{{tp(2)}, {rh(2), tr(2)}}},
	}
}

func TestVerifC23Conc(t *testing.T) {
	r := vlib.Start("C23")
	defer r.Finish()

	r.Rule("concurrent half: scenario = 2-3 threads x 1-2 calls of Set / lookup / traverse / remove-by-fact / remove-by-height of expel operations on a fresh real TempPool; " +
		"all interleavings within the preemption bound (scheduling point before every leveldb access of the pool); oracle = linearizability of the call/return history against the stored-ranges model incl. the final leveldb records; " +
		"states = distinct (scenario, outcome); non-trivial = a scenario with more than one outcome")

	bound := vlib.Pick(r, 2, 3)
	if v := os.Getenv("VERIF_C23C_BOUND"); v != "" { // tuning aid only; never set by run.sh
		fmt.Sscanf(v, "%d", &bound)
	}

	r.Set("conc_preemption_bound", bound)

	env := c23cNewEnv(t)
	scs := c23cScenarios()
	r.Set("conc_scenarios_enumerated", len(scs))

	for i, s := range scs {
		if !r.Mine(i) || r.Expired() {
			continue
		}

		s := s
		id := "conc/" + s.id()

		n := 0
		for _, th := range s.threads {
			n += len(th)
		}

		if n > 6 {
			panic("scenario with more than 6 calls: " + id)
		}

		build := func() vsched.Scenario { return c23cBuild(env, s) }

		if rid, rp := r.Replaying(); rp {
			k := strings.LastIndex(rid, "#")
			if k < 0 || rid[:k] != id {
				continue
			}

			sc := build()
			x := vsched.Run(vsched.Options{Prefix: vsched.ParseChoices(rid[k+1:])}, sc.Roots...)
			r.Trace()

			if f := sc.Check(x); f != nil {
				r.Violation(rid, f.Sig, f.Detail, nil)
			}

			continue
		}

		res := vsched.Explore(vsched.Config{Name: id, Bound: bound, Build: build, Expired: r.Expired, MaxFound: 2, Horizon: 5000})
		if res.EngineError != "" {
			panic("engine error in " + id + ": " + res.EngineError)
		}

		r.TraceN(res.Executions)
		r.TransitionN(res.Points)
		r.EvalN(res.Executions)
		r.Add("conc_scenarios", 1)
		r.Add("conc_executions", res.Executions)

		if res.Capped != "" {
			r.Cap(res.Capped)
		} else {
			r.Min("conc_preemption_bound_completed", int64(res.BoundCompleted))
		}

		r.Max("conc_max_points_per_execution", int64(res.MaxPoints))

		if len(res.Outcomes) > 1 {
			r.Nontrivial(id)
		}

		for o := range res.Outcomes {
			r.State(id + "=>" + o)
			r.Outcome("conc:" + s.name + ":" + strings.SplitN(o, "=>", 2)[0])
		}

		for _, f := range res.Found {
			r.Violation(id+"#"+vsched.ChoicesString(f.Choices), f.Fail.Sig, f.Fail.Detail+fmt.Sprintf(" (preemptions=%d)", f.Preempt), nil)
		}

		r.Sample(map[string]any{"scenario": id, "executions": res.Executions, "distinct_outcomes": len(res.Outcomes), "max_points": res.MaxPoints})
	}
}
