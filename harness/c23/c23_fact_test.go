//go:build verif

package isaacdatabase

import (
	"fmt"
	"strings"
	"testing"

	"github.com/spikeekips/mitum/base"
	"github.com/spikeekips/mitum/zzverif/vlib"
)

// C23 (sequential history half): explicit-state BFS over histories of
//
//	S(op)    SetSuffrageExpelOperation
//	RH(h)    RemoveSuffrageExpelOperationsByHeight
//	RF(F)    RemoveSuffrageExpelOperationsByFact      <- not driven by c23_test.go
//
// on the REAL TempPool (in-memory leveldb). A state is reached by replaying its
// (first found, shortest) history on a fresh pool and applying one more event;
// after every transition the leveldb records must equal the model (a set of
// facts: S adds, RH removes end <= h, RF removes exactly the listed facts and
// nothing else) and traverse / lookup at every height 0..5 must answer from that
// set (the c23Check.lookups oracle of c23_test.go).
//
// Canonical state = the sorted set of stored facts. Merged states have equal
// futures: a record is keyed by its fact (end height + fact hash) and every
// operation of the universe has fixed bytes, so two histories leaving the same
// set of facts leave byte-identical leveldb content under the expel prefix.
//
// Sharding: every shard walks the same BFS over the model (cheap); transition k
// is executed on the real pool by the shard that owns k. Because every executed
// transition is compared with the model, "discovered by the model" and
// "discovered by the real pool" coincide whenever no violation is reported.

type c23fEvent struct {
	kind  string // S RH RF
	ops   []int  // S: one; RF: the facts (indexes into env.ops)
	h     int64
	label string
}

func c23fApply(env *c23Env, set uint32, ev c23fEvent) uint32 {
	switch ev.kind {
	case "S":
		return set | 1<<ev.ops[0]
	case "RH":
		for i, o := range env.ops {
			if o.end <= ev.h {
				set &^= 1 << i
			}
		}

		return set
	case "RF":
		for _, i := range ev.ops {
			set &^= 1 << i
		}

		return set
	}

	panic("unknown event " + ev.kind)
}

func c23fDo(env *c23Env, db *TempPool, ev c23fEvent) error {
	switch ev.kind {
	case "S":
		return db.SetSuffrageExpelOperation(env.ops[ev.ops[0]].op)
	case "RH":
		return db.RemoveSuffrageExpelOperationsByHeight(base.Height(ev.h))
	case "RF":
		facts := make([]base.SuffrageExpelFact, len(ev.ops))
		for i, j := range ev.ops {
			facts[i] = env.ops[j].op.ExpelFact()
		}

		return db.RemoveSuffrageExpelOperationsByFact(facts)
	}

	panic("unknown event " + ev.kind)
}

func c23fMembers(set uint32) []int {
	var xs []int

	for i := 0; i < 32; i++ {
		if set&(1<<i) != 0 {
			xs = append(xs, i)
		}
	}

	return xs
}

func TestVerifC23Fact(t *testing.T) {
	r := vlib.Start("C23")
	defer r.Finish()

	env := c23NewEnv(t)
	c := &c23Check{r: r, env: env}

	byname := map[string]int{}
	for i := range env.ops {
		byname[env.ops[i].name] = i
	}

	// the universe of storable operations; `foreign` facts are only ever removed, never stored
	universe := vlib.Pick(r,
		[]string{"n1:1-1", "n1:1-2", "n1:2-4", "n1:3-3", "n2:1-2", "n2:2-3", "n2:4-4"},
		[]string{"n1:1-1", "n1:1-2", "n1:2-2", "n1:2-4", "n1:3-3", "n1:3-4", "n2:1-2", "n2:2-3", "n2:2-2", "n2:4-4"})
	foreign := []string{"n2:1-1", "n1:1-4"}

	if _, replaying := r.Replaying(); replaying { // the recorded case names the universe it was found in
		var rd struct {
			Universe []string `json:"universe"`
		}

		if err := r.ReplayData(&rd); err == nil && len(rd.Universe) > 0 {
			universe = rd.Universe
		}
	}

	var U []int
	for _, n := range universe {
		U = append(U, byname[n])
	}

	names := func(xs []int) string { return env.names(xs) }

	// ---- the event menu
	var menu []c23fEvent

	for _, i := range U {
		menu = append(menu, c23fEvent{kind: "S", ops: []int{i}, label: "S(" + env.ops[i].name + ")"})
	}

	for h := int64(0); h <= 5; h++ {
		menu = append(menu, c23fEvent{kind: "RH", h: h, label: fmt.Sprintf("RH(%d)", h)})
	}

	rf := func(xs ...int) {
		menu = append(menu, c23fEvent{kind: "RF", ops: xs, label: "RF(" + names(xs) + ")"})
	}

	rf() // empty list

	for _, i := range U {
		rf(i)
	}

	for a := 0; a < len(U); a++ {
		for b := a + 1; b < len(U); b++ {
			rf(U[a], U[b])
		}
	}

	rf(U...)                                   // everything
	rf(byname[foreign[0]])                     // a fact that was never stored
	rf(byname[foreign[0]], byname[foreign[1]]) // two of them
	rf(U[1], byname[foreign[0]])               // stored + never stored
	rf(U[1], U[1])                             // the same fact twice
	rf(U[len(U)-1], U[0], byname[foreign[1]])  // three, unordered

	r.Set("fact_bfs_universe", universe)
	r.Set("fact_bfs_menu", len(menu))

	type node struct {
		set  uint32
		hist []int // event indexes
	}

	histid := func(hist []int) string {
		xs := make([]string, len(hist))
		for i, e := range hist {
			xs[i] = menu[e].label
		}

		return "factbfs/" + strings.Join(xs, "/")
	}

	seen := map[uint32]bool{0: true}
	frontier := []node{{set: 0}}

	if r.Mine(0) {
		r.State("factbfs:{}")
	}

	var k, depth int // k: running transition index (sharding)

	for len(frontier) > 0 {
		depth++

		var next []node

		for _, nd := range frontier {
			for ei, ev := range menu {
				k++

				want := c23fApply(env, nd.set, ev)
				hist := append(append([]int{}, nd.hist...), ei)

				isnew := !seen[want]
				if isnew {
					seen[want] = true

					next = append(next, node{set: want, hist: hist})
				}

				if !r.Mine(k) {
					continue
				}

				if r.Expired() {
					r.Cap("internal deadline in the remove-by-fact BFS")

					return
				}

				id := histid(hist)
				if !r.WantPrefix(id) {
					continue
				}

				if isnew {
					r.State("factbfs:{" + names(c23fMembers(want)) + "}")
				}

				// replay the history on a fresh real pool, then the event
				db := env.newPool(nil)
				r.Trace()

				for _, e := range nd.hist {
					if err := c23fDo(env, db, menu[e]); err != nil {
						panic(err)
					}
				}

				if got := fmt.Sprint(c23Sorted(env.stored(db))); got != fmt.Sprint(c23fMembers(nd.set)) {
					// the prefix was checked as a transition of its own by its owner; do not report it twice
					_ = db.DeepClose()

					continue
				}

				err := c23fDo(env, db, ev)

				r.Eval()
				r.Transition()

				got := c23Sorted(env.stored(db))
				wantl := c23fMembers(want)
				before := c23fMembers(nd.set)

				r.Outcome(fmt.Sprintf("bfs:%s:changed=%d", ev.kind, len(before)-len(got)))

				if ev.kind == "RF" && len(wantl) > 0 && len(wantl) < len(before) {
					r.Nontrivial(id)
				}

				replay := map[string]any{"history": id, "universe": universe}

				if r.Want(id) {
					switch {
					case err != nil:
						r.Violation(id, map[string]any{"kind": "error", "call": ev.kind, "half": "history"}, err.Error(), replay)
					case fmt.Sprint(got) != fmt.Sprint(wantl):
						what := "removed-not-listed"
						if ev.kind == "S" {
							what = "set-lost-or-removed-other"
						} else if len(got) > len(wantl) {
							what = "kept-listed"
						}

						kind := map[string]string{"S": "set-wrong", "RH": "remove-by-height-wrong", "RF": "remove-by-fact-wrong"}[ev.kind]

						r.Violation(id, map[string]any{"kind": kind, "what": what, "half": "history"},
							fmt.Sprintf("stored {%s}, %s left {%s}, expected {%s}", names(before), ev.label, names(got), names(wantl)), replay)
					}
				}

				// traverse / lookup at every height see exactly what is left
				c.lookups(db, got, id, replay)

				if err := db.DeepClose(); err != nil {
					panic(err)
				}

				if ev.kind == "RF" && len(ev.ops) == 2 && len(before) == 3 && len(nd.hist) == 3 {
					r.Sample(map[string]any{"history": id, "left": names(got)})
				}
			}
		}

		frontier = next
	}

	r.Set("fact_bfs_states", len(seen))
	r.Set("fact_bfs_depth", depth)
	r.Set("fact_bfs_transitions", k)
}
