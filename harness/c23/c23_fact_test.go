//go:build verif

package isaacdatabase

import (
	"fmt"
	"strings"
	"testing"

	"github.com/spikeekips/mitum/base"
	"github.com/spikeekips/mitum/zzverif/vlib"
)

// C23 (sequential history half): explicit-state BFS over histories of
//
//	S(op)    SetSuffrageExpelOperation
//	RH(h)    RemoveSuffrageExpelOperationsByHeight
//	RF(F)    RemoveSuffrageExpelOperationsByFact      <- not driven by c23_test.go
//
// on the REAL TempPool (in-memory leveldb). A state is reached by replaying its
// (first found, shortest) history on a fresh pool and applying one more event;
// after every transition the leveldb records must equal the model (a set of
// facts: S adds, RH removes end <= h, RF removes exactly the listed facts and
// nothing else) and traverse / lookup at every height 0..5 must answer from that
// set (the c23Check.lookups oracle of c23_test.go).
//
// Canonical state = the sorted set of stored facts. Merged states have equal
// futures: a record is keyed by its fact (end height + fact hash) and every
// operation of the universe has fixed bytes, so two histories leaving the same
// set of facts leave byte-identical leveldb content under the expel prefix.
//
// Height alphabet: the same search (smaller universe) is repeated with all heights
// shifted to the byte boundaries of the end height inside the record key, and on
// universes mixing operations of two magnitudes (c23Bases in c23_test.go).
//
// Sharding: every shard walks the same BFS over the model (cheap); transition k
// is executed on the real pool by the shard that owns k. Because every executed
// transition is compared with the model, "discovered by the model" and
// "discovered by the real pool" coincide whenever no violation is reported.

type c23fEvent struct {
	kind  string // S RH RF
	ops   []int  // S: one; RF: the facts (indexes into env.ops)
	h     int64
	label string
}

func c23fApply(env *c23Env, set uint64, ev c23fEvent) uint64 {
	switch ev.kind {
	case "S":
		return set | 1<<ev.ops[0]
	case "RH":
		for i, o := range env.ops {
			if o.end <= ev.h {
				set &^= 1 << i
			}
		}

		return set
	case "RF":
		for _, i := range ev.ops {
			set &^= 1 << i
		}

		return set
	}

	panic("unknown event " + ev.kind)
}

func c23fDo(env *c23Env, db *TempPool, ev c23fEvent) error {
	switch ev.kind {
	case "S":
		return db.SetSuffrageExpelOperation(env.ops[ev.ops[0]].op)
	case "RH":
		return db.RemoveSuffrageExpelOperationsByHeight(base.Height(ev.h))
	case "RF":
		facts := make([]base.SuffrageExpelFact, len(ev.ops))
		for i, j := range ev.ops {
			facts[i] = env.ops[j].op.ExpelFact()
		}

		return db.RemoveSuffrageExpelOperationsByFact(facts)
	}

	panic("unknown event " + ev.kind)
}

func c23fMembers(set uint64) []int {
	var xs []int

	for i := 0; i < 64; i++ {
		if set&(1<<i) != 0 {
			xs = append(xs, i)
		}
	}

	return xs
}

type c23fConfig struct {
	root     string // id root; "factbfs" for the unshifted search
	bases    []int64
	universe []string
	foreign  []string
}

func c23fConfigs(thorough bool) []c23fConfig {
	cfgs := []c23fConfig{{
		root:  "factbfs",
		bases: []int64{0},
		universe: map[bool][]string{
			false: {"n1:1-1", "n1:1-2", "n1:2-4", "n1:3-3", "n2:1-2", "n2:2-3", "n2:4-4"},
			true:  {"n1:1-1", "n1:1-2", "n1:2-2", "n1:2-4", "n1:3-3", "n1:3-4", "n2:1-2", "n2:2-3", "n2:2-2", "n2:4-4"},
		}[thorough],
		foreign: []string{"n2:1-1", "n1:1-4"},
	}}

	bases := []int64{7, 253, 254, 509, 65533, 1<<24 - 3, 1<<31 - 3, 1<<32 - 3}
	universe := []string{"n1:1-2", "n1:2-4", "n1:3-3", "n2:2-3"}

	if thorough {
		bases = c23Bases(true)[1:]
		universe = []string{"n1:1-2", "n1:2-4", "n1:3-3", "n1:4-4", "n2:1-2", "n2:2-3"}
	}

	for _, b := range bases {
		cfgs = append(cfgs, c23fConfig{root: fmt.Sprintf("factbfs@b%d", b), bases: []int64{b}, universe: universe, foreign: []string{"n2:1-1", "n1:1-4"}})
	}

	// operations of two magnitudes in one pool
	mixes := [][]int64{{0, 254}}
	mixu := []string{"n1:1-2@0", "n1:2-4@0", "n1:1-2@1", "n2:2-3@1"}

	if thorough {
		mixes = append(mixes, []int64{254, 1<<32 - 3}, []int64{2, 65533})
		mixu = append(mixu, "n2:3-3@0", "n1:3-4@1")
	}

	for _, m := range mixes {
		cfgs = append(cfgs, c23fConfig{root: fmt.Sprintf("factbfs@mix%d+%d", m[0], m[1]), bases: m, universe: mixu, foreign: []string{"n2:1-1@0", "n1:1-4@1"}})
	}

	return cfgs
}

func TestVerifC23Fact(t *testing.T) {
	r := vlib.Start("C23")
	defer r.Finish()

	c23fRun(t, r, false)
}

// c23fRun: bounds=false is the unshifted search, bounds=true the searches of the
// height alphabet (unit TestVerifC23Bounds).
func c23fRun(t *testing.T, r *vlib.Run, bounds bool) {
	_, replaying := r.Replaying()

	var rd struct { // the recorded case names the search it was found in
		Root     string   `json:"root"`
		Universe []string `json:"universe"`
	}

	if replaying {
		_ = r.ReplayData(&rd)
	}

	var k, bstates int // k: running transition index over all searches (sharding)

	cfgs := c23fConfigs(r.Thorough() || replaying)
	if bounds {
		cfgs = cfgs[1:]

		r.Set("fact_bfs_boundary_searches", len(cfgs))
	} else {
		cfgs = cfgs[:1]
	}

	for _, cfg := range cfgs {
		if replaying {
			if !r.WantPrefix(cfg.root + "/") {
				continue
			}

			if rd.Root == cfg.root && len(rd.Universe) > 0 {
				cfg.universe = rd.Universe
			}
		}

		states, ok := c23fSearch(t, r, cfg, &k)
		if !ok {
			return
		}

		bstates += states
	}

	if bounds {
		r.Set("fact_bfs_boundary_states", bstates)
		r.Set("fact_bfs_boundary_transitions", k)
	}
}

// c23fSearch runs one BFS to its fixpoint; false = internal deadline.
func c23fSearch(t *testing.T, r *vlib.Run, cfg c23fConfig, kp *int) (int, bool) {
	env := c23NewEnvAt(t, cfg.bases...)
	c := &c23Check{r: r, env: env}
	first := cfg.root == "factbfs"

	byname := map[string]int{}
	for i := range env.ops {
		byname[env.ops[i].name] = i
	}

	// the universe of storable operations; `foreign` facts are only ever removed, never stored
	universe, foreign := cfg.universe, cfg.foreign

	var U []int

	for _, n := range universe {
		i, ok := byname[n]
		if !ok {
			panic("unknown operation " + n)
		}

		U = append(U, i)
	}

	names := func(xs []int) string { return env.names(xs) }

	// ---- the event menu
	var menu []c23fEvent

	for _, i := range U {
		menu = append(menu, c23fEvent{kind: "S", ops: []int{i}, label: "S(" + env.ops[i].name + ")"})
	}

	for hi, h := range env.heights { // the label holds the index (= height - base for one base)
		menu = append(menu, c23fEvent{kind: "RH", h: h, label: fmt.Sprintf("RH(%d)", hi)})
	}

	rf := func(xs ...int) {
		menu = append(menu, c23fEvent{kind: "RF", ops: xs, label: "RF(" + names(xs) + ")"})
	}

	rf() // empty list

	for _, i := range U {
		rf(i)
	}

	for a := 0; a < len(U); a++ {
		for b := a + 1; b < len(U); b++ {
			rf(U[a], U[b])
		}
	}

	rf(U...)                                   // everything
	rf(byname[foreign[0]])                     // a fact that was never stored
	rf(byname[foreign[0]], byname[foreign[1]]) // two of them
	rf(U[1], byname[foreign[0]])               // stored + never stored
	rf(U[1], U[1])                             // the same fact twice
	rf(U[len(U)-1], U[0], byname[foreign[1]])  // three, unordered

	if first {
		r.Set("fact_bfs_universe", universe)
		r.Set("fact_bfs_menu", len(menu))
	}

	type node struct {
		set  uint64
		hist []int // event indexes
	}

	histid := func(hist []int) string {
		xs := make([]string, len(hist))
		for i, e := range hist {
			xs[i] = menu[e].label
		}

		return cfg.root + "/" + strings.Join(xs, "/")
	}

	seen := map[uint64]bool{0: true}
	frontier := []node{{set: 0}}

	if r.Mine(*kp) {
		r.State(cfg.root + ":{}")
	}

	var depth, k0 int

	k0 = *kp

	for len(frontier) > 0 {
		depth++

		var next []node

		for _, nd := range frontier {
			for ei, ev := range menu {
				*kp++
				k := *kp

				want := c23fApply(env, nd.set, ev)
				hist := append(append([]int{}, nd.hist...), ei)

				isnew := !seen[want]
				if isnew {
					seen[want] = true

					next = append(next, node{set: want, hist: hist})
				}

				if !r.Mine(k) {
					continue
				}

				if r.Expired() {
					r.Cap("internal deadline in the remove-by-fact BFS")

					return 0, false
				}

				id := histid(hist)
				if !r.WantPrefix(id) {
					continue
				}

				if isnew {
					r.State(cfg.root + ":{" + names(c23fMembers(want)) + "}")
				}

				// replay the history on a fresh real pool, then the event
				db := env.newPool(nil)
				r.Trace()

				for _, e := range nd.hist {
					if err := c23fDo(env, db, menu[e]); err != nil {
						panic(err)
					}
				}

				if got := fmt.Sprint(c23Sorted(env.stored(db))); got != fmt.Sprint(c23fMembers(nd.set)) {
					// the prefix was checked as a transition of its own by its owner; do not report it twice
					_ = db.DeepClose()

					continue
				}

				err := c23fDo(env, db, ev)

				r.Eval()
				r.Transition()

				got := c23Sorted(env.stored(db))
				wantl := c23fMembers(want)
				before := c23fMembers(nd.set)

				r.Outcome(fmt.Sprintf("bfs:%s:changed=%d", ev.kind, len(before)-len(got)))

				if ev.kind == "RF" && len(wantl) > 0 && len(wantl) < len(before) {
					r.Nontrivial(id)
				}

				replay := map[string]any{"history": id, "root": cfg.root, "universe": universe, "bases": cfg.bases}

				if r.Want(id) {
					switch {
					case err != nil:
						r.Violation(id, map[string]any{"kind": "error", "call": ev.kind, "half": "history"}, err.Error(), replay)
					case fmt.Sprint(got) != fmt.Sprint(wantl):
						what := "removed-not-listed"
						if ev.kind == "S" {
							what = "set-lost-or-removed-other"
						} else if len(got) > len(wantl) {
							what = "kept-listed"
						}

						kind := map[string]string{"S": "set-wrong", "RH": "remove-by-height-wrong", "RF": "remove-by-fact-wrong"}[ev.kind]

						r.Violation(id, map[string]any{"kind": kind, "what": what, "half": "history"},
							fmt.Sprintf("bases %v: stored {%s}, %s (height %d) left {%s}, expected {%s}", cfg.bases, names(before), ev.label, ev.h, names(got), names(wantl)), replay)
					}
				}

				// traverse / lookup at every height see exactly what is left
				c.lookups(db, got, id, replay)

				if err := db.DeepClose(); err != nil {
					panic(err)
				}

				if first && ev.kind == "RF" && len(ev.ops) == 2 && len(before) == 3 && len(nd.hist) == 3 {
					r.Sample(map[string]any{"history": id, "left": names(got)})
				}
			}
		}

		frontier = next
	}

	if first {
		r.Set("fact_bfs_states", len(seen))
		r.Set("fact_bfs_depth", depth)
		r.Set("fact_bfs_transitions", *kp-k0)
	}

	return len(seen), true
}
