//go:build verif

package fixedtree

import (
	"bytes"
	"crypto/sha256"
	"fmt"
	"testing"

	"github.com/spikeekips/mitum/util/hint"
	"github.com/spikeekips/mitum/util/valuehash"
	"github.com/spikeekips/mitum/zzverif/vlib"
	"golang.org/x/crypto/sha3"
)

// C12: a fixed tree validates only if every node's hash matches its key and
// children; every member's extracted proof verifies; changing any key or hash in
// the tree or in a proof makes validation / proof verification fail; the root
// changes whenever a node's key changes.
//
// Reference model (written from the statement, not from the code): heap layout
// (children of i are 2i+1 and 2i+2, parent (i-1)/2), node hash =
// SHA3-256(key || hash(left) || hash(right)) with absent children contributing
// nothing. Everything below is executed on the real Writer / Tree / Proof.

var c12ht = hint.MustNewHint("c12-tree-v0.0.1")

// ---------------------------------------------------------------- fixtures

// c12Key is the "random key" of node i in the tree of size n: fixed-seed,
// varying length (6..14 hex digits + index suffix), unique inside one tree.
func c12Key(n, i int) string {
	h := sha256.Sum256([]byte(fmt.Sprintf("c12|%d|%d", n, i)))
	return fmt.Sprintf("%x-%d", h[:3+(int(h[31])%5)], i)
}

func c12Keys(n int) []string {
	keys := make([]string, n)
	for i := range keys {
		keys[i] = c12Key(n, i)
	}
	return keys
}

// c12Build runs the real Writer over the keys.
func c12Build(keys []string) (Tree, error) {
	w, err := NewWriter(c12ht, uint64(len(keys)))
	if err != nil {
		return Tree{}, err
	}
	for i := range keys {
		if err := w.Add(uint64(i), NewBaseNode(keys[i])); err != nil {
			return Tree{}, err
		}
	}
	return w.Tree()
}

// reference hashes, bottom-up
func c12RefHashes(keys []string) [][]byte {
	n := len(keys)
	hs := make([][]byte, n)
	for i := n - 1; i >= 0; i-- {
		hs[i] = c12RefNodeHash(keys[i], c12at(hs, 2*i+1), c12at(hs, 2*i+2))
	}
	return hs
}

func c12at(hs [][]byte, i int) []byte {
	if i < len(hs) {
		return hs[i]
	}
	return nil
}

// the repository's "SHA256" value hash is SHA3-256 (valuehash.NewSHA256); the
// primitive is trusted, the composition is what is checked.
func c12RefNodeHash(key string, l, r []byte) []byte {
	h := sha3.New256()
	h.Write([]byte(key))
	h.Write(l)
	h.Write(r)
	return h.Sum(nil)
}

// c12RefValid: the statement's validity predicate over (key, claimed hash) pairs.
func c12RefValid(nodes []Node) bool {
	n := len(nodes)
	for i := 0; i < n; i++ {
		var l, r []byte
		if 2*i+1 < n {
			l = nodes[2*i+1].Hash().Bytes()
		}
		if 2*i+2 < n {
			r = nodes[2*i+2].Hash().Bytes()
		}
		if !bytes.Equal(nodes[i].Hash().Bytes(), c12RefNodeHash(nodes[i].Key(), l, r)) {
			return false
		}
	}
	return true
}

func c12Flip(b []byte, pos int) []byte {
	c := append([]byte(nil), b...)
	c[pos] ^= 0x01
	return c
}

func c12Node(key string, h []byte) BaseNode {
	return BaseNode{key: key, h: valuehash.NewHashFromBytes(h)}
}

func c12Log2(x int) int { // floor(log2(x)), x>=1, integer arithmetic
	k := 0
	for x > 1 {
		x >>= 1
		k++
	}
	return k
}

func c12NodeClass(n, i int) string {
	switch {
	case i == 0:
		return "root"
	case 2*i+1 < n:
		return "internal"
	default:
		return "leaf"
	}
}

// ---------------------------------------------------------------- the run

type c12run struct {
	r         *vlib.Run
	replaying bool
	rid       string
}

func (c *c12run) want(idf func() string) bool {
	if !c.replaying {
		return true
	}
	id := idf()
	if c.rid == id+"/forged" { // the forged-membership verdict is a second oracle of the same case
		return c.r.Want(c.rid)
	}
	return c.r.Want(id)
}

type c12item struct {
	kind  string // idx | tree | tmut | pmut | pmutsel | ka | kb | kc (key alphabet, c12_keys_test.go)
	n     int
	k     int
	style string
}

func TestVerifC12(t *testing.T) {
	r := vlib.Start("C12")
	defer r.Finish()
	c := &c12run{r: r}
	c.rid, c.replaying = r.Replaying()

	r.Rule("inputs: index helpers for every index below the bound; trees of every listed size built by the real Writer from fixed-seed keys; every member key's proof; " +
		"single-field mutations {key,hash} x {flip bit0 of every byte, take the value of every other node, swap with sibling} (+ whole-node sibling swap, drop-last, append) on every tree node and on every position of every proof for the small sizes. " +
		"key alphabet (ka/kb/kc cases): three key styles (hex, mixed case with a precomposed letter and an inner blank, compatibility forms with a non-UTF-8 byte); every key k of the listed nodes is replaced by each member of its cluster of near-equal variants " +
		"(white space / NUL / BOM / zero-width appended or prepended, case changes, truncations and extensions by one byte and by half, Unicode normalisation-equivalent forms, non-UTF-8 bytes, inner blank changes): honest tree against the raw-byte reference, pairwise root inequality, key replaced with the hash kept in the tree and in every proof that carries the node; trees holding a key and a variant of it at two nodes; trees made only of members of one cluster. " +
		"non-trivial = every mutation case, every near-equal-key case, and every member proof in a tree whose last level is not full")
	r.Assume("SHA3-256 (valuehash.NewSHA256) collisions do not occur (a mutated key/hash is expected to change the recomputed hash)")
	r.Assume("keys are fixed-seed pseudo-random strings of 8..20 bytes; the property's 'random keys' are not re-drawn per run")

	idxMax := vlib.Pick(r, 4096, 65536)
	fullMax := vlib.Pick(r, 33, 2000) // sizes up to fullMax: validity + every key's proof
	denseMax := vlib.Pick(r, 33, 520) // every size up to here; every 8th + boundary sizes above
	tmutMax := vlib.Pick(r, 16, 33)   // exhaustive tree mutations
	pmutMax := vlib.Pick(r, 16, 33)   // exhaustive proof mutations
	rootMax := vlib.Pick(r, 33, 64)   // root-change for every node x every key mutation
	boundary := []int{63, 64, 65, 127, 128, 129, 130, 255, 256, 257, 511, 512, 513, 1023, 1024, 1025, 1999, 2000}
	r.Set("index_helper_bound", idxMax)
	r.Set("sizes_full", fmt.Sprintf("every size 1..%d; %d..%d: every 8th size and the boundary sizes", denseMax, denseMax+1, fullMax))
	r.Set("sizes_boundary", boundary)
	r.Set("tree_mutation_sizes", fmt.Sprintf("1..%d", tmutMax))
	r.Set("proof_mutation_sizes", fmt.Sprintf("1..%d (every key); boundary sizes: selected keys", pmutMax))
	r.Set("root_change_sizes", fmt.Sprintf("1..%d: every node x every key mutation; up to 130 and the boundary sizes: bit flip of every node's key; other sizes: nodes 0,1,n/2,n-1", rootMax))

	isBoundary := map[int]bool{}
	for _, n := range boundary {
		isBoundary[n] = true
	}
	var items []c12item
	// key alphabet (cheap per item, first so that a deadline under load cuts the large trees, not these)
	kaAllMax := vlib.Pick(r, 8, 33)                                                                    // every node of every size up to here, every style
	kaSelMax := vlib.Pick(r, 16, 33)                                                                   // selected nodes (root, inner, last inner, first leaf, first of last level, last) of every size up to here, every style
	kaBig := vlib.Pick(r, []int{33, 65, 130}, boundary)                                                // selected nodes, one style per size (rotating)
	kaPairsMax := vlib.Pick(r, 2, 6)                                                                   // every ordered pair of the cluster (else base -> variant and variant -> base)
	kbAllMax := vlib.Pick(r, 6, 10)                                                                    // key + variant at every ordered pair of nodes
	kbSel := vlib.Pick(r, []int{7, 8, 16}, []int{11, 12, 13, 15, 16, 17, 31, 32, 33, 63, 64, 65, 130}) // root / inner / last inner / first leaf / last x their relatives
	kcMax := vlib.Pick(r, 12, 33)                                                                      // trees made of one cluster
	r.Set("key_alphabet_sizes", fmt.Sprintf("styles %v; node variants: every node of sizes 1..%d, selected nodes of sizes up to %d (every style) and of sizes %v (one style per size); all ordered cluster pairs up to size %d; key+variant trees: all node pairs up to size %d, selected pairs for sizes %v; one-cluster trees: sizes 1..%d, every rotation",
		c12Styles, kaAllMax, kaSelMax, kaBig, kaPairsMax, kbAllMax, kbSel, kcMax))
	for x, n := range kaBig {
		if n <= kaSelMax {
			continue
		}
		for _, i := range c12SelPos(n, !r.Thorough()) {
			items = append(items, c12item{kind: "ka", n: n, k: i, style: c12Styles[x%len(c12Styles)]})
		}
	}
	for _, style := range c12Styles {
		for n := kaSelMax; n >= 1; n-- {
			is := c12SelPos(n, false)
			if n <= kaAllMax {
				is = is[:0]
				for i := 0; i < n; i++ {
					is = append(is, i)
				}
			}
			for _, i := range is {
				items = append(items, c12item{kind: "ka", n: n, k: i, style: style})
			}
		}
		for _, n := range kbSel {
			for _, i := range c12SelPos(n, true) {
				items = append(items, c12item{kind: "kb", n: n, k: i, style: style})
			}
		}
		for n := kbAllMax; n >= 2; n-- {
			for i := 0; i < n; i++ {
				items = append(items, c12item{kind: "kb", n: n, k: i, style: style})
			}
		}
		for n := kcMax; n >= 1; n-- {
			items = append(items, c12item{kind: "kc", n: n, style: style})
		}
	}
	for b := 0; b < idxMax; b += 512 {
		items = append(items, c12item{kind: "idx", n: b})
	}
	for n := tmutMax; n >= 1; n-- { // large first: better shard balance
		items = append(items, c12item{kind: "tmut", n: n})
	}
	for n := pmutMax; n >= 1; n-- {
		for k := 0; k < n; k++ {
			items = append(items, c12item{kind: "pmut", n: n, k: k})
		}
	}
	for _, n := range boundary {
		if n > pmutMax {
			items = append(items, c12item{kind: "pmutsel", n: n})
		}
	}
	sizes := map[int]bool{}
	for i := len(boundary) - 1; i >= 0; i-- {
		if n := boundary[i]; n > fullMax {
			sizes[n] = true
			items = append(items, c12item{kind: "tree", n: n})
		}
	}
	for n := fullMax; n >= 1; n-- {
		// every size up to denseMax; above it every 8th size and the boundary sizes (the quantifier samples large trees)
		if !sizes[n] && (n <= denseMax || n%8 == 0 || isBoundary[n]) {
			items = append(items, c12item{kind: "tree", n: n})
		}
	}
	r.Set("work_items", len(items))

	for i, it := range items {
		if !r.Mine(i) {
			continue
		}
		if r.Expired() {
			break
		}
		switch it.kind {
		case "ka":
			c.kaNode(t, it.style, it.n, it.k, it.n <= kaPairsMax, it.n <= kaSelMax, it.n <= 64)
		case "kb":
			js := c12Relatives(it.n, it.k)
			if it.n <= kbAllMax {
				js = js[:0]
				for j := 0; j < it.n; j++ {
					if j != it.k {
						js = append(js, j)
					}
				}
			}
			c.kaPair(t, it.style, it.n, it.k, js)
		case "kc":
			c.kaClusterTrees(t, it.style, it.n)
		case "idx":
			c.indexHelpers(it.n, it.n+512)
		case "tree":
			c.treeOK(t, it.n, it.n <= rootMax, it.n <= 130 || isBoundary[it.n])
		case "tmut":
			c.treeMutations(t, it.n)
		case "pmut":
			c.proofMutations(t, it.n, []int{it.k}, true)
		case "pmutsel":
			n := it.n
			last := n - 1
			sel := []int{0, 1, 2, n / 2, (last - 1) / 2, (last-1)/2 + 1, (1 << c12Log2(n)) - 1, (1 << c12Log2(n)) - 2, n - 2, n - 1}
			seen := map[int]bool{}
			var ks []int
			for _, k := range sel {
				if k >= 0 && k < n && !seen[k] {
					seen[k] = true
					ks = append(ks, k)
				}
			}
			c.proofMutations(t, n, ks, false)
		}
	}
}

// ---------------------------------------------------------------- index helpers

func (c *c12run) indexHelpers(from, to int) {
	r := c.r
	for i := from; i < to; i++ {
		id := func() string { return fmt.Sprintf("idx/i=%d", i) }
		if !c.want(id) {
			continue
		}
		r.Eval()
		r.StatesN(1)
		wantH := uint64(c12Log2(i + 1))
		if got := indexHeight(uint64(i)); got != wantH {
			r.Violation(id(), map[string]any{"kind": "index-helper", "fn": "indexHeight"},
				fmt.Sprintf("indexHeight(%d) = %d, floor(log2(%d)) = %d", i, got, i+1, wantH), nil)
		}
		switch p, err := parent(uint64(i)); {
		case i == 0 && err == nil:
			r.Violation(id(), map[string]any{"kind": "index-helper", "fn": "parent", "at": "root"}, "parent(0) returned no error", nil)
		case i > 0 && (err != nil || p != uint64((i-1)/2)):
			r.Violation(id(), map[string]any{"kind": "index-helper", "fn": "parent"},
				fmt.Sprintf("parent(%d) = %d,%v want %d", i, p, err, (i-1)/2), nil)
		}
		// children depends on the size only through "first child index >= size"
		for _, size := range []int{i + 1, 2*i + 1, 2*i + 2, 2*i + 3, 4*i + 8} {
			ch, err := children(size, uint64(i))
			has := 2*i+1 < size
			switch {
			case !has && err == nil:
				r.Violation(id(), map[string]any{"kind": "index-helper", "fn": "children", "err": "missing"},
					fmt.Sprintf("children(size=%d,%d) = %v without error; no child exists", size, i, ch), nil)
			case has && (err != nil || ch[0] != uint64(2*i+1) || ch[1] != uint64(2*i+2)):
				r.Violation(id(), map[string]any{"kind": "index-helper", "fn": "children"},
					fmt.Sprintf("children(size=%d,%d) = %v,%v want [%d %d]", size, i, ch, err, 2*i+1, 2*i+2), nil)
			}
		}
		if i == from {
			r.Outcome("index-helpers-agree")
		}
	}
}

// ---------------------------------------------------------------- valid trees, member proofs, root change

func (c *c12run) treeOK(t *testing.T, n int, fullRootChange, everyNodeFlip bool) {
	r := c.r
	keys := c12Keys(n)
	ref := c12RefHashes(keys)
	nonfull := (n+1)&n != 0

	idValid := func() string { return fmt.Sprintf("tree/n=%d/valid", n) }
	var tr Tree
	{
		var err error
		tr, err = c12Build(keys)
		if err != nil {
			t.Fatalf("build n=%d: %v", n, err)
		}
	}
	if c.want(idValid) {
		r.Eval()
		r.StatesN(1)
		r.Trace()
		if err := tr.IsValid(nil); err != nil {
			r.Violation(idValid(), map[string]any{"kind": "valid-tree-rejected"}, fmt.Sprintf("n=%d IsValid: %v", n, err), nil)
			r.Outcome("valid-tree-rejected")
		} else {
			r.Outcome("tree-valid")
		}
		if tr.Len() != n {
			r.Violation(idValid(), map[string]any{"kind": "tree-size"}, fmt.Sprintf("n=%d Len=%d", n, tr.Len()), nil)
		}
		for i := 0; i < n; i++ {
			nd := tr.Node(uint64(i))
			if nd.Key() != keys[i] || !bytes.Equal(nd.Hash().Bytes(), ref[i]) {
				r.Violation(idValid(), map[string]any{"kind": "node-hash-differs-from-reference", "node": c12NodeClass(n, i)},
					fmt.Sprintf("n=%d node %d: key %q hash %x, reference key %q hash %x", n, i, nd.Key(), nd.Hash().Bytes(), keys[i], ref[i]), nil)
				break
			}
		}
		if !bytes.Equal(tr.Root().Bytes(), ref[0]) {
			r.Violation(idValid(), map[string]any{"kind": "root-differs-from-reference"}, fmt.Sprintf("n=%d", n), nil)
		}
		if n <= 3 {
			r.Sample(map[string]any{"case": idValid(), "root": fmt.Sprintf("%x", tr.Root().Bytes()), "keys": keys})
		}
	}

	// every member key's proof
	for k := 0; k < n; k++ {
		id := func() string { return fmt.Sprintf("tree/n=%d/proof/k=%d", n, k) }
		if !c.want(id) {
			continue
		}
		r.Eval()
		r.StatesN(1)
		r.Trace()
		if nonfull {
			r.NontrivialN(1)
		}
		p, err := tr.Proof(keys[k])
		if err != nil {
			r.Violation(id(), map[string]any{"kind": "member-proof-rejected", "stage": "extract"}, fmt.Sprintf("n=%d k=%d: %v", n, k, err), nil)
			continue
		}
		if err := p.IsValid(nil); err != nil {
			r.Violation(id(), map[string]any{"kind": "member-proof-rejected", "stage": "isvalid"}, fmt.Sprintf("n=%d k=%d: %v", n, k, err), nil)
			continue
		}
		if err := p.Prove(keys[k]); err != nil {
			r.Violation(id(), map[string]any{"kind": "member-proof-rejected", "stage": "prove"}, fmt.Sprintf("n=%d k=%d: %v", n, k, err), nil)
			r.Outcome("member-proof-rejected")
			continue
		}
		r.Outcome("member-proof-proves")
		// shape against the reference path
		want := c12RefProof(tr.Nodes(), k)
		got := p.Nodes()
		ok := len(got) == len(want)
		for i := 0; ok && i < len(got); i++ {
			ok = got[i] != nil && got[i].Equal(want[i])
		}
		if !ok {
			r.Violation(id(), map[string]any{"kind": "proof-shape"}, fmt.Sprintf("n=%d k=%d: extracted %v, reference %v", n, k, got, want), nil)
		}
		if last := got[len(got)-1]; last == nil || !last.Hash().Equal(tr.Root()) {
			r.Violation(id(), map[string]any{"kind": "proof-root-differs"}, fmt.Sprintf("n=%d k=%d", n, k), nil)
		}
		if k == n-1 && n <= 4 {
			r.Sample(map[string]any{"case": id(), "proof_len": len(got), "prove": "ok"})
		}
		// a key that is not in the tree is not proved by a member's proof
		if err := p.Prove(keys[k] + "x"); err == nil {
			r.Violation(id(), map[string]any{"kind": "absent-key-proved"}, fmt.Sprintf("n=%d k=%d: Prove(%q) == nil", n, k, keys[k]+"x"), nil)
		}
	}
	idAbsent := func() string { return fmt.Sprintf("tree/n=%d/absent", n) }
	if c.want(idAbsent) {
		r.Eval()
		if _, err := tr.Proof("absent-key"); err == nil {
			r.Violation(idAbsent(), map[string]any{"kind": "absent-key-proof-extracted"}, fmt.Sprintf("n=%d", n), nil)
		} else {
			r.Outcome("absent-key-no-proof")
		}
	}

	// the root changes whenever a node's key changes (hashes re-generated by the real Writer)
	root := append([]byte(nil), tr.Root().Bytes()...)
	rebuilt := func(id func() string, mkeys []string, what string, i int) {
		r.Eval()
		r.StatesN(1)
		r.NontrivialN(1)
		r.Trace()
		mt, err := c12Build(mkeys)
		if err != nil {
			t.Fatalf("rebuild %s: %v", id(), err)
		}
		if bytes.Equal(mt.Root().Bytes(), root) {
			r.Violation(id(), map[string]any{"kind": "root-unchanged-after-key-change", "mut": what, "node": c12NodeClass(n, i)},
				fmt.Sprintf("n=%d node %d key %q -> %q: root still %x", n, i, keys[i], mkeys[i], root), map[string]any{"n": n, "i": i})
			r.Outcome("root-unchanged")
		} else {
			r.Outcome("root-changed")
		}
	}
	for i := 0; i < n; i++ {
		kb := []byte(keys[i])
		flips := []int{0}
		if fullRootChange {
			flips = flips[:0]
			for b := range kb {
				flips = append(flips, b)
			}
		} else if !everyNodeFlip && i > 1 && i < n-1 && i != n/2 {
			// sizes that are neither <= 130 nor a boundary size: both ends and the middle only
			continue
		}
		for _, b := range flips {
			id := func() string { return fmt.Sprintf("rootchg/n=%d/i=%d/flip-b%d", n, i, b) }
			if !c.want(id) {
				continue
			}
			mk := append([]string(nil), keys...)
			mk[i] = string(c12Flip(kb, b))
			rebuilt(id, mk, "flip", i)
		}
		if !fullRootChange {
			continue
		}
		for d := 0; d < n; d++ {
			if d == i {
				continue
			}
			id := func() string { return fmt.Sprintf("rootchg/n=%d/i=%d/donor-%d", n, i, d) }
			if !c.want(id) {
				continue
			}
			mk := append([]string(nil), keys...)
			mk[i] = keys[d]
			rebuilt(id, mk, "donor", i)
		}
		if s := c12Sibling(i); i > 0 && i < s && s < n {
			id := func() string { return fmt.Sprintf("rootchg/n=%d/i=%d/swap", n, i) }
			if c.want(id) {
				mk := append([]string(nil), keys...)
				mk[i], mk[s] = mk[s], mk[i]
				rebuilt(id, mk, "swap", i)
			}
		}
	}
}

func c12Sibling(i int) int {
	if i == 0 {
		return -1
	}
	if i%2 == 1 {
		return i + 1
	}
	return i - 1
}

// c12RefProof: [children(k), children(parent(k)), ..., children(root), root];
// an absent child is the empty node.
func c12RefProof(nodes []Node, k int) []Node {
	n := len(nodes)
	var out []Node
	for l := k; ; l = (l - 1) / 2 {
		for _, ci := range []int{2*l + 1, 2*l + 2} {
			if ci < n {
				out = append(out, nodes[ci])
			} else {
				out = append(out, EmptyBaseNode())
			}
		}
		if l == 0 {
			break
		}
	}
	return append(out, nodes[0])
}

// ---------------------------------------------------------------- tree mutations

func (c *c12run) treeMutations(t *testing.T, n int) {
	r := c.r
	keys := c12Keys(n)
	tr, err := c12Build(keys)
	if err != nil {
		t.Fatalf("build n=%d: %v", n, err)
	}
	orig := append([]Node(nil), tr.Nodes()...)

	sampled := map[string]bool{}
	check := func(id func() string, nodes []Node, field, mut string, i int) {
		if !c.want(id) {
			return
		}
		r.Eval()
		r.StatesN(1)
		r.NontrivialN(1)
		r.Trace()
		mt, err := NewTree(c12ht, nodes)
		if err != nil {
			t.Fatalf("%s: %v", id(), err)
		}
		verr := mt.IsValid(nil)
		refok := c12RefValid(nodes)
		switch {
		case verr == nil:
			r.Violation(id(), map[string]any{"kind": "tree-mutation-accepted", "field": field, "mut": mut, "node": c12NodeClass(n, i)},
				fmt.Sprintf("n=%d node %d (%s) %s/%s: Tree.IsValid == nil (reference validity: %v)", n, i, c12NodeClass(n, i), field, mut, refok),
				map[string]any{"n": n, "i": i})
			r.Outcome("tmut-accepted")
		case refok:
			// cannot happen without a hash collision; the real code is then stricter than the statement
			r.Violation(id(), map[string]any{"kind": "tree-rejected-but-reference-valid", "field": field, "mut": mut}, fmt.Sprintf("%s: %v", id(), verr), nil)
		default:
			r.Outcome("tmut-rejected")
		}
		if n == 3 && i == 1 && mut == "flip" && !sampled[field] {
			sampled[field] = true
			r.Sample(map[string]any{"case": id(), "isvalid": fmt.Sprint(verr)})
		}
	}
	clone := func() []Node { return append([]Node(nil), orig...) }

	for i := 0; i < n; i++ {
		key := orig[i].Key()
		hb := orig[i].Hash().Bytes()
		for b := range []byte(key) {
			nodes := clone()
			nodes[i] = c12Node(string(c12Flip([]byte(key), b)), hb)
			check(func() string { return fmt.Sprintf("tmut/n=%d/i=%d/key-flip-b%d", n, i, b) }, nodes, "key", "flip", i)
		}
		for b := range hb {
			nodes := clone()
			nodes[i] = c12Node(key, c12Flip(hb, b))
			check(func() string { return fmt.Sprintf("tmut/n=%d/i=%d/hash-flip-b%d", n, i, b) }, nodes, "hash", "flip", i)
		}
		for d := 0; d < n; d++ {
			if d == i {
				continue
			}
			nodes := clone()
			nodes[i] = c12Node(orig[d].Key(), hb)
			check(func() string { return fmt.Sprintf("tmut/n=%d/i=%d/key-donor-%d", n, i, d) }, nodes, "key", "donor", i)
			nodes = clone()
			nodes[i] = c12Node(key, orig[d].Hash().Bytes())
			check(func() string { return fmt.Sprintf("tmut/n=%d/i=%d/hash-donor-%d", n, i, d) }, nodes, "hash", "donor", i)
		}
		if s := c12Sibling(i); i > 0 && i < s && s < n {
			nodes := clone()
			nodes[i] = c12Node(orig[s].Key(), hb)
			nodes[s] = c12Node(key, orig[s].Hash().Bytes())
			check(func() string { return fmt.Sprintf("tmut/n=%d/i=%d/key-swap", n, i) }, nodes, "key", "swap", i)
			nodes = clone()
			nodes[i] = c12Node(key, orig[s].Hash().Bytes())
			nodes[s] = c12Node(orig[s].Key(), hb)
			check(func() string { return fmt.Sprintf("tmut/n=%d/i=%d/hash-swap", n, i) }, nodes, "hash", "swap", i)
			nodes = clone()
			nodes[i], nodes[s] = nodes[s], nodes[i]
			check(func() string { return fmt.Sprintf("tmut/n=%d/i=%d/node-swap", n, i) }, nodes, "node", "swap", i)
		}
	}
	// shape: a node's children are part of what its hash commits to
	if n > 1 {
		check(func() string { return fmt.Sprintf("tmut/n=%d/i=%d/drop-last", n, (n-2)/2) }, clone()[:n-1], "children", "drop-last", (n-2)/2)
	}
	{
		extra := c12Node("c12-extra", c12RefNodeHash("c12-extra", nil, nil)) // a self-consistent leaf
		check(func() string { return fmt.Sprintf("tmut/n=%d/i=%d/append", n, (n-1)/2) }, append(clone(), extra), "children", "append", (n-1)/2)
	}
}

// ---------------------------------------------------------------- proof mutations

// role of position pos in the proof of the node at tree index k (height h):
// pair p (positions 2p,2p+1) = children of the p-th ancestor of k (ancestor 0 = k).
func c12Role(k, h, pos, plen int) (role string, onpath bool) {
	if pos == plen-1 {
		if h == 0 {
			return "self", true
		}
		return "root", true
	}
	p := pos / 2
	if p == 0 {
		return "child", false
	}
	// the (p-1)-th ancestor of k sits in pair p; left children have odd tree indexes
	a := k
	for j := 0; j < p-1; j++ {
		a = (a - 1) / 2
	}
	isLeft := a%2 == 1
	if (pos%2 == 0) == isLeft {
		if p == 1 {
			return "self", true
		}
		return "ancestor", true
	}
	if p == 1 {
		return "sibling", false
	}
	return "uncle", false
}

func (c *c12run) proofMutations(t *testing.T, n int, ks []int, exhaustive bool) {
	r := c.r
	keys := c12Keys(n)
	tr, err := c12Build(keys)
	if err != nil {
		t.Fatalf("build n=%d: %v", n, err)
	}
	inTree := map[string]bool{}
	for _, k := range keys {
		inTree[k] = true
	}
	var donors []int
	if exhaustive {
		for d := 0; d < n; d++ {
			donors = append(donors, d)
		}
	} else {
		seen := map[int]bool{}
		for _, d := range []int{0, 1, n / 2, n - 1} {
			if !seen[d] {
				seen[d] = true
				donors = append(donors, d)
			}
		}
	}

	for _, k := range ks {
		key := keys[k]
		p, err := tr.Proof(key)
		if err != nil {
			t.Fatalf("proof n=%d k=%d: %v", n, k, err)
		}
		if err := p.IsValid(nil); err != nil {
			t.Fatalf("proof n=%d k=%d IsValid: %v", n, k, err)
		}
		if err := p.Prove(key); err != nil {
			t.Fatalf("proof n=%d k=%d Prove: %v", n, k, err)
		}
		orig := p.Nodes()
		h := c12Log2(k + 1)
		psampled := map[int]bool{}

		// check one mutated proof. newKey != "" : the key written by the mutation.
		check := func(id func() string, nodes []Node, pos int, field, mut string, onpath bool, role, newKey string) {
			if !c.want(id) {
				return
			}
			r.Eval()
			r.StatesN(1)
			r.NontrivialN(1)
			r.Trace()
			mp := NewProof(nodes)
			verr := mp.IsValid(nil)
			var perr error
			if verr == nil {
				perr = mp.Prove(key)
			}
			switch {
			case verr != nil:
				r.Outcome("pmut-rejected-by-IsValid")
			case perr != nil:
				r.Outcome("pmut-rejected-by-Prove")
			default:
				r.Outcome("pmut-accepted:" + field + ":" + role)
				r.Violation(id(), map[string]any{"kind": "proof-mutation-accepted", "field": field, "onpath": onpath, "role": role, "mut": mut},
					fmt.Sprintf("tree n=%d, proof of node %d (key %q), position %d (%s) %s/%s: Proof.IsValid == nil and Prove(%q) == nil",
						n, k, key, pos, role, field, mut, key),
					map[string]any{"n": n, "k": k, "pos": pos})
			}
			// the mutated proof must not prove a key that is in no tree node
			if verr == nil && newKey != "" && !inTree[newKey] {
				r.Trace()
				if ferr := mp.Prove(newKey); ferr == nil {
					r.Outcome("pmut-forged-membership:" + role)
					r.Violation(id()+"/forged", map[string]any{"kind": "proof-forged-membership", "onpath": onpath, "role": role, "mut": mut},
						fmt.Sprintf("tree n=%d, proof of node %d, position %d (%s) key %q -> %q (in no node of the tree): Proof.IsValid == nil and Prove(%q) == nil; the proof's root is still the tree root %s",
							n, k, pos, role, orig[pos].Key(), newKey, newKey, tr.Root()),
						map[string]any{"n": n, "k": k, "pos": pos, "key": newKey})
				} else {
					r.Outcome("pmut-foreign-key-not-proved")
				}
			}
			if n == 4 && k == 3 && mut == "flip" && (pos == 2 || pos == 3) && field == "key" && !psampled[pos] {
				psampled[pos] = true
				r.Sample(map[string]any{"case": id(), "role": role, "isvalid": fmt.Sprint(verr), "prove": fmt.Sprint(perr)})
			}
		}
		clone := func() []Node { return append([]Node(nil), orig...) }

		for pos := range orig {
			nd := orig[pos]
			if nd.IsEmpty() {
				r.Add("empty_proof_positions_skipped", 1)
				continue
			}
			role, onpath := c12Role(k, h, pos, len(orig))
			nkey := nd.Key()
			hb := nd.Hash().Bytes()
			pre := func(s string) func() string {
				return func() string { return fmt.Sprintf("pmut/n=%d/k=%d/pos=%d/%s", n, k, pos, s) }
			}
			for b := range []byte(nkey) {
				nodes := clone()
				nk := string(c12Flip([]byte(nkey), b))
				nodes[pos] = c12Node(nk, hb)
				check(pre(fmt.Sprintf("key-flip-b%d", b)), nodes, pos, "key", "flip", onpath, role, nk)
			}
			hflips := []int{0, 15, 31}
			if exhaustive {
				hflips = hflips[:0]
				for b := range hb {
					hflips = append(hflips, b)
				}
			}
			for _, b := range hflips {
				nodes := clone()
				nodes[pos] = c12Node(nkey, c12Flip(hb, b))
				check(pre(fmt.Sprintf("hash-flip-b%d", b)), nodes, pos, "hash", "flip", onpath, role, "")
			}
			for _, d := range donors {
				dn := tr.Node(uint64(d))
				if dn.Key() == nkey {
					continue
				}
				nodes := clone()
				nodes[pos] = c12Node(dn.Key(), hb)
				check(pre(fmt.Sprintf("key-donor-%d", d)), nodes, pos, "key", "donor", onpath, role, dn.Key())
				nodes = clone()
				nodes[pos] = c12Node(nkey, dn.Hash().Bytes())
				check(pre(fmt.Sprintf("hash-donor-%d", d)), nodes, pos, "hash", "donor", onpath, role, "")
			}
			// swap with the other node of the pair (once per pair, from the left position)
			if pos%2 == 0 && pos+1 < len(orig)-1 {
				s := orig[pos+1]
				_, sonpath := c12Role(k, h, pos+1, len(orig))
				pairOn := onpath || sonpath
				pairRole := "pair-offpath"
				if pairOn {
					pairRole = "pair-with-path-node"
				}
				if s.IsEmpty() {
					// positional move of a node into its empty sibling slot: not a key/hash change of the
					// statement's alphabet; recorded as information only
					nodes := clone()
					nodes[pos], nodes[pos+1] = nodes[pos+1], nodes[pos]
					mp := NewProof(nodes)
					if mp.IsValid(nil) == nil && mp.Prove(key) == nil {
						r.Add("info_node_moved_into_empty_sibling_slot_accepted", 1)
					} else {
						r.Add("info_node_moved_into_empty_sibling_slot_rejected", 1)
					}
					continue
				}
				nodes := clone()
				nodes[pos] = c12Node(s.Key(), hb)
				nodes[pos+1] = c12Node(nkey, s.Hash().Bytes())
				check(pre("key-swap"), nodes, pos, "key", "swap", pairOn, pairRole, "")
				nodes = clone()
				nodes[pos] = c12Node(nkey, s.Hash().Bytes())
				nodes[pos+1] = c12Node(s.Key(), hb)
				check(pre("hash-swap"), nodes, pos, "hash", "swap", pairOn, pairRole, "")
				nodes = clone()
				nodes[pos], nodes[pos+1] = nodes[pos+1], nodes[pos]
				check(pre("node-swap"), nodes, pos, "node", "swap", pairOn, pairRole, "")
			}
		}
	}
}
