//go:build verif

package fixedtree

import (
	"bytes"
	"crypto/sha256"
	"fmt"
	"strings"
	"testing"
)

// C12, key-alphabet dimension.
//
// The statement quantifies over "any key": the tree commits to the key BYTES of
// every node. The fixed-seed hex keys and the single-bit flips of c12_test.go
// never produce two keys which are equal after some normalisation (trim,
// case folding, truncation, Unicode normalisation, replacement of invalid
// UTF-8, collapse of inner blanks). Here every key k is replaced by each member
// of its cluster of near-equal variants, and trees are built which hold several
// members of one cluster, with the same oracles as the statement:
//
//   - the real Writer's tree over the keys is valid, has the reference hash
//     (SHA3-256 over the RAW key bytes || children hashes) at every node, and
//     every member's proof verifies and has the reference shape;
//   - two trees which differ in one key have different roots (every pair of
//     the cluster);
//   - a tree in which one key was replaced by a near-equal one, hash kept, is
//     rejected by Tree.IsValid;
//   - a proof in which one key was replaced by a near-equal one neither proves
//     the proved key (on-path node) nor proves the new key, which is in no node.

type c12var struct{ name, class, key string }

var c12Styles = []string{"hex", "mixed", "exotic"}

// c12StyleKey: the key of node i of the tree of size n in one of three key
// styles. hex = the keys of c12_test.go; mixed = upper and lower case letters,
// a precomposed letter, an inner blank, "fi"; exotic = the compatibility
// forms of the same (Kelvin sign, combining accent, long s, ideographic space,
// fi ligature, full-width letter) and a byte which is not UTF-8.
func c12StyleKey(style string, n, i int) string {
	if style == "hex" {
		return c12Key(n, i)
	}
	h := sha256.Sum256([]byte(fmt.Sprintf("c12ka|%s|%d|%d", style, n, i)))
	switch style {
	case "mixed":
		return "K\u00e9s fi" + fmt.Sprintf("%X%x-%d", h[0:2], h[2:4], i)
	case "exotic":
		return "\u212ae\u0301\u017f\u3000\ufb01\uff21" + fmt.Sprintf("%x", h[0:3]) + "\xff" + fmt.Sprintf("-%d", i)
	}
	panic("unknown key style " + style)
}

func c12StyleKeys(style string, n int) []string {
	keys := make([]string, n)
	for i := range keys {
		keys[i] = c12StyleKey(style, n, i)
	}
	return keys
}

func c12SwapCase(b byte) (byte, bool) {
	switch {
	case b >= 'a' && b <= 'z':
		return b - 'a' + 'A', true
	case b >= 'A' && b <= 'Z':
		return b - 'A' + 'a', true
	}
	return b, false
}

// c12Cluster: k itself (index 0, "base") and its near-equal variants; distinct,
// non-empty, in a fixed order.
func c12Cluster(k string) []c12var {
	out := []c12var{{"base", "base", k}}
	seen := map[string]bool{k: true, "": true}
	add := func(name, class, v string) {
		if seen[v] {
			return
		}
		seen[v] = true
		out = append(out, c12var{name, class, v})
	}
	type aff struct{ name, class, s string }
	affixes := []aff{
		{"sp", "space", " "}, {"tab", "space", "\t"}, {"nl", "space", "\n"}, {"cr", "space", "\r"},
		{"vt", "space", "\v"}, {"ff", "space", "\f"}, {"crnl", "space", "\r\n"}, {"sp2", "space", "  "},
		{"nbsp", "space", "\u00a0"}, {"nel", "space", "\u0085"}, {"ls", "space", "\u2028"}, {"idsp", "space", "\u3000"},
		{"nul", "control", "\x00"}, {"del", "control", "\x7f"}, {"zwsp", "control", "\u200b"}, {"bom", "control", "\ufeff"},
		{"xff", "invalid-utf8", "\xff"}, {"x80", "invalid-utf8", "\x80"}, {"xc3", "invalid-utf8", "\xc3"}, {"fffd", "invalid-utf8", "\ufffd"},
		{"acute", "unicode-norm", "\u0301"},
		{"zero", "extend", "0"}, {"slash", "extend", "/"},
	}
	for _, a := range affixes {
		add("append-"+a.name, a.class, k+a.s)
	}
	for _, a := range affixes {
		switch a.name {
		case "sp", "tab", "nl", "nbsp", "nul", "bom", "xff", "zero":
			add("prepend-"+a.name, a.class, a.s+k)
		}
	}
	add("wrap-sp", "space", " "+k+" ")
	add("append-last-byte", "extend", k+k[len(k)-1:])
	add("prepend-first-byte", "extend", k[:1]+k)
	add("double", "extend", k+k)

	add("upper", "case", strings.ToUpper(k))
	add("lower", "case", strings.ToLower(k))
	for p := 0; p < len(k); p++ {
		if s, ok := c12SwapCase(k[p]); ok {
			add("swapcase-first-letter", "case", k[:p]+string([]byte{s})+k[p+1:])
			break
		}
	}
	for p := len(k) - 1; p >= 0; p-- {
		if s, ok := c12SwapCase(k[p]); ok {
			add("swapcase-last-letter", "case", k[:p]+string([]byte{s})+k[p+1:])
			break
		}
	}

	add("drop-last-byte", "truncate", k[:len(k)-1])
	add("drop-first-byte", "truncate", k[1:])
	add("first-half", "truncate", k[:len(k)/2])
	add("second-half", "truncate", k[len(k)/2:])

	type rep struct{ name, class, from, to string }
	for _, x := range []rep{
		{"nfd", "unicode-norm", "\u00e9", "e\u0301"}, {"nfc", "unicode-norm", "e\u0301", "\u00e9"},
		{"kelvin", "unicode-norm", "K", "\u212a"}, {"unkelvin", "unicode-norm", "\u212a", "K"}, {"unkelvin-lower", "unicode-norm", "\u212a", "k"},
		{"long-s", "unicode-norm", "s", "\u017f"}, {"unlong-s", "unicode-norm", "\u017f", "s"},
		{"ligature-fi", "unicode-norm", "fi", "\ufb01"}, {"unligature-fi", "unicode-norm", "\ufb01", "fi"},
		{"unfullwidth", "unicode-norm", "\uff21", "A"},
		{"hyphen", "unicode-norm", "-", "\u2010"},
		{"inner-sp2", "inner-space", " ", "  "}, {"inner-tab", "inner-space", " ", "\t"}, {"inner-none", "inner-space", " ", ""},
		{"idsp-to-sp", "inner-space", "\u3000", " "}, {"idsp-none", "inner-space", "\u3000", ""},
		{"dash-spaced", "inner-space", "-", " - "}, {"dash-underscore", "extend", "-", "_"},
		{"xff-to-fffd", "invalid-utf8", "\xff", "\ufffd"}, {"xff-none", "invalid-utf8", "\xff", ""},
	} {
		if strings.Contains(k, x.from) {
			add(x.name, x.class, strings.ReplaceAll(k, x.from, x.to))
		}
	}
	for p := 0; p < len(k); p++ { // first ASCII letter -> its full-width form
		if _, ok := c12SwapCase(k[p]); ok {
			add("fullwidth", "unicode-norm", k[:p]+string(rune(k[p])+0xfee0)+k[p+1:])
			break
		}
	}
	return out
}

// root / inner / last inner (possibly with one child) / first leaf / first of the last level / last
func c12SelPos(n int, few bool) []int {
	sel := []int{0, 1, 2, (n - 2) / 2, n / 2, (1 << c12Log2(n)) - 1, n - 2, n - 1}
	if few {
		sel = []int{0, 1, (n - 2) / 2, n / 2, n - 1}
	}
	seen := map[int]bool{}
	var out []int
	for _, p := range sel {
		if p >= 0 && p < n && !seen[p] {
			seen[p] = true
			out = append(out, p)
		}
	}
	return out
}

// parent, sibling, children, the sibling's left child, root, last
func c12Relatives(n, i int) []int {
	cand := []int{0, n - 1, 2*i + 1, 2*i + 2}
	if i > 0 {
		cand = append(cand, (i-1)/2, c12Sibling(i), 2*c12Sibling(i)+1)
	}
	seen := map[int]bool{i: true}
	var out []int
	for _, p := range cand {
		if p >= 0 && p < n && !seen[p] {
			seen[p] = true
			out = append(out, p)
		}
	}
	return out
}

func c12x(sig map[string]any, class string) map[string]any {
	sig["alphabet"] = "near-equal"
	sig["class"] = class
	return sig
}

// kaHonest: the real Writer's tree over keys is valid and equals the raw-byte
// reference node by node; the proofs of the listed members verify and have
// the reference shape. Evaluated under the case id; the tree is returned also
// when the case is filtered out by a replay.
func (c *c12run) kaHonest(t *testing.T, id func() string, keys []string, ref [][]byte, members []int, class string) Tree {
	r := c.r
	tr, err := c12Build(keys)
	if err != nil {
		t.Fatalf("%s: build: %v", id(), err)
	}
	if !c.want(id) {
		return tr
	}
	n := len(keys)
	r.Eval()
	r.StatesN(1)
	r.NontrivialN(1)
	r.Trace()
	ok := true
	if err := tr.IsValid(nil); err != nil {
		ok = false
		r.Violation(id(), c12x(map[string]any{"kind": "valid-tree-rejected"}, class), fmt.Sprintf("%s keys %q: IsValid: %v", id(), keys, err), nil)
	}
	if ref == nil {
		ref = c12RefHashes(keys)
	}
	if tr.Len() != n {
		ok = false
		r.Violation(id(), c12x(map[string]any{"kind": "tree-size"}, class), fmt.Sprintf("%s: %d keys, Len=%d", id(), n, tr.Len()), nil)
	}
	for j := 0; j < n && j < tr.Len(); j++ {
		nd := tr.Node(uint64(j))
		if nd.Key() != keys[j] || !bytes.Equal(nd.Hash().Bytes(), ref[j]) {
			ok = false
			r.Violation(id(), c12x(map[string]any{"kind": "node-hash-differs-from-reference", "node": c12NodeClass(n, j)}, class),
				fmt.Sprintf("%s node %d: key %q hash %x, reference (SHA3-256 over the raw key bytes) key %q hash %x", id(), j, nd.Key(), nd.Hash().Bytes(), keys[j], ref[j]), nil)
			break
		}
	}
	for _, k := range members {
		p, err := tr.Proof(keys[k])
		if err != nil {
			ok = false
			r.Violation(id(), c12x(map[string]any{"kind": "member-proof-rejected", "stage": "extract"}, class), fmt.Sprintf("%s member %d %q: %v", id(), k, keys[k], err), nil)
			continue
		}
		if err := p.IsValid(nil); err != nil {
			ok = false
			r.Violation(id(), c12x(map[string]any{"kind": "member-proof-rejected", "stage": "isvalid"}, class), fmt.Sprintf("%s member %d %q: %v", id(), k, keys[k], err), nil)
			continue
		}
		if err := p.Prove(keys[k]); err != nil {
			ok = false
			r.Violation(id(), c12x(map[string]any{"kind": "member-proof-rejected", "stage": "prove"}, class), fmt.Sprintf("%s member %d %q: %v", id(), k, keys[k], err), nil)
			continue
		}
		want := c12RefProof(tr.Nodes(), k)
		got := p.Nodes()
		same := len(got) == len(want)
		for x := 0; same && x < len(got); x++ {
			same = got[x] != nil && got[x].Equal(want[x])
		}
		if !same {
			ok = false
			r.Violation(id(), c12x(map[string]any{"kind": "proof-shape"}, class), fmt.Sprintf("%s member %d %q: extracted %v, reference %v", id(), k, keys[k], got, want), nil)
		}
	}
	if ok {
		r.Outcome("near-equal-keys-tree-valid-and-proved")
	} else {
		r.Outcome("near-equal-keys-tree-broken")
	}
	return tr
}

func c12PairClass(a, b c12var) string {
	switch {
	case a.class == "base":
		return b.class
	case b.class == "base":
		return a.class
	case a.class == b.class:
		return a.class
	}
	return a.class + "~" + b.class
}

// kaNode: the key of node i of the style's tree of size n is replaced by every
// member of its cluster.
func (c *c12run) kaNode(t *testing.T, style string, n, i int, allPairs, bothWays, allJ bool) {
	r := c.r
	keys := c12StyleKeys(style, n)
	inTree := map[string]bool{}
	for _, k := range keys {
		inTree[k] = true
	}
	var cl []c12var
	for a, v := range c12Cluster(keys[i]) {
		if a > 0 && inTree[v.key] {
			r.Add("near_equal_variant_already_a_member_skipped", 1)
			continue
		}
		cl = append(cl, v)
	}
	r.Max("near_equal_cluster_size", int64(len(cl)))
	pre := fmt.Sprintf("ka/%s/n=%d/i=%d/", style, n, i)
	node := c12NodeClass(n, i)
	if n <= 3 && i == 0 && style == "mixed" {
		var names, ks []string
		for a, v := range cl {
			names = append(names, v.name)
			if a%9 == 0 {
				ks = append(ks, fmt.Sprintf("%s=%q", v.name, v.key))
			}
		}
		r.Sample(map[string]any{"case": pre + "cluster", "size": len(cl), "variants": strings.Join(names, " "), "some_keys": ks})
	}

	// honest trees, one per member of the cluster; pairwise different roots
	trees := make([]Tree, len(cl))
	baseRef := c12RefHashes(keys)
	for a := range cl {
		mk := append([]string(nil), keys...)
		mk[i] = cl[a].key
		// reference: only the hashes on the path from node i to the root depend on its key
		ref := append([][]byte(nil), baseRef...)
		for x := i; ; x = (x - 1) / 2 {
			ref[x] = c12RefNodeHash(mk[x], c12at(ref, 2*x+1), c12at(ref, 2*x+2))
			if x == 0 {
				break
			}
		}
		trees[a] = c.kaHonest(t, func() string { return pre + "honest/" + cl[a].name }, mk, ref, []int{i}, cl[a].class)
	}
	for a := 1; a < len(cl); a++ {
		id := func() string { return pre + "root/" + cl[a].name }
		if !c.want(id) {
			continue
		}
		r.Eval()
		r.StatesN(1)
		r.NontrivialN(1)
		same := -1
		for b := 0; b < a && same < 0; b++ {
			if bytes.Equal(trees[a].Root().Bytes(), trees[b].Root().Bytes()) {
				same = b
			}
		}
		if same >= 0 {
			r.Outcome("root-unchanged")
			r.Violation(id(), c12x(map[string]any{"kind": "root-unchanged-after-key-change", "mut": "near-equal", "node": node}, c12PairClass(cl[same], cl[a])),
				fmt.Sprintf("%s tree n=%d node %d (%s): key %q (%s) -> %q (%s): root still %x", style, n, i, node, cl[same].key, cl[same].name, cl[a].key, cl[a].name, trees[a].Root().Bytes()),
				map[string]any{"n": n, "i": i})
		} else {
			r.Outcome("root-changed")
		}
	}

	pair := func(a, b int) bool {
		if a == b {
			return false
		}
		return allPairs || a == 0 || (bothWays && b == 0)
	}

	// the tree of member a with the key of node i replaced by member b, hash kept
	for a := range cl {
		for b := range cl {
			if !pair(a, b) {
				continue
			}
			id := func() string { return pre + "tamper/" + cl[a].name + ":" + cl[b].name }
			if !c.want(id) {
				continue
			}
			r.Eval()
			r.StatesN(1)
			r.NontrivialN(1)
			r.Trace()
			nodes := append([]Node(nil), trees[a].Nodes()...)
			nodes[i] = c12Node(cl[b].key, nodes[i].Hash().Bytes())
			mt, err := NewTree(c12ht, nodes)
			if err != nil {
				t.Fatalf("%s: %v", id(), err)
			}
			if verr := mt.IsValid(nil); verr == nil {
				r.Outcome("tmut-accepted")
				r.Violation(id(), c12x(map[string]any{"kind": "tree-mutation-accepted", "field": "key", "mut": "near-equal", "node": node}, c12PairClass(cl[a], cl[b])),
					fmt.Sprintf("%s tree n=%d node %d (%s): key %q (%s) -> %q (%s), hash kept: Tree.IsValid == nil (reference validity: %v)",
						style, n, i, node, cl[a].key, cl[a].name, cl[b].key, cl[b].name, c12RefValid(nodes)),
					map[string]any{"n": n, "i": i})
			} else {
				r.Outcome("tmut-rejected")
			}
		}
	}

	// proofs. forge: position pos of the proof (which proves `proved`) gets the key newKey, hash kept.
	forge := func(id func() string, orig []Node, pos int, proved, newKey, role string, onpath bool, class string) {
		if !c.want(id) {
			return
		}
		r.Eval()
		r.StatesN(1)
		r.NontrivialN(1)
		r.Trace()
		nodes := append([]Node(nil), orig...)
		nodes[pos] = c12Node(newKey, orig[pos].Hash().Bytes())
		mp := NewProof(nodes)
		verr := mp.IsValid(nil)
		var perr error
		if verr == nil {
			perr = mp.Prove(proved)
		}
		switch {
		case verr != nil:
			r.Outcome("pmut-rejected-by-IsValid")
		case perr != nil:
			r.Outcome("pmut-rejected-by-Prove")
		default:
			r.Outcome("pmut-accepted:key:" + role)
			r.Violation(id(), c12x(map[string]any{"kind": "proof-mutation-accepted", "field": "key", "onpath": onpath, "role": role, "mut": "near-equal"}, class),
				fmt.Sprintf("%s tree n=%d, proof of %q, position %d (%s) key %q -> %q, hash kept: Proof.IsValid == nil and Prove(%q) == nil",
					style, n, proved, pos, role, orig[pos].Key(), newKey, proved),
				map[string]any{"n": n, "i": i, "pos": pos})
		}
		if verr == nil {
			r.Trace()
			if ferr := mp.Prove(newKey); ferr == nil {
				r.Outcome("pmut-forged-membership:" + role)
				r.Violation(id()+"/forged", c12x(map[string]any{"kind": "proof-forged-membership", "onpath": onpath, "role": role, "mut": "near-equal"}, class),
					fmt.Sprintf("%s tree n=%d, proof of %q, position %d (%s) key %q -> %q (in no node of the tree), hash kept: Proof.IsValid == nil and Prove(%q) == nil",
						style, n, proved, pos, role, orig[pos].Key(), newKey, newKey),
					map[string]any{"n": n, "i": i, "pos": pos, "key": newKey})
			} else {
				r.Outcome("pmut-foreign-key-not-proved")
			}
		}
	}
	find := func(nodes []Node, key string) int {
		for pos, nd := range nodes {
			if nd != nil && !nd.IsEmpty() && nd.Key() == key {
				return pos
			}
		}
		return -1
	}
	// (1) the proof of member a, its own (on-path) node renamed to member b
	proofs := make([][]Node, len(cl))
	for a := range cl {
		p, err := trees[a].Proof(cl[a].key)
		if err != nil {
			continue // reported by kaHonest
		}
		proofs[a] = p.Nodes()
	}
	for a := range cl {
		if proofs[a] == nil {
			continue
		}
		pos := find(proofs[a], cl[a].key)
		if pos < 0 {
			continue // reported by kaHonest (shape)
		}
		for b := range cl {
			if !pair(a, b) {
				continue
			}
			forge(func() string { return pre + "forge-self/" + cl[a].name + ":" + cl[b].name }, proofs[a], pos, cl[a].key, cl[b].key, "self", true, c12PairClass(cl[a], cl[b]))
		}
	}
	// (2) the proofs of the other members which carry node i (as child, sibling, uncle: off the path; as ancestor / root: on it)
	js := c12Relatives(n, i)
	if allJ {
		js = js[:0]
		for j := 0; j < n; j++ {
			if j != i {
				js = append(js, j)
			}
		}
	} else if d := c12LastDescendant(n, i); d != i {
		dup := false
		for _, j := range js {
			dup = dup || j == d
		}
		if !dup {
			js = append(js, d)
		}
	}
	for _, j := range js {
		p, err := trees[0].Proof(keys[j])
		if err != nil {
			t.Fatalf("%sproof of %d: %v", pre, j, err)
		}
		orig := p.Nodes()
		pos := find(orig, keys[i])
		if pos < 0 {
			continue
		}
		role, onpath := c12Role(j, c12Log2(j+1), pos, len(orig))
		for b := 1; b < len(cl); b++ {
			forge(func() string { return fmt.Sprintf("%sforge-in/j=%d/pos=%d/%s", pre, j, pos, cl[b].name) }, orig, pos, keys[j], cl[b].key, role, onpath, cl[b].class)
		}
	}
}

// leftmost deepest descendant of i
func c12LastDescendant(n, i int) int {
	d := i
	for 2*d+1 < n {
		d = 2*d + 1
	}
	return d
}

// kaPair: trees which hold a key (node i) and one of its near-equal variants (node j).
func (c *c12run) kaPair(t *testing.T, style string, n, i int, js []int) {
	keys := c12StyleKeys(style, n)
	inTree := map[string]bool{}
	for _, k := range keys {
		inTree[k] = true
	}
	cl := c12Cluster(keys[i])
	for _, j := range js {
		for b := 1; b < len(cl); b++ {
			if inTree[cl[b].key] {
				continue
			}
			mk := append([]string(nil), keys...)
			mk[j] = cl[b].key
			c.kaHonest(t, func() string { return fmt.Sprintf("kb/%s/n=%d/i=%d/j=%d/%s", style, n, i, j, cl[b].name) }, mk, nil, []int{i, j}, cl[b].class)
		}
	}
}

// kaClusterTrees: trees all of whose keys are members of ONE cluster (rotations of
// the cluster over the positions); the members left out are in no node.
func (c *c12run) kaClusterTrees(t *testing.T, style string, n int) {
	r := c.r
	cl := c12Cluster(c12StyleKey(style, 0, 0))
	m := len(cl)
	if n > m {
		return
	}
	for off := 0; off < m; off++ {
		keys := make([]string, n)
		member := map[string]bool{}
		all := make([]int, n)
		for j := range keys {
			keys[j] = cl[(off+j)%m].key
			member[keys[j]] = true
			all[j] = j
		}
		pre := fmt.Sprintf("kc/%s/n=%d/off=%d/", style, n, off)
		tr := c.kaHonest(t, func() string { return pre + "honest" }, keys, nil, all, "cluster")
		if n == 3 && off == 0 && style == "hex" {
			r.Sample(map[string]any{"case": pre + "honest", "keys": fmt.Sprintf("%q", keys)})
		}
		id := func() string { return pre + "absent" }
		if !c.want(id) {
			continue
		}
		r.Eval()
		r.StatesN(1)
		r.NontrivialN(1)
		var proofs []Proof
		for j := range keys {
			if p, err := tr.Proof(keys[j]); err == nil {
				proofs = append(proofs, p)
			}
		}
		bad := false
		for _, v := range cl {
			if member[v.key] {
				continue
			}
			r.Trace()
			if _, err := tr.Proof(v.key); err == nil {
				bad = true
				r.Violation(id(), c12x(map[string]any{"kind": "absent-key-proof-extracted"}, v.class),
					fmt.Sprintf("%s: keys %q; Tree.Proof(%q) (%s, in no node) returned a proof", pre, keys, v.key, v.name), nil)
			}
			for j, p := range proofs {
				if err := p.Prove(v.key); err == nil {
					bad = true
					r.Violation(id(), c12x(map[string]any{"kind": "absent-key-proved"}, v.class),
						fmt.Sprintf("%s: keys %q; the proof of member %d proves %q (%s, in no node)", pre, keys, j, v.key, v.name), nil)
				}
			}
		}
		if bad {
			r.Outcome("absent-near-equal-key-proved")
		} else {
			r.Outcome("absent-key-no-proof")
		}
	}
}
