//go:build verif

package isaacstates

import (
	"fmt"
	"math"
	"sort"
	"strconv"
	"strings"
	"testing"
	"time"

	"github.com/spikeekips/mitum/base"
	"github.com/spikeekips/mitum/isaac"
	"github.com/spikeekips/mitum/zzverif/vlib"
)

// C04, sequential half (engine Q): breadth-first search with state dedup over event
// histories on the REAL Ballotbox (votes by sign fact and by ballot, honest and conflicting,
// from members, a non-member and a member address signed with a foreign key, suffrage-confirm
// votes, ballots with expels and with embedded valid / non-member voteproofs, Count,
// SetLastPoint, suffrage-becomes-known, the ticker body and the passing of the hold time).
// After every transition every voteproof drained from Voteproof() is judged by c04judge
// (written from the property statement), and Vote's boolean is compared with "recorded".

type c04ev struct {
	kind string // vote count setlast known tick timepass
	v    c04vote
	p    c04sp
	maj  bool
	sc   bool
}

func (e c04ev) id() string {
	switch e.kind {
	case "vote":
		return e.v.id()
	case "setlast":
		s := "L:" + e.p.String()
		if e.maj {
			s += "m"
		}
		if e.sc {
			s += "s"
		}
		return s
	default:
		return e.kind
	}
}

type c04scenario struct {
	name   string
	n      int
	th     base.Threshold
	known  bool
	events []c04ev
	depth  [2]int
	mkfx   func() *c04fx // nil: c04newFx(n, th)
}

type c04viol struct {
	sig    map[string]any
	detail string
}

// c04book is what the oracle needs to know about the history: which sign facts the box accepted
// (Vote / VoteSignFact returned true) per record key, which embedded voteproofs were carried by ballots
// handed to Vote. Shared by the sequential and the concurrent unit.
type c04book struct {
	fx       *c04fx
	accepted map[string]map[string]bool // key -> sign fact menu ids accepted
	offered  map[string]map[string]bool // key -> sign fact menu ids submitted
	carried  map[string]bool            // embedded voteproof menu ids handed to Vote
	path     map[string]string          // sign fact menu id -> "Vote" / "VoteSignFact"
	vpValid  map[string]string          // memo: voteproof content key -> IsValid(networkID) error text ("" = valid)
}

func c04newBook(fx *c04fx) *c04book {
	return &c04book{fx: fx, accepted: map[string]map[string]bool{}, offered: map[string]map[string]bool{}, carried: map[string]bool{},
		path: map[string]string{}, vpValid: fx.vpValidMemo}
}

func (b *c04book) offer(v c04vote, sf base.BallotSignFact, bl base.Ballot) {
	key := c04key(v.p, v.sc)
	if b.offered[key] == nil {
		b.offered[key] = map[string]bool{}
	}
	name := b.fx.sfName(sf)
	b.offered[key][name] = true
	if bl != nil {
		b.carried[v.vp] = true
		b.path[name] = "Vote"
	} else if b.path[name] == "" {
		b.path[name] = "VoteSignFact"
	}
}

func (b *c04book) accept(v c04vote, sf base.BallotSignFact) {
	key := c04key(v.p, v.sc)
	if b.accepted[key] == nil {
		b.accepted[key] = map[string]bool{}
	}
	b.accepted[key][b.fx.sfName(sf)] = true
}

// c04quorum: required count for threshold th (one decimal) among n, in integers
func c04quorum(th base.Threshold, n int) int {
	t10 := int(math.Round(th.Float64() * 10))
	return (n*t10 + 999) / 1000
}

// c04recount is the boring reference tally: result and majority fact hash of a set of sign facts among n voters with quorum q
func c04recount(sfs []base.BallotSignFact, n, q int) (string, string) {
	if q > n {
		q = n
	}
	cnt := map[string]int{}
	for _, sf := range sfs {
		cnt[sf.Fact().Hash().String()]++
	}
	best, bestn := "", 0
	for h, c := range cnt {
		if c > bestn || (c == bestn && h < best) {
			best, bestn = h, c
		}
	}
	switch {
	case bestn >= q:
		return "MAJORITY", best
	case (n-len(sfs))+bestn < q:
		return "DRAW", ""
	default:
		return "NOTYET", ""
	}
}

func c04errClass(err error) string {
	s := err.Error()
	for _, k := range []string{"unknown node found", "wrong publickey", "wrong result", "wrong majority", "not empty majority for draw", "empty majority for majority",
		"insufficient expel node signs", "expel node voted", "unknown expel node", "unknown node signed", "expel expired", "duplicated node", "point does not match",
		"majoirty not found", "not enough sign facts", "expels not matched", "unknown expels found", "empty sign facts"} {
		if strings.Contains(s, k) {
			return k
		}
	}
	return "other"
}

// c04judge decides one emitted voteproof. It returns the first failed clause only.
func (b *c04book) judge(vp base.Voteproof, th base.Threshold) *c04viol {
	fx := b.fx
	psp := c04spOf(vp.Point())
	mk := func(sig map[string]any, format string, a ...any) *c04viol {
		sig["stage"] = vp.Point().Stage().String()
		return &c04viol{sig: sig, detail: fmt.Sprintf("voteproof of %s (%T, %s, %d sign facts): ", psp, vp, vp.Result(), len(vp.SignFacts())) + fmt.Sprintf(format, a...)}
	}
	suf := fx.sufOfPoint(vp.Point()) // the suffrage of the voteproof's own stage point
	if eid := fx.vpid[vp.ID()]; eid != "" {
		// a voteproof that arrived inside a ballot and is handed through
		if !b.carried[eid] {
			return mk(map[string]any{"kind": "emitted-voteproof-never-received", "origin": "embedded"}, "embedded voteproof %s was never carried by a submitted ballot", eid)
		}
		if err := isaac.IsValidVoteproofWithSuffrage(vp, suf); err != nil {
			return mk(map[string]any{"kind": "fails-validation", "origin": "embedded", "reason": c04errClass(err)}, "embedded voteproof %s handed through although IsValidVoteproofWithSuffrage says: %v", eid, err)
		}
		return nil
	}
	// counted by the box
	keyPlain, keySC := c04key(psp, false), c04key(psp, true)
	if len(b.accepted[keyPlain]) == 0 && len(b.accepted[keySC]) == 0 {
		return mk(map[string]any{"kind": "voteproof-for-unvoted-point", "origin": "counted"}, "no vote was ever accepted for that stage point")
	}
	seen := map[string]bool{}
	for _, sf := range vp.SignFacts() {
		f := sf.Fact().(base.BallotFact)
		name := fx.sfName(sf)
		node := sf.Node().String()
		switch {
		case !f.Point().Equal(vp.Point()):
			return mk(map[string]any{"kind": "foreign-point-vote", "origin": "counted"}, "contains %s, a sign fact of %s", name, c04spOf(f.Point()))
		case seen[node]:
			return mk(map[string]any{"kind": "node-counted-twice", "origin": "counted"}, "node %s has two sign facts", node)
		case !suf.Exists(sf.Node()):
			return mk(map[string]any{"kind": "non-member-vote-counted", "who": "not-in-suffrage", "path": b.path[name], "origin": "counted"},
				"contains %s: node %s is not in the suffrage", name, node)
		case !suf.ExistsPublickey(sf.Node(), sf.Signer()):
			return mk(map[string]any{"kind": "non-member-vote-counted", "who": "member-address-foreign-key", "path": b.path[name], "origin": "counted"},
				"contains %s: signed with a key that is not the suffrage key of %s", name, node)
		case !b.accepted[c04key(psp, isaac.IsSuffrageConfirmBallotFact(f))][name]:
			return mk(map[string]any{"kind": "unsubmitted-vote-counted", "origin": "counted"}, "contains %s which the box never accepted for that stage point", name)
		}
		seen[node] = true
	}
	if !vp.Threshold().Equal(th) {
		return mk(map[string]any{"kind": "wrong-threshold", "origin": "counted"}, "threshold %v, the box's is %v", vp.Threshold(), th)
	}
	// full validation, as other nodes do it
	ck := c04vpContentKey(fx, vp)
	msg, ok := b.vpValid[ck]
	if !ok {
		if err := vp.IsValid(c04net); err != nil {
			msg = err.Error()
		}
		b.vpValid[ck] = msg
	}
	if msg != "" {
		return mk(map[string]any{"kind": "fails-validation", "origin": "counted", "check": "IsValid", "reason": c04errClass(fmt.Errorf("%s", msg))}, "IsValid(networkID): %s", msg)
	}
	if err := isaac.IsValidVoteproofWithSuffrage(vp, suf); err != nil {
		sig := map[string]any{"kind": "fails-validation", "origin": "counted", "check": "IsValidVoteproofWithSuffrage", "reason": c04errClass(err), "expels": c04nExpels(vp) > 0}
		if x := c04nExpels(vp); x > 0 {
			// structural class of an expel voteproof the validators refuse: number of expels against f = n - quorum, and whether
			// the claimed result is what the distinct sign facts give among the FULL suffrage with the plain threshold
			f := suf.Len() - c04quorum(th, suf.Len())
			sig["expels_vs_f"] = map[bool]string{true: "lt", false: map[bool]string{true: "eq", false: "gt"}[x == f]}[x < f]
			res, maj := c04recount(vp.SignFacts(), suf.Len(), c04quorum(th, suf.Len()))
			gotMaj := ""
			if m := vp.Majority(); m != nil {
				gotMaj = m.Hash().String()
			}
			sig["result_is_recount_among_full_suffrage_with_plain_threshold"] = res == vp.Result().String() && maj == gotMaj
		}
		return mk(sig, "IsValidVoteproofWithSuffrage: %v", err)
	}
	// fresh recount
	n, q := suf.Len(), c04quorum(th, suf.Len())
	if x := c04nExpels(vp); x > 0 {
		n = suf.Len() - x
		q = n
	}
	res, maj := c04recount(vp.SignFacts(), n, q)
	gotMaj := ""
	if m := vp.Majority(); m != nil {
		gotMaj = m.Hash().String()
	}
	if res != vp.Result().String() || maj != gotMaj {
		return mk(map[string]any{"kind": "recount-mismatch", "origin": "counted", "emitted": vp.Result().String(), "recount": res, "expels": c04nExpels(vp) > 0},
			"a fresh recount of its %d sign facts among %d voters (quorum %d) gives %s %.8s, the voteproof says %s %.8s", len(vp.SignFacts()), n, q, res, maj, vp.Result(), gotMaj)
	}
	return nil
}

func c04nExpels(vp base.Voteproof) int {
	if x, ok := vp.(base.HasExpels); ok {
		return len(x.Expels())
	}
	return 0
}

// IsValid(networkID) is a function of type, point, threshold, result, majority, the sign facts and the expel operations
func c04vpContentKey(fx *c04fx, vp base.Voteproof) string {
	var ids []string
	for _, sf := range vp.SignFacts() {
		ids = append(ids, c04sfIdentity(sf))
	}
	sort.Strings(ids)
	var xs []string
	if x, ok := vp.(base.HasExpels); ok {
		for _, op := range x.Expels() {
			xs = append(xs, op.Hash().String())
		}
	}
	m := ""
	if vp.Majority() != nil {
		m = vp.Majority().Hash().String()
	}
	return fmt.Sprintf("%T|%s|%v|%s|%s|%s|%s|%v", vp, c04spOf(vp.Point()), vp.Threshold(), vp.Result(), m, strings.Join(ids, ","), strings.Join(xs, ","), vp.FinishedAt().IsZero())
}

// ---- world ----

type c04world struct {
	sc     *c04scenario
	fx     *c04fx
	box    *Ballotbox
	known  bool
	book   *c04book
	viol   []c04viol
	nvps   int
	kinds  map[string]bool
	lastEm []base.Voteproof
}

func c04newWorld(sc *c04scenario, fx *c04fx) *c04world {
	w := &c04world{sc: sc, fx: fx, known: sc.known, book: c04newBook(fx), kinds: map[string]bool{}}
	w.box = fx.freshBox(func(h base.Height) (base.Suffrage, bool, error) {
		if !w.known {
			return nil, false, nil
		}
		return fx.sufFor(h), true, nil
	})
	return w
}

func (w *c04world) entry(key, node string) string {
	vr, ok := w.box.vrs.Value(key)
	if !ok || vr.sp.IsZero() {
		return ""
	}
	if sf, ok := vr.voted[node]; ok {
		return w.fx.sfName(sf)
	}
	if sf, ok := vr.ballots[node]; ok {
		return w.fx.sfName(sf)
	}
	return ""
}

func (w *c04world) step(e c04ev, check bool) string {
	box := w.box
	ret := ""
	switch e.kind {
	case "vote":
		sf, bl := w.fx.build(e.v)
		w.book.offer(e.v, sf, bl)
		key := c04key(e.v.p, e.v.sc)
		node := sf.Node().String()
		name := w.fx.sfName(sf)
		before := w.entry(key, node)
		var voted bool
		var deferred func() []base.Voteproof
		var err error
		if bl == nil {
			voted, deferred, err = box.vote(sf, nil, nil) // body of VoteSignFact
		} else if box.checkBallot(bl) { // body of Vote
			var expels []base.SuffrageExpelOperation
			if x, ok := bl.(base.HasExpels); ok {
				expels = x.Expels()
			}
			voted, deferred, err = box.vote(bl.SignFact(), bl.Voteproof(), expels)
		}
		if err != nil {
			panic("vote error (the fixture's getSuffrage never fails): " + err.Error())
		}
		after := w.entry(key, node)
		if voted {
			w.book.accept(e.v, sf)
		}
		if check {
			switch {
			case voted && !(before == "" && after == name):
				w.viol = append(w.viol, c04viol{sig: map[string]any{"kind": "vote-true-not-recorded"},
					detail: fmt.Sprintf("%s returned true but the record of %q holds %q for node %s (before: %q)", e.id(), key, after, node, before)})
			case !voted && after != before:
				w.viol = append(w.viol, c04viol{sig: map[string]any{"kind": "vote-false-but-recorded"},
					detail: fmt.Sprintf("%s returned false but the record of %q changed for node %s: %q -> %q", e.id(), key, node, before, after)})
			}
		}
		if deferred != nil {
			_ = deferred() // the `go deferred()` of Vote, run synchronously here
		}
		ret = strconv.FormatBool(voted)
	case "count":
		ret = strconv.FormatBool(box.Count())
	case "setlast":
		lp, err := isaac.NewLastPoint(e.p.sp(), e.maj, e.sc)
		if err != nil {
			panic(err)
		}
		ret = strconv.FormatBool(box.SetLastPoint(lp))
	case "known":
		w.known = true
	case "tick":
		box.countHoldeds()
	case "timepass":
		for _, vr := range box.vrs.Map() {
			if !vr.countAfter.IsZero() {
				vr.countAfter = vr.countAfter.Add(-2 * time.Hour)
			}
		}
	default:
		panic("unknown event " + e.kind)
	}
	em := c04drain(box)
	w.lastEm = em
	w.nvps += len(em)
	if check {
		for _, vp := range em {
			if v := w.book.judge(vp, w.fx.th); v != nil {
				v.detail += " | emitted by " + e.id()
				w.viol = append(w.viol, *v)
			}
		}
	}
	return ret
}

func (w *c04world) vpClass(vp base.Voteproof) string {
	o := "counted"
	if w.fx.vpid[vp.ID()] != "" {
		o = "embedded"
	}
	sc := ""
	if vp.Majority() != nil && isaac.IsSuffrageConfirmBallotFact(vp.Majority()) {
		sc = ":sc"
	}
	return fmt.Sprintf("%s:%s:%s:x%d%s", o, vp.Point().Stage(), vp.Result(), c04nExpels(vp), sc)
}

// canonical state: last point, suffrage flag, live records by key with their contents, awaiting-recycle list, pool
// (identity structure). Histories with equal keys have boxes that differ only in voteproof ids / timestamps.
func (w *c04world) canon() string {
	box := w.box
	relabel := map[*voterecords]int{}
	lab := func(vr *voterecords) int {
		if l, ok := relabel[vr]; ok {
			return l
		}
		relabel[vr] = len(relabel) + 1
		return relabel[vr]
	}
	var sb strings.Builder
	fmt.Fprintf(&sb, "L=%s|known=%v|", c04lpString(box.LastPoint()), w.known)
	live := box.vrs.Map()
	var ks []string
	for k := range live {
		ks = append(ks, k)
	}
	sort.Strings(ks)
	ids := func(m map[string]base.BallotSignFact) string {
		var out []string
		for node, sf := range m {
			out = append(out, node+"="+w.fx.sfName(sf))
		}
		sort.Strings(out)
		return strings.Join(out, ",")
	}
	for _, k := range ks {
		vr := live[k]
		var vs, xs []string
		for node, vp := range vr.vps {
			vs = append(vs, node+"="+w.fx.vpid[vp.ID()])
		}
		for node, ops := range vr.expels {
			s := node + "="
			for _, op := range ops {
				s += fmt.Sprintf("%.6s/%d;", op.Fact().Hash().String(), len(op.NodeSigns()))
			}
			xs = append(xs, s)
		}
		sort.Strings(vs)
		sort.Strings(xs)
		fmt.Fprintf(&sb, "live{%s->#%d sp=%v sc=%v v[%s] b[%s] p[%s] x[%s] fin=%v held=%v}", k, lab(vr), vr.sp, vr.isc, ids(vr.voted), ids(vr.ballots),
			strings.Join(vs, ","), strings.Join(xs, ","), vr.vp != nil, !vr.countAfter.IsZero())
	}
	removed, _ := box.removed.Value()
	for _, vr := range removed {
		fmt.Fprintf(&sb, "rem{#%d %v}", lab(vr), vr.sp)
	}
	for _, vr := range c04poolItems() {
		fmt.Fprintf(&sb, "pool{#%d held=%v}", lab(vr), !vr.countAfter.IsZero())
	}
	return sb.String()
}

func c04scenarios() []*c04scenario {
	P := func(h int64, r uint64, a bool) c04sp { return c04sp{h: h, r: r, accept: a} }
	p1, p2, p3, p4 := P(33, 0, false), P(33, 0, true), P(33, 1, false), P(34, 0, false)
	vote := func(who string, p c04sp, variant string, sc bool, vp string, ex ...string) c04ev {
		return c04ev{kind: "vote", v: c04vote{who: who, p: p, variant: variant, sc: sc, vp: vp, expels: ex}}
	}
	var out []*c04scenario
	// A: sign facts only (VoteSignFact path), suffrage known: honest, conflicting, non-member and foreign-key votes
	out = append(out, &c04scenario{name: "signfacts", n: 3, th: 67, known: true, depth: [2]int{4, 7}, events: []c04ev{
		vote("n0", p1, "A", false, ""), vote("n1", p1, "A", false, ""), vote("n2", p1, "A", false, ""), vote("n2", p1, "B", false, ""), vote("n1", p1, "B", false, ""),
		vote("x", p1, "A", false, ""), vote("f", p1, "A", false, ""),
		vote("n0", p2, "A", false, ""), vote("n1", p2, "A", false, ""), vote("n2", p2, "A", false, ""),
		{kind: "count"}, {kind: "setlast", p: p1, maj: true}, {kind: "setlast", p: p2, maj: true},
	}})
	// B: ballots (Vote path) arriving before the suffrage is known, with embedded valid / non-member voteproofs
	out = append(out, &c04scenario{name: "ballots-unknown-suffrage", n: 3, th: 67, known: false, depth: [2]int{4, 7}, events: []c04ev{
		vote("n0", p1, "A", false, "acc:32"), vote("n1", p1, "A", false, "acc:32"), vote("n2", p1, "A", false, "xacc:32"), vote("n2", p1, "B", false, "acc:32"),
		vote("x", p1, "A", false, "acc:32"), vote("f", p1, "A", false, "acc:32"),
		{kind: "known"}, {kind: "count"}, {kind: "setlast", p: P(32, 0, true), maj: true},
		vote("n0", p2, "A", false, "init:33.0"), vote("n1", p2, "A", false, "init:33.0"), vote("n2", p2, "A", false, "init:33.0"),
	}})
	// B2: the same ballots with the suffrage known
	out = append(out, &c04scenario{name: "ballots-known-suffrage", n: 3, th: 67, known: true, depth: [2]int{4, 7}, events: []c04ev{
		vote("n0", p1, "A", false, "acc:32"), vote("n1", p1, "A", false, "acc:32"), vote("n2", p1, "A", false, "xacc:32"), vote("n2", p1, "B", false, "acc:32"),
		vote("x", p1, "A", false, "acc:32"), vote("f", p1, "A", false, "acc:32"),
		{kind: "count"}, {kind: "setlast", p: P(32, 0, true), maj: true},
		vote("n0", p2, "A", false, "init:33.0"), vote("n1", p2, "A", false, "init:33.0"), vote("n2", p2, "A", false, "init:33.0"),
	}})
	// C: four members, ballots with an expel of n3 (fully signed / signed by one node only), the expelled node voting, suffrage-confirm ballots
	out = append(out, &c04scenario{name: "expels", n: 4, th: 67, known: true, depth: [2]int{4, 7}, events: []c04ev{
		vote("n0", p1, "E", false, "acc:32", "n3/n0,n1,n2"), vote("n1", p1, "E", false, "acc:32", "n3/n0,n1,n2"), vote("n2", p1, "E", false, "acc:32", "n3/n0,n1,n2"),
		vote("n0", p1, "E", false, "acc:32", "n3/n0"),
		vote("n3", p1, "A", false, "acc:32"), vote("n1", p1, "A", false, "acc:32"), vote("n2", p1, "B", false, "acc:32"),
		{kind: "count"}, {kind: "tick"}, {kind: "timepass"},
		vote("n0", p1, "A", true, "iexp:33.0:n3"), vote("n1", p1, "A", true, "iexp:33.0:n3"), vote("n2", p1, "A", true, "iexp:33.0:n3"),
	}})
	// D: two members, threshold 100, four stage points over two heights and two rounds, draws, stale votes
	out = append(out, &c04scenario{name: "multi-point", n: 2, th: 100, known: true, depth: [2]int{4, 7}, events: []c04ev{
		vote("n0", p1, "A", false, ""), vote("n1", p1, "A", false, ""), vote("n1", p1, "B", false, ""),
		vote("n0", p2, "A", false, "init:33.0"), vote("n1", p2, "A", false, "init:33.0"),
		vote("n0", p3, "A", false, "draw:33.0"), vote("n1", p3, "A", false, "draw:33.0"), vote("n1", p3, "B", false, "draw:33.0"),
		vote("n0", p4, "A", false, "acc:33"), vote("n1", p4, "A", false, "acc:33"),
		{kind: "count"}, {kind: "setlast", p: p2, maj: true}, {kind: "setlast", p: p3, maj: false},
	}})
	// E: the suffrage changes between two consecutive heights (stage points of height 32 belong to the old suffrage, of height 33 to
	// the new one): INIT ballots of (33,0) carry ACCEPT voteproofs of (32,0) signed by old-only / mixed / new-only node sets; votes of
	// the joining / leaving node at both heights
	q1, q2 := P(32, 0, true), P(33, 0, false)
	out = append(out, &c04scenario{name: "suffrage-join", n: 4, th: 67, known: true, depth: [2]int{4, 7},
		mkfx: func() *c04fx { return c04newFxChange(4, 67, []int{0, 1, 2}, []int{0, 1, 2, 3}, 32) }, events: []c04ev{
			vote("n0", q2, "A", false, "accs:32:n0,n1,n2"), vote("n1", q2, "A", false, "accs:32:n0,n1,n3"), vote("n2", q2, "A", false, "accs:32:n3"),
			vote("n3", q2, "A", false, "accs:32:n0,n1,n2"),
			vote("n3", q1, "A", false, ""), vote("n0", q1, "A", false, ""), vote("n1", q1, "A", false, ""), vote("n2", q1, "A", false, ""),
			{kind: "count"}, {kind: "setlast", p: P(32, 0, false), maj: true},
		}})
	out = append(out, &c04scenario{name: "suffrage-leave", n: 4, th: 67, known: true, depth: [2]int{4, 7},
		mkfx: func() *c04fx { return c04newFxChange(4, 67, []int{0, 1, 2, 3}, []int{0, 1, 2}, 32) }, events: []c04ev{
			vote("n0", q2, "A", false, "accs:32:n0,n1,n3"), vote("n1", q2, "A", false, "accs:32:n0,n1,n2"), vote("n3", q2, "A", false, "accs:32:n0,n1,n2"),
			vote("n3", q2, "A", false, ""), vote("n2", q2, "A", false, ""),
			vote("n3", q1, "A", false, ""), vote("n0", q1, "A", false, ""), vote("n1", q1, "A", false, ""), vote("n2", q1, "A", false, ""),
			{kind: "count"}, {kind: "setlast", p: P(32, 0, false), maj: true},
		}})
	return out
}

func TestVerifC04(t *testing.T) {
	r := vlib.Start("C04")
	defer r.Finish()
	r.Rule("sequential half: BFS with state dedup over event histories of each scenario on a fresh real Ballotbox per history; state = canonical (last point, suffrage known, live records by key with votes / parked ballots / embedded voteproofs / expels / finished / held, awaiting-recycle list, pool); every voteproof drained after a transition is judged; non-trivial = history that made the box emit at least one voteproof")
	r.Assume("Vote/VoteSignFact are executed as their bodies (checkBallot, vote, then the deferred count synchronously); the goroutine hand-off is the concurrent unit's job")
	r.Assume("every ballot / sign fact handed to the box passed IsValid(networkID), which is what launch/p_memberlist.go and QuicstreamHandlerSendBallots check before calling Vote / VoteSignFact; nothing else is checked there")
	r.Assume("a fresh box is the NewBallotbox object with fresh state fields, a 256-slot voteproof channel and a pinned shard hash; zerolog.InterfaceMarshalFunc is stubbed (logging only)")
	r.Assume("Voteproof.IsValid(networkID) is memoised per (type, point, threshold, result, majority, sign fact set, expel operations)")
	tier := 0
	if r.Thorough() {
		tier = 1
	}
	item := 0
	for _, sc := range c04scenarios() {
		fx := c04newFx(sc.n, sc.th)
		if sc.mkfx != nil {
			fx = sc.mkfx()
		}
		depth := sc.depth[tier]
		r.Set("depth_"+sc.name, depth)
		r.Set("events_"+sc.name, len(sc.events))
		for first := range sc.events {
			item++
			if !r.Mine(item) {
				continue
			}
			c04bfs(r, sc, fx, first, depth)
		}
	}
}

func c04bfs(r *vlib.Run, sc *c04scenario, fx *c04fx, first, depth int) {
	frontier := [][]int{{first}}
	seen := map[string]bool{}
	for d := 1; d <= depth && len(frontier) > 0; d++ {
		var next [][]int
		for _, hist := range frontier {
			var cands [][]int
			if d == 1 {
				cands = [][]int{hist}
			} else {
				for ei := range sc.events {
					cands = append(cands, append(append([]int{}, hist...), ei))
				}
			}
			for _, h := range cands {
				if r.Expired() {
					return
				}
				parts := make([]string, len(h))
				for i, e := range h {
					parts[i] = sc.events[e].id()
				}
				id := sc.name + "/" + strings.Join(parts, "/")
				if !r.WantPrefix(id) {
					continue
				}
				c04resetPool()
				w := c04newWorld(sc, fx)
				ret := ""
				for i, ei := range h {
					ret = w.step(sc.events[ei], i == len(h)-1)
					r.Transition()
				}
				r.Trace()
				r.Eval()
				last := sc.events[h[len(h)-1]]
				if len(w.lastEm) == 0 {
					r.Outcome(last.kind + ":" + ret + ":none")
				}
				for _, vp := range w.lastEm {
					r.Outcome(last.kind + ":" + ret + ":" + w.vpClass(vp))
				}
				if w.nvps > 0 {
					r.Nontrivial(id)
				}
				r.Max("max_voteproofs_in_a_history", int64(w.nvps))
				if len(h) == 4 && len(w.lastEm) > 0 {
					r.Sample(map[string]any{"scenario": sc.name, "history": id, "emitted": w.vpClass(w.lastEm[0])})
				}
				for _, v := range w.viol {
					r.Violation(id, v.sig, v.detail+" | history: "+id, nil)
				}
				if len(w.viol) > 0 {
					continue // a violating state is not expanded
				}
				if key := w.canon(); !seen[key] {
					seen[key] = true
					r.State(sc.name + "|" + strconv.Itoa(first) + "|" + key)
					next = append(next, h)
				}
			}
		}
		frontier = next
	}
}
