//go:build verif

package isaacstates

import (
	"fmt"
	"sort"
	"strings"
	"testing"

	"github.com/spikeekips/mitum/base"
	"github.com/spikeekips/mitum/zzverif/vlib"
	"github.com/spikeekips/mitum/zzverif/vsched"
)

// C04, expel-group unit (engine Q): exhaustive enumeration of VOTE-SET SHAPES of one stage point in which
// several DIFFERENT ballot facts carry expels (voters that agree on the expel but not on the proposal / block,
// facts that expel different nodes or different numbers of nodes, the expelled node's own ballot recorded too,
// voters without expels next to them), so that sortBallotSignFactsByExpels / extractExpelsFromBallot /
// countWithExpels see 0, 1, 2, 3 and 4 expel groups with every relative position of voters and expelled nodes.
//
// A vote set gives every member one choice out of a menu: no ballot, a ballot for fact A or B without expels, a
// ballot for fact A or B that expels the nodes of one expel set of the palette. Every vote set is voted into a
// fresh real Ballotbox in every arrival order (4 members; a fixed family of orders for 5 members), every
// voteproof drained after every vote is judged by c04book.judge (the oracle of the sequential unit, written from
// the property statement). After the canonical arrival order the same records are counted again: Count, Count with
// every instrumented map range reversed (vsched.Descending: the iteration order of vr.voted / the expel-group map
// is Go-random in production, sorted ascending in the harness, here also descending), the hold time passes, the
// ticker body, Count.

type c04gcfg struct {
	n       int
	th      base.Threshold
	accept  bool
	desc    bool     // all instrumented map ranges iterate descending during the votes
	plain   []string // variants offered without expels
	withX   []string // variants offered with each expel set of the palette
	targets []int    // nodes that may be expelled
	maxX    int      // largest expel set
	mode    string   // "all": one palette of all expel sets of size 1; "pairs": one palette per unordered pair of distinct expel sets of size 1..maxX
	orders  string   // "all" | "few" (4) | "two"
}

func (c c04gcfg) name() string {
	st := "I"
	if c.accept {
		st = "A"
	}
	d := "asc"
	if c.desc {
		d = "desc"
	}
	x := ""
	for _, t := range c.targets {
		x += fmt.Sprint(t)
	}
	return fmt.Sprintf("groups-n%d-t%v-%s-%s%d-x%s-%s", c.n, c.th, st, c.mode, c.maxX, x, d)
}

// a choice of one voter: variant + expel set ("" = no expels; "-" variant = no ballot)
type c04gchoice struct {
	variant string
	x       []int
}

func (c c04gchoice) String() string {
	if c.variant == "-" {
		return "-"
	}
	if len(c.x) == 0 {
		return c.variant
	}
	s := make([]string, len(c.x))
	for i, t := range c.x {
		s[i] = fmt.Sprintf("n%d", t)
	}
	return c.variant + "{" + strings.Join(s, "+") + "}"
}

func c04gsubsets(targets []int, maxX int) [][]int {
	var out [][]int
	var rec func(start int, cur []int)
	rec = func(start int, cur []int) {
		if len(cur) > 0 {
			out = append(out, append([]int{}, cur...))
		}
		if len(cur) == maxX {
			return
		}
		for i := start; i < len(targets); i++ {
			rec(i+1, append(cur, targets[i]))
		}
	}
	rec(0, nil)
	sort.SliceStable(out, func(i, j int) bool { return len(out[i]) < len(out[j]) })
	return out
}

func (c c04gcfg) palettes() [][][]int {
	switch c.mode {
	case "all":
		return [][][]int{c04gsubsets(c.targets, 1)}
	case "pairs":
		sets := c04gsubsets(c.targets, c.maxX)
		var out [][][]int
		for i := range sets {
			for j := i + 1; j < len(sets); j++ {
				out = append(out, [][]int{sets[i], sets[j]})
			}
		}
		return out
	}
	panic("unknown mode " + c.mode)
}

func (c c04gcfg) menu(palette [][]int) []c04gchoice {
	m := []c04gchoice{{variant: "-"}}
	for _, v := range c.plain {
		m = append(m, c04gchoice{variant: v})
	}
	for _, x := range palette {
		for _, v := range c.withX {
			m = append(m, c04gchoice{variant: v, x: x})
		}
	}
	return m
}

func c04gperms(n int) [][]int {
	var out [][]int
	var rec func(cur []int, used int)
	rec = func(cur []int, used int) {
		if len(cur) == n {
			out = append(out, append([]int{}, cur...))
			return
		}
		for i := 0; i < n; i++ {
			if used&(1<<i) == 0 {
				rec(append(cur, i), used|1<<i)
			}
		}
	}
	rec(nil, 0)
	return out
}

// arrival orders of a complete vote set (the identity is always first)
func (c c04gcfg) arrivalOrders() [][]int {
	if c.orders == "all" {
		return c04gperms(c.n)
	}
	id := make([]int, c.n)
	rev := make([]int, c.n)
	for i := range id {
		id[i], rev[i] = i, c.n-1-i
	}
	out := [][]int{id, rev}
	if c.orders == "two" {
		return out
	}
	// the two rotations that make a middle / the last voter arrive first
	for _, k := range []int{c.n / 2, c.n - 1} {
		rot := make([]int, c.n)
		for i := range rot {
			rot[i] = (i + k) % c.n
		}
		out = append(out, rot)
	}
	return out
}

func (c c04gcfg) vote(fx *c04fx, voter int, ch c04gchoice) c04ev {
	p := c04sp{h: 33, r: 0, accept: c.accept}
	v := c04vote{who: fmt.Sprintf("n%d", voter), p: p, variant: ch.variant}
	var names []string
	for _, t := range ch.x {
		var signers []string
		for i := 0; i < c.n; i++ {
			if i != t {
				signers = append(signers, fmt.Sprintf("n%d", i))
			}
		}
		v.expels = append(v.expels, fmt.Sprintf("n%d/%s", t, strings.Join(signers, ",")))
		names = append(names, fmt.Sprintf("n%d", t))
	}
	switch {
	case !c.accept:
		v.vp = "acc:32"
	case len(ch.x) == 0:
		v.vp = "init:33.0"
	default:
		// an ACCEPT ballot with expels is valid only with an INIT expel voteproof of the same expels
		v.vp = "iexpm:33.0:" + strings.Join(names, "+")
	}
	return c04ev{kind: "vote", v: v}
}

func c04gconfigs(thorough bool) []c04gcfg {
	var out []c04gcfg
	ab := []string{"A", "B"}
	a := []string{"A"}
	if !thorough {
		// four members, every single non-local expel target: INIT in all 24 arrival orders, ACCEPT in 4
		out = append(out, c04gcfg{n: 4, th: 67, plain: ab, withX: ab, targets: []int{1, 2, 3}, maxX: 1, mode: "all", orders: "all"})
		out = append(out, c04gcfg{n: 4, th: 67, accept: true, plain: ab, withX: ab, targets: []int{1, 2, 3}, maxX: 1, mode: "all", orders: "few"})
		// five members, two expel sets of one or two nodes (two expels exceed f = 1: the reduced-quorum branch), INIT
		out = append(out, c04gcfg{n: 5, th: 67, plain: a, withX: ab, targets: []int{3, 4}, maxX: 2, mode: "pairs", orders: "two"})
		return out
	}
	for _, th := range []base.Threshold{67, 60, 75} {
		for _, accept := range []bool{false, true} {
			if th == 75 && accept {
				continue
			}
			for _, desc := range []bool{false, true} {
				if desc && (th != 67 || accept) {
					continue
				}
				// every single expel target including the local node (such ballots are refused), all 24 arrival orders
				out = append(out, c04gcfg{n: 4, th: th, accept: accept, desc: desc, plain: ab, withX: ab, targets: []int{0, 1, 2, 3}, maxX: 1, mode: "all", orders: "all"})
			}
			if th == 75 {
				continue // 75 and 67 ask for the same counts among 4 and 5 members
			}
			// four members, pairs of expel sets of one or two nodes, all 24 arrival orders
			out = append(out, c04gcfg{n: 4, th: th, accept: accept, plain: a, withX: ab, targets: []int{1, 2, 3}, maxX: 2, mode: "pairs", orders: "all"})
			// five members, pairs of expel sets of one or two nodes, 4 arrival orders
			out = append(out, c04gcfg{n: 5, th: th, accept: accept, plain: a, withX: ab, targets: []int{1, 3, 4}, maxX: 2, mode: "pairs", orders: "few"})
		}
	}
	return out
}

type c04gstats struct {
	histories, sets, multi, emittedMulti int64
}

// c04grun votes one vote set in one arrival order into a fresh box; tail = count again in both map orders, hold time, ticker body
func c04grun(r *vlib.Run, c c04gcfg, fx *c04fx, id string, evs []c04ev, tail bool, groups int) (emitted int) {
	sc := &c04scenario{name: c.name(), n: c.n, th: c.th, known: true}
	c04resetPool()
	w := c04newWorld(sc, fx)
	vsched.Descending = c.desc
	defer func() { vsched.Descending = false }()
	classes := map[string]bool{}
	note := func(kind string) {
		for _, vp := range w.lastEm {
			cl := w.vpClass(vp)
			if !strings.HasPrefix(cl, "embedded") {
				emitted++
			}
			classes[kind+":"+cl] = true
		}
	}
	for _, e := range evs {
		w.step(e, true)
		r.Transition()
		note("vote")
	}
	if tail {
		for _, k := range []string{"count", "count-reversed", "timepass", "tick", "count"} {
			switch k {
			case "count-reversed":
				vsched.Descending = !c.desc
				w.step(c04ev{kind: "count"}, true)
				vsched.Descending = c.desc
			default:
				w.step(c04ev{kind: k}, true)
			}
			r.Transition()
			note(k)
		}
	}
	r.Trace()
	r.Eval()
	g := groups
	if g > 3 {
		g = 3
	}
	st := "INIT"
	if c.accept {
		st = "ACCEPT"
	}
	if len(classes) == 0 {
		r.Outcome(fmt.Sprintf("groups:%s:g%d:none", st, g))
	}
	for cl := range classes {
		r.Outcome(fmt.Sprintf("groups:g%d:%s", g, cl))
	}
	for _, v := range w.viol {
		v.sig["unit"] = "expel-groups"
		v.sig["expel_groups"] = g
		r.Violation(id, v.sig, v.detail+" | case: "+id, nil)
	}
	return emitted
}

func TestVerifC04Groups(t *testing.T) {
	r := vlib.Start("C04")
	defer r.Finish()
	r.Rule("expel-group unit: vote set = one choice per member out of {no ballot, ballot for fact A/B without expels, ballot for fact A/B expelling one expel set of the palette}; every vote set is voted into a fresh real Ballotbox in every arrival order (4 members) / 4 orders (5 members), partial sets in member order; after the member-order history: Count, Count with reversed map iteration, hold time passes, ticker body, Count; every drained voteproof is judged; non-trivial = vote set with at least two different ballot facts carrying expels for which the box emitted a counted voteproof; states = distinct vote sets")
	cfgs := c04gconfigs(r.Thorough())
	if _, rp := r.Replaying(); rp {
		// replays run in the quick tier: a case of either tier must be found (config names are unique)
		cfgs = append(c04gconfigs(false), c04gconfigs(true)...)
	}
	fxs := map[string]*c04fx{}
	item := 0
	var st c04gstats
all:
	for _, c := range cfgs {
		fk := fmt.Sprintf("%d/%v", c.n, c.th)
		if fxs[fk] == nil {
			fxs[fk] = c04newFx(c.n, c.th)
		}
		fx := fxs[fk]
		orders := c.arrivalOrders()
		pals := c.palettes()
		r.Set("palettes_"+c.name(), len(pals))
		r.Set("arrival_orders_"+c.name(), len(orders))
		for pi, pal := range pals {
			if rid, rp := r.Replaying(); rp && !strings.HasPrefix(rid, fmt.Sprintf("%s/p%d/", c.name(), pi)) {
				continue
			}
			menu := c.menu(pal)
			if pi == 0 {
				r.Set("menu_"+c.name(), len(menu))
			}
			for first := range menu {
				item++
				if !r.Mine(item) {
					continue
				}
				// odometer over the choices of members 1..n-1
				idx := make([]int, c.n)
				idx[0] = first
				for {
					if r.Expired() {
						break all
					}
					c04gset(r, c, fx, pi, menu, idx, orders, &st)
					k := c.n - 1
					for ; k >= 1; k-- {
						idx[k]++
						if idx[k] < len(menu) {
							break
						}
						idx[k] = 0
					}
					if k < 1 {
						break
					}
				}
			}
		}
	}
	r.StatesN(st.sets)
	r.NontrivialN(st.emittedMulti)
	r.Add("groups_vote_sets", st.sets)
	r.Add("groups_histories", st.histories)
	r.Add("groups_vote_sets_with_two_or_more_expel_facts", st.multi)
	r.Add("groups_vote_sets_with_two_or_more_expel_facts_and_a_counted_voteproof", st.emittedMulti)
}

func c04gset(r *vlib.Run, c c04gcfg, fx *c04fx, pi int, menu []c04gchoice, idx []int, orders [][]int, st *c04gstats) {
	names := make([]string, c.n)
	for i := 0; i < c.n; i++ {
		names[i] = menu[idx[i]].String()
	}
	setID := fmt.Sprintf("%s/p%d/%s", c.name(), pi, strings.Join(names, ","))
	if rid, rp := r.Replaying(); rp && !strings.HasPrefix(rid, setID+"/") {
		return
	}
	evs := make([]c04ev, c.n)
	voted := 0
	xfacts := map[string]bool{}
	for i := 0; i < c.n; i++ {
		ch := menu[idx[i]]
		if ch.variant == "-" {
			continue
		}
		voted++
		evs[i] = c.vote(fx, i, ch)
		if len(ch.x) > 0 {
			xfacts[ch.String()] = true
		}
	}
	if voted == 0 {
		return
	}
	st.sets++
	if len(xfacts) >= 2 {
		st.multi++
	}
	ords := orders
	if voted < c.n {
		ords = orders[:1] // partial sets are the prefixes of the complete ones; their own history is needed for the tail only
	}
	for oi, ord := range ords {
		var seq []c04ev
		var on []string
		for _, i := range ord {
			if evs[i].kind != "" {
				seq = append(seq, evs[i])
				on = append(on, fmt.Sprint(i))
			}
		}
		id := setID + "/o" + strings.Join(on, "")
		if !r.Want(id) {
			continue
		}
		st.histories++
		em := c04grun(r, c, fx, id, seq, oi == 0, len(xfacts))
		if oi == 0 && em > 0 && len(xfacts) >= 2 {
			st.emittedMulti++
		}
		if oi == 0 && len(xfacts) >= 2 && em > 0 && st.emittedMulti <= 3 {
			r.Sample(map[string]any{"unit": "expel-groups", "case": id, "counted_voteproofs": em})
		}
	}
}
