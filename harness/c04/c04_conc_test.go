//go:build verif

package isaacstates

import (
	"fmt"
	"sort"
	"strings"
	"testing"

	"github.com/spikeekips/mitum/base"
	"github.com/spikeekips/mitum/isaac"
	"github.com/spikeekips/mitum/zzverif/vlib"
	"github.com/spikeekips/mitum/zzverif/vsched"
)

// C04, concurrent half (engine S): isaac/states/ballotbox.go and util/lock.go run on the
// vsync / vatomic / channel shims. After a sequential setup 2-3 threads call the real Vote /
// VoteSignFact / Count / SetLastPoint (and "the suffrage becomes known"); the `go deferred()` and
// `go newBallotf()` goroutines of Vote are tracked threads. Every interleaving within the
// preemption bound is executed; at quiescence every voteproof drained from Voteproof() is judged by
// the same c04book.judge as in the sequential half, every sign fact for which Vote returned true must
// be in its (still live) record, at most one sign fact per (record, node) may have been accepted;
// no panic, no deadlock.

type c04conc struct {
	name    string
	n       int
	th      base.Threshold
	unknown bool // the setup runs while the suffrage is unknown; it becomes known before the threads start unless a thread does it
	setup   []c04ev
	threads [][]c04ev
	bound   [2]int // preemption bound quick, thorough (-1 = not run in that tier)
	mkfx    func() *c04fx
}

func (c c04conc) id() string {
	var ts []string
	for _, t := range c.threads {
		var es []string
		for _, e := range t {
			es = append(es, e.id())
		}
		ts = append(ts, strings.Join(es, ","))
	}
	return c.name + "|" + strings.Join(ts, " || ")
}

func c04panicSite(stack string) string {
	var fr []string
	after := false
	for _, ln := range strings.Split(stack, "\n") {
		if strings.HasPrefix(ln, "panic(") {
			after = true
			continue
		}
		if !after || !strings.HasPrefix(ln, "github.com/spikeekips/mitum/isaac/states.") || strings.HasPrefix(ln, "github.com/spikeekips/mitum/isaac/states.c04") {
			continue
		}
		f := strings.TrimPrefix(ln, "github.com/spikeekips/mitum/isaac/states.")
		if i := strings.LastIndex(f, "("); i > 0 {
			f = f[:i]
		}
		fr = append(fr, strings.NewReplacer("(*", "", ")", "").Replace(f))
		if len(fr) == 2 {
			break
		}
	}
	return strings.Join(fr, "<-")
}

func c04concBuild(c c04conc, fx *c04fx) vsched.Scenario {
	c04resetPool()
	sc := &c04scenario{name: c.name, n: c.n, th: c.th, known: !c.unknown}
	w := c04newWorld(sc, fx)
	for _, e := range c.setup {
		w.step(e, true)
	}
	threadKnows := false
	for _, t := range c.threads {
		for _, e := range t {
			if e.kind == "known" {
				threadKnows = true
			}
		}
	}
	if !threadKnows {
		w.known = true
	}
	setupViol := len(w.viol)
	box := w.box
	book := w.book
	type call struct {
		e   c04ev
		sf  base.BallotSignFact
		bl  base.Ballot
		ret string
		ok  bool
	}
	calls := make([][]*call, len(c.threads))
	var roots []func()
	for ti := range c.threads {
		ti := ti
		for _, e := range c.threads[ti] {
			cl := &call{e: e}
			if e.kind == "vote" {
				cl.sf, cl.bl = fx.build(e.v)
				book.offer(e.v, cl.sf, cl.bl)
			}
			calls[ti] = append(calls[ti], cl)
		}
		roots = append(roots, func() {
			for _, cl := range calls[ti] {
				e := cl.e
				switch e.kind {
				case "vote":
					var err error
					if cl.bl != nil {
						cl.ok, err = box.Vote(cl.bl)
					} else {
						cl.ok, err = box.VoteSignFact(cl.sf)
					}
					if err != nil {
						panic("vote error: " + err.Error())
					}
					if cl.ok {
						book.accept(e.v, cl.sf)
					}
					cl.ret = fmt.Sprint(cl.ok)
				case "count":
					cl.ret = fmt.Sprint(box.Count())
				case "setlast":
					lp, err := isaac.NewLastPoint(e.p.sp(), e.maj, e.sc)
					if err != nil {
						panic(err)
					}
					cl.ret = fmt.Sprint(box.SetLastPoint(lp))
				case "known":
					vsched.Point("suffrage-known", nil)
					w.known = true
					cl.ret = "-"
				case "tick":
					box.countHoldeds()
					cl.ret = "-"
				default:
					panic("unsupported op " + e.kind)
				}
			}
		})
	}
	rets := func() string {
		var out []string
		for _, t := range calls {
			var rs []string
			for _, cl := range t {
				rs = append(rs, cl.ret)
			}
			out = append(out, strings.Join(rs, ","))
		}
		return strings.Join(out, " | ")
	}
	var drained []base.Voteproof
	fail := func(sig map[string]any, format string, a ...any) *vsched.Fail {
		sig["phase"] = "concurrent"
		return &vsched.Fail{Sig: sig, Detail: fmt.Sprintf(format, a...) + " | scenario " + c.id() + " | returns " + rets()}
	}
	check := func(x *vsched.Exec) *vsched.Fail {
		drained = c04drain(box)
		if setupViol > 0 {
			v := w.viol[0]
			v.sig["phase"] = "setup"
			return &vsched.Fail{Sig: v.sig, Detail: "sequential setup already violates: " + v.detail}
		}
		if x.Panic != nil {
			return fail(map[string]any{"kind": "panic", "site": c04panicSite(x.PanicStack)}, "panic: %v\n%s", x.Panic, x.PanicStack)
		}
		if x.Deadlock {
			return fail(map[string]any{"kind": "deadlock"}, "deadlock: %s", strings.Join(x.Blocked, "; "))
		}
		for _, vp := range drained {
			if v := book.judge(vp, fx.th); v != nil {
				return fail(v.sig, "%s", v.detail)
			}
		}
		// Vote's boolean equals "recorded"
		acceptedBy := map[string]string{}
		for _, t := range calls {
			for _, cl := range t {
				if cl.e.kind != "vote" || !cl.ok {
					continue
				}
				key := c04key(cl.e.v.p, cl.e.v.sc)
				node := cl.sf.Node().String()
				name := fx.sfName(cl.sf)
				if prev, dup := acceptedBy[key+"|"+node]; dup && prev != name {
					return fail(map[string]any{"kind": "two-votes-of-one-node-accepted"}, "record %q accepted both %s and %s", key, prev, name)
				}
				acceptedBy[key+"|"+node] = name
				if vr, ok := box.vrs.Value(key); ok && !vr.sp.IsZero() && c04spOf(vr.sp) == cl.e.v.p {
					if got := w.entry(key, node); got != name {
						return fail(map[string]any{"kind": "vote-true-not-recorded"}, "%s returned true but the live record of %q holds %q for node %s", cl.e.id(), key, got, node)
					}
				}
			}
		}
		return nil
	}
	outcome := func(*vsched.Exec) string {
		var cls []string
		for _, vp := range drained {
			cls = append(cls, c04spOf(vp.Point()).String()+":"+w.vpClass(vp))
		}
		sort.Strings(cls)
		return fmt.Sprintf("last=%s vps=[%s] rets=%s", c04lpString(box.LastPoint()), strings.Join(cls, " "), rets())
	}
	return vsched.Scenario{Roots: roots, Check: check, Outcome: outcome}
}

func c04concScenarios() []c04conc {
	P := func(h int64, r uint64, a bool) c04sp { return c04sp{h: h, r: r, accept: a} }
	p1, p2 := P(33, 0, false), P(33, 0, true)
	v := func(who string, p c04sp, variant string, vp string) c04ev {
		return c04ev{kind: "vote", v: c04vote{who: who, p: p, variant: variant, vp: vp}}
	}
	return []c04conc{
		// three members, quorum 3: the three votes of one stage point arrive concurrently (one as a ballot with an embedded voteproof)
		{name: "three-voters", n: 3, th: 67, bound: [2]int{1, 1}, threads: [][]c04ev{
			{v("n0", p1, "A", "acc:32")}, {v("n1", p1, "A", "")}, {v("n2", p1, "A", "")}}},
		// conflicting votes of one node race with the completing vote
		{name: "conflicting-votes", n: 3, th: 67, bound: [2]int{1, 2}, setup: []c04ev{v("n0", p1, "A", "")}, threads: [][]c04ev{
			{v("n1", p1, "A", "")}, {v("n2", p1, "A", "")}, {v("n2", p1, "B", "")}}},
		// last vote vs Count vs a vote for the next stage
		{name: "vote-count-nextstage", n: 3, th: 67, bound: [2]int{1, 2}, setup: []c04ev{v("n0", p1, "A", ""), v("n1", p1, "A", "")}, threads: [][]c04ev{
			{v("n2", p1, "A", "")}, {{kind: "count"}}, {v("n0", p2, "A", "")}}},
		// completing votes vs SetLastPoint past / onto the stage point
		{name: "vote-vs-setlast", n: 3, th: 67, bound: [2]int{1, 2}, setup: []c04ev{v("n0", p1, "A", ""), v("n1", p1, "A", "")}, threads: [][]c04ev{
			{v("n2", p1, "A", "")}, {{kind: "setlast", p: p1, maj: true}}, {v("n2", p1, "B", "")}}},
		// two stage points complete concurrently while Count runs
		{name: "two-points-and-count", n: 3, th: 67, bound: [2]int{1, 2},
			setup: []c04ev{v("n0", p1, "A", ""), v("n1", p1, "A", ""), v("n0", p2, "A", ""), v("n1", p2, "A", "")}, threads: [][]c04ev{
				{v("n2", p1, "A", "")}, {v("n2", p2, "A", "")}, {{kind: "count"}}}},
		// ballots parked while the suffrage is unknown; it becomes known and Count runs while another ballot arrives
		{name: "suffrage-becomes-known", n: 3, th: 67, unknown: true, bound: [2]int{1, 2},
			setup: []c04ev{v("n0", p1, "A", "acc:32"), v("n1", p1, "A", "acc:32")}, threads: [][]c04ev{
				{{kind: "known"}, {kind: "count"}}, {v("n2", p1, "A", "acc:32")}}},
		// a node joined between heights 32 and 33: a ballot of (33,0) carrying the ACCEPT voteproof of (32,0) signed by two old
		// nodes and the joined node races with a sign-fact vote and Count; the last point is INIT(32) majority
		{name: "suffrage-join-carried-voteproofs", n: 4, th: 67, bound: [2]int{1, 2},
			mkfx:  func() *c04fx { return c04newFxChange(4, 67, []int{0, 1, 2}, []int{0, 1, 2, 3}, 32) },
			setup: []c04ev{{kind: "setlast", p: P(32, 0, false), maj: true}}, threads: [][]c04ev{
				{v("n1", P(33, 0, false), "A", "accs:32:n0,n1,n3")}, {v("n0", P(33, 0, false), "A", ""), {kind: "count"}}}},
		// two ballot voters (each spawning the deferred count and the new-ballot callback) complete a draw
		{name: "ballot-voters-draw", n: 2, th: 100, bound: [2]int{1, 2}, threads: [][]c04ev{
			{v("n0", p1, "A", "acc:32")}, {v("n1", p1, "B", "acc:32")}}},
	}
}

func TestVerifC04Conc(t *testing.T) {
	r := vlib.Start("C04")
	defer r.Finish()
	r.Rule("concurrent half: scenario = sequential setup + 2-3 threads of 1-2 calls (Vote, VoteSignFact, Count, SetLastPoint, suffrage-becomes-known) on the real Ballotbox; every interleaving within the preemption bound of the roots and the goroutines Vote spawns; non-trivial = scenario with more than one observable outcome; states = distinct (scenario, outcome)")
	tier := vlib.Pick(r, 0, 1)
	cfgs := c04concScenarios()
	r.Set("conc_scenarios_enumerated", len(cfgs))
	fxs := map[string]*c04fx{}
	sh, nsh := r.Shard()
	for i, c := range cfgs {
		c := c
		key := fmt.Sprintf("%d/%v", c.n, c.th)
		if fxs[key] == nil {
			fxs[key] = c04newFx(c.n, c.th)
		}
		fx := fxs[key]
		if c.mkfx != nil {
			fx = c.mkfx()
		}
		id := c.id()
		bound := c.bound[tier]
		r.Set("preemption_bound_"+c.name, bound)
		build := func() vsched.Scenario { return c04concBuild(c, fx) }
		if rid, rp := r.Replaying(); rp {
			k := strings.LastIndex(rid, "#")
			if k < 0 || rid[:k] != id {
				continue
			}
			s := build()
			x := vsched.Run(vsched.Options{Prefix: vsched.ParseChoices(rid[k+1:])}, s.Roots...)
			r.Trace()
			if f := s.Check(x); f != nil {
				r.Violation(rid, f.Sig, f.Detail, nil)
			}
			continue
		}
		if r.Expired() || bound < 0 {
			continue
		}
		// every shard explores every scenario, each a disjoint set of first-level subtrees
		res := vsched.Explore(vsched.Config{Name: id, Bound: bound, Build: build, Expired: r.Expired, MaxFound: 2, Horizon: 20000,
			Mine: func(l int) bool { return nsh <= 1 || l%nsh == sh }, Secondary: sh != 0})
		if res.EngineError != "" {
			panic("engine error in " + id + ": " + res.EngineError)
		}
		r.TraceN(res.Executions)
		r.TransitionN(res.Points)
		r.EvalN(res.Executions)
		if sh == 0 {
			r.Add("conc_scenarios", 1)
			r.Set("executions_shard0_"+c.name, res.Executions)
		}
		if res.Capped != "" {
			r.Cap(res.Capped)
		} else {
			r.Min("bound_completed_"+c.name, int64(res.BoundCompleted))
		}
		r.Max("max_points_per_execution", int64(res.MaxPoints))
		if len(res.Outcomes) > 1 {
			r.Nontrivial("conc:" + id)
		}
		for o := range res.Outcomes {
			r.State("conc:" + id + "=>" + o)
			if strings.HasPrefix(o, "FAIL:") {
				r.Outcome("conc:" + o)
			} else {
				r.Outcome("conc:" + c.name + ":" + o[strings.Index(o, "vps="):strings.Index(o, " rets=")])
			}
		}
		for _, f := range res.Found {
			r.Violation(id+"#"+vsched.ChoicesString(f.Choices), f.Fail.Sig, f.Fail.Detail+fmt.Sprintf(" (preemptions=%d)", f.Preempt), nil)
		}
		if i < 3 {
			r.Sample(map[string]any{"scenario": id, "executions": res.Executions, "distinct_outcomes": len(res.Outcomes)})
		}
	}
}
