//go:build verif

package isaacstates

import (
	"fmt"
	"slices"
	"sort"
	"strings"
	"time"

	"github.com/rs/zerolog"
	"github.com/spikeekips/mitum/base"
	"github.com/spikeekips/mitum/isaac"
	"github.com/spikeekips/mitum/util"
	"github.com/spikeekips/mitum/util/valuehash"
	"github.com/spikeekips/mitum/zzverif/vsync"
)

// Shared fixture of the C04 harness (sequential and concurrent unit): a fixed
// suffrage, pre-signed sign facts / ballots / expel operations / embedded
// voteproofs, a real Ballotbox with pinned shard placement, and in-package
// accessors for the live record map, the awaiting-recycle list and the record
// pool (the property's hook_needed).

var c04net = base.NetworkID([]byte("verif-c04-network"))

func c04h(s string) util.Hash { return valuehash.NewSHA256([]byte(s)) }

func init() {
	// Ballotbox logs through a Nop logger, but zerolog marshals Interface() values
	// eagerly (1.2 ms per vote). Logging is not behaviour under test.
	zerolog.InterfaceMarshalFunc = func(interface{}) ([]byte, error) { return []byte("null"), nil }
}

type c04fx struct {
	n        int
	th       base.Threshold
	nodes    []base.LocalNode // suffrage members n0..; n0 is the local node of the box
	outsider base.LocalNode   // not a member
	forged   base.LocalNode   // address of the last member, foreign key
	suf      base.Suffrage // suffrage of block heights >= changeAt (of every height when changeAt == 0)
	oldsuf   base.Suffrage // suffrage of block heights < changeAt
	changeAt int64         // block height from which `suf` is in charge (0 = one suffrage for all heights)
	sfs      map[string]base.BallotSignFact
	sfid     map[string]string // sign fact identity -> menu id
	ops      map[string]base.SuffrageExpelOperation
	vps      map[string]base.Voteproof
	vpid     map[string]string // voteproof ID() -> menu id
	proto    *Ballotbox
	built    map[string]c04built
	vpValidMemo map[string]string
}

func c04newFx(n int, th base.Threshold) *c04fx {
	fx := &c04fx{n: n, th: th, sfs: map[string]base.BallotSignFact{}, sfid: map[string]string{},
		built: map[string]c04built{}, vpValidMemo: map[string]string{}, ops: map[string]base.SuffrageExpelOperation{}, vps: map[string]base.Voteproof{}, vpid: map[string]string{}}
	nodes := make([]base.Node, n)
	for i := 0; i < n; i++ {
		l := isaac.NewLocalNode(base.NewMPrivatekey(), base.NewStringAddress(fmt.Sprintf("no0%d", i)))
		fx.nodes = append(fx.nodes, l)
		nodes[i] = l
	}
	fx.outsider = isaac.NewLocalNode(base.NewMPrivatekey(), base.NewStringAddress("xx99"))
	fx.forged = isaac.NewLocalNode(base.NewMPrivatekey(), fx.nodes[n-1].Address())
	suf, err := isaac.NewSuffrage(nodes)
	if err != nil {
		panic(err)
	}
	fx.suf = suf
	fx.proto = NewBallotbox(fx.nodes[0].Address(), func() base.Threshold { return th },
		func(base.Height) (base.Suffrage, bool, error) { return nil, false, nil })
	return fx
}

// sufFor is the suffrage in charge of stage points of height blockHeight+1 (what getSuffrage(blockHeight) returns)
func (fx *c04fx) sufFor(blockHeight base.Height) base.Suffrage {
	if fx.changeAt > 0 && blockHeight.Int64() < fx.changeAt {
		return fx.oldsuf
	}
	return fx.suf
}

// sufOfPoint is the suffrage of a stage point
func (fx *c04fx) sufOfPoint(sp base.StagePoint) base.Suffrage {
	return fx.sufFor(sp.Height().SafePrev())
}

// c04newFxChange: `total` nodes n0..; the suffrage is oldIdx for block heights < changeAt and newIdx from changeAt on
func c04newFxChange(total int, th base.Threshold, oldIdx, newIdx []int, changeAt int64) *c04fx {
	fx := c04newFx(total, th)
	mk := func(idx []int) base.Suffrage {
		nodes := make([]base.Node, len(idx))
		for i, j := range idx {
			nodes[i] = fx.nodes[j]
		}
		suf, err := isaac.NewSuffrage(nodes)
		if err != nil {
			panic(err)
		}
		return suf
	}
	fx.oldsuf, fx.suf, fx.changeAt = mk(oldIdx), mk(newIdx), changeAt
	return fx
}

// signer: "n0".."n3" members, "x" outsider, "f" forged key for the last member
func (fx *c04fx) node(who string) base.LocalNode {
	switch who {
	case "x":
		return fx.outsider
	case "f":
		return fx.forged
	}
	var i int
	fmt.Sscanf(who, "n%d", &i)
	return fx.nodes[i]
}

type c04sp struct {
	h      int64
	r      uint64
	accept bool
}

func (p c04sp) String() string {
	st := "I"
	if p.accept {
		st = "A"
	}
	return fmt.Sprintf("%d.%d%s", p.h, p.r, st)
}

func (p c04sp) point() base.Point { return base.RawPoint(p.h, p.r) }
func (p c04sp) sp() base.StagePoint {
	if p.accept {
		return base.NewStagePoint(p.point(), base.StageACCEPT)
	}
	return base.NewStagePoint(p.point(), base.StageINIT)
}

func c04spOf(sp base.StagePoint) c04sp {
	return c04sp{h: sp.Height().Int64(), r: sp.Round().Uint64(), accept: sp.Stage() == base.StageACCEPT}
}

func c04key(p c04sp, sc bool) string {
	k := p.sp().String()
	if sc {
		k = "sf-" + k
	}
	return k
}

// expel operation on member `target`, signed by `signers` (e.g. "n0,n1,n2")
func (fx *c04fx) expelOp(h int64, target string, signers string) base.SuffrageExpelOperation {
	id := fmt.Sprintf("expel|%d|%s|%s", h, target, signers)
	if op, ok := fx.ops[id]; ok {
		return op
	}
	fact := isaac.NewSuffrageExpelFact(fx.node(target).Address(), base.Height(h-1), base.Height(h), "verif-"+target)
	op := isaac.NewSuffrageExpelOperation(fact)
	for _, s := range strings.Split(signers, ",") {
		nd := fx.node(s)
		if err := op.NodeSign(nd.Privatekey(), c04net, nd.Address()); err != nil {
			panic(err)
		}
	}
	fx.ops[id] = op
	return op
}

func (fx *c04fx) expelHashes(ops []base.SuffrageExpelOperation) []util.Hash {
	hs := make([]util.Hash, len(ops))
	for i := range ops {
		hs[i] = ops[i].Fact().Hash()
	}
	return hs
}

func c04prev(h int64) util.Hash { return c04h(fmt.Sprintf("block-%d", h-1)) }

// fact of a stage point: variant "A"/"B" (differ in proposal / new block), suffrage confirm, expel fact hashes
func (fx *c04fx) fact(p c04sp, variant string, sc bool, expelfacts []util.Hash) base.BallotFact {
	switch {
	case p.accept:
		blk := c04h(fmt.Sprintf("block-%d", p.h))
		if variant != "A" {
			blk = c04h(fmt.Sprintf("block-%d-%s-r%d", p.h, variant, p.r))
		}
		return isaac.NewACCEPTBallotFact(p.point(), c04h(fmt.Sprintf("pr-%d-%d-A", p.h, p.r)), blk, expelfacts)
	case sc:
		return isaac.NewSuffrageConfirmBallotFact(p.point(), c04prev(p.h), c04h(fmt.Sprintf("pr-%d-%d-%s", p.h, p.r, variant)), expelfacts)
	default:
		return isaac.NewINITBallotFact(p.point(), c04prev(p.h), c04h(fmt.Sprintf("pr-%d-%d-%s", p.h, p.r, variant)), expelfacts)
	}
}

func c04sfIdentity(sf base.BallotSignFact) string {
	return sf.Node().String() + "|" + sf.Signer().String() + "|" + sf.Fact().Hash().String()
}

// sign fact, cached under its menu id
func (fx *c04fx) signFact(who string, p c04sp, variant string, sc bool, expelfacts []util.Hash, tag string) base.BallotSignFact {
	id := fmt.Sprintf("%s:%s:%s", who, p, variant)
	if sc {
		id += ":sc"
	}
	if tag != "" && tag != "vp" { // sign facts inside embedded voteproofs are the menu's own sign facts
		id += ":" + tag
	}
	if sf, ok := fx.sfs[id]; ok {
		return sf
	}
	nd := fx.node(who)
	fact := fx.fact(p, variant, sc, expelfacts)
	var out base.BallotSignFact
	if p.accept {
		sf := isaac.NewACCEPTBallotSignFact(fact.(isaac.ACCEPTBallotFact))
		if err := sf.NodeSign(nd.Privatekey(), c04net, nd.Address()); err != nil {
			panic(err)
		}
		out = sf
	} else {
		sf := isaac.NewINITBallotSignFact(fact.(base.INITBallotFact))
		if err := sf.NodeSign(nd.Privatekey(), c04net, nd.Address()); err != nil {
			panic(err)
		}
		out = sf
	}
	if err := out.IsValid(c04net); err != nil {
		panic(fmt.Sprintf("fixture sign fact %s invalid: %v", id, err))
	}
	fx.sfs[id] = out
	fx.sfid[c04sfIdentity(out)] = id
	return out
}

func (fx *c04fx) sfName(sf base.BallotSignFact) string {
	if id, ok := fx.sfid[c04sfIdentity(sf)]; ok {
		return id
	}
	return "UNKNOWN(" + c04sfIdentity(sf) + ")"
}

// embedded voteproofs
//   "acc:<h>"      ACCEPT majority voteproof of (h,0) signed by all members, new block = block-h
//   "init:<h>.<r>" INIT majority voteproof of (h,r) fact A signed by all members
//   "draw:<h>.<r>" INIT draw voteproof of (h,r) (members vote pairwise different facts)
//   "xacc:<h>"     ACCEPT majority voteproof of (h,0) signed only by non-members (passes IsValid, fails with the suffrage)
//   "accs:<h>:<signers>" ACCEPT majority voteproof of (h,0) signed by exactly the listed nodes
//   "iexp:<h>.<r>:<target>" INIT expel voteproof of (h,r): majority fact A with expel of target, signed by the other members
func (fx *c04fx) voteproof(id string) base.Voteproof {
	if vp, ok := fx.vps[id]; ok {
		return vp
	}
	var vp base.Voteproof
	kind, rest, _ := strings.Cut(id, ":")
	switch kind {
	case "acc", "xacc":
		var h int64
		fmt.Sscanf(rest, "%d", &h)
		p := c04sp{h: h, accept: true}
		var sfs []base.BallotSignFact
		if kind == "acc" {
			for i := range fx.nodes {
				sfs = append(sfs, fx.signFact(fmt.Sprintf("n%d", i), p, "A", false, nil, "vp"))
			}
		} else {
			for i := 0; i < fx.n; i++ {
				o := isaac.NewLocalNode(base.NewMPrivatekey(), base.NewStringAddress(fmt.Sprintf("yy0%d", i)))
				sf := isaac.NewACCEPTBallotSignFact(fx.fact(p, "A", false, nil).(isaac.ACCEPTBallotFact))
				if err := sf.NodeSign(o.Privatekey(), c04net, o.Address()); err != nil {
					panic(err)
				}
				sfs = append(sfs, sf)
			}
		}
		avp := isaac.NewACCEPTVoteproof(p.point())
		avp.SetMajority(fx.fact(p, "A", false, nil)).SetSignFacts(sfs).SetThreshold(fx.th).Finish()
		vp = avp
	case "accs":
		// "accs:<h>:<signers>" ACCEPT majority voteproof of (h,0), fact A, signed by exactly the listed nodes
		parts := strings.SplitN(rest, ":", 2)
		var h int64
		fmt.Sscanf(parts[0], "%d", &h)
		p := c04sp{h: h, accept: true}
		var sfs []base.BallotSignFact
		for _, who := range strings.Split(parts[1], ",") {
			sfs = append(sfs, fx.signFact(who, p, "A", false, nil, "vp"))
		}
		avp := isaac.NewACCEPTVoteproof(p.point())
		avp.SetMajority(fx.fact(p, "A", false, nil)).SetSignFacts(sfs).SetThreshold(fx.th).Finish()
		vp = avp
	case "init", "draw":
		var h int64
		var r uint64
		fmt.Sscanf(rest, "%d.%d", &h, &r)
		p := c04sp{h: h, r: r}
		var sfs []base.BallotSignFact
		for i := range fx.nodes {
			v := "A"
			if kind == "draw" {
				v = fmt.Sprintf("D%d", i)
			}
			sfs = append(sfs, fx.signFact(fmt.Sprintf("n%d", i), p, v, false, nil, "vp"))
		}
		ivp := isaac.NewINITVoteproof(p.point())
		if kind == "init" {
			ivp.SetMajority(fx.fact(p, "A", false, nil))
		}
		ivp.SetSignFacts(sfs).SetThreshold(fx.th).Finish()
		vp = ivp
	case "iexp":
		var h int64
		var r uint64
		parts := strings.Split(rest, ":")
		fmt.Sscanf(parts[0], "%d.%d", &h, &r)
		target := parts[1]
		p := c04sp{h: h, r: r}
		var signers []string
		for i := range fx.nodes {
			if s := fmt.Sprintf("n%d", i); s != target {
				signers = append(signers, s)
			}
		}
		ops := []base.SuffrageExpelOperation{fx.expelOp(h, target, strings.Join(signers, ","))}
		efs := fx.expelHashes(ops)
		var sfs []base.BallotSignFact
		for _, s := range signers {
			sfs = append(sfs, fx.signFact(s, p, "A", false, efs, "e-"+target))
		}
		ivp := isaac.NewINITExpelVoteproof(p.point())
		ivp.SetMajority(fx.fact(p, "A", false, efs)).SetSignFacts(sfs).SetThreshold(fx.th)
		ivp.SetExpels(ops)
		ivp.Finish()
		vp = ivp
	case "iexpm":
		// "iexpm:<h>.<r>:<t1>+<t2>" INIT expel voteproof of (h,r): majority fact A with the expels of t1, t2 (each operation
		// signed by every member but its target, the same operation a ballot "ti/<all others>" carries), signed by the members not expelled
		var h int64
		var r uint64
		parts := strings.Split(rest, ":")
		fmt.Sscanf(parts[0], "%d.%d", &h, &r)
		targets := strings.Split(parts[1], "+")
		p := c04sp{h: h, r: r}
		var ops []base.SuffrageExpelOperation
		for _, t := range targets {
			var signers []string
			for i := range fx.nodes {
				if s := fmt.Sprintf("n%d", i); s != t {
					signers = append(signers, s)
				}
			}
			ops = append(ops, fx.expelOp(h, t, strings.Join(signers, ",")))
		}
		sort.Slice(ops, func(i, j int) bool {
			return strings.Compare(ops[i].Fact().Hash().String(), ops[j].Fact().Hash().String()) < 0
		})
		efs := fx.expelHashes(ops)
		var sfs []base.BallotSignFact
		for i := range fx.nodes {
			s := fmt.Sprintf("n%d", i)
			if slices.Contains(targets, s) {
				continue
			}
			sfs = append(sfs, fx.signFact(s, p, "A", false, efs, "ex("+strings.Join(targets, ";")+")"))
		}
		ivp := isaac.NewINITExpelVoteproof(p.point())
		ivp.SetMajority(fx.fact(p, "A", false, efs)).SetSignFacts(sfs).SetThreshold(fx.th)
		ivp.SetExpels(ops)
		ivp.Finish()
		vp = ivp
	default:
		panic("unknown voteproof id " + id)
	}
	if err := vp.IsValid(c04net); err != nil {
		panic(fmt.Sprintf("fixture voteproof %s invalid: %v", id, err))
	}
	fx.vps[id] = vp
	fx.vpid[vp.ID()] = id
	return vp
}

func (fx *c04fx) scVoteproofID(p c04sp) string {
	return fmt.Sprintf("iexp:%d.%d:n%d", p.h, p.r, fx.n-1)
}

// c04vote is one menu vote: a sign fact alone (VoteSignFact) or a ballot (Vote)
type c04vote struct {
	who     string
	p       c04sp
	variant string
	sc      bool
	vp      string   // embedded voteproof id ("" = VoteSignFact path, no ballot)
	expels  []string // "target/signers" expel operations carried by the ballot
}

func (v c04vote) id() string {
	s := fmt.Sprintf("V:%s:%s:%s", v.who, v.p, v.variant)
	if v.sc {
		s += ":sc"
	}
	if v.vp != "" {
		s += ":bl(" + v.vp + ")"
	}
	if len(v.expels) > 0 {
		s += ":ex(" + strings.Join(v.expels, ";") + ")"
	}
	return s
}

type c04built struct {
	sf base.BallotSignFact
	bl base.Ballot
}

// build returns the (cached) sign fact and ballot of a menu vote. Every ballot satisfies the
// precondition of Ballotbox.Vote in the node (launch/p_memberlist.go): Ballot.IsValid(networkID).
func (fx *c04fx) build(v c04vote) (base.BallotSignFact, base.Ballot) {
	if b, ok := fx.built[v.id()]; ok {
		return b.sf, b.bl
	}
	sf, bl := fx.build0(v)
	if bl != nil {
		if err := bl.IsValid(c04net); err != nil {
			panic(fmt.Sprintf("fixture ballot %s invalid: %v", v.id(), err))
		}
	}
	fx.built[v.id()] = c04built{sf: sf, bl: bl}
	return sf, bl
}

func (fx *c04fx) build0(v c04vote) (base.BallotSignFact, base.Ballot) {
	var ops []base.SuffrageExpelOperation
	for _, e := range v.expels {
		target, signers, _ := strings.Cut(e, "/")
		ops = append(ops, fx.expelOp(v.p.h, target, signers))
	}
	var efs []util.Hash
	tag := ""
	if len(ops) > 0 {
		sort.Slice(ops, func(i, j int) bool {
			return strings.Compare(ops[i].Fact().Hash().String(), ops[j].Fact().Hash().String()) < 0
		})
		efs = fx.expelHashes(ops)
		var targets []string
		for _, e := range v.expels {
			t, _, _ := strings.Cut(e, "/")
			targets = append(targets, t)
		}
		tag = "ex(" + strings.Join(targets, ";") + ")" // the sign fact depends on the expel facts only, not on who signed the operations
	}
	if v.sc {
		// a suffrage confirm fact repeats the expel facts of the INIT expel voteproof it confirms
		// (fixture: the last member is expelled, all others signed)
		if fx.n > 1 {
			efs = fx.expelHashes(fx.voteproof(fx.scVoteproofID(v.p)).(base.HasExpels).Expels())
		} else {
			efs = fx.expelHashes([]base.SuffrageExpelOperation{fx.expelOp(v.p.h, "x", "n0")})
		}
	}
	sf := fx.signFact(v.who, v.p, v.variant, v.sc, efs, tag)
	if v.vp == "" {
		return sf, nil
	}
	vp := fx.voteproof(v.vp)
	var bl base.Ballot
	if v.p.accept {
		bl = isaac.NewACCEPTBallot(vp.(base.INITVoteproof), sf.(isaac.ACCEPTBallotSignFact), ops)
	} else {
		bl = isaac.NewINITBallot(vp, sf.(isaac.INITBallotSignFact), ops)
	}
	return sf, bl
}

// ---- the real box ----

func c04shardIndex(k interface{}, size uint64) (uint64, interface{}) {
	s, _ := k.(string)
	var d uint64 = 14695981039346656037
	for i := 0; i < len(s); i++ {
		d ^= uint64(s[i])
		d *= 1099511628211
	}
	return d % size, k
}

// c04freshBox is the constructed box (NewBallotbox) with fresh state fields, exactly as the
// constructor makes them, except: a 256-slot voteproof channel instead of 65535 slots (1 MB
// per box) and a pinned shard hash instead of a random djb2 seed (deterministic placement).
func (fx *c04fx) freshBox(getSuffrage isaac.GetSuffrageByBlockHeight) *Ballotbox {
	nb := *fx.proto
	vrs, err := util.NewShardedMapWithSeed[string, *voterecords](0, 4, c04shardIndex, nil)
	if err != nil {
		panic(err)
	}
	nb.vrs = vrs
	nb.vpch = make(chan base.Voteproof, 256)
	nb.lsp = util.EmptyLocked[isaac.LastPoint]()
	nb.lvp = util.EmptyLocked[base.Voteproof]()
	nb.removed = util.EmptyLocked[[]*voterecords]()
	nb.getSuffrage = getSuffrage
	nb.countAfter = time.Hour
	return &nb
}

func c04resetPool() {
	voterecordsPool = vsync.Pool{New: func() interface{} { return new(voterecords) }}
}

func c04poolItems() []*voterecords {
	items := voterecordsPool.Items()
	out := make([]*voterecords, len(items))
	for i := range items {
		out[i] = items[i].(*voterecords)
	}
	return out
}

func c04lpString(l isaac.LastPoint) string {
	if l.IsZero() {
		return "zero"
	}
	s := c04spOf(l.StagePoint).String()
	if l.IsMajority() {
		s += "m"
	}
	if l.IsSuffrageConfirm() {
		s += "s"
	}
	return s
}

func c04drain(box *Ballotbox) []base.Voteproof {
	var out []base.Voteproof
	for {
		select {
		case vp := <-box.vpch:
			out = append(out, vp)
		default:
			return out
		}
	}
}
