//go:build verif

package isaacstates

// Standalone reproductions of the two C04 defects the expel-group unit found, on the real Ballotbox through its
// public API (Vote, Voteproof()), without any enumeration machinery. Not part of the check (not listed in
// check.json); run by hand:
//
//	cd /repo && echo '{"Replace":{"/repo/isaac/states/zz_c04_witness_test.go":"/verif/harness/c04/c04_witness_test.go"}}' > /tmp/ov-c04.json
//	go test -tags 'test verif' -overlay /tmp/ov-c04.json -vet=off -count=1 -run TestC04Witness -v ./isaac/states/
//
// TestC04WitnessForeignMajority*: the expel voteproof of one ballot fact takes its majority from the votes for ANOTHER
// ballot fact (repaired by harness/c04/fix.proposed.diff). TestC04WitnessExpelsUnderF*: fewer expels than f, the box
// counts with the full suffrage and the plain threshold, every validator with the reduced suffrage and 100%
// (finding expel-voteproof-with-fewer-expels-than-f-counted-with-plain-threshold).

import (
	"testing"
	"time"

	"github.com/spikeekips/mitum/base"
	"github.com/spikeekips/mitum/isaac"
	"github.com/spikeekips/mitum/util"
	"github.com/spikeekips/mitum/util/valuehash"
)

type c04wenv struct {
	t     *testing.T
	net   base.NetworkID
	suf   base.Suffrage
	nodes []base.LocalNode
	point base.Point
	prev  util.Hash
	avp   base.ACCEPTVoteproof
}

func newC04wenv(t *testing.T, n int) *c04wenv {
	suf, nodes := isaac.NewTestSuffrage(n)
	e := &c04wenv{t: t, net: base.NetworkID(util.UUID().Bytes()), suf: suf, nodes: nodes, point: base.RawPoint(33, 0), prev: valuehash.RandomSHA256()}
	afact := isaac.NewACCEPTBallotFact(e.point.PrevHeight(), valuehash.RandomSHA256(), e.prev, nil)
	sfs := make([]base.BallotSignFact, len(nodes))
	for i := range nodes {
		sf := isaac.NewACCEPTBallotSignFact(afact)
		if err := sf.NodeSign(nodes[i].Privatekey(), e.net, nodes[i].Address()); err != nil {
			t.Fatal(err)
		}
		sfs[i] = sf
	}
	avp := isaac.NewACCEPTVoteproof(afact.Point().Point)
	avp.SetMajority(afact).SetSignFacts(sfs).SetThreshold(base.MaxThreshold).Finish()
	e.avp = avp
	return e
}

func (e *c04wenv) expel(target int) base.SuffrageExpelOperation {
	h := e.point.Height() - 1
	op := isaac.NewSuffrageExpelOperation(isaac.NewSuffrageExpelFact(e.nodes[target].Address(), h, h+1, "witness"))
	for i := range e.nodes {
		if i == target {
			continue
		}
		if err := op.NodeSign(e.nodes[i].Privatekey(), e.net, e.nodes[i].Address()); err != nil {
			e.t.Fatal(err)
		}
	}
	return op
}

func (e *c04wenv) ballot(voter int, proposal util.Hash, expels ...base.SuffrageExpelOperation) base.Ballot {
	hs := make([]util.Hash, len(expels))
	for i := range expels {
		hs[i] = expels[i].Fact().Hash()
	}
	fact := isaac.NewINITBallotFact(e.point, e.prev, proposal, hs)
	sf := isaac.NewINITBallotSignFact(fact)
	if err := sf.NodeSign(e.nodes[voter].Privatekey(), e.net, e.nodes[voter].Address()); err != nil {
		e.t.Fatal(err)
	}
	bl := isaac.NewINITBallot(e.avp, sf, expels)
	if err := bl.IsValid(e.net); err != nil {
		e.t.Fatalf("invalid ballot: %+v", err)
	}
	return bl
}

func (e *c04wenv) run(th base.Threshold, bls []base.Ballot) []base.Voteproof {
	box := NewBallotbox(e.nodes[0].Address(), func() base.Threshold { return th },
		func(base.Height) (base.Suffrage, bool, error) { return e.suf, true, nil })
	box.SetCountAfter(time.Hour)
	last, _ := isaac.NewLastPoint(e.avp.Point(), true, false)
	box.SetLastPoint(last)
	for i := range bls {
		voted, err := box.Vote(bls[i])
		if err != nil || !voted {
			e.t.Fatalf("ballot %d: voted=%v err=%v", i, voted, err)
		}
		time.Sleep(50 * time.Millisecond) // the count of Vote runs in a goroutine
	}
	var vps []base.Voteproof
	for {
		select {
		case vp := <-box.Voteproof():
			vps = append(vps, vp)
			continue
		case <-time.After(300 * time.Millisecond):
		}
		break
	}
	for _, vp := range vps {
		e.t.Logf("emitted %T point=%v result=%v signfacts=%d", vp, vp.Point(), vp.Result(), len(vp.SignFacts()))
		if w, ok := vp.(base.HasExpels); ok {
			for _, op := range w.Expels() {
				e.t.Logf("  expels %s", op.ExpelFact().Node())
			}
		}
		for _, sf := range vp.SignFacts() {
			e.t.Logf("  sign fact node=%s fact=%.8s majority=%v", sf.Node(), sf.Fact().Hash(), vp.Majority() != nil && sf.Fact().Hash().Equal(vp.Majority().Hash()))
		}
		if err := vp.IsValid(e.net); err != nil {
			e.t.Errorf("Voteproof.IsValid: %v", err)
		}
		if err := isaac.IsValidVoteproofWithSuffrage(vp, e.suf); err != nil {
			e.t.Errorf("IsValidVoteproofWithSuffrage: %v", err)
		}
	}
	return vps
}

// class 1, minimal: 4 members, threshold 67. n0, n2, n3 vote fact F (expels n2); n1 votes fact G that expels n1.
func TestC04WitnessForeignMajorityN4(t *testing.T) {
	e := newC04wenv(t, 4)
	f, g := valuehash.RandomSHA256(), valuehash.RandomSHA256()
	x2, x1 := e.expel(2), e.expel(1)
	e.run(67, []base.Ballot{e.ballot(0, f, x2), e.ballot(1, g, x1), e.ballot(2, f, x2), e.ballot(3, f, x2)})
}

// two expel facts, default threshold, nobody expels himself: 7 members; n0..n4 vote fact F that expels n5; n5 (not knowing) votes G that
// expels n6. Whichever group is counted first the voteproof is refused (here F's own group: class 2, 5 of the 6 nodes left voted)
func TestC04WitnessForeignMajorityN7(t *testing.T) {
	e := newC04wenv(t, 7)
	f, g := valuehash.RandomSHA256(), valuehash.RandomSHA256()
	x5, x6 := e.expel(5), e.expel(6)
	e.run(67, []base.Ballot{e.ballot(5, g, x6), e.ballot(0, f, x5), e.ballot(1, f, x5), e.ballot(2, f, x5), e.ballot(3, f, x5), e.ballot(4, f, x5)})
}

// class 1 with a majority fact WITHOUT expels: 7 members; n0..n4 vote plain fact F; n5 votes G that expels n6
func TestC04WitnessForeignPlainMajorityN7(t *testing.T) {
	e := newC04wenv(t, 7)
	f, g := valuehash.RandomSHA256(), valuehash.RandomSHA256()
	x6 := e.expel(6)
	e.run(67, []base.Ballot{e.ballot(5, g, x6), e.ballot(0, f), e.ballot(1, f), e.ballot(2, f), e.ballot(3, f), e.ballot(4, f)})
}

// class 2: fewer expels than f. 7 members, threshold 67; n0..n4 vote the same fact F that expels n6; n5 has not voted yet
func TestC04WitnessExpelsUnderFN7(t *testing.T) {
	e := newC04wenv(t, 7)
	f := valuehash.RandomSHA256()
	x6 := e.expel(6)
	e.run(67, []base.Ballot{e.ballot(0, f, x6), e.ballot(1, f, x6), e.ballot(2, f, x6), e.ballot(3, f, x6), e.ballot(4, f, x6)})
}

// class 2 within the bounds of the check: 5 members, threshold 60; n0,n1,n2 vote F that expels n4
func TestC04WitnessExpelsUnderFN5T60(t *testing.T) {
	e := newC04wenv(t, 5)
	f := valuehash.RandomSHA256()
	x4 := e.expel(4)
	e.run(60, []base.Ballot{e.ballot(0, f, x4), e.ballot(1, f, x4), e.ballot(2, f, x4)})
}
