//go:build verif

package util

import (
	"context"
	"fmt"
	"sort"
	"strings"
	"testing"
	"time"

	"github.com/spikeekips/mitum/zzverif/vlib"
	"github.com/spikeekips/mitum/zzverif/vsched"
)

// C34: (P1) once a timer has been stopped its callback is not started again;
// (P2) removing a timer never removes a different timer later registered under
// the same id; (P3) a callback never runs before its interval has elapsed.
//
// Engine S with the virtual clock: util/timers.go, util/worker.go, util/lock.go
// and x/sync/semaphore run on the shims. The timer loop is driven as explicit
// events (advance the virtual clock, call iterate), racing against user
// threads that register, stop and re-register timers.

const c34interval = 10 * time.Millisecond

type c34timerSpec struct {
	id   string
	keep bool
}

type c34cfg struct {
	name  string
	init  []c34timerSpec
	loop  []time.Duration // per step: advance by d, then iterate
	users [][]string      // per user thread: ops "stop:X" "new:X:keep|drop" "stopothers:Y" "stopall"
}

func (c c34cfg) id() string {
	var in []string
	for _, t := range c.init {
		in = append(in, fmt.Sprintf("%s:%v", t.id, t.keep))
	}
	var us []string
	for _, u := range c.users {
		us = append(us, strings.Join(u, ","))
	}
	return fmt.Sprintf("%s|init=%s|loop=%v|users=%s", c.name, strings.Join(in, ","), c.loop, strings.Join(us, " || "))
}

type c34inst struct {
	n          int
	id         string
	keep       bool
	regV       time.Duration // virtual registration time
	regT       int
	added      bool
	cbStarts   []int           // logical times
	cbV        []time.Duration // virtual times of callback starts
	cbEndV     []time.Duration
	saidDrop   bool  // its own callback returned keep=false
	removedT   int   // logical time of whenRemoved (0 = never)
	removedBy  int   // thread id that ran whenRemoved
	stopRetT   int   // return time of the user stop call that removed it
	runChecked []int // logical times at which run() had passed its context check
}

type c34obs struct {
	setupDone bool
	daemonStopT0, daemonStopRet int // SimpleTimers.Stop() (the daemon stop) was called / returned at these logical times
	clock int
	insts []*c34inst
	log   []string
}

func (o *c34obs) tick() int { o.clock++; return o.clock }

func vnow() time.Duration {
	t, _ := vsched.VirtualNow()
	return t.Sub(time.Date(2024, 1, 1, 0, 0, 0, 0, time.UTC))
}

func c34build(c c34cfg) vsched.Scenario {
	o := &c34obs{}
	ts, err := NewSimpleTimers(1, time.Millisecond)
	if err != nil {
		panic(err)
	}
	for _, u := range c.users {
		for _, op := range u {
			if op == "daemonstop" {
				// SimpleTimers.Stop() first stops the ContextDaemon, which refuses when it was never started. The real
				// start func is the ticker loop (not run here, its body iterate() is driven by thread 0); a stand-in that
				// only waits for its context keeps the daemon "started". context_daemon.go is not instrumented: its
				// goroutine runs natively and touches nothing the scenario observes.
				ts.ContextDaemon = NewContextDaemon(func(ctx context.Context) error { <-ctx.Done(); return nil })
				if err := ts.ContextDaemon.Start(context.Background()); err != nil {
					panic(err)
				}
			}
		}
	}
	userThread := map[int]bool{}
	register := func(id string, keep bool) *c34inst {
		in := &c34inst{n: len(o.insts), id: id, keep: keep}
		o.insts = append(o.insts, in)
		tm := NewSimpleTimer(TimerID(id),
			func(called uint64) time.Duration {
				// run() asks for the next interval right after its context check and before the callback;
				// prepare() asks from the loop thread (T0), NewTimer asks with 0
				if called >= 1 && vsched.ThreadID() != 0 {
					in.runChecked = append(in.runChecked, o.tick())
				}
				// the first call happens inside NewTimer's Set callback, i.e. under the map lock,
				// atomically with the registration: that is the registration instant
				if in.regT == 0 {
					in.regV = vnow()
					in.regT = o.tick()
				}
				return c34interval
			},
			func(context.Context, uint64) (bool, error) {
				// the callback's first action is a synchronisation operation (a scheduling point),
				// so "stop returns between run()'s context check and the callback's first action" is explorable
				vsched.Point("callback-enter", nil)
				in.cbStarts = append(in.cbStarts, o.tick())
				in.cbV = append(in.cbV, vnow())
				vsched.Point("callback-body", nil)
				in.cbEndV = append(in.cbEndV, vnow())
				if !in.keep {
					in.saidDrop = true
				}
				return in.keep, nil
			},
			func() {
				in.removedT = o.tick()
				in.removedBy = vsched.ThreadID()
			})
		added, err := ts.NewTimer(tm)
		if err != nil {
			panic(err)
		}
		in.added = added
		return in
	}
	var roots []func()
	// thread 0: setup + loop
	roots = append(roots, func() {
		for _, t := range c.init {
			register(t.id, t.keep)
		}
		o.setupDone = true
		vsched.Point("setup-done", nil)
		for _, d := range c.loop {
			vsched.Advance(d)
			if err := ts.iterate(context.Background()); err != nil {
				if o.daemonStopT0 > 0 {
					break // the whole daemon was stopped: the real loop has ended too
				}
				panic(err)
			}
		}
	})
	for ui, ops := range c.users {
		ui, ops := ui, ops
		roots = append(roots, func() {
			userThread[vsched.ThreadID()] = true
			_ = ui
			for _, op := range ops {
				p := strings.Split(op, ":")
				vsched.Point("user-op", nil)
				switch p[0] {
				case "stop":
					before := o.tick()
					_ = ts.StopTimers([]TimerID{TimerID(p[1])})
					ret := o.tick()
					for _, in := range o.insts {
						if in.removedT > before && in.removedT < ret && userThread[in.removedBy] && in.removedBy == vsched.ThreadID() {
							in.stopRetT = ret
						}
					}
				case "stopothers":
					before := o.tick()
					_ = ts.StopOthers([]TimerID{TimerID(p[1])})
					ret := o.tick()
					for _, in := range o.insts {
						if in.removedT > before && in.removedT < ret && in.removedBy == vsched.ThreadID() {
							in.stopRetT = ret
						}
					}
				case "stopall":
					before := o.tick()
					_ = ts.StopAllTimers()
					ret := o.tick()
					for _, in := range o.insts {
						if in.removedT > before && in.removedT < ret && in.removedBy == vsched.ThreadID() {
							in.stopRetT = ret
						}
					}
				case "daemonstop":
					// the daemon is stopped after the timers of the scenario were registered
					vsched.Point("daemonstop-after-setup", func() bool { return o.setupDone })
					before := o.tick()
					_ = ts.Stop()
					ret := o.tick()
					o.daemonStopT0, o.daemonStopRet = before, ret
					for _, in := range o.insts {
						if in.removedT > before && in.removedT < ret && in.removedBy == vsched.ThreadID() {
							in.stopRetT = ret
						}
					}
				case "new":
					register(p[1], p[2] == "keep")
				}
			}
		})
	}
	fail := func(kind, detail string) *vsched.Fail {
		return &vsched.Fail{Sig: map[string]any{"kind": kind}, Detail: detail + " | " + c.id() + " | " + c34dump(o)}
	}
	return vsched.Scenario{
		Roots: roots,
		Outcome: func(*vsched.Exec) string {
			var parts []string
			for _, in := range o.insts {
				parts = append(parts, fmt.Sprintf("%s#%d:cb=%d,removed=%v", in.id, in.n, len(in.cbStarts), in.removedT != 0))
			}
			ids := ts.TimerIDs()
			return strings.Join(parts, " ") + fmt.Sprintf(" registered=%v", ids)
		},
		Check: func(x *vsched.Exec) *vsched.Fail {
			if x.Panic != nil {
				return fail("panic", fmt.Sprintf("panic: %v\n%s", x.Panic, x.PanicStack))
			}
			if x.Deadlock {
				return fail("deadlock", strings.Join(x.Blocked, "; "))
			}
			for _, in := range o.insts {
				// P1: no callback start after the stop call that removed it returned
				if in.stopRetT > 0 {
					for k, s := range in.cbStarts {
						if s > in.stopRetT {
							// did run() pass its context check before the removal (check-then-act window), or after it?
							before := k < len(in.runChecked) && in.runChecked[k] < in.removedT
							f := fail("callback-started-after-stop-returned",
								fmt.Sprintf("instance %s#%d: removed at %d, stop call returned at logical time %d, run() passed its context check at %v, callback started at %d", in.id, in.n, in.removedT, in.stopRetT, in.runChecked, s))
							f.Sig["context_check_passed_before_removal"] = before
							return f
						}
					}
				}
				// P1 (daemon stop): SimpleTimers.Stop() stops every timer registered when it was called - also one it
				// did not report as removed
				if o.daemonStopRet > 0 && in.stopRetT == 0 && in.regT > 0 && in.regT < o.daemonStopT0 && (in.removedT == 0 || in.removedT > o.daemonStopRet) {
					for k, s := range in.cbStarts {
						if s > o.daemonStopRet {
							f := fail("callback-started-after-stop-returned",
								fmt.Sprintf("instance %s#%d was registered when SimpleTimers.Stop() was called (logical time %d) and was not removed by it; Stop returned at %d, run() passed its context check at %v, callback started at %d", in.id, in.n, o.daemonStopT0, o.daemonStopRet, in.runChecked, s))
							f.Sig["context_check_passed_before_removal"] = k < len(in.runChecked) && in.runChecked[k] < o.daemonStopT0
							f.Sig["stop"] = "daemon-stop-did-not-remove-the-timer"
							return f
						}
					}
				}
				// P2: removed outside a user stop call => its own callback must have asked for it
				if in.removedT > 0 && in.stopRetT == 0 && !in.saidDrop {
					return fail("removed-by-another-instance",
						fmt.Sprintf("instance %s#%d was removed by the timer loop although its own callback never returned keep=false (a predecessor registered under the same id did)", in.id, in.n))
				}
				// P3: interval respected
				for k, v := range in.cbV {
					base := in.regV
					if k > 0 {
						base = in.cbEndV[k-1]
					}
					if v < base+c34interval {
						return fail("callback-before-interval",
							fmt.Sprintf("instance %s#%d: call %d at virtual %v, earliest allowed %v", in.id, in.n, k, v, base+c34interval))
					}
				}
			}
			// P2 (quiescence form): the last added instance per id that was never stopped nor asked to be dropped is still registered
			reg := map[string]bool{}
			for _, id := range ts.TimerIDs() {
				reg[string(id)] = true
			}
			last := map[string]*c34inst{}
			for _, in := range o.insts {
				if in.added {
					if p := last[in.id]; p == nil || in.regT > p.regT {
						last[in.id] = in
					}
				}
			}
			for id, in := range last {
				if in.stopRetT == 0 && !in.saidDrop && in.removedT == 0 && !reg[id] {
					return fail("successor-not-registered", fmt.Sprintf("instance %s#%d was added, never stopped or dropped, but id %s is not registered at quiescence", in.id, in.n, id))
				}
			}
			return nil
		},
	}
}

func c34dump(o *c34obs) string {
	var parts []string
	for _, in := range o.insts {
		parts = append(parts, fmt.Sprintf("{%s#%d keep=%v regT=%d regV=%v added=%v cbStarts=%v cbV=%v saidDrop=%v removedT=%d by=T%d stopRetT=%d}",
			in.id, in.n, in.keep, in.regT, in.regV, in.added, in.cbStarts, in.cbV, in.saidDrop, in.removedT, in.removedBy, in.stopRetT))
	}
	sort.Strings(parts)
	return strings.Join(parts, " ")
}

func TestVerifC34(t *testing.T) {
	r := vlib.Start("C34")
	defer r.Finish()
	r.Rule("scenario = initial timers x loop steps (advance virtual clock by interval/2 or interval, then iterate) x user thread programs over {stop, new (same id, keep|drop), stopothers, stopall}; all interleavings within the preemption bound; non-trivial = more than one observable outcome; states = distinct (scenario, outcome)")
	bound := vlib.Pick(r, 1, 2)
	r.Set("preemption_bound", bound)
	h, f := c34interval/2, c34interval
	loops := [][]time.Duration{{f, f}, {h, h, f}, {f, h, h}}
	if r.Thorough() {
		loops = append(loops, []time.Duration{f, f, f}, []time.Duration{h, f, f})
	}
	inits := [][]c34timerSpec{
		{{"X", true}}, {{"X", false}}, {{"X", true}, {"Y", true}}, {{"X", false}, {"Y", true}},
	}
	userProgs := [][][]string{
		{{"stop:X"}},
		{{"stop:X", "new:X:keep"}},
		{{"new:X:keep"}},
		{{"new:X:drop"}},
		{{"stop:X", "new:X:drop"}},
		{{"stopothers:Y"}},
		{{"stopothers:Y", "new:X:keep"}},
		{{"stopall", "new:X:keep"}},
		{{"stop:X"}, {"new:X:keep"}},
	}
	if r.Thorough() {
		userProgs = append(userProgs,
			[][]string{{"stop:X", "new:X:keep", "stop:X"}},
			[][]string{{"stop:X"}, {"stop:X", "new:X:keep"}},
			[][]string{{"stopothers:Y"}, {"new:X:drop"}},
		)
	}
	var cfgs []c34cfg
	baseLoops, baseProgs := 3, 9 // the quick set: explored at the full bound of the tier
	for _, in := range inits {
		for li, lp := range loops {
			for pi, up := range userProgs {
				name := "t"
				if li >= baseLoops || pi >= baseProgs {
					name = "x" // thorough-only extra scenarios: explored at bound 1 (bound 2 over all 240 does not fit 15 min)
				}
				cfgs = append(cfgs, c34cfg{name: name, init: in, loop: lp, users: up})
			}
		}
	}
	// SimpleTimers.Stop(), the stop of the whole daemon, with jobs of the last tick still pending
	for _, in := range [][]c34timerSpec{{{"X", true}}, {{"X", true}, {"Y", true}}} {
		for _, lp := range loops[:2] {
			cfgs = append(cfgs, c34cfg{name: "t", init: in, loop: lp, users: [][]string{{"daemonstop"}}})
			cfgs = append(cfgs, c34cfg{name: "t", init: in, loop: lp, users: [][]string{{"stop:X"}, {"daemonstop"}}})
		}
	}
	r.Set("scenarios_enumerated", len(cfgs))
	for i, c := range cfgs {
		if !r.Mine(i) || r.Expired() {
			continue
		}
		c := c
		id := c.id()
		build := func() vsched.Scenario { return c34build(c) }
		if rid, rp := r.Replaying(); rp {
			k := strings.LastIndex(rid, "#")
			if k < 0 || rid[:k] != id {
				continue
			}
			sc := build()
			x := vsched.Run(vsched.Options{Prefix: vsched.ParseChoices(rid[k+1:])}, sc.Roots...)
			r.Trace()
			if f := sc.Check(x); f != nil {
				r.Violation(rid, f.Sig, f.Detail, nil)
			}
			continue
		}
		b := bound
		if c.name == "x" && b > 1 {
			b = 1
		}
		res := vsched.Explore(vsched.Config{Name: id, Bound: b, Build: build, Expired: r.Expired, MaxFound: 2, Horizon: 5000})
		if res.EngineError != "" {
			panic("engine error in " + id + ": " + res.EngineError)
		}
		r.TraceN(res.Executions)
		r.TransitionN(res.Points)
		r.EvalN(res.Executions)
		r.Add("scenarios", 1)
		if res.Capped != "" {
			r.Cap(res.Capped)
		} else if c.name == "t" {
			r.Min("preemption_bound_completed", int64(res.BoundCompleted))
		}
		r.Max("max_points_per_execution", int64(res.MaxPoints))
		if len(res.Outcomes) > 1 {
			r.Nontrivial(id)
		}
		for o := range res.Outcomes {
			r.State(id + "=>" + o)
			if strings.HasPrefix(o, "FAIL:") {
				r.Outcome(o)
			}
		}
		r.Outcome(fmt.Sprintf("outcomes=%d", len(res.Outcomes)))
		for _, f := range res.Found {
			r.Violation(id+"#"+vsched.ChoicesString(f.Choices), f.Fail.Sig, f.Fail.Detail+fmt.Sprintf(" (preemptions=%d)", f.Preempt), nil)
		}
		r.Sample(map[string]any{"scenario": id, "executions": res.Executions, "distinct_outcomes": len(res.Outcomes)})
	}
}
