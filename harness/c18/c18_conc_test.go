//go:build verif

package isaacstates

import (
	"context"
	"fmt"
	"os"
	"strconv"
	"strings"
	"testing"

	"github.com/spikeekips/mitum/base"
	"github.com/spikeekips/mitum/isaac"
	"github.com/spikeekips/mitum/zzverif/vlib"
	"github.com/spikeekips/mitum/zzverif/vsched"
)

// C18 (concurrent half, engine S): the jobs of one batch of
// SuffrageStateBuilder.buildBatch run concurrently (util.BatchWork ->
// RunJobWorker); under ANY interleaving of them Build returns an error or a
// chain in which every proof proves against its predecessor.
//
// The sequential half (c18_test.go) forces the arrival ORDER of the proofs of a
// batch but releases one job at a time, so two jobs never overlap inside
// prove(). Here the real Build runs under the controlled scheduler with
// isaac/suffrage_builder.go, util/worker.go and x/sync/semaphore instrumented:
// the job goroutines are scheduler threads, provelock / the worker's
// semaphore and contexts are scheduling points, and every interleaving within
// the preemption bound is executed.
//
// Two kinds of scheduling points are added by the harness, both at calls from
// Build into objects the remote side supplies:
//   - the fetch callback (getSuffrageProof) - a network round trip,
//   - SuffrageProof.Prove of a fetched proof - hashing work during which a real
//     goroutine can be descheduled at any instruction. The proofs handed to
//     Build are thin wrappers around the real isaacblock.SuffrageProof whose
//     Prove is "scheduling point, then the real Prove".
//
// Plain memory accesses are not scheduling points (the scheduler is
// cooperative): a job can be suspended only at the points above. An overlap
// which needs a switch between two adjacent plain statements is outside this
// unit (level_note).
//
// Fixtures: the chains of the sequential half (c18NewEnv). Their keys and
// hashes are random DATA: no control flow and no scheduling point depends on
// their values (a link either proves or not by construction), which the
// explorer's replay-twice determinism test confirms for every scenario.

type c18sProof struct {
	base.SuffrageProof
}

func (p c18sProof) Prove(previous base.State) error {
	vsched.Point("proof.Prove", nil)

	return p.SuffrageProof.Prove(previous)
}

func c18sUnwrap(p base.SuffrageProof) base.SuffrageProof {
	if w, ok := p.(c18sProof); ok {
		return w.SuffrageProof
	}

	return p
}

type c18sScenario struct {
	name   string
	local  int    // suffrage height of the local state (chain A), -1 = none
	limit  int64  // batch limit
	src    string // chain per suffrage height 0..last: 'A' = main chain, 'B' = another history
	broken string // structural class of the broken link(s), "" = honest
}

func (s c18sScenario) last() int { return len(s.src) - 1 }

func (s c18sScenario) id() string {
	return fmt.Sprintf("conc/%s|local=%d,limit=%d,chain=%s", s.name, s.local, s.limit, s.src)
}

func c18sScenarios() []c18sScenario {
	return []c18sScenario{
		// one batch of three concurrent jobs, from genesis
		{"honest-one-batch", -1, 3, "AAA", ""},
		{"first-link-broken", -1, 3, "ABB", "inside-batch-first-link"},
		{"last-link-broken", -1, 3, "AAB", "inside-batch-last-link"},
		{"other-history-in-the-middle", -1, 3, "ABA", "inside-batch-both-links"},
		// one batch of three concurrent jobs, from a local state
		{"link-to-local-state-broken", 0, 3, "ABBB", "link-to-local-state"},
		{"first-link-broken-after-local-state", 0, 3, "AABB", "inside-batch-first-link"},
		// one batch of two concurrent jobs
		{"two-jobs-link-broken", -1, 2, "AB", "inside-batch-first-link"},
		// two batches
		{"honest-two-batches", -1, 2, "AAAA", ""},
		{"batch-boundary-link-broken", -1, 2, "AAB", "batch-boundary"},
		{"second-batch-link-broken", -1, 2, "AAAB", "inside-second-batch"},
	}
}

type c18sObs struct {
	returned bool
	proofs   []base.SuffrageProof
	err      error
	fetched  []string
}

func c18sBuild(env *c18Env, s c18sScenario) vsched.Scenario {
	chain := func(h int) base.SuffrageProof {
		if s.src[h] == 'B' {
			return env.foreign[h]
		}

		return env.main[h]
	}

	var localstate base.State
	if s.local >= 0 {
		localstate = env.main[s.local].State()
	}

	obs := &c18sObs{}

	builder := isaac.NewSuffrageStateBuilder(
		env.s.LocalParams.NetworkID(),
		func(context.Context) (base.Height, base.SuffrageProof, bool, error) {
			return base.Height(77), c18sProof{chain(s.last())}, true, nil
		},
		func(_ context.Context, height base.Height) (base.SuffrageProof, bool, error) {
			vsched.Point("fetch", nil)

			h := int(height.Int64())
			obs.fetched = append(obs.fetched, strconv.Itoa(h))

			if h < 0 || h > s.last() {
				return nil, false, nil
			}

			return c18sProof{chain(h)}, true, nil
		},
		func(context.Context) (base.State, bool, error) { return nil, false, nil },
	)
	builder.SetBatchLimit(s.limit)

	heights := func() string {
		hs := make([]string, len(obs.proofs))

		for i := range obs.proofs {
			if obs.proofs[i] == nil {
				hs[i] = "nil"
			} else {
				hs[i] = obs.proofs[i].SuffrageHeight().String()
			}
		}

		return strings.Join(hs, " ")
	}

	fail := func(sig map[string]any, format string, a ...any) *vsched.Fail {
		sig["half"] = "concurrent"

		return &vsched.Fail{Sig: sig, Detail: s.id() + ": " + fmt.Sprintf(format, a...) +
			fmt.Sprintf(" | fetch order [%s]", strings.Join(obs.fetched, " "))}
	}

	return vsched.Scenario{
		Roots: []func(){func() {
			_, proofs, _, err := builder.Build(context.Background(), localstate)
			obs.proofs, obs.err, obs.returned = proofs, err, true
		}},
		Outcome: func(*vsched.Exec) string {
			switch {
			case !obs.returned:
				return "not returned"
			case obs.err != nil:
				return "error: " + c18sErrClass(obs.err)
			default:
				return "ok: " + heights()
			}
		},
		Check: func(x *vsched.Exec) *vsched.Fail {
			if x.Panic != nil {
				return fail(map[string]any{"kind": "panic"}, "%v\n%s", x.Panic, x.PanicStack)
			}

			if x.Deadlock || !obs.returned {
				return fail(map[string]any{"kind": "deadlock"}, "Build did not return: %s", strings.Join(x.Blocked, "; "))
			}

			if obs.err != nil {
				if s.broken == "" {
					return fail(map[string]any{"kind": "error-without-deviation"}, "Build with an honest remote returned %v", obs.err)
				}

				return nil
			}

			// nil error: a gap-free chain local+1 .. last, every proof proved against its predecessor
			var want []string
			for h := s.local + 1; h <= s.last(); h++ {
				want = append(want, strconv.Itoa(h))
			}

			if got := heights(); got != strings.Join(want, " ") {
				return fail(map[string]any{"kind": "wrong-heights", "broken": s.broken},
					"Build returned nil with proofs of suffrage heights [%s], a gap-free chain would be [%s]", got, strings.Join(want, " "))
			}

			previous := localstate

			for i := range obs.proofs {
				p := c18sUnwrap(obs.proofs[i])

				if err := p.Prove(previous); err != nil {
					return fail(map[string]any{"kind": "unlinked-chain", "broken": s.broken},
						"Build returned nil, but the proof of suffrage height %d of the result does not prove against its predecessor: %v", s.local+1+i, err)
				}

				previous = p.State()
			}

			if !previous.Hash().Equal(chain(s.last()).State().Hash()) {
				return fail(map[string]any{"kind": "not-ending-at-remote-last", "broken": s.broken}, "the chain does not end with the remote's last proof")
			}

			if s.broken != "" {
				panic("c18 conc: scenario " + s.id() + " is meant to have a broken link but its chain proves")
			}

			return nil
		},
	}
}

// error class without the wrapping prefixes (identical for every execution of one cause)
func c18sErrClass(err error) string {
	msg := err.Error()

	for _, p := range []string{"build suffrage states", "build by batch"} {
		msg = strings.TrimLeft(strings.TrimPrefix(msg, p), " -;:")
	}

	if len(msg) > 100 {
		msg = msg[:100]
	}

	return msg
}

func TestVerifC18Conc(t *testing.T) {
	r := vlib.Start("C18")
	defer r.Finish()

	r.Rule("concurrent half: scenario = real Build over one chain shape (honest; one link broken inside a batch at each position; link to the local state broken; " +
		"a proof of another history in the middle; link across the batch boundary broken; link inside the second batch broken) with batches of 2-3 concurrent jobs; " +
		"all interleavings of the job goroutines within the preemption bound (scheduling points: fetch callback, Prove of a fetched proof, provelock, the worker's semaphore/context/go); " +
		"oracle = no panic, no deadlock, error or every returned proof proves against its predecessor from the local state to the remote's last proof; " +
		"states = distinct (scenario, outcome); non-trivial = a scenario with a broken link")

	bound := vlib.Pick(r, 2, 3)
	if v := os.Getenv("VERIF_C18S_BOUND"); v != "" { // tuning aid only; never set by run.sh
		fmt.Sscanf(v, "%d", &bound)
	}

	r.Set("conc_preemption_bound", bound)

	env := c18NewEnv(t, 4)
	scs := c18sScenarios()
	r.Set("conc_scenarios_enumerated", len(scs))

	for i, s := range scs {
		if !r.Mine(i) || r.Expired() {
			continue
		}

		s := s
		id := s.id()

		build := func() vsched.Scenario { return c18sBuild(env, s) }

		if os.Getenv("VERIF_C18S_TRACE") != "" { // tuning aid only; never set by run.sh: the scheduling points of the default schedule
			sc := build()
			x := vsched.Run(vsched.Options{}, sc.Roots...)

			for k, p := range x.Points() {
				t.Logf("%s point %d: thread %d %s (enabled %d)", s.name, k, p.Thread, p.Kind, p.NEnabled)
			}
		}

		if rid, rp := r.Replaying(); rp {
			k := strings.LastIndex(rid, "#")
			if k < 0 || rid[:k] != id {
				continue
			}

			sc := build()
			x := vsched.Run(vsched.Options{Prefix: vsched.ParseChoices(rid[k+1:])}, sc.Roots...)
			r.Trace()

			if f := sc.Check(x); f != nil {
				r.Violation(rid, f.Sig, f.Detail, nil)
			}

			continue
		}

		res := vsched.Explore(vsched.Config{Name: id, Bound: bound, Build: build, Expired: r.Expired, MaxFound: 2, Horizon: 5000})
		if res.EngineError != "" {
			panic("engine error in " + id + ": " + res.EngineError)
		}

		r.TraceN(res.Executions)
		r.TransitionN(res.Points)
		r.EvalN(res.Executions)
		r.Add("conc_scenarios", 1)

		if res.Capped != "" {
			r.Cap(res.Capped)
		} else {
			r.Min("conc_preemption_bound_completed", int64(res.BoundCompleted))
		}

		r.Max("conc_max_points_per_execution", int64(res.MaxPoints))

		if s.broken != "" {
			r.Nontrivial(id)
		}

		for o := range res.Outcomes {
			r.State(id + "=>" + o)
			r.Outcome("conc:" + s.name + ":" + o)
		}

		for _, f := range res.Found {
			r.Violation(id+"#"+vsched.ChoicesString(f.Choices), f.Fail.Sig, f.Fail.Detail+fmt.Sprintf(" (preemptions=%d)", f.Preempt), nil)
		}

		r.Sample(map[string]any{"scenario": id, "executions": res.Executions, "distinct_outcomes": len(res.Outcomes), "max_points": res.MaxPoints,
			"bound_completed": res.BoundCompleted})
	}
}
