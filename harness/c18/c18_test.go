//go:build verif

package isaacstates

import (
	"bufio"
	"context"
	"encoding/json"
	"fmt"
	"os"
	"os/exec"
	"regexp"
	"runtime"
	"strconv"
	"strings"
	"testing"
	"time"

	"github.com/pkg/errors"
	"github.com/spikeekips/mitum/base"
	"github.com/spikeekips/mitum/isaac"
	isaacblock "github.com/spikeekips/mitum/isaac/block"
	"github.com/spikeekips/mitum/util"
	"github.com/spikeekips/mitum/util/fixedtree"
	"github.com/spikeekips/mitum/util/valuehash"
	"github.com/spikeekips/mitum/zzverif/vlib"
)

// C18: SuffrageStateBuilder.Build with scripted remotes either returns an error
// or a gap-free chain of proofs local+1 .. last, each proved against its
// predecessor, ending at the remote's last proof; and no remote answer makes it
// panic.
//
// Build proves the fetched proofs inside util.BatchWork goroutines, where a
// panic cannot be recovered by the caller (vlib.Catch is useless here: the
// process dies). So the cases are executed by a CHILD process (this test binary
// re-executed); it streams one "begin"/"end" record per case. When the child
// dies between "begin" and "end", the parent records the panic for that case
// (with the first mitum frame of the trace) and restarts the child behind it.
// The verdict therefore always comes from the real code, never from a model of it.
//
// The arrival order of the proofs of one batch in prove() is controlled like in
// C14: getSuffrageProof parks every job until the whole batch is in flight; the
// coordinator releases one job at a time in the chosen permutation and waits
// until that job's goroutine is gone (runtime.NumGoroutine drops by one; nothing
// else can start or end meanwhile: the other jobs are parked, Build is blocked
// in Wait, and the goroutine that called Build is kept parked after it returns).
// Like the real code, the remaining jobs of a batch still run after one failed.

// ---------------------------------------------------------------- case grammar

type c18Dev struct {
	Pos string `json:"pos"` // "last", "cand" or a requested suffrage height
	Alt string `json:"alt"`
}

type c18Case struct {
	ID     string   `json:"id"`
	Local  int      `json:"local"` // suffrage height of the local state, -1 = none
	Last   int      `json:"last"`  // suffrage height of the remote's last proof
	Limit  int64    `json:"limit"`
	Devs   []c18Dev `json:"devs"`
	Order  string   `json:"order"`
	orders [][]int
}

func (c c18Case) devKey(devs []c18Dev) string {
	parts := make([]string, len(devs))
	for i := range devs {
		parts[i] = devs[i].Pos + ":" + devs[i].Alt
	}

	return fmt.Sprintf("L=%d,T=%d,limit=%d,dev=%s", c.Local, c.Last, c.Limit, strings.Join(parts, "+"))
}

// alternatives for the answer to "last suffrage proof" (the default answer is the right proof
// of the remote's last height, updated=true, no error). Every alternative is derived from the
// proof of c.Last, so that each of them is older than / equal to / newer than the local state
// through the local x last loops.
//
//	kind "valid":   a proof that passes IsValid, updated=true: Build may fetch; every arrival order is run
//	kind "offered": a proof object is handed over which must not be adopted (it fails IsValid) or
//	                need not be used (updated=false, error): the real Build never fetches, so only
//	                the identity arrival order is planned (used when a defective Build goes on)
//	kind "none":    no proof object at all: nothing can be fetched
var c18LastAlts = []struct{ name, kind string }{
	{"foreign", "valid"},               // same height of a foreign chain
	{"notupdated", "none"},             // updated=false, nil proof
	{"error", "none"},                  // error
	{"shifted", "valid"},               // same suffrage height, block height 10 higher: newer block, not necessarily newer suffrage
	{"nilproof", "none"},               // updated=true, nil proof
	{"zero", "offered"},                // zero value of isaacblock.SuffrageProof
	{"nilstate", "offered"},            // no state (what a message with "state": null decodes to)
	{"nilmap", "offered"},              // no block map
	{"nilmanifest", "offered"},         // block map without manifest
	{"unsigned", "offered"},            // block map without signature
	{"othernet", "offered"},            // block map signed for another network id
	{"emptytreeproof", "offered"},      // empty fixedtree proof
	{"notsuffrage", "offered"},         // state of the same block height which is not a suffrage state
	{"heightmismatch", "offered"},      // right state with the (valid) block map of another block height
	{"notupdated+proof", "offered"},    // updated=false together with the right proof
	{"notupdated+nilstate", "offered"}, // updated=false together with a proof without state
	{"error+proof", "offered"},         // error together with the right proof and updated=true
}

func c18LastAltNames() string {
	names := make([]string, len(c18LastAlts))
	for i := range c18LastAlts {
		names[i] = c18LastAlts[i].name
	}

	return strings.Join(names, "/")
}

func c18LastKind(alt string) string {
	for i := range c18LastAlts {
		if c18LastAlts[i].name == alt {
			return c18LastAlts[i].kind
		}
	}

	panic("c18: unknown last alternative " + alt)
}

// alternatives for one requested height h (the default answer is the right proof)
func c18HeightAlts(h, local, nheights int, shifted bool) []string {
	alts := []string{"notfound", "error", "foreign"}
	if h+1 < nheights {
		alts = append(alts, "up") // proof of h+1
	}

	if h-1 >= 0 {
		alts = append(alts, "down") // proof of h-1
	}

	if local >= 1 && h-1 != 0 {
		alts = append(alts, "lowest") // proof of suffrage height 0, below the local state
	}

	if shifted {
		alts = append(alts, "shifted") // same suffrage height from a chain whose blocks are 10 higher (genesis suffrage not in the genesis block)
	}

	return alts
}

func c18BatchSizes(n int, limit int64) []int {
	var sizes []int
	for n > 0 {
		s := n
		if int64(n) > limit {
			s = int(limit)
		}

		sizes = append(sizes, s)
		n -= s
	}

	return sizes
}

func c18Perms(n int, thorough bool) [][]int {
	if thorough && n == 4 {
		var out [][]int

		for _, p := range c18Perms(3, false) {
			for at := 0; at <= 3; at++ {
				q := append(append(append([]int(nil), p[:at]...), 3), p[at:]...)
				out = append(out, q)
			}
		}

		return out
	}

	id := make([]int, n)
	rev := make([]int, n)

	for i := range id {
		id[i] = i
		rev[n-1-i] = i
	}

	switch {
	case n <= 1:
		return [][]int{id}
	case n == 2:
		return [][]int{id, rev}
	case n == 3:
		return [][]int{{0, 1, 2}, {0, 2, 1}, {1, 0, 2}, {1, 2, 0}, {2, 0, 1}, {2, 1, 0}}
	default: // identity, reverse, and "last first" / "first last" rotations
		rot1 := append(append([]int(nil), id[1:]...), id[0])
		rotl := append([]int{id[n-1]}, id[:n-1]...)

		return [][]int{id, rev, rot1, rotl}
	}
}

func c18OrderString(orders [][]int) string {
	parts := make([]string, len(orders))
	for i := range orders {
		s := ""
		for _, k := range orders[i] {
			s += strconv.Itoa(k)
		}

		parts[i] = s
	}

	return strings.Join(parts, "|")
}

// c18Enumerate calls f for every case of the configurations owned by the shard,
// in a fixed order (0 deviations, 1 deviation, 2 deviations; all arrival orders for each).
func c18Enumerate(thorough bool, shard, nshards int, f func(c c18Case) bool) {
	nheights := 5
	if thorough {
		nheights = 6
	}

	limits := []int64{1, 2, 3, 333}
	item := 0
	shifted := true

	for local := -1; local < nheights; local++ {
		for last := 0; last < nheights; last++ {
			for _, limit := range limits {
				item++
				if nshards > 1 && item%nshards != shard {
					continue
				}

				if !c18EnumerateConfig(local, last, limit, nheights, shifted, thorough, f) {
					return
				}
			}
		}
	}
}

func c18EnumerateConfig(local, last int, limit int64, nheights int, shifted, thorough bool, f func(c c18Case) bool) bool {
	type pos struct {
		name string
		alts []string
	}

	lastalts := make([]string, len(c18LastAlts))
	for i := range c18LastAlts {
		lastalts[i] = c18LastAlts[i].name
	}

	positions := []pos{{"last", lastalts}, {"cand", []string{"error"}}}

	n := 0
	if last > local {
		n = last - local
		for h := local + 1; h <= last; h++ {
			positions = append(positions, pos{strconv.Itoa(h), c18HeightAlts(h, local, nheights, shifted)})
		}
	}

	var devsets [][]c18Dev
	devsets = append(devsets, nil)

	for i := range positions {
		for _, a := range positions[i].alts {
			devsets = append(devsets, []c18Dev{{positions[i].name, a}})
		}
	}

	for i := range positions {
		for j := i + 1; j < len(positions); j++ {
			for _, a := range positions[i].alts {
				for _, b := range positions[j].alts {
					devsets = append(devsets, []c18Dev{{positions[i].name, a}, {positions[j].name, b}})
				}
			}
		}
	}

	sizes := c18BatchSizes(n, limit)
	permsets := make([][][]int, len(sizes))

	for i := range sizes {
		permsets[i] = c18Perms(sizes[i], thorough)
	}

	identity := make([][][]int, len(sizes))
	for i := range sizes {
		identity[i] = c18Perms(sizes[i], false)[:1]
	}

	allperms := permsets

	for _, devs := range devsets {
		fetch := n > 0
		permsets := allperms

		for _, d := range devs {
			if d.Pos != "last" {
				continue
			}

			switch c18LastKind(d.Alt) {
			case "none":
				fetch = false
			case "offered":
				permsets = identity
			}
		}

		idx := make([]int, len(permsets))

		for {
			orders := make([][]int, len(permsets))
			for i := range permsets {
				orders[i] = permsets[i][idx[i]]
			}

			c := c18Case{Local: local, Last: last, Limit: limit, Devs: devs, orders: orders, Order: c18OrderString(orders)}
			if !fetch {
				c.Order = "-"
				c.orders = nil
			}

			c.ID = c.devKey(devs) + ",order=" + c.Order

			if !f(c) {
				return false
			}

			if !fetch {
				break
			}

			k := len(idx) - 1
			for ; k >= 0; k-- {
				idx[k]++
				if idx[k] < len(permsets[k]) {
					break
				}

				idx[k] = 0
			}

			if k < 0 {
				break
			}
		}
	}

	return true
}

// ---------------------------------------------------------------- the chains

type c18Env struct {
	s        *baseTestSuffrageStateBuilder
	nheights int
	main     []base.SuffrageProof
	foreign  []base.SuffrageProof
	shifted  []base.SuffrageProof
	// proofs derived from main[h] which are handed over as the remote's last proof, by alternative
	lastmenu map[string][]base.SuffrageProof
}

func (e *c18Env) proof(blockheight, sufheight base.Height, previous base.State, nodes []base.Node) base.SuffrageProof {
	t := e.s

	var previoushash util.Hash
	if previous != nil {
		previoushash = previous.Hash()
	}

	blockMap, err := newTestBlockMap(blockheight, nil, previoushash, t.Local, t.LocalParams.NetworkID())
	if err != nil {
		panic(err)
	}

	newstate, _ := t.SuffrageState(blockheight, sufheight, nodes)
	newstate = base.NewBaseState(
		blockheight,
		isaac.SuffrageStateKey,
		newstate.Value(),
		previoushash,
		[]util.Hash{valuehash.RandomSHA256(), valuehash.RandomSHA256(), valuehash.RandomSHA256()},
	)

	states := t.States(blockheight, 6)
	states = append(states, newstate)

	w, _ := fixedtree.NewWriter(base.StateFixedtreeHint, uint64(len(states)))
	for i := range states {
		if err := w.Add(uint64(i), fixedtree.NewBaseNode(states[i].Hash().String())); err != nil {
			panic(err)
		}
	}

	tr, err := w.Tree()
	if err != nil {
		panic(err)
	}

	proof, err := tr.Proof(newstate.Hash().String())
	if err != nil {
		panic(err)
	}

	// the block map commits to the states tree the proof comes from (SuffrageProof.Prove compares the roots)
	manifest := blockMap.Manifest().(base.DummyManifest) //nolint:forcetypeassert //...
	manifest.SetStatesTree(tr.Root())
	blockMap.SetManifest(manifest)

	if err := blockMap.Sign(t.Local.Address(), t.Local.Privatekey(), t.LocalParams.NetworkID()); err != nil {
		panic(err)
	}

	return isaacblock.NewSuffrageProof(blockMap, newstate, proof)
}

func (e *c18Env) chain(blockoffset base.Height) []base.SuffrageProof {
	nodes := []base.Node{e.s.Local}
	proofs := make([]base.SuffrageProof, e.nheights)

	for h := 0; h < e.nheights; h++ {
		_, newnodes := e.s.Locals(1)
		nodes = append(append([]base.Node(nil), nodes...), newnodes...)

		var previous base.State
		if h > 0 {
			previous = proofs[h-1].State()
		}

		proofs[h] = e.proof(blockoffset+base.Height(h), base.Height(h), previous, nodes)
	}

	return proofs
}

func c18NewEnv(t *testing.T, nheights int) *c18Env {
	s := new(baseTestSuffrageStateBuilder)
	s.SetT(t)
	s.BaseTestDatabase.SetupSuite()
	s.SetupTest()

	e := &c18Env{s: s, nheights: nheights}
	e.main = e.chain(0)
	e.foreign = e.chain(0)
	e.shifted = e.chain(10)

	// sanity of the harness' own chains
	for h := 0; h < nheights; h++ {
		var previous base.State
		if h > 0 {
			previous = e.main[h-1].State()
		}

		if err := e.main[h].Prove(previous); err != nil {
			panic(fmt.Sprintf("c18: main chain is not linked at %d: %v", h, err))
		}

		if err := e.main[h].IsValid(s.LocalParams.NetworkID()); err != nil {
			panic(fmt.Sprintf("c18: main chain proof %d invalid: %v", h, err))
		}
	}

	e.buildLastMenu()

	return e
}

var c18OtherNetworkID = base.NetworkID([]byte("c18 another network"))

func c18IsValid(proof base.SuffrageProof, networkID base.NetworkID) error {
	if proof == nil {
		return errors.Errorf("nil proof")
	}

	var err error

	if panicked, msg := vlib.Catch(func() { err = proof.IsValid(networkID) }); panicked {
		return errors.Errorf("IsValid panicked: %s", msg)
	}

	return err
}

// buildLastMenu derives, from the right proof of every height, the malformed proofs of the last proof menu.
func (e *c18Env) buildLastMenu() {
	t := e.s
	e.lastmenu = map[string][]base.SuffrageProof{}

	for h := 0; h < e.nheights; h++ {
		right := e.main[h].(isaacblock.SuffrageProof)          //nolint:forcetypeassert //...
		rightmap := right.Map().(isaacblock.BlockMap)          //nolint:forcetypeassert //...
		shiftedmap := e.shifted[h].Map().(isaacblock.BlockMap) //nolint:forcetypeassert //...
		blockheight := right.State().Height()

		nilmanifest := rightmap
		nilmanifest.SetManifest(nil)

		unsigned := rightmap
		unsigned.BaseNodeSign = base.BaseNodeSign{}

		othernet := rightmap
		if err := othernet.Sign(t.Local.Address(), t.Local.Privatekey(), c18OtherNetworkID); err != nil {
			panic(err)
		}

		for alt, proof := range map[string]base.SuffrageProof{
			"zero":           isaacblock.SuffrageProof{},
			"nilstate":       isaacblock.NewSuffrageProof(rightmap, nil, right.Proof()),
			"nilmap":         isaacblock.NewSuffrageProof(nil, right.State(), right.Proof()),
			"nilmanifest":    isaacblock.NewSuffrageProof(nilmanifest, right.State(), right.Proof()),
			"unsigned":       isaacblock.NewSuffrageProof(unsigned, right.State(), right.Proof()),
			"othernet":       isaacblock.NewSuffrageProof(othernet, right.State(), right.Proof()),
			"emptytreeproof": isaacblock.NewSuffrageProof(rightmap, right.State(), fixedtree.Proof{}),
			"notsuffrage":    isaacblock.NewSuffrageProof(rightmap, t.States(blockheight, 1)[0], right.Proof()),
			"heightmismatch": isaacblock.NewSuffrageProof(shiftedmap, right.State(), right.Proof()),
		} {
			// sanity of the harness' own menu: every one of them is invalid
			if err := c18IsValid(proof, t.LocalParams.NetworkID()); err == nil {
				panic(fmt.Sprintf("c18: last proof alternative %q of height %d is valid", alt, h))
			}

			e.lastmenu[alt] = append(e.lastmenu[alt], proof)
		}

		for _, proof := range []base.SuffrageProof{e.main[h], e.foreign[h], e.shifted[h]} {
			if err := c18IsValid(proof, t.LocalParams.NetworkID()); err != nil {
				panic(fmt.Sprintf("c18: proof of height %d of a valid chain is invalid: %v", h, err))
			}
		}
	}
}

// c18LastAnswer is what the remote answers for "last suffrage proof".
type c18LastAnswer struct {
	proof   base.SuffrageProof
	updated bool
	err     error
}

func (e *c18Env) lastAnswer(alt string, h int) c18LastAnswer {
	switch alt {
	case "right":
		return c18LastAnswer{proof: e.main[h], updated: true}
	case "foreign":
		return c18LastAnswer{proof: e.foreign[h], updated: true}
	case "shifted":
		return c18LastAnswer{proof: e.shifted[h], updated: true}
	case "notupdated":
		return c18LastAnswer{}
	case "error":
		return c18LastAnswer{err: errors.Errorf("c18: scripted last proof error")}
	case "nilproof":
		return c18LastAnswer{updated: true}
	case "notupdated+proof":
		return c18LastAnswer{proof: e.main[h]}
	case "notupdated+nilstate":
		return c18LastAnswer{proof: e.lastmenu["nilstate"][h]}
	case "error+proof":
		return c18LastAnswer{proof: e.main[h], updated: true, err: errors.Errorf("c18: scripted last proof error")}
	default:
		proofs, found := e.lastmenu[alt]
		if !found {
			panic("c18: unknown last alternative " + alt)
		}

		return c18LastAnswer{proof: proofs[h], updated: true}
	}
}

// ---------------------------------------------------------------- one execution

type c18Result struct {
	Outcome   string         `json:"outcome"`
	Violation bool           `json:"violation"`
	Sig       map[string]any `json:"sig,omitempty"`
	Detail    string         `json:"detail,omitempty"`
	Heights   []string       `json:"heights,omitempty"`
	Err       string         `json:"err,omitempty"`
	Entered   int            `json:"entered"`
	Fetched   []string       `json:"fetched,omitempty"`
}

type c18Arrival struct {
	height  base.Height
	release chan struct{}
}

func (e *c18Env) answer(c c18Case, h int) (base.SuffrageProof, bool, error) {
	alt := "right"

	for _, d := range c.Devs {
		if d.Pos == strconv.Itoa(h) {
			alt = d.Alt
		}
	}

	switch alt {
	case "right":
		return e.main[h], true, nil
	case "notfound":
		return nil, false, nil
	case "error":
		return nil, false, errors.Errorf("c18: scripted remote error")
	case "foreign":
		return e.foreign[h], true, nil
	case "up":
		return e.main[h+1], true, nil
	case "down":
		return e.main[h-1], true, nil
	case "lowest":
		return e.main[0], true, nil
	case "shifted":
		return e.shifted[h], true, nil
	default:
		panic("c18: unknown alternative " + alt)
	}
}

func c18WaitGoroutines(below int, stop func() bool) {
	for spins := 0; runtime.NumGoroutine() >= below; spins++ {
		if stop != nil && stop() {
			return
		}

		if spins < 200 {
			runtime.Gosched()
		} else {
			time.Sleep(20 * time.Microsecond)
		}
	}
}

func (e *c18Env) execute(c c18Case) c18Result {
	lastalt, candalt := "right", "right"

	for _, d := range c.Devs {
		switch d.Pos {
		case "last":
			lastalt = d.Alt
		case "cand":
			candalt = d.Alt
		}
	}

	var localstate base.State
	if c.Local >= 0 {
		localstate = e.main[c.Local].State()
	}

	last := e.lastAnswer(lastalt, c.Last)

	arrive := make(chan c18Arrival)

	var fetched []string // filled by the coordinator only

	builder := isaac.NewSuffrageStateBuilder(
		e.s.LocalParams.NetworkID(),
		func(context.Context) (base.Height, base.SuffrageProof, bool, error) {
			if last.err != nil {
				return base.NilHeight, last.proof, last.updated, last.err
			}

			return base.Height(77), last.proof, last.updated, nil
		},
		func(_ context.Context, height base.Height) (base.SuffrageProof, bool, error) {
			a := c18Arrival{height: height, release: make(chan struct{})}
			arrive <- a
			<-a.release

			h := int(height.Int64())
			if h < 0 || h >= e.nheights {
				return nil, false, errors.Errorf("c18: height %d out of the scripted range", h)
			}

			return e.answer(c, h)
		},
		func(context.Context) (base.State, bool, error) {
			if candalt == "error" {
				return nil, false, errors.Errorf("c18: scripted candidate state error")
			}

			return nil, false, nil
		},
	)
	builder.SetBatchLimit(c.Limit)

	type buildResult struct {
		proofs []base.SuffrageProof
		err    error
	}

	done := make(chan buildResult, 1)
	park := make(chan struct{})
	g0 := runtime.NumGoroutine()

	go func() {
		_, proofs, _, err := builder.Build(context.Background(), localstate)
		done <- buildResult{proofs: proofs, err: err}
		<-park // stay alive: the goroutine count must only change with the jobs
	}()

	var result *buildResult

	isdone := func() bool {
		if result != nil {
			return true
		}

		select {
		case r := <-done:
			result = &r

			return true
		default:
			return false
		}
	}

	var pending []c18Arrival

	entered := 0
	pos := c.Local + 1

	for bi := 0; bi < len(c.orders) && !isdone(); bi++ {
		size := len(c.orders[bi])
		gates := map[int]chan struct{}{}

		for _, a := range pending {
			gates[int(a.height.Int64())] = a.release
		}

		pending = nil

		for len(gates) < size && !isdone() {
			select {
			case a := <-arrive:
				gates[int(a.height.Int64())] = a.release
			case r := <-done:
				result = &r
			}
		}

		if len(gates) < size {
			if len(gates) > 0 {
				panic(fmt.Sprintf("c18: %s: Build returned with %d parked jobs of an incomplete batch", c.ID, len(gates)))
			}

			break
		}

		// all jobs of the batch are parked; goroutines of the previous batch are gone
		inflight := func(k int) int { return g0 + 1 + k } // Build's caller + k parked jobs

		c18WaitGoroutines(inflight(size)+1, nil)

		for ri, k := range c.orders[bi] {
			h := pos + k

			g, found := gates[h]
			if !found {
				panic(fmt.Sprintf("c18: %s: batch %d: height %d is not in flight", c.ID, bi, h))
			}

			close(g)
			entered++
			fetched = append(fetched, strconv.Itoa(h))

			lastofbatch := ri == size-1

			// wait until the released job's goroutine is gone
			c18WaitGoroutines(inflight(size-ri-1)+1, func() bool {
				if !lastofbatch {
					return false
				}

				// after the last job of a batch Build continues: next batch, or return
				if isdone() {
					return true
				}

				select {
				case a := <-arrive:
					pending = append(pending, a)

					return true
				default:
					return false
				}
			})
		}

		pos += size
	}

	// Build has returned, or is about to without any further fetch
	for !isdone() {
		select {
		case r := <-done:
			result = &r
		case a := <-arrive:
			panic(fmt.Sprintf("c18: %s: unexpected fetch of height %d after the planned batches", c.ID, a.height))
		}
	}

	close(park)
	c18WaitGoroutines(g0+1, nil)

	res := e.judge(c, localstate, last, lastalt, result.proofs, result.err)
	res.Entered = entered
	res.Fetched = fetched

	return res
}

// judge is the property statement.
func (e *c18Env) judge(
	c c18Case, localstate base.State, last c18LastAnswer, lastalt string,
	proofs []base.SuffrageProof, err error,
) c18Result {
	res := c18Result{}

	lastproof := last.proof
	// the remote announced a last proof
	announced := last.updated && last.err == nil

	for i := range proofs {
		if proofs[i] == nil {
			res.Heights = append(res.Heights, "nil")
		} else {
			res.Heights = append(res.Heights, proofs[i].SuffrageHeight().String())
		}
	}

	if err != nil {
		res.Err = err.Error()

		if len(c.Devs) == 0 {
			res.Violation = true
			res.Outcome = "VIOLATION error although every remote answer was right"
			res.Sig = map[string]any{"kind": "error-without-deviation", "multi_batch": int64(c.Last-c.Local) > c.Limit}
			res.Detail = fmt.Sprintf("Build(local=%d) with a consistent remote (last=%d, batchlimit=%d) returned %v", c.Local, c.Last, c.Limit, err)

			return res
		}

		res.Outcome = "error, deviations=" + c18DevKinds(c.Devs)

		return res
	}

	// success. Does the proof handed over pass IsValid?
	usable := c18IsValid(lastproof, e.s.LocalParams.NetworkID()) == nil

	// An invalid last proof is never adopted: neither by answering nil to it, nor (when it
	// came with updated=false or an error) by building a chain to it
	if !usable && (announced || (lastproof != nil && len(proofs) > 0)) {
		res.Violation = true
		res.Outcome = "VIOLATION invalid-last-proof-adopted last:" + lastalt
		res.Sig = map[string]any{"kind": "invalid-last-proof-adopted", "last": lastalt, "local": c18LocalClass(c.Local), "newer_than_local": c.Last > c.Local}
		res.Detail = fmt.Sprintf("Build(local=%d) (remote last=%d as %q: %v; batchlimit=%d, deviations=%v) returned nil with %d proofs of suffrage heights [%s]",
			c.Local, c.Last, lastalt, c18IsValid(lastproof, e.s.LocalParams.NetworkID()), c.Limit, c.Devs, len(proofs), strings.Join(res.Heights, " "))

		return res
	}

	// what must the chain be? A valid proof which came with updated=false or with an error may be
	// ignored (nothing built); when it is used, the chain to it must be as right as to an announced one
	var expected []int

	if usable && (announced || len(proofs) > 0) && c.Last > c.Local {
		for h := c.Local + 1; h <= c.Last; h++ {
			expected = append(expected, h)
		}
	}

	want := make([]string, len(expected))
	for i := range expected {
		want[i] = strconv.Itoa(expected[i])
	}

	hasnil := false
	for i := range proofs {
		if proofs[i] == nil {
			hasnil = true
		}
	}

	got := strings.Join(res.Heights, " ")
	wants := strings.Join(want, " ")

	lasttwice := len(res.Heights) >= 2 && res.Heights[len(res.Heights)-1] == res.Heights[len(res.Heights)-2]

	bad := func(kind, detail string) c18Result {
		res.Violation = true
		res.Outcome = "VIOLATION " + kind
		res.Sig = map[string]any{"kind": kind, "last_proof_twice": lasttwice, "multi_batch": int64(len(expected)) > c.Limit}
		res.Detail = fmt.Sprintf("Build(local=%d) (remote last=%d, batchlimit=%d, deviations=%v, arrival order %s) returned nil with proofs of suffrage heights [%s], a gap-free chain would be [%s]: %s",
			c.Local, c.Last, c.Limit, c.Devs, c.Order, got, wants, detail)

		return res
	}

	switch {
	case hasnil:
		return bad("nil-proof-in-chain", "a slot of the returned chain is nil")
	case got == wants:
	case len(expected) > 0 && got == wants+" "+want[len(want)-1]:
		return bad("last-proof-twice", "the proof of the last height is returned twice")
	case len(expected) > 0 && len(res.Heights) > 0 && strings.HasSuffix(" "+wants+" "+want[len(want)-1], " "+got):
		return bad("truncated-chain", "only the tail of the chain is returned (earlier batches are dropped)")
	case len(expected) > 0 && len(res.Heights) > 0 && strings.HasSuffix(" "+wants, " "+got):
		return bad("truncated-chain", "only the tail of the chain is returned (earlier batches are dropped)")
	default:
		return bad("wrong-heights", "heights differ")
	}

	// every proof independently re-proved against its predecessor
	previous := localstate

	for i := range proofs {
		var perr error

		if panicked, msg := vlib.Catch(func() { perr = proofs[i].Prove(previous) }); panicked {
			perr = errors.Errorf("panic: %s", msg)
		}

		if perr != nil {
			return bad("unlinked-chain", fmt.Sprintf("proof %d of the result cannot be proved against its predecessor: %v", i, perr))
		}

		previous = proofs[i].State()
	}

	if len(proofs) > 0 && !proofs[len(proofs)-1].State().Hash().Equal(lastproof.State().Hash()) {
		return bad("not-ending-at-remote-last", "the chain does not end with the proof returned as the remote's last")
	}

	switch {
	case len(expected) == 0:
		res.Outcome = "ok, nothing to build, deviations=" + c18DevKinds(c.Devs)
	default:
		res.Outcome = "ok, linked chain, deviations=" + c18DevKinds(c.Devs)
	}

	return res
}

func c18LocalClass(local int) string {
	if local < 0 {
		return "none"
	}

	return "state"
}

func c18DevKinds(devs []c18Dev) string {
	if len(devs) == 0 {
		return "none"
	}

	parts := make([]string, len(devs))
	for i := range devs {
		p := devs[i].Pos
		if p != "last" && p != "cand" {
			p = "h"
		}

		parts[i] = p + ":" + devs[i].Alt
	}

	return strings.Join(parts, "+")
}

// ---------------------------------------------------------------- child

type c18Msg struct {
	T      string     `json:"t"` // begin, end, pruned, done, expired
	Idx    int        `json:"idx"`
	Case   *c18Case   `json:"case,omitempty"`
	Result *c18Result `json:"result,omitempty"`
}

func c18Child(t *testing.T) {
	out := os.NewFile(3, "c18-protocol")
	if out == nil {
		t.Fatal("c18 child: no protocol pipe")
	}

	w := bufio.NewWriter(out)
	send := func(m c18Msg) {
		b, _ := json.Marshal(m)
		_, _ = w.Write(append(b, '\n'))
		_ = w.Flush()
	}

	skip, _ := strconv.Atoi(os.Getenv("VERIF_C18_SKIP"))
	only := os.Getenv("VERIF_C18_ONLY")
	// replays run in the quick tier: search the thorough space for the recorded id
	thorough := os.Getenv("VERIF_TIER") == "thorough" || only != ""
	deadline, _ := strconv.ParseInt(os.Getenv("VERIF_C18_DEADLINE"), 10, 64)

	shard, nshards := 0, 1
	_, _ = fmt.Sscanf(os.Getenv("VERIF_SHARD"), "%d/%d", &shard, &nshards)

	panicked := map[string]bool{}

	if p := os.Getenv("VERIF_C18_PANICKED"); p != "" {
		b, err := os.ReadFile(p)
		if err != nil {
			t.Fatal(err)
		}

		for _, k := range strings.Split(string(b), "\n") {
			if k != "" {
				panicked[k] = true
			}
		}
	}

	nheights := 5
	if thorough {
		nheights = 6
	}

	env := c18NewEnv(t, nheights)

	idx := 0

	c18Enumerate(thorough, shard, nshards, func(c c18Case) bool {
		idx++
		if idx <= skip {
			return true
		}

		if only != "" && c.ID != only {
			return true
		}

		if deadline > 0 && idx%64 == 0 && time.Now().Unix() > deadline {
			send(c18Msg{T: "expired", Idx: idx})

			return false
		}

		// a case whose sub-case (same configuration, fewer deviations, or another arrival
		// order) already killed the process is not executed again: it is reported as covered
		// by that panic
		pruned := panicked[c.devKey(c.Devs)]
		for i := range c.Devs {
			if len(c.Devs) > 1 && panicked[c.devKey([]c18Dev{c.Devs[i]})] {
				pruned = true
			}
		}

		if pruned && only == "" {
			send(c18Msg{T: "pruned", Idx: idx})

			return true
		}

		cc := c
		send(c18Msg{T: "begin", Idx: idx, Case: &cc})

		res := env.execute(c)
		send(c18Msg{T: "end", Idx: idx, Result: &res})

		return true
	})

	send(c18Msg{T: "done", Idx: idx})
}

// ---------------------------------------------------------------- parent

var c18FrameRe = regexp.MustCompile(`(?m)^github\.com/spikeekips/mitum/([^\s(]+(?:\([^)]*\))?[^\s(]*)\(`)

func c18PanicSite(output string) (msg, site string) {
	msg = "no panic message found"

	i := strings.Index(output, "panic: ")
	if i < 0 {
		return msg, "unknown"
	}

	rest := output[i:]
	if j := strings.Index(rest, "\n"); j > 0 {
		msg = rest[:j]
	}

	site = "unknown"

	if m := c18FrameRe.FindStringSubmatch(rest); m != nil {
		site = m[1]
	}

	return msg, site
}

func TestVerifC18(t *testing.T) {
	if os.Getenv("VERIF_C18_CHILD") != "" {
		c18Child(t)

		return
	}

	r := vlib.Start("C18")
	defer r.Finish()

	r.Rule("local state in {none, 0..H}, remote last proof in 0..H, batch limit in {1,2,3,333}; the default remote answers right; " +
		"0, 1 and 2 deviations at every position (last proof: " + c18LastAltNames() + "; candidate state: error; each requested height: " +
		"not found, error, same height of a foreign chain, proof of h+1, proof of h-1, proof of height 0 below the local state" +
		", same suffrage height from a chain whose blocks are 10 higher); every combination of per-batch arrival orders " +
		"(all permutations for batches <= 3 (quick) / <= 4 (thorough), identity/reverse/two rotations above; identity only when the last proof handed over " +
		"is invalid or comes with updated=false or an error, where the real Build does not fetch); non-trivial = at least one deviation")
	r.Set("last_proof_menu", c18LastAltNames())
	r.Assume("arrival order in prove() forced by parking the fetches; completion of a job observed through runtime.NumGoroutine")
	r.Assume("cases run in a child process; a case that kills the child is a panic of the real code, its trace is the witness")
	r.Set("suffrage_heights", vlib.Pick(r, "0..4", "0..5"))
	r.Set("batch_limits", []int64{1, 2, 3, 333})
	r.Set("max_deviations", 2)

	only, _ := r.Replaying()
	shard, nshards := r.Shard()
	_ = shard
	_ = nshards

	panickedFile, err := os.CreateTemp("", "verif-c18-panicked")
	if err != nil {
		t.Fatal(err)
	}

	defer os.Remove(panickedFile.Name())

	deadline := int64(0)
	if v := os.Getenv("VERIF_DEADLINE_S"); v != "" {
		if f, err := strconv.ParseFloat(v, 64); err == nil {
			deadline = time.Now().Unix() + int64(f)
		}
	}

	skip := 0

	for {
		finished, crashedAt := c18RunChild(t, r, skip, only, panickedFile, deadline)
		if finished {
			break
		}

		skip = crashedAt
	}
}

func c18RunChild(t *testing.T, r *vlib.Run, skip int, only string, panickedFile *os.File, deadline int64) (finished bool, crashedAt int) {
	pr, pw, err := os.Pipe()
	if err != nil {
		t.Fatal(err)
	}

	cmd := exec.Command(os.Args[0], "-test.run", "^TestVerifC18$", "-test.count=1", "-test.timeout=0") //nolint:gosec //...
	cmd.Env = append(os.Environ(),
		"VERIF_C18_CHILD=1",
		"VERIF_C18_SKIP="+strconv.Itoa(skip),
		"VERIF_C18_ONLY="+only,
		"VERIF_C18_PANICKED="+panickedFile.Name(),
		"VERIF_C18_DEADLINE="+strconv.FormatInt(deadline, 10),
		"VERIF_OUT=", "VERIF_REPLAY=",
		"GOMAXPROCS="+c18ChildProcs(),
	)
	cmd.ExtraFiles = []*os.File{pw}

	var output strings.Builder
	cmd.Stdout = &output
	cmd.Stderr = &output

	if err := cmd.Start(); err != nil {
		t.Fatal(err)
	}

	_ = pw.Close()
	r.Add("child_processes", 1)

	var pending *c18Msg

	done := false
	sc := bufio.NewScanner(pr)
	sc.Buffer(make([]byte, 1<<20), 1<<24)

	for sc.Scan() {
		var m c18Msg
		if err := json.Unmarshal(sc.Bytes(), &m); err != nil {
			t.Fatalf("c18: bad child message %q: %v", sc.Text(), err)
		}

		switch m.T {
		case "begin":
			mm := m
			pending = &mm
		case "end":
			c18Record(r, pending.Case, m.Result)
			pending = nil
		case "pruned":
			r.Add("cases_not_rerun_because_a_subcase_panicked", 1)
		case "expired":
			if !r.Expired() {
				r.Cap("deadline")
			}

			done = true
		case "done":
			done = true
		}
	}

	_ = pr.Close()
	werr := cmd.Wait()

	switch {
	case pending != nil:
		// the child died inside this case
		c := pending.Case
		msg, site := c18PanicSite(output.String())

		if !strings.Contains(output.String(), "panic: ") {
			t.Fatalf("c18: child died in case %s without a panic: %v\n%s", c.ID, werr, c18Tail(output.String(), 3000))
		}

		r.Eval()
		r.Trace()
		r.State(c.ID)
		r.Nontrivial(c.ID)
		r.Outcome("VIOLATION panic in " + site)
		r.Violation(c.ID,
			map[string]any{"kind": "panic", "site": site, "deviations": c18DevKinds(c.Devs), "local": c18LocalClass(c.Local)},
			fmt.Sprintf("Build(local=%d) (remote last=%d, batchlimit=%d, deviations=%v, arrival order %s) killed the process: %s; first mitum frame: %s\n%s",
				c.Local, c.Last, c.Limit, c.Devs, c.Order, msg, site, c18Tail(c18TraceHead(output.String()), 1500)),
			c)

		if _, err := panickedFile.WriteString(c.devKey(c.Devs) + "\n"); err != nil {
			t.Fatal(err)
		}

		return false, pending.Idx
	case werr != nil:
		t.Fatalf("c18: child failed outside of a case: %v\n%s", werr, c18Tail(output.String(), 3000))
	case !done:
		t.Fatalf("c18: child ended without a done record\n%s", c18Tail(output.String(), 3000))
	}

	return true, 0
}

// one P: every hand-over between the coordinator and a released job is a direct
// goroutine switch (no OS thread wake-ups); the order is forced anyway
func c18ChildProcs() string {
	if v := os.Getenv("VERIF_C18_PROCS"); v != "" {
		return v
	}

	return "1"
}

func c18Tail(s string, n int) string {
	if len(s) > n {
		return s[len(s)-n:]
	}

	return s
}

func c18TraceHead(s string) string {
	if i := strings.Index(s, "panic: "); i >= 0 {
		s = s[i:]
	}

	if len(s) > 1500 {
		s = s[:1500]
	}

	return s
}

func c18Record(r *vlib.Run, c *c18Case, res *c18Result) {
	r.Eval()
	r.Trace()
	r.State(c.ID)
	r.TransitionN(int64(res.Entered))

	if len(c.Devs) > 0 {
		r.Nontrivial(c.ID)
	}

	r.Outcome(res.Outcome)

	if res.Violation {
		r.Violation(c.ID, res.Sig, res.Detail, c)

		return
	}

	if len(c.Devs) == 2 && res.Entered > 2 {
		r.Sample(map[string]any{"case": c.ID, "fetch_order": res.Fetched, "error": res.Err, "result_heights": res.Heights})
	}
}
