//go:build verif

package isaac

import (
	"context"
	"fmt"
	"sort"
	"strings"
	"testing"

	"github.com/pkg/errors"
	"github.com/spikeekips/mitum/base"
	"github.com/spikeekips/mitum/util"
	"github.com/spikeekips/mitum/util/logging"
	"github.com/spikeekips/mitum/util/valuehash"
	"github.com/spikeekips/mitum/zzverif/vctx"
	"github.com/spikeekips/mitum/zzverif/vlib"
	"github.com/spikeekips/mitum/zzverif/vsched"
	"github.com/spikeekips/mitum/zzverif/vsync"
)

// C11: the node saves a processed proposal only when the ACCEPT majority's
// new-block hash equals the manifest it computed for that proposal; at most one
// block per height, never a height at or below one already saved, under any
// interleaving of processing, saving and cancellation.
//
// Seam: the real ProposalProcessors.Process / Save / Cancel with
//   - flavour "real": the real DefaultProposalProcessor (proposals without
//     operations) over a recording BlockWriter, so the manifest comparison in
//     DefaultProposalProcessor.save is the real one;
//   - flavour "stub": a stub ProposalProcessor that records Save (answers
//     scripted), which isolates the fact / height bookkeeping of ProposalProcessors.
// The observation point is the writer's (stub's) Save call: a block is saved.
//
// Part Q: BFS with state dedup over event histories (Process+await of 3-4
// proposals, Save with a matching / mismatching new-block hash, Cancel; writer /
// processor answers deviate from ok at <= 2 events per path) on fresh real
// objects, compared with a reference model of "what gets saved".
// Part S: 2-3 threads running short programs of the same operations under the
// controlled scheduler.
//
// Cancellation while a Save is in flight (both parts): a cancellation can land
// before or after every writer step of the Save path (SetINITVoteproof,
// SetACCEPTVoteproof, Save), through the context given to Save ("cctx") or
// through Cancel() of the held processor ("cproc"). A cancellation landing after
// the writer's Save has written leaves the block in the ledger and makes the
// writer return context.Canceled. Part Q performs the scripted cancellation inside
// the writer step and lets the step wait for its own context, as a context-aware
// step would; in part S another thread cancels and the scheduler decides where it
// lands. Every continuation of the menu follows (same height next round, lower
// height, next height).

type c11fact struct {
	name     string
	point    base.Point
	pr       base.ProposalSignFact
	hash     util.Hash
	manifest util.Hash // hash of the manifest the (stub) writer computes for this proposal
	other    util.Hash // a different new-block hash
}

type c11saved struct {
	fact        string
	height      base.Height
	avpHeight   base.Height
	avpProposal util.Hash
	avpNewBlock util.Hash
	manifest    util.Hash // manifest computed by the processor for this proposal (real flavour)
	by          string
}

type c11vio struct {
	sig    map[string]any
	detail string
}

type c11env struct {
	flavour  string // real | stub
	facts    map[string]*c11fact
	byHash   map[string]*c11fact
	pps      *ProposalProcessors
	answers  map[string]string // what the next writer/processor call answers: "manifest", "process", "save" -> err|ign|cancel
	saved    []c11saved
	calls    []string
	stubs    []*c11stub
	opOf     map[int]string
	withOps  bool                      // proposals carry one operation (Q part, real / direct flavours)
	opByHash map[string]DummyOperation // operation hash -> operation
	args     *DefaultProposalProcessorArgs
	direct   *DefaultProposalProcessor // direct flavour: the processor driven without ProposalProcessors
	directP  int                       // direct flavour: Process calls made
	panics   []string                  // Q part: panics of Save

	// cancellation in flight
	saveCtx      context.Context   // the cancellable context given to Save (Q: cctx route; S: "Sc" operations)
	saveCancel   func()            // cancels saveCtx
	held         ProposalProcessor // the processor a caller took from Processor() / was given before Save started
	heldSet      bool              // S part: a Process operation has returned (held may be nil)
	cancelPoints bool              // S part: scenario with a canceller thread: the writer steps are scheduling points and read their context
	wcanceled    int               // blocks written by a Save call of the writer / stub that then returned context.Canceled
}

// c11CancelAnswers: Q part, real / direct flavours: route.site.when
var c11CancelAnswers = func() []string {
	var l []string

	for _, route := range []string{"cctx", "cproc"} {
		for _, site := range []string{"init", "accept", "save"} {
			for _, when := range []string{"pre", "post"} {
				l = append(l, route+"."+site+"."+when)
			}
		}
	}

	return l
}()

func c11IsCancelAnswer(a string) bool {
	return strings.HasPrefix(a, "cctx.") || strings.HasPrefix(a, "cproc.")
}

// c11WrittenThenCanceled: the answer lets the block be written and the Save call return context.Canceled
func c11WrittenThenCanceled(a string) bool {
	return a == "wcancel" || (c11IsCancelAnswer(a) && strings.HasSuffix(a, ".save.post"))
}

// c11Fault: the scripted answer of a writer / operation call: a plain error, or one
// wrapping ErrIgnoreErrorProposalProcessor (runProcessor keeps such a processor).
func c11Fault(answer, what string) error {
	switch answer {
	case "err":
		return errors.Errorf("c11: %s failed", what)
	case "ign":
		return ErrIgnoreErrorProposalProcessor.Errorf("c11: %s failed; ignorable", what)
	}

	return nil
}

var c11signedOps = map[string]DummyOperation{}

func c11SignedOp(name string) DummyOperation {
	if op, ok := c11signedOps[name]; ok {
		return op
	}

	fact := NewDummyOperationFact([]byte("c11-token-"+name), valuehash.NewSHA256([]byte("c11-opvalue-"+name)))

	op, err := NewDummyOperation(fact, base.NewMPrivatekey(), base.NetworkID("c11"))
	if err != nil {
		panic(err)
	}

	c11signedOps[name] = op

	return op
}

func (e *c11env) op() string {
	if e.opOf == nil {
		return "seq"
	}

	if s, ok := e.opOf[vsched.ThreadID()]; ok {
		return s
	}

	return "spawned"
}

func (e *c11env) take(k string) string {
	a := e.answers[k]
	delete(e.answers, k)

	return a
}

var c11FactNames = []string{"F1a", "F1b", "F2a", "F0a"}

func c11NewEnv(flavour string, nfacts int, withOps bool) *c11env {
	e := &c11env{flavour: flavour, facts: map[string]*c11fact{}, byHash: map[string]*c11fact{}, answers: map[string]string{},
		withOps: withOps && flavour != "stub", opByHash: map[string]DummyOperation{}}

	points := map[string]base.Point{
		"F1a": base.RawPoint(33, 0), "F1b": base.RawPoint(33, 1), "F2a": base.RawPoint(34, 0), "F0a": base.RawPoint(32, 0),
	}

	for _, name := range c11FactNames[:nfacts] {
		// NOTE the fact hash contains the proposed-at time (random data); names drive the control flow
		var ophs [][2]util.Hash

		if e.withOps {
			name := name
			op := c11SignedOp(name)
			op.preprocess = func(ctx context.Context, _ base.GetStateFunc) (context.Context, base.OperationProcessReasonError, error) {
				return ctx, nil, nil
			}
			op.process = func(context.Context, base.GetStateFunc) ([]base.StateMergeValue, base.OperationProcessReasonError, error) {
				e.calls = append(e.calls, "op-process("+name+")")

				if err := c11Fault(e.take("op"), "operation"); err != nil {
					return nil, nil, err
				}

				return []base.StateMergeValue{base.NewBaseStateMergeValue("c11-state-"+name, base.NewDummyStateValue("v"), nil)}, nil, nil
			}
			e.opByHash[op.Hash().String()] = op
			ophs = [][2]util.Hash{{op.Hash(), op.Fact().Hash()}}
		}

		pf := NewProposalFact(points[name], base.NewStringAddress("c11-proposer"), valuehash.NewSHA256([]byte("c11-prev-"+name)), ophs)
		f := &c11fact{
			name: name, point: points[name], pr: NewProposalSignFact(pf), hash: pf.Hash(),
			manifest: valuehash.NewSHA256([]byte("c11-manifest-" + name)),
			other:    valuehash.NewSHA256([]byte("c11-other-" + name)),
		}
		e.facts[name] = f
		e.byHash[f.hash.String()] = f
	}

	getproposal := func(_ context.Context, _ base.Point, h util.Hash) (base.ProposalSignFact, error) {
		f, ok := e.byHash[h.String()]
		if !ok {
			return nil, errors.Errorf("c11: unknown proposal")
		}

		return f.pr, nil
	}

	var makenew func(base.ProposalSignFact, base.Manifest) (ProposalProcessor, error)

	switch flavour {
	case "real", "direct":
		args := NewDefaultProposalProcessorArgs()
		e.args = args
		args.NewWriterFunc = func(pr base.ProposalSignFact, _ base.GetStateFunc) (BlockWriter, error) {
			return &c11writer{env: e, fact: e.byHash[pr.Fact().Hash().String()]}, nil
		}
		args.GetStateFunc = func(string) (base.State, bool, error) { return nil, false, nil }
		args.GetOperationFunc = func(_ context.Context, oph, _ util.Hash) (base.Operation, error) {
			if op, ok := e.opByHash[oph.String()]; ok {
				return op, nil
			}

			return nil, nil
		}

		makenew = func(pr base.ProposalSignFact, previous base.Manifest) (ProposalProcessor, error) {
			return c11NewDefaultProposalProcessor(pr, previous, args), nil
		}
	default:
		makenew = func(pr base.ProposalSignFact, _ base.Manifest) (ProposalProcessor, error) {
			s := &c11stub{env: e, fact: e.byHash[pr.Fact().Hash().String()]}
			e.stubs = append(e.stubs, s)

			return s, nil
		}
	}

	e.pps = NewProposalProcessors(makenew, getproposal)
	e.pps.retrylimit = 1
	e.pps.retryinterval = 1

	return e
}

// c11NewDefaultProposalProcessor builds the real DefaultProposalProcessor field by
// field, exactly as NewDefaultProposalProcessor does, except for the size of the
// state cache: the constructor allocates a ShardedMap of 65535 shards (about 5 ms
// of clearing and GC work per processor, measured), which no proposal without
// operations ever touches. context and sync come from the shims the instrumented
// constructor would use, so cancel and Once keep their scheduling points.
func c11NewDefaultProposalProcessor(pr base.ProposalSignFact, previous base.Manifest, args *DefaultProposalProcessorArgs) *DefaultProposalProcessor {
	oprs, _ := util.NewShardedMap[string, base.OperationProcessor](1<<5, nil)
	stcache, _ := util.NewShardedMap[string, [2]interface{}](1<<3, nil)

	ctx, ctxcancel := vctx.WithCancel(context.Background())

	p := &DefaultProposalProcessor{
		Logging:  logging.NewLogging(nil),
		proposal: pr,
		getctx:   func() context.Context { return ctx },
		previous: previous,
		args:     args,
		oprs:     oprs,
		stcache:  stcache,
	}

	var cancelonce vsync.Once

	p.cancel = func() {
		cancelonce.Do(func() {
			ctxcancel()
		})
	}

	return p
}

// ---- recording BlockWriter (real flavour)

type c11writer struct {
	env      *c11env
	fact     *c11fact
	manifest base.Manifest
	avp      base.ACCEPTVoteproof
}

func (*c11writer) SetOperationsSize(uint64) {}

func (w *c11writer) SetProcessResult(context.Context, uint64, util.Hash, util.Hash, bool, base.OperationProcessReasonError) error {
	w.env.calls = append(w.env.calls, "set-process-result("+w.fact.name+")")

	return c11Fault(w.env.take("result"), "SetProcessResult")
}

func (w *c11writer) SetStates(context.Context, uint64, []base.StateMergeValue, base.Operation) error {
	w.env.calls = append(w.env.calls, "set-states("+w.fact.name+")")

	return c11Fault(w.env.take("states"), "SetStates")
}

func (w *c11writer) Manifest(context.Context, base.Manifest) (base.Manifest, error) {
	vsched.Point("writer.Manifest", nil)

	w.env.calls = append(w.env.calls, w.env.op()+":manifest("+w.fact.name+")")

	if err := c11Fault(w.env.take("manifest"), "Manifest"); err != nil {
		return nil, err
	}

	w.manifest = base.NewDummyManifest(w.fact.point.Height(), w.fact.manifest)

	return w.manifest, nil
}

// cancelLands: the place before / after a writer step of the Save path where a
// cancellation can land. Q part: the scripted cancellation (route.site.when) is
// performed here, by the route it names, and the step then waits until its own
// context - the one DefaultProposalProcessor.Save derived - is done, as a
// context-aware step does. S part (scenarios with a canceller thread): a
// scheduling point, then the step reads its context. Elsewhere: nothing.
func (w *c11writer) cancelLands(ctx context.Context, site, when string) error {
	e := w.env

	if e.cancelPoints {
		if site != "save" || when != "pre" { // Save's entry is a point already
			vsched.Point("writer."+site+"."+when, nil)
		}

		if err := ctx.Err(); err != nil {
			e.calls = append(e.calls, e.op()+":canceled@"+site+"."+when+"("+w.fact.name+")")

			return err
		}

		return nil
	}

	a := e.answers["save"]
	if !c11IsCancelAnswer(a) || !strings.HasSuffix(a, "."+site+"."+when) {
		return nil
	}

	delete(e.answers, "save")
	e.calls = append(e.calls, e.op()+":"+a+"("+w.fact.name+")")

	switch {
	case strings.HasPrefix(a, "cctx."):
		e.saveCancel()
	default:
		_ = e.held.Cancel()
	}

	<-ctx.Done()

	return ctx.Err()
}

func (w *c11writer) SetINITVoteproof(ctx context.Context, _ base.INITVoteproof) error {
	if err := w.cancelLands(ctx, "init", "pre"); err != nil {
		return err
	}

	return w.cancelLands(ctx, "init", "post")
}

func (w *c11writer) SetACCEPTVoteproof(ctx context.Context, avp base.ACCEPTVoteproof) error {
	if err := w.cancelLands(ctx, "accept", "pre"); err != nil {
		return err
	}

	w.avp = avp

	return w.cancelLands(ctx, "accept", "post")
}

func (w *c11writer) Save(ctx context.Context) (base.BlockMap, error) {
	vsched.Point("writer.Save", nil)

	if err := w.cancelLands(ctx, "save", "pre"); err != nil {
		return nil, err
	}

	if w.env.answers["save"] == "err" {
		delete(w.env.answers, "save")
		w.env.calls = append(w.env.calls, w.env.op()+":writer-save-failed("+w.fact.name+")")

		return nil, errors.Errorf("c11: writer save failed")
	}

	s := c11saved{fact: w.fact.name, height: w.fact.point.Height(), by: w.env.op()}

	if w.manifest != nil {
		s.manifest = w.manifest.Hash()
	}

	if w.avp != nil {
		s.avpHeight = w.avp.Point().Height()
		s.avpProposal = w.avp.BallotMajority().Proposal()
		s.avpNewBlock = w.avp.BallotMajority().NewBlock()
	}

	w.env.saved = append(w.env.saved, s)
	w.env.calls = append(w.env.calls, w.env.op()+":SAVED("+w.fact.name+")")

	// NOTE the block is written; what follows in a real writer can still be canceled
	if err := w.cancelLands(ctx, "save", "post"); err != nil {
		w.env.wcanceled++

		return nil, err
	}

	return nil, nil
}

func (*c11writer) Cancel() error { return nil }

// ---- stub ProposalProcessor (stub flavour)

type c11stub struct {
	env       *c11env
	fact      *c11fact
	processed bool
	failed    bool
	canceled  bool
	saved     bool
}

func (s *c11stub) Proposal() base.ProposalSignFact { return s.fact.pr }

func (s *c11stub) Process(context.Context, base.INITVoteproof) (base.Manifest, error) {
	vsched.Point("stub.Process", nil)

	s.env.calls = append(s.env.calls, s.env.op()+":process("+s.fact.name+")")

	switch s.env.take("process") {
	case "err":
		s.failed = true

		return nil, errors.Errorf("c11: process failed")
	case "ign":
		s.failed = true

		return nil, ErrIgnoreErrorProposalProcessor.Errorf("c11: process ignored")
	}

	s.processed = true

	return base.NewDummyManifest(s.fact.point.Height(), s.fact.manifest), nil
}

// canceledNow: S part, scenarios with a canceller thread: the stub reads the
// context it was given and its own Cancel() flag, as DefaultProposalProcessor's
// derived context carries both.
func (s *c11stub) canceledNow(ctx context.Context) bool {
	return s.env.cancelPoints && (ctx.Err() != nil || s.canceled)
}

func (s *c11stub) Save(ctx context.Context, avp base.ACCEPTVoteproof) (base.BlockMap, error) {
	vsched.Point("stub.Save", nil)

	var wcancel bool

	switch s.env.take("save") {
	case "err":
		s.env.calls = append(s.env.calls, s.env.op()+":stub-save-failed("+s.fact.name+")")

		return nil, errors.Errorf("c11: save failed")
	case "cancel":
		s.env.calls = append(s.env.calls, s.env.op()+":stub-save-canceled("+s.fact.name+")")

		return nil, context.Canceled
	case "wcancel": // written, then canceled
		wcancel = true
	}

	if s.canceledNow(ctx) {
		s.env.calls = append(s.env.calls, s.env.op()+":stub-save-canceled("+s.fact.name+")")

		return nil, context.Canceled
	}

	s.saved = true
	s.env.saved = append(s.env.saved, c11saved{
		fact: s.fact.name, height: s.fact.point.Height(), by: s.env.op(),
		avpHeight: avp.Point().Height(), avpProposal: avp.BallotMajority().Proposal(), avpNewBlock: avp.BallotMajority().NewBlock(),
	})
	s.env.calls = append(s.env.calls, s.env.op()+":SAVED("+s.fact.name+")")

	if s.env.cancelPoints {
		vsched.Point("stub.Save.post", nil)
	}

	if wcancel || s.canceledNow(ctx) {
		s.env.wcanceled++
		s.env.calls = append(s.env.calls, s.env.op()+":stub-save-canceled-after-written("+s.fact.name+")")

		return nil, context.Canceled
	}

	return nil, nil
}

func (s *c11stub) Cancel() error {
	s.canceled = true

	return nil
}

// ---- operations

func (e *c11env) process(name string) string {
	f := e.facts[name]
	previous := base.NewDummyManifest(f.point.Height()-1, valuehash.NewSHA256([]byte("c11-prevblock")))

	pf, err := e.pps.Process(context.Background(), f.point, f.hash, previous, nil)

	switch {
	case err != nil:
		return "process:error"
	case pf == nil:
		return "process:already"
	}

	switch m, err := pf(context.Background()); {
	case err != nil:
		return "process:failed"
	case m == nil:
		return "process:no-manifest"
	case !m.Hash().Equal(f.manifest):
		panic("c11: foreign manifest")
	}

	return "process:ok"
}

func (e *c11env) avp(name string, match bool) base.ACCEPTVoteproof {
	f := e.facts[name]

	nb := f.manifest
	if !match {
		nb = f.other
	}

	vp := NewACCEPTVoteproof(f.point)
	vp.SetMajority(NewACCEPTBallotFact(f.point, f.hash, nb, nil))

	return vp
}

// saveContext: the context of one Save call of the Q part. Only a scripted cctx
// cancellation needs a cancellable one; every other call gets
// context.Background(), as voteproofHandler.saveBlock passes.
func (e *c11env) saveContext() (context.Context, func()) {
	if !strings.HasPrefix(e.answers["save"], "cctx.") {
		e.saveCtx, e.saveCancel = nil, nil

		return context.Background(), func() {}
	}

	e.saveCtx, e.saveCancel = context.WithCancel(context.Background())

	return e.saveCtx, e.saveCancel
}

func (e *c11env) save(name string, match bool) string {
	f := e.facts[name]
	n, wc := len(e.saved), e.wcanceled

	var err error

	ctx, release := e.saveContext()
	defer release()

	e.held = e.pps.Processor() // taken before Save starts, as the demonstration of the cproc route does

	if panicked, msg := vlib.Catch(func() { _, err = e.pps.Save(ctx, f.hash, e.avp(name, match)) }); panicked {
		e.panics = append(e.panics, msg)

		return "save:panic"
	}

	switch {
	case err == nil && len(e.saved) == n+1:
		return "save:saved"
	case err == nil:
		return "save:nil-but-nothing-saved"
	case e.wcanceled != wc && errors.Is(err, ErrNotProposalProcessorProcessed):
		return "save:written-then-canceled"
	case e.wcanceled != wc:
		return "save:written-then-canceled:error"
	case errors.Is(err, ErrProcessorAlreadySaved):
		return "save:already-saved"
	case errors.Is(err, ErrNotProposalProcessorProcessed):
		return "save:not-processed"
	default:
		return "save:error"
	}
}

// ---- oracle on the save log

func (e *c11env) check() []c11vio {
	var vios []c11vio

	vio := func(sig map[string]any, format string, args ...any) {
		sig["flavour"] = e.flavour
		vios = append(vios, c11vio{sig, fmt.Sprintf(format, args...) + " | calls: " + strings.Join(e.calls, " ")})
	}

	for _, msg := range e.panics {
		vio(map[string]any{"kind": "panic-in-save"}, "Save panicked: %s", msg)
	}

	byHeight := map[base.Height]string{}
	top := base.NilHeight

	for _, s := range e.saved {
		f := e.facts[s.fact]

		switch {
		case s.avpProposal == nil || !s.avpProposal.Equal(f.hash):
			vio(map[string]any{"kind": "saved-for-other-proposal"}, "block of %s saved with an ACCEPT voteproof of another proposal", s.fact)
		case e.flavour != "stub" && (s.manifest == nil || !s.manifest.Equal(s.avpNewBlock)):
			vio(map[string]any{"kind": "saved-with-mismatching-manifest", "manifest_computed": s.manifest != nil},
				"block of %s (height %d) saved although the ACCEPT majority's new block %s is not a manifest computed for that proposal (computed: %v)", s.fact, s.height, s.avpNewBlock, s.manifest)
		case e.flavour != "stub" && !s.avpNewBlock.Equal(f.manifest):
			vio(map[string]any{"kind": "saved-with-mismatching-manifest"}, "block of %s saved for new block %s", s.fact, s.avpNewBlock)
		}

		if prev, ok := byHeight[s.height]; ok {
			vio(map[string]any{"kind": "two-blocks-at-one-height", "same_fact": prev == s.fact},
				"height %d saved twice: %s then %s", s.height, prev, s.fact)
		} else if s.height <= top {
			vio(map[string]any{"kind": "saved-below-saved-height"}, "%s (height %d) saved after height %d", s.fact, s.height, top)
		}

		byHeight[s.height] = s.fact

		if s.height > top {
			top = s.height
		}
	}

	return vios
}

func (e *c11env) savedString() string {
	l := make([]string, len(e.saved))
	for i := range e.saved {
		l[i] = e.saved[i].fact
	}

	return strings.Join(l, ",")
}

// key: everything that decides the future of the real objects and of the oracle
func (e *c11env) key() string {
	cur := "-"

	if e.direct != nil {
		p := e.direct

		return fmt.Sprintf("direct|processed=%v/saved=%v/canceled=%v/manifest=%v/writer=%v/processcalled=%v|saved=%s",
			p.isprocessed, p.issaved, p.isCanceled(), p.manifest != nil, p.writer != nil, e.directP > 0, e.savedString())
	}

	switch p := e.pps.p.(type) {
	case nil:
	case *DefaultProposalProcessor:
		cur = fmt.Sprintf("%s/processed=%v/saved=%v/canceled=%v/manifest=%v", e.byHash[p.proposal.Fact().Hash().String()].name,
			p.isprocessed, p.issaved, p.isCanceled(), p.manifest != nil)
	case *c11stub:
		cur = fmt.Sprintf("%s/processed=%v/failed=%v/saved=%v/canceled=%v", p.fact.name, p.processed, p.failed, p.saved, p.canceled)
	}

	return fmt.Sprintf("%s|cur=%s|previousSaved=%d|saved=%s", e.flavour, cur, e.pps.previousSaved, e.savedString())
}

// ---------------------------------------------------------------- reference model

type c11model struct {
	flavour string
	heights map[string]base.Height
	cur     string // fact of the kept processor ("" none)
	hasM    bool   // the kept processor computed its manifest
	dead    bool   // the kept processor was canceled (failed processing)
	prev    base.Height
	saved   []string
}

func (m *c11model) apply(ev c11event) {
	switch ev.kind {
	case "P":
		if m.cur == ev.fact {
			return // already there
		}

		m.cur, m.hasM, m.dead = ev.fact, true, false

		switch ev.answer[strings.LastIndex(ev.answer, ":")+1:] {
		case "err":
			m.hasM, m.dead = false, true
		case "ign":
			m.hasM = false
		}
	case "C":
		m.cur = ""
	case "S":
		h := m.heights[ev.fact]

		// NOTE a refused Save drops the kept processor, whatever the reason
		switch {
		case h <= m.prev: // already saved at or above
			m.cur = ""

			return
		case m.cur != ev.fact: // nothing processed for this proposal
			m.cur = ""

			return
		}

		m.prev = h
		m.cur = "" // whatever happens, the processor is done

		switch {
		case m.flavour == "real" && (m.dead || !m.hasM || !ev.match):
			return // the writer's Save path is not entered
		case c11WrittenThenCanceled(ev.answer): // the block is in the ledger although Save reports a cancellation
		case ev.answer != "":
			return
		}

		m.saved = append(m.saved, ev.fact)
	}
}

// ---------------------------------------------------------------- part Q

type c11event struct {
	kind   string // P | S | C
	fact   string
	match  bool
	answer string
}

func (ev c11event) id() string {
	var s string

	switch ev.kind {
	case "P":
		s = "P:" + ev.fact
	case "S":
		s = "S:" + ev.fact + "=X"
		if ev.match {
			s = "S:" + ev.fact + "=M"
		}
	default:
		s = "C"
	}

	if ev.answer != "" {
		s += "!" + ev.answer
	}

	return s
}

// c11Events: the event menu of a search. Searches: real, stub, direct as the
// flavours; realc = the real flavour with the cancellation menu (Process without
// faults; Save matching / mismatching / writer error / a cancellation landing before
// or after each writer step of the Save path by either route; Cancel), a search of
// its own so that the cancellations are not multiplied with the 8 process faults.
func c11Events(search string, nfacts int) []c11event {
	var evs []c11event

	flavour := search

	for _, f := range c11FactNames[:nfacts] {
		evs = append(evs, c11event{kind: "P", fact: f})

		switch flavour {
		case "realc":
		case "stub":
			evs = append(evs, c11event{kind: "P", fact: f, answer: "err"}, c11event{kind: "P", fact: f, answer: "ign"})
		default: // processing stops in the operation, at SetStates, at SetProcessResult or at Manifest: the writer exists, no manifest
			for _, stage := range []string{"op", "states", "result", "manifest"} {
				evs = append(evs, c11event{kind: "P", fact: f, answer: stage + ":err"}, c11event{kind: "P", fact: f, answer: stage + ":ign"})
			}
		}

		evs = append(evs,
			c11event{kind: "S", fact: f, match: true}, c11event{kind: "S", fact: f, match: false},
			c11event{kind: "S", fact: f, match: true, answer: "err"})

		switch flavour {
		case "stub": // canceled before / after the stub wrote
			evs = append(evs, c11event{kind: "S", fact: f, match: true, answer: "cancel"}, c11event{kind: "S", fact: f, match: true, answer: "wcancel"})
		case "real":
		default: // realc, direct: a cancellation lands before / after a writer step of the Save path, by either route
			for _, a := range c11CancelAnswers {
				evs = append(evs, c11event{kind: "S", fact: f, match: true, answer: a})
			}
		}
	}

	return append(evs, c11event{kind: "C"})
}

// c11qRun replays a history on fresh real objects; the oracle is evaluated after the last event.
func c11qRun(flavour string, nfacts int, path []c11event) (vios []c11vio, obs, key string) {
	if flavour == "direct" {
		return c11qRunDirect(path)
	}

	e := c11NewEnv(flavour, nfacts, true)
	m := &c11model{flavour: flavour, heights: map[string]base.Height{}, prev: base.NilHeight}

	for n, f := range e.facts {
		m.heights[n] = f.point.Height()
	}

	for _, ev := range path {
		e.answers = map[string]string{}

		switch ev.kind {
		case "P":
			switch k := strings.Index(ev.answer, ":"); {
			case ev.answer == "":
			case k < 0:
				e.answers["process"] = ev.answer
			default:
				e.answers[ev.answer[:k]] = ev.answer[k+1:]
			}

			obs = e.process(ev.fact)
		case "S":
			if ev.answer != "" {
				e.answers["save"] = ev.answer
			}

			obs = e.save(ev.fact, ev.match)
		case "C":
			obs = "cancel:ok"

			if err := e.pps.Cancel(); err != nil {
				obs = "cancel:error"
			}
		}

		m.apply(ev)
	}

	vios = e.check()

	if got, want := e.savedString(), strings.Join(m.saved, ","); got != want {
		vios = append(vios, c11vio{map[string]any{"kind": "model-mismatch", "flavour": flavour, "last": path[len(path)-1].kind},
			fmt.Sprintf("saved blocks %q, model %q | calls: %s", got, want, strings.Join(e.calls, " "))})
	}

	if obs == "save:nil-but-nothing-saved" {
		vios = append(vios, c11vio{map[string]any{"kind": "save-reported-but-nothing-saved", "flavour": flavour},
			"Save returned nil but the writer saved nothing | calls: " + strings.Join(e.calls, " ")})
	}

	// NOTE the model's state is part of the key: on the unchanged tree it is a function of the real objects' state (same
	// number of states), on a changed tree a state whose model differs is not merged with one reached by another history
	return vios, obs, e.key() + fmt.Sprintf("|model=%s/%v/%v/%d/%s", m.cur, m.cur != "" && m.hasM, m.cur != "" && m.dead, m.prev, strings.Join(m.saved, ","))
}

// c11qRunDirect: the same events on one DefaultProposalProcessor of F1a, without
// ProposalProcessors around it (nobody cancels it after a failed Process).
func c11qRunDirect(path []c11event) (vios []c11vio, obs, key string) {
	e := c11NewEnv("direct", 1, true)
	f := e.facts["F1a"]
	previous := base.NewDummyManifest(f.point.Height()-1, valuehash.NewSHA256([]byte("c11-prevblock")))
	p := c11NewDefaultProposalProcessor(f.pr, previous, e.args)
	e.direct = p

	for _, ev := range path {
		e.answers = map[string]string{}

		switch ev.kind {
		case "P":
			if k := strings.Index(ev.answer, ":"); k >= 0 {
				e.answers[ev.answer[:k]] = ev.answer[k+1:]
			}

			e.directP++

			switch m, err := p.Process(context.Background(), nil); {
			case err != nil:
				obs = "process:failed"
			case m == nil:
				obs = "process:no-manifest"
			default:
				obs = "process:ok"
			}
		case "S":
			if ev.answer != "" {
				e.answers["save"] = ev.answer
			}

			n, wc := len(e.saved), e.wcanceled

			var err error

			ctx, release := e.saveContext()
			e.held = p

			panicked, msg := vlib.Catch(func() { _, err = p.Save(ctx, e.avp("F1a", ev.match)) })

			release()

			if panicked {
				obs = "save:panic"
				e.panics = append(e.panics, msg)

				continue
			}

			switch {
			case err == nil && len(e.saved) == n+1:
				obs = "save:saved"
			case err == nil:
				obs = "save:nil-but-nothing-saved"
			case e.wcanceled != wc && errors.Is(err, context.Canceled):
				obs = "save:written-then-canceled"
			case len(e.saved) != n:
				obs = "save:error-but-saved"
			case errors.Is(err, ErrProcessorAlreadySaved):
				obs = "save:already-saved"
			case errors.Is(err, ErrNotProposalProcessorProcessed):
				obs = "save:not-processed"
			default:
				obs = "save:error"
			}
		case "C":
			obs = "cancel:ok"

			if err := p.Cancel(); err != nil {
				obs = "cancel:error"
			}
		}
	}

	vios = e.check()

	if obs == "save:nil-but-nothing-saved" || obs == "save:error-but-saved" {
		vios = append(vios, c11vio{map[string]any{"kind": "save-result-differs-from-writer", "flavour": "direct", "what": obs},
			"Save's result and the writer's Save call disagree | calls: " + strings.Join(e.calls, " ")})
	}

	return vios, obs, e.key()
}

func c11PathDevs(path []c11event) int {
	n := 0

	for _, ev := range path {
		if ev.answer != "" {
			n++
		}
	}

	return n
}

func c11PartQ(r *vlib.Run, search string) {
	nfacts := vlib.Pick(r, 3, 4)
	depth := vlib.Pick(r, 4, 6)

	flavour := search
	if search == "realc" {
		flavour = "real"
	}

	if flavour == "direct" {
		nfacts = 1
	}

	events := c11Events(search, nfacts)

	r.Set("q_depth", depth)

	if flavour != "direct" {
		r.Set("q_proposals", nfacts)
	}
	r.Set("q_events_"+search, len(events))

	type state struct{ path []c11event }

	seen := map[string]bool{}
	frontier := []state{{}}

	{
		_, _, k := c11qRun(flavour, nfacts, nil)
		seen[k+"|devs=0"] = true
		r.State(k + "|devs=0")
	}

	for level := 0; level < depth; level++ {
		var next []state

		for _, st := range frontier {
			if r.Expired() {
				r.Cap(fmt.Sprintf("deadline in Q search %s at level %d", search, level))

				return
			}

			for _, ev := range events {
				path := append(append([]c11event{}, st.path...), ev)
				if c11PathDevs(path) > 2 {
					continue
				}

				ids := make([]string, len(path))
				for i := range path {
					ids[i] = path[i].id()
				}

				id := "q/" + search + "/" + strings.Join(ids, "/")
				if !r.WantPrefix(id) {
					continue
				}

				vios, obs, key := c11qRun(flavour, nfacts, path)
				key += fmt.Sprintf("|devs=%d", c11PathDevs(path))

				account := true
				if _, rp := r.Replaying(); rp {
					account = r.Want(id)
				}

				if account {
					r.Transition()
					r.Trace()
					r.Eval()
					r.Outcome(flavour + ":" + obs)
					r.Max("q_max_depth", int64(len(path)))

					if obs != "save:not-processed" && obs != "process:already" {
						r.Nontrivial(id)
					}

					for _, v := range vios {
						r.Outcome("violation:" + fmt.Sprint(v.sig["kind"]))
						r.Violation(id, v.sig, v.detail, map[string]any{"flavour": search, "events": ids})
					}
				}

				if seen[key] {
					continue
				}

				seen[key] = true

				if r.State(key) && len(path) == 3 {
					r.Sample(map[string]any{"history": strings.Join(ids, "/"), "state": key, "last": obs})
				}

				next = append(next, state{path: path})
			}
		}

		frontier = next
	}
}

// ---------------------------------------------------------------- part S

type c11op struct {
	kind   string // P | S | C | K (cancel the context of the Sc saves) | KP (Cancel() of the processor held since the last Process returned)
	fact   string
	match  bool
	answer string // P: what the writer's Manifest (real) / the stub's Process answers: "" ok | err | ign
	ctx    bool   // S: Save is given the scenario's cancellable context ("Sc") instead of context.Background()
}

func (o c11op) id() string {
	switch {
	case o.kind == "K", o.kind == "KP":
		return o.kind
	case o.kind == "S" && o.ctx:
		return "Sc" + c11event{kind: o.kind, fact: o.fact, match: o.match, answer: o.answer}.id()[1:]
	}

	return c11event{kind: o.kind, fact: o.fact, match: o.match, answer: o.answer}.id()
}

type c11scfg struct {
	flavour string
	threads [][]c11op
	bound   int // preemption bound of this scenario
}

func (c c11scfg) id() string {
	ts := make([]string, len(c.threads))

	for i, t := range c.threads {
		ops := make([]string, len(t))
		for j := range t {
			ops[j] = t[j].id()
		}

		ts[i] = strings.Join(ops, ";")
	}

	return "s/" + c.flavour + "/" + strings.Join(ts, "||")
}

func (c c11scfg) hasCanceller() bool {
	for _, t := range c.threads {
		for _, o := range t {
			if o.kind == "K" || o.kind == "KP" {
				return true
			}
		}
	}

	return false
}

func (c c11scfg) kinds() string {
	var ks []string

	for _, t := range c.threads {
		s := ""
		for _, o := range t {
			s += o.kind

			if o.ctx {
				s += "c"
			}
		}

		ks = append(ks, s)
	}

	sort.Strings(ks)

	return strings.Join(ks, "|")
}

func c11sBuild(c c11scfg) vsched.Scenario {
	e := c11NewEnv(c.flavour, 3, false)
	e.opOf = map[int]string{}
	results := make([][]string, len(c.threads))

	if e.cancelPoints = c.hasCanceller(); e.cancelPoints {
		e.saveCtx, e.saveCancel = vctx.WithCancel(context.Background())
	}

	var roots []func()

	for ti := range c.threads {
		ti := ti
		ops := c.threads[ti]

		roots = append(roots, func() {
			for _, o := range ops {
				e.opOf[ti] = fmt.Sprintf("T%d.%s", ti, o.id())

				var res string

				switch o.kind {
				case "P":
					if o.answer != "" { // at most one faulty Process per scenario: the answer is consumed by its own Manifest / Process call
						e.answers[map[string]string{"real": "manifest", "stub": "process"}[c.flavour]] = o.answer
					}

					res = e.process(o.fact)

					if e.cancelPoints { // the caller keeps the processor, as a holder of Processor() does
						e.held, e.heldSet = e.pps.Processor(), true
					}
				case "S":
					ctx := context.Background()
					if o.ctx {
						ctx = e.saveCtx
					}

					res = e.saveConcurrent(ctx, o.fact, o.match)
				case "K":
					res = "cancel-ctx"

					e.saveCancel() // a scheduling point (vctx)
				case "KP":
					res = "cancel-held:none"

					vsched.Point("cancel-held", func() bool { return e.heldSet })

					if p := e.held; p != nil {
						res = "cancel-held"

						_ = p.Cancel()
					}
				case "C":
					res = "cancel:ok"

					if err := e.pps.Cancel(); err != nil {
						res = "cancel:error"
					}
				}

				results[ti] = append(results[ti], res)
			}
		})
	}

	fail := func(v c11vio) *vsched.Fail {
		v.sig["part"] = "S"
		v.sig["ops"] = c.kinds()

		return &vsched.Fail{Sig: v.sig, Detail: v.detail + " | " + c.id()}
	}

	return vsched.Scenario{
		Roots: roots,
		Outcome: func(*vsched.Exec) string {
			var rs []string
			for _, r := range results {
				rs = append(rs, strings.Join(r, ";"))
			}

			return "saved=[" + e.savedString() + "] " + strings.Join(rs, "||")
		},
		Check: func(x *vsched.Exec) *vsched.Fail {
			if x.Panic != nil {
				return fail(c11vio{map[string]any{"kind": "panic", "flavour": c.flavour}, fmt.Sprintf("panic: %v\n%s", x.Panic, x.PanicStack)})
			}

			if x.Deadlock {
				return fail(c11vio{map[string]any{"kind": "deadlock", "flavour": c.flavour}, "threads never return: " + strings.Join(x.Blocked, "; ") + " | calls: " + strings.Join(e.calls, " ")})
			}

			if vios := e.check(); len(vios) > 0 {
				return fail(vios[0])
			}

			// a Save that reported success is a block saved, and the other way round
			n := 0

			for _, rs := range results {
				for _, r := range rs {
					if r == "save:ok" {
						n++
					}
				}
			}

			// (a block written by a writer Save call that then returned context.Canceled is in the ledger, and Save reports the cancellation)
			if n+e.wcanceled != len(e.saved) {
				return fail(c11vio{map[string]any{"kind": "save-results-differ-from-saved-blocks", "flavour": c.flavour},
					fmt.Sprintf("%d Save calls returned nil, %d written and then canceled, %d blocks saved | calls: %s", n, e.wcanceled, len(e.saved), strings.Join(e.calls, " "))})
			}

			return nil
		},
	}
}

// saveConcurrent: Save's result only (the save log is shared by the threads).
func (e *c11env) saveConcurrent(ctx context.Context, name string, match bool) string {
	f := e.facts[name]

	_, err := e.pps.Save(ctx, f.hash, e.avp(name, match))

	switch {
	case err == nil:
		return "save:ok"
	case errors.Is(err, ErrProcessorAlreadySaved):
		return "save:already-saved"
	case errors.Is(err, ErrNotProposalProcessorProcessed):
		return "save:not-processed"
	default:
		return "save:error"
	}
}

func c11Scenarios(thorough bool) []c11scfg {
	P := func(f string) c11op { return c11op{kind: "P", fact: f} }
	S := func(f string) c11op { return c11op{kind: "S", fact: f, match: true} }
	X := func(f string) c11op { return c11op{kind: "S", fact: f, match: false} }
	C := c11op{kind: "C"}
	T := func(ops ...c11op) []c11op { return ops }
	Pign := func(f string) c11op { return c11op{kind: "P", fact: f, answer: "ign"} }
	Perr := func(f string) c11op { return c11op{kind: "P", fact: f, answer: "err"} }

	// small: <= 3 operations; large: 4 operations or 3 threads. The real processor spawns a
	// goroutine per Process and a context watcher per Process/Save, so its large scenarios
	// have 20-35 thousand executions already with one preemption.
	small := [][][]c11op{
		{T(P("F1a")), T(S("F1a"))},
		{T(P("F1a"), S("F1a")), T(S("F1a"))},
		{T(P("F1a"), S("F1a")), T(C)},
		{T(P("F1a"), X("F1a")), T(S("F1a"))},
		{T(P("F1a"), S("F1a")), T(P("F1b"))},
		{T(P("F1a"), S("F1a")), T(S("F1b"))},
		// processing stops without a manifest (ignorable: the processor is kept; plain: it is canceled), then Save arrives
		{T(Pign("F1a")), T(S("F1a"))},
		{T(Pign("F1a"), S("F1a")), T(X("F1a"))},
		{T(Perr("F1a")), T(S("F1a"))},
	}
	large := [][][]c11op{
		{T(P("F1a"), S("F1a")), T(P("F1b"), S("F1b"))},
		{T(P("F1a"), S("F1a")), T(P("F2a"), S("F2a"))},
		{T(P("F1a"), S("F1a")), T(P("F1a"), S("F1a"))},
		{T(P("F1a"), S("F1a")), T(P("F1b"), X("F1b"))},
		{T(P("F1a")), T(S("F1a")), T(C)},
		{T(P("F1a")), T(S("F1a")), T(S("F1a"))},
	}
	huge := [][][]c11op{
		{T(P("F1a"), S("F1a")), T(P("F1b")), T(S("F1b"))},
		{T(P("F2a"), S("F2a")), T(P("F1a")), T(S("F1a"))},
		{T(P("F1a"), S("F1a")), T(P("F1b"), S("F1b")), T(C)},
		{T(P("F1a"), S("F1a")), T(P("F1b"), S("F1b")), T(P("F2a"), S("F2a"))},
		{T(P("F1a"), S("F1a"), P("F1b"), S("F1b")), T(S("F1a"), S("F1b"))},
		{T(P("F1a"), C, P("F1a"), S("F1a")), T(S("F1a"))},
	}

	// a cancellation in flight: the canceller thread cancels the context of the first Save (K) or the
	// processor held since Process returned (KP) at any point of T1's program; the writer steps of the
	// Save path are scheduling points and read their context. Then the continuations: same height next
	// round, lower height, next height.
	Sc := func(f string) c11op { return c11op{kind: "S", fact: f, match: true, ctx: true} }
	K, KP := c11op{kind: "K"}, c11op{kind: "KP"}

	// cancelContRefused: the continuations the unchanged code refuses (same height next round, lower height); the
	// next-height continuation runs a second complete Save (180-360 thousand executions with the real processor at bound 1)
	var cancelSmall, cancelCont, cancelContRefused, cancel3 [][][]c11op

	for _, k := range []c11op{K, KP} {
		cancelSmall = append(cancelSmall, [][]c11op{T(P("F1a"), Sc("F1a")), T(k)})
		cancelContRefused = append(cancelContRefused,
			[][]c11op{T(P("F1a"), Sc("F1a"), P("F1b"), S("F1b")), T(k)},
			[][]c11op{T(P("F2a"), Sc("F2a"), P("F1a"), S("F1a")), T(k)},
		)
		cancelCont = append(cancelCont,
			[][]c11op{T(P("F1a"), Sc("F1a"), P("F1b"), S("F1b")), T(k)},
			[][]c11op{T(P("F2a"), Sc("F2a"), P("F1a"), S("F1a")), T(k)},
			[][]c11op{T(P("F1a"), Sc("F1a"), P("F2a"), S("F2a")), T(k)},
		)
		cancel3 = append(cancel3,
			[][]c11op{T(P("F1a"), Sc("F1a")), T(k), T(P("F1b"), S("F1b"))},
			[][]c11op{T(P("F1a"), Sc("F1a"), P("F1b"), Sc("F1b")), T(k), T(C)},
		)
	}

	var cfgs []c11scfg

	add := func(fl string, shapes [][][]c11op, bound int) {
		for _, sh := range shapes {
			cfgs = append(cfgs, c11scfg{flavour: fl, threads: sh, bound: bound})
		}
	}

	switch {
	case thorough:
		add("real", small, 2)
		add("real", large, 1)
		add("stub", small, 2)
		add("stub", large, 2)
		add("stub", huge, 2)
		add("real", cancelSmall, 2)
		add("real", cancelContRefused, 1)
		add("stub", cancelSmall, 3)
		add("stub", cancelCont, 2)
		add("stub", cancel3, 2)
	default:
		add("real", small, 1)
		add("stub", small, 2)
		add("stub", large, 1)
		add("stub", huge[:2], 1)
		add("real", cancelSmall, 1) // the real-flavour continuations (40-80 thousand executions each): thorough tier; quick: part Q and the stub flavour
		add("stub", cancelSmall, 2)
		add("stub", cancelCont, 2)
		add("stub", cancel3, 1)
	}

	return cfgs
}

func c11PartS(r *vlib.Run) {
	cfgs := c11Scenarios(r.Thorough())

	var boundtxt []string
	for _, c := range cfgs {
		boundtxt = append(boundtxt, fmt.Sprintf("%s: %d", c.id(), c.bound))
	}

	r.Set("s_preemption_bound_per_scenario", boundtxt)

	r.Set("s_scenarios_enumerated", len(cfgs))

	sh, nsh := r.Shard()

	var nwhole int

	for _, c := range cfgs {
		c := c
		id := c.id()
		build := func() vsched.Scenario { return c11sBuild(c) }

		// The scenarios without a canceller are split over the shards by first-level subtree (of which subtree 1 is by
		// far the largest for every scenario, so shard 1 carries most of them); the scenarios with a canceller are
		// explored whole by one shard each, dealt round robin to the shards other than 1.
		whole, owner := c.hasCanceller(), 0

		if whole {
			switch {
			case nsh > 2:
				if owner = nwhole % (nsh - 1); owner >= 1 {
					owner++
				}
			case nsh == 2:
				owner = nwhole % 2
			}

			nwhole++
		}

		if rid, rp := r.Replaying(); rp {
			k := strings.LastIndex(rid, "#")
			if k < 0 || rid[:k] != id {
				continue
			}

			sc := build()
			x := vsched.Run(vsched.Options{Prefix: vsched.ParseChoices(rid[k+1:])}, sc.Roots...)
			r.Trace()

			if f := sc.Check(x); f != nil {
				r.Violation(rid, f.Sig, f.Detail, nil)
			}

			continue
		}

		if r.Expired() || (whole && owner != sh) {
			continue
		}

		// every shard explores every scenario, each a disjoint set of first-level subtrees (whole: one shard, everything)
		res := vsched.Explore(vsched.Config{Name: id, Bound: c.bound, Build: build, Expired: r.Expired, MaxFound: 3, Horizon: 5000,
			Mine: func(l int) bool { return whole || nsh <= 1 || l%nsh == sh }, Secondary: sh != 0 && !whole})
		if res.EngineError != "" {
			panic("engine error in " + id + ": " + res.EngineError)
		}

		r.TraceN(res.Executions)
		r.TransitionN(res.Points)
		r.EvalN(res.Executions)
		r.Add("s_executions", res.Executions)
		r.Add("s_executions "+id, res.Executions)

		if sh == 0 || whole {
			r.Add("s_scenarios", 1)
		}

		if res.Capped != "" {
			r.Cap(res.Capped + " in " + id)
		} else {
			r.Min("s_preemption_bound_completed_min", int64(res.BoundCompleted))

			if res.BoundCompleted != c.bound {
				r.Cap(fmt.Sprintf("bound %d of %d in %s", res.BoundCompleted, c.bound, id))
			}
		}

		r.Max("s_max_points_per_execution", int64(res.MaxPoints))

		if len(res.Outcomes) > 1 {
			r.Nontrivial(id)
		}

		for o := range res.Outcomes {
			r.State(id + "=>" + o)
			r.Outcome("S:" + o)
		}

		for _, f := range res.Found {
			r.Violation(id+"#"+vsched.ChoicesString(f.Choices), f.Fail.Sig, f.Fail.Detail+fmt.Sprintf(" (preemptions=%d)", f.Preempt), nil)
		}

		if sh == 0 || whole {
			r.Sample(map[string]any{"scenario": id, "executions_of_shard_0": res.Executions, "distinct_outcomes_of_shard_0": len(res.Outcomes)})
		}
	}
}

func TestVerifC11(t *testing.T) {
	r := vlib.Start("C11")
	defer r.Finish()

	r.Rule("part Q: BFS with state dedup over histories of Process+await / Save(new block = computed manifest | another hash) / Cancel for proposals F1a (33,0), F1b (33,1), F2a (34,0) (thorough: + F0a (32,0)), " +
		"writer / processor answers deviating from ok at <= 2 events per path (real flavour: processing stops with a plain or an ignorable (ErrIgnoreErrorProposalProcessor) error in the operation, at SetStates, at SetProcessResult or at Manifest, i.e. after the writer exists and before a manifest does; writer Save error; stub flavour: process error, ignorable process error, save error, save canceled), replayed on a fresh real ProposalProcessors; " +
		"flavour direct: the same events on one DefaultProposalProcessor without ProposalProcessors; " +
		"search realc (real flavour) and flavour direct: Save during which a cancellation lands before or after a writer step of the Save path (SetINITVoteproof, SetACCEPTVoteproof, Save), through the context given to Save (cctx) or through Cancel() of the processor taken from Processor() before Save (cproc); the step then waits for its own context and returns its error, so a cancellation after Save's write leaves the block in the ledger and Save reports the cancellation; stub flavour: the stub writes and returns context.Canceled; every event of the menu follows (same height next round, lower height, next height); " +
		"state key = kept processor (proposal and its flags), previousSaved, the save log, deviations used: these are all the mutable fields of the objects and of the oracle; " +
		"part S: every interleaving within the preemption bound of the listed thread programs; K = a thread canceling the context of the Sc saves, KP = a thread calling Cancel() of the processor its holder took after Process returned; in these scenarios the writer steps of the Save path (the stub's Save: before and after its write) are scheduling points and read their context; non-trivial = an event other than a refused 'nothing processed' / 'already processing' (Q), a scenario with more than one outcome (S)")
	r.Assume("part Q: every proposal carries one operation producing one state (so SetStates, SetProcessResult and Manifest are all reached); part S: proposals carry no operations (util/worker.go is not instrumented); the BlockWriter is a recording stub whose Save call is 'a block is saved'")
	r.Assume("Save is called as the state handlers call it: the fact hash argument is the ACCEPT majority's proposal, the voteproof's point is the proposal's point")

	rid, rp := r.Replaying()

	var item int

	if !rp || strings.HasPrefix(rid, "s/") {
		c11PartS(r)
	}

	for _, fl := range []string{"real", "stub", "direct", "realc"} {
		item++

		if rp && !strings.HasPrefix(rid, "q/"+fl+"/") {
			continue
		}

		if !rp && !r.Mine(item) {
			continue
		}

		c11PartQ(r, fl)
	}
}
