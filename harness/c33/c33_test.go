//go:build verif

package util

import (
	"context"
	"fmt"
	"sort"
	"strings"
	"sync"
	"testing"
	"time"

	"github.com/pkg/errors"
	"github.com/spikeekips/mitum/zzverif/vlib"
	"github.com/spikeekips/mitum/zzverif/vsched"
)

// C33: job workers run every accepted job exactly once, Wait waits for all of
// them (when it reports success), the first job error cancels the rest and is
// the error returned; BatchWork visits every index once, batch by batch, each
// batch's preparation before its jobs.
//
// Engine S: util/worker.go and x/sync/semaphore (from its real source) are built
// on the vsync/vctx/channel shims; all interleavings within the preemption
// bound of the submitting thread, the job goroutines the worker spawns and an
// optional canceller thread are executed.

type c33cfg struct {
	kind     string // "base" | "errcb" | "batch"
	sem      int64
	jobs     int
	fail     int    // failing job index (-1 none)
	fail2    int    // second failing job (-1 none)
	cancel   string // "" | "close" | "parent"
	size     int64  // batch: size
	limit    int64  // batch: limit
	failPref int    // batch: failing pref (by batch number, -1 none)
	errKind  string // "" plain error | "canceled" | "deadline": the failing job's own error wraps a context error
}

func (c c33cfg) id() string {
	if c.kind == "batch" {
		return fmt.Sprintf("batch|size=%d|limit=%d|fail=%d|failpref=%d", c.size, c.limit, c.fail, c.failPref)
	}
	if c.errKind != "" {
		return fmt.Sprintf("%s|sem=%d|jobs=%d|fail=%d|fail2=%d|cancel=%s|err=%s", c.kind, c.sem, c.jobs, c.fail, c.fail2, c.cancel, c.errKind)
	}
	return fmt.Sprintf("%s|sem=%d|jobs=%d|fail=%d|fail2=%d|cancel=%s", c.kind, c.sem, c.jobs, c.fail, c.fail2, c.cancel)
}

type c33obs struct {
	clock     int
	accepted  map[int]bool
	newJobErr map[int]error
	starts    map[int][]int
	ends      map[int][]int
	raised    map[int]int // job -> time its callback returned an error
	waitRet   int
	waitErr   error
	waited    bool
	errcb     []string
	prefs     map[int]int // batch last-index -> time pref was called
	prefCalls int
	batchErr  error
	cancelAt  int
	ctxs      map[int]context.Context // the context each job was started with
	mu        *sync.Mutex             // only in the free-running -race pass (under vsched one thread runs at a time)
}

func (o *c33obs) tick() int { o.clock++; return o.clock }

func (o *c33obs) lock() {
	if o.mu != nil {
		o.mu.Lock()
	}
}

func (o *c33obs) unlock() {
	if o.mu != nil {
		o.mu.Unlock()
	}
}

func c33build(c c33cfg) (vsched.Scenario, *c33obs) { return c33buildMode(c, false) }

func c33buildMode(c c33cfg, native bool) (vsched.Scenario, *c33obs) {
	o := &c33obs{accepted: map[int]bool{}, newJobErr: map[int]error{}, starts: map[int][]int{}, ends: map[int][]int{},
		raised: map[int]int{}, prefs: map[int]int{}, ctxs: map[int]context.Context{}}
	if native {
		o.mu = &sync.Mutex{}
	}
	jobErr := func(i int) error {
		// a job's own error may itself be (or wrap) a context error that does not come from the worker context,
		// e.g. its own timeout: it is still the job's error and must cancel the rest and be returned
		switch c.errKind {
		case "canceled":
			return errors.Wrapf(context.Canceled, "job-%d-failed", i)
		case "deadline":
			return errors.Wrapf(context.DeadlineExceeded, "job-%d-failed", i)
		}
		return errors.Errorf("job-%d-failed", i)
	}
	body := func(i int) error {
		o.lock()
		o.starts[i] = append(o.starts[i], o.tick())
		o.unlock()
		vsched.Point("job-body", nil)
		o.lock()
		defer o.unlock()
		o.ends[i] = append(o.ends[i], o.tick())
		if i == c.fail || i == c.fail2 {
			o.raised[i] = o.tick()
			return jobErr(i)
		}
		return nil
	}
	var roots []func()
	if c.kind == "batch" {
		roots = append(roots, func() {
			o.batchErr = BatchWork(context.Background(), c.size, c.limit,
				func(_ context.Context, last uint64) error {
					o.lock()
					defer o.unlock()
					o.prefs[int(last)] = o.tick()
					o.prefCalls++
					if c.failPref >= 0 && o.prefCalls-1 == c.failPref {
						return errors.Errorf("pref-failed")
					}
					return nil
				},
				func(jctx context.Context, i, last uint64) error {
					o.lock()
					o.ctxs[int(i)] = jctx
					if _, ok := o.prefs[int(last)]; !ok {
						o.errcb = append(o.errcb, fmt.Sprintf("job %d ran before pref(%d)", i, last))
					}
					o.unlock()
					return body(int(i))
				})
			o.lock()
			o.waited = true
			o.waitRet = o.tick()
			o.unlock()
		})
		return c33scenario(c, o, roots), o
	}
	pctx, pcancel := context.WithCancel(context.Background())
	var wk *BaseJobWorker
	var err error
	if c.kind == "errcb" {
		wk, err = NewErrCallbackJobWorker(pctx, c.sem, func(e error) { o.lock(); o.errcb = append(o.errcb, e.Error()); o.unlock() })
	} else {
		wk, err = NewBaseJobWorker(pctx, c.sem)
	}
	if err != nil {
		panic(err)
	}
	roots = append(roots, func() {
		for i := 0; i < c.jobs; i++ {
			i := i
			e := wk.NewJob(func(jctx context.Context, _ uint64) error {
				o.lock()
				o.ctxs[i] = jctx
				o.unlock()
				return body(i)
			})
			o.lock()
			if e == nil {
				o.accepted[i] = true
			} else {
				o.newJobErr[i] = e
			}
			o.unlock()
		}
		wk.Done()
		werr := wk.Wait()
		o.lock()
		o.waitErr = werr
		o.waited = true
		o.waitRet = o.tick()
		o.unlock()
	})
	switch c.cancel {
	case "close":
		roots = append(roots, func() {
			vsched.Point("canceller", nil)
			o.lock()
			o.cancelAt = o.tick()
			o.unlock()
			wk.Close()
		})
	case "parent":
		roots = append(roots, func() {
			vsched.Point("canceller", nil)
			o.lock()
			o.cancelAt = o.tick()
			o.unlock()
			pcancel()
		})
	}
	_ = pcancel
	return c33scenario(c, o, roots), o
}

func c33scenario(c c33cfg, o *c33obs, roots []func()) vsched.Scenario {
	fail := func(kind, detail string) *vsched.Fail {
		return &vsched.Fail{Sig: map[string]any{"kind": kind, "worker": c.kind, "cancel": c.cancel != ""}, Detail: detail + " | " + c.id() + " | " + c33dump(o)}
	}
	return vsched.Scenario{
		Roots: roots,
		Outcome: func(*vsched.Exec) string {
			acc := 0
			for range o.accepted {
				acc++
			}
			e := "nil"
			if o.waitErr != nil {
				e = o.waitErr.Error()
			}
			if c.kind == "batch" {
				e = "nil"
				if o.batchErr != nil {
					e = o.batchErr.Error()
				}
			}
			return fmt.Sprintf("accepted=%d started=%d err=%s", acc, len(o.starts), strings.SplitN(e, "\n", 2)[0])
		},
		Check: func(x *vsched.Exec) *vsched.Fail {
			if x.Panic != nil {
				return fail("panic", fmt.Sprintf("panic: %v\n%s", x.Panic, x.PanicStack))
			}
			if x.Deadlock || !o.waited {
				return fail("deadlock", "Wait/BatchWork never returned: "+strings.Join(x.Blocked, "; "))
			}
			if c.kind == "batch" {
				return c33checkBatch(c, o, fail)
			}
			// every accepted job ran exactly once (the execution ran to quiescence), nothing else ran
			for i := 0; i < c.jobs; i++ {
				n := len(o.starts[i])
				switch {
				case o.accepted[i] && (n != 1 || len(o.ends[i]) != 1):
					return fail("accepted-job-not-run-once", fmt.Sprintf("accepted job %d started %d times, ended %d times", i, n, len(o.ends[i])))
				case !o.accepted[i] && n != 0:
					return fail("rejected-job-ran", fmt.Sprintf("job %d was rejected by NewJob (%v) but ran", i, o.newJobErr[i]))
				}
			}
			if o.waitErr == nil {
				// success: all jobs were accepted and had ended when Wait returned; nobody failed
				for i := 0; i < c.jobs; i++ {
					if !o.accepted[i] {
						return fail("wait-nil-but-job-rejected", fmt.Sprintf("Wait returned nil but job %d was not accepted", i))
					}
					if o.ends[i][0] > o.waitRet {
						return fail("wait-returned-before-job-end", fmt.Sprintf("Wait returned nil at %d but job %d ended at %d", o.waitRet, i, o.ends[i][0]))
					}
				}
				if c.kind == "base" && len(o.raised) > 0 {
					return fail("job-error-lost", "Wait returned nil although a job failed")
				}
				if c.cancel != "" && o.cancelAt != 0 && o.cancelAt < o.waitRet && c.kind == "base" {
					// a cancel that landed before Wait returned may legitimately be overtaken by completion; nothing to require
					_ = 0
				}
				return nil
			}
			// error: must be the (first) job error if one was raised and nobody cancelled from outside
			msg := o.waitErr.Error()
			if c.kind == "errcb" {
				if c.cancel == "" {
					return fail("errcb-wait-error", "error-callback worker: Wait returned "+msg+" without any outside cancel")
				}
				return nil
			}
			var raisedMsgs []string
			for i := range o.raised {
				raisedMsgs = append(raisedMsgs, fmt.Sprintf("job-%d-failed", i))
			}
			sort.Strings(raisedMsgs)
			isJobErr := false
			for _, m := range raisedMsgs {
				if strings.HasPrefix(msg, m) {
					isJobErr = true
				}
			}
			switch {
			case len(raisedMsgs) == 0 && c.cancel == "":
				return fail("wait-error-without-cause", "Wait returned "+msg+" but no job failed and nobody cancelled")
			case len(raisedMsgs) > 0 && c.cancel == "" && !isJobErr:
				return fail("wrong-error", "Wait returned "+msg+", raised job errors were "+strings.Join(raisedMsgs, ","))
			case len(raisedMsgs) == 1 && c.cancel == "" && !strings.HasPrefix(msg, raisedMsgs[0]):
				return fail("wrong-error", "Wait returned "+msg+", the only job error was "+raisedMsgs[0])
			}
			if f := c33checkCancelled(o, isJobErr && c.cancel == "", fail); f != nil {
				return f
			}
			if c.sem == 1 && len(o.raised) > 1 {
				return fail("second-failing-job-ran-after-first-error", "with one worker slot a second failing job ran after the first error had cancelled the worker")
			}
			return nil
		},
	}
}

func c33checkBatch(c c33cfg, o *c33obs, fail func(kind, detail string) *vsched.Fail) *vsched.Fail {
	if len(o.errcb) > 0 {
		return fail("job-before-pref", strings.Join(o.errcb, "; "))
	}
	for i, s := range o.starts {
		if len(s) > 1 {
			return fail("index-visited-twice", fmt.Sprintf("index %d visited %d times", i, len(s)))
		}
	}
	expectErr := c.fail >= 0 || c.failPref >= 0
	if o.batchErr == nil {
		if expectErr {
			// a failing job may not have been reached only if an earlier pref failed; with err==nil everything ran
			return fail("error-lost", "BatchWork returned nil although a job or pref was set to fail and was reached")
		}
		for i := 0; i < int(c.size); i++ {
			if len(o.starts[i]) != 1 || len(o.ends[i]) != 1 {
				return fail("index-not-visited", fmt.Sprintf("BatchWork returned nil but index %d was visited %d times", i, len(o.starts[i])))
			}
		}
		// batch order: no job of batch k+1 started before every job of batch k ended
		lim := int(c.limit)
		if int(c.size) > lim {
			for i := 0; i < int(c.size); i++ {
				for j := 0; j < int(c.size); j++ {
					if j/lim > i/lim && o.starts[j][0] < o.ends[i][0] {
						return fail("batch-overlap", fmt.Sprintf("index %d (batch %d) started at %d before index %d (batch %d) ended at %d", j, j/lim, o.starts[j][0], i, i/lim, o.ends[i][0]))
					}
				}
			}
		}
		return nil
	}
	if !expectErr {
		return fail("spurious-error", "BatchWork returned "+o.batchErr.Error()+" although nothing failed")
	}
	return c33checkCancelled(o, strings.Contains(o.batchErr.Error(), "job-"), fail)
}

// c33checkCancelled: the first job error cancels the remaining work - when the worker reports a job's error, the
// context every job was started with is cancelled (a job that is still running, or that waits on ctx.Done(), is told
// to stop). Judged at quiescence on the contexts the jobs really received.
func c33checkCancelled(o *c33obs, jobErrorReported bool, fail func(kind, detail string) *vsched.Fail) *vsched.Fail {
	if !jobErrorReported {
		return nil
	}
	for i, jctx := range o.ctxs {
		if jctx.Err() == nil {
			return fail("job-context-not-cancelled-by-first-error", fmt.Sprintf("a job error was reported but the context job %d was started with is still alive: running jobs are not told to stop", i))
		}
	}
	return nil
}

func c33dump(o *c33obs) string {
	return fmt.Sprintf("accepted=%v newJobErr=%v starts=%v ends=%v raised=%v waitErr=%v waitRet=%d cancelAt=%d prefs=%v", o.accepted, o.newJobErr, o.starts, o.ends, o.raised, o.waitErr, o.waitRet, o.cancelAt, o.prefs)
}

func TestVerifC33(t *testing.T) {
	r := vlib.Start("C33")
	defer r.Finish()
	r.Rule("scenario = worker kind x semaphore size x job count x failing job(s) x canceller, and BatchWork size x limit x failing index x failing pref; every interleaving within the preemption bound of submitter, job goroutines and canceller; non-trivial = scenario with more than one observable outcome; states = distinct (scenario, outcome)")
	r.Assume("each job body is: start mark, one scheduling point, end mark")
	bound := vlib.Pick(r, 1, 2)
	r.Set("preemption_bound", bound)
	var cfgs []c33cfg
	maxJobs := vlib.Pick(r, 3, 3)
	for _, kind := range []string{"base", "errcb"} {
		for sem := int64(1); sem <= 3; sem++ {
			for jobs := 0; jobs <= maxJobs; jobs++ {
				for fail := -1; fail < jobs; fail++ {
					for _, cancel := range []string{"", "close", "parent"} {
						cfgs = append(cfgs, c33cfg{kind: kind, sem: sem, jobs: jobs, fail: fail, fail2: -1, cancel: cancel})
					}
					for fail2 := fail + 1; fail >= 0 && fail2 < jobs; fail2++ {
						cfgs = append(cfgs, c33cfg{kind: kind, sem: sem, jobs: jobs, fail: fail, fail2: fail2})
					}
					if fail >= 0 {
						for _, ek := range []string{"canceled", "deadline"} {
							cfgs = append(cfgs, c33cfg{kind: kind, sem: sem, jobs: jobs, fail: fail, fail2: -1, errKind: ek})
						}
					}
				}
			}
		}
	}
	maxSize := vlib.Pick(r, 4, 6)
	for size := int64(1); size <= int64(maxSize); size++ {
		for limit := int64(1); limit <= size+1; limit++ {
			for fail := -1; fail < int(size); fail++ {
				cfgs = append(cfgs, c33cfg{kind: "batch", size: size, limit: limit, fail: fail, fail2: -1, failPref: -1})
			}
			nb := int((size + limit - 1) / limit)
			for fp := 0; fp < nb; fp++ {
				cfgs = append(cfgs, c33cfg{kind: "batch", size: size, limit: limit, fail: -1, fail2: -1, failPref: fp})
			}
		}
	}
	r.Set("scenarios_enumerated", len(cfgs))
	// Iterative bounding: every scenario is first explored completely at bound 1,
	// and only then at the tier's bound, so that a deadline in the deeper pass
	// leaves an exact statement of what is covered at each bound.
	passes := []int{bound}
	if _, rp := r.Replaying(); !rp && bound > 1 {
		passes = []int{1, bound}
	}
	for _, pass := range passes {
		for i, c := range cfgs {
			if !r.Mine(i) || r.Expired() {
				continue
			}
			c := c
			id := c.id()
			build := func() vsched.Scenario { s, _ := c33build(c); return s }
			if rid, rp := r.Replaying(); rp {
				k := strings.LastIndex(rid, "#")
				if k < 0 || rid[:k] != id {
					continue
				}
				sc := build()
				x := vsched.Run(vsched.Options{Prefix: vsched.ParseChoices(rid[k+1:])}, sc.Roots...)
				r.Trace()
				if f := sc.Check(x); f != nil {
					r.Violation(rid, f.Sig, f.Detail, nil)
				}
				continue
			}
			b := pass
			if c.errKind != "" && b > 1 {
				continue // the error-kind variants differ from their plain twins only in the error value; they stay at bound 1 (first pass)
			}
			res := vsched.Explore(vsched.Config{Name: id, Bound: b, Build: build, Expired: r.Expired, MaxFound: 2, Horizon: 5000})
			if res.EngineError != "" {
				panic("engine error in " + id + ": " + res.EngineError)
			}
			r.TraceN(res.Executions)
			r.TransitionN(res.Points)
			r.EvalN(res.Executions)
			if pass == passes[0] {
				r.Add("scenarios", 1)
			}
			if res.Capped != "" {
				r.Cap(res.Capped)
			} else {
				r.Add(fmt.Sprintf("scenarios_completed_at_bound_%d", b), 1)
			}
			r.Max("max_points_per_execution", int64(res.MaxPoints))
			if len(res.Outcomes) > 1 {
				r.Nontrivial(id)
			}
			for o := range res.Outcomes {
				r.State(id + "=>" + o)
				r.Outcome(o)
			}
			for _, f := range res.Found {
				r.Violation(id+"#"+vsched.ChoicesString(f.Choices), f.Fail.Sig, f.Fail.Detail+fmt.Sprintf(" (preemptions=%d)", f.Preempt), nil)
			}
			r.Sample(map[string]any{"scenario": id, "bound": b, "executions": res.Executions, "distinct_outcomes": len(res.Outcomes)})
		}
	}
}

// TestVerifC33Race is the free-running pass of the same scenario bodies under
// `go test -race` (thorough tier only): it checks the assumption that
// synchronisation operations are the only interaction points of worker.go and
// the semaphore. It never decides the property.
func TestVerifC33Race(t *testing.T) {
	r := vlib.Start("C33")
	defer r.Finish()
	n := 0
	for _, kind := range []string{"base", "errcb"} {
		for sem := int64(1); sem <= 3; sem++ {
			for _, cancel := range []string{"", "close", "parent"} {
				for fail := -1; fail < 3; fail++ {
					c := c33cfg{kind: kind, sem: sem, jobs: 3, fail: fail, fail2: -1, cancel: cancel}
					for rep := 0; rep < 30; rep++ {
						sc, _ := c33buildMode(c, true)
						if !vsched.RunNative(20*time.Second, sc.Roots...) {
							t.Fatalf("free-running scenario %s did not finish", c.id())
						}
						n++
					}
				}
			}
		}
	}
	for size := int64(1); size <= 6; size++ {
		for limit := int64(1); limit <= size+1; limit++ {
			for rep := 0; rep < 20; rep++ {
				sc, _ := c33buildMode(c33cfg{kind: "batch", size: size, limit: limit, fail: -1, fail2: -1, failPref: -1}, true)
				vsched.RunNative(20*time.Second, sc.Roots...)
				n++
			}
		}
	}
	r.Add("race_pass_free_running_executions", int64(n))
}
