//go:build verif

package isaacblock

import (
	"context"
	"fmt"
	"strings"
	"testing"
	"time"

	"github.com/spikeekips/mitum/base"
	"github.com/spikeekips/mitum/isaac"
	"github.com/spikeekips/mitum/util"
	"github.com/spikeekips/mitum/util/fixedtree"
	"github.com/spikeekips/mitum/util/valuehash"
	"github.com/spikeekips/mitum/zzverif/vlib"
)

// C13: a suffrage proof is accepted only if its suffrage state is committed in
// the states tree of the block it carries and, except at genesis, directly
// follows the previous suffrage state.
//
// accepted    :=  SuffrageProof.IsValid(networkID) == nil  &&  SuffrageProof.Prove(previous) == nil
// must accept :=  structural && chained && the proof is a genuine path for key = state hash && its root == Manifest().StatesTree()
// must reject :=  !structural || !chained || root(proof) != Manifest().StatesTree() (or that is nil)
//                 || the state is not a member of the tree the carried manifest commits to (ground truth of the fixture)
//                 || the proof has no node with the state's key
//   structural: the state is a suffrage-nodes state of the carried manifest's height
//   chained   : genesis: previous == nil; otherwise state.Previous() == previous.Hash(), the state's block
//               height is above previous' and its suffrage height is previous' + 1.
// (when the state really is a member of the committed tree and the path leads to the manifest's root, but the state's
// node is only an off-path node of another member's path, the statement allows either answer: counted, no verdict)
// Every component is individually well-formed (real signed BlockMap over a real isaac.Manifest, real BaseState,
// real fixedtree proofs); forgeries only recombine / re-root them.

var (
	c13NetworkID = base.NetworkID([]byte("c13 network id"))
	c13Time      = time.Date(2022, 7, 1, 0, 0, 0, 0, time.UTC)
)

func c13h(parts ...any) util.Hash {
	return valuehash.NewSHA256([]byte("c13|" + fmt.Sprint(parts...)))
}

type c13chain struct {
	locals []base.LocalNode
	st     [4]base.State // the real chain: block height h, suffrage height h, previous = st[h-1]
	alt    [4]base.State // same height, same previous, same suffrage height, other members: a different valid successor
	gap    [4]base.State // h>=2: previous = st[h-2], suffrage height h   (suffrage height jumps by 2)
	skip   [4]base.State // h>=2: previous = st[h-2], suffrage height h-1 (directly follows st[h-2]; block height skips one)
}

func c13sufstate(h int, sufheight int, members []base.LocalNode, previous util.Hash, tag string) base.State {
	ns := make([]base.SuffrageNodeStateValue, len(members))
	for i := range members {
		ns[i] = isaac.NewSuffrageNodeStateValue(members[i], base.Height(int64(h)))
	}
	return base.NewBaseState(
		base.Height(int64(h)),
		isaac.SuffrageStateKey,
		isaac.NewSuffrageNodesStateValue(base.Height(int64(sufheight)), ns),
		previous,
		[]util.Hash{c13h("op", tag, h)},
	)
}

func c13dummy(h int, tag string) base.State {
	return base.NewBaseState(
		base.Height(int64(h)),
		"c13-"+tag,
		base.NewDummyStateValue("c13-"+tag),
		c13h("prev", tag, h),
		[]util.Hash{c13h("op", tag, h)},
	)
}

func c13newchain(t *testing.T) *c13chain {
	c := &c13chain{}
	for i := 0; i < 4; i++ {
		priv, err := base.NewMPrivatekeyFromSeed(fmt.Sprintf("c13 fixed seed for the node %02d ................", i))
		if err != nil {
			t.Fatal(err)
		}
		c.locals = append(c.locals, isaac.NewLocalNode(priv, base.NewStringAddress(fmt.Sprintf("c13no%02d", i))))
	}
	for h := 0; h < 4; h++ {
		var prev util.Hash
		if h > 0 {
			prev = c.st[h-1].Hash()
		}
		c.st[h] = c13sufstate(h, h, c.locals[:h+1], prev, "st")
		c.alt[h] = c13sufstate(h, h, c.locals[3-h:], prev, "alt")
		if h == 3 {
			c.alt[h] = c13sufstate(h, h, c.locals[1:], prev, "alt")
		}
		if h >= 2 {
			c.gap[h] = c13sufstate(h, h, c.locals[:h+1], c.st[h-2].Hash(), "gap")
			c.skip[h] = c13sufstate(h, h-1, c.locals[:h], c.st[h-2].Hash(), "skip")
		}
	}
	return c
}

func c13tree(t *testing.T, members []base.State) fixedtree.Tree {
	w, err := fixedtree.NewWriter(base.StateFixedtreeHint, uint64(len(members)))
	if err != nil {
		t.Fatal(err)
	}
	for i := range members {
		if err := w.Add(uint64(i), fixedtree.NewBaseNode(members[i].Hash().String())); err != nil {
			t.Fatal(err)
		}
	}
	tr, err := w.Tree()
	if err != nil {
		t.Fatal(err)
	}
	if err := tr.IsValid(nil); err != nil {
		t.Fatal(err)
	}
	return tr
}

// a real signed block map over a real manifest
func (c *c13chain) blockmap(t *testing.T, h int, statesTree, prevSuffrage util.Hash, tag string) BlockMap {
	m := NewBlockMap()
	for _, it := range []base.BlockItemType{
		base.BlockItemProposal, base.BlockItemOperations, base.BlockItemOperationsTree,
		base.BlockItemStates, base.BlockItemStatesTree, base.BlockItemVoteproofs,
	} {
		if err := m.SetItem(NewBlockMapItem(it, c13h("checksum", it, h, tag).String())); err != nil {
			t.Fatal(err)
		}
	}
	var previous util.Hash
	if h > 0 {
		previous = c13h("block", h-1)
	}
	manifest := isaac.NewManifest(base.Height(int64(h)), previous, c13h("proposal", h, tag), c13h("opstree", h, tag),
		statesTree, prevSuffrage, c13Time)
	m.SetManifest(manifest)
	if err := m.Sign(c.locals[0].Address(), c.locals[0].Privatekey(), c13NetworkID); err != nil {
		t.Fatal(err)
	}
	if err := m.IsValid(c13NetworkID); err != nil {
		t.Fatalf("fixture block map invalid: %v", err)
	}
	return m
}

type c13named[T any] struct {
	name string
	v    T
}

type c13proof struct {
	name      string
	p         fixedtree.Proof
	pathValid bool // by construction: is it a hash path for the key of the state it is paired with?
}

func c13reroot(p fixedtree.Proof, tag string) fixedtree.Proof {
	nodes := append([]fixedtree.Node(nil), p.Nodes()...)
	root := nodes[len(nodes)-1]
	xkey := "c13-extra-" + tag
	x := fixedtree.NewBaseNode(xkey).SetHash(valuehash.NewSHA256([]byte(xkey)))
	rkey := "c13-newroot-" + tag
	nr := fixedtree.NewBaseNode(rkey).SetHash(
		valuehash.NewSHA256(util.ConcatBytesSlice([]byte(rkey), root.Hash().Bytes(), x.Hash().Bytes())))
	// [... , oldroot] -> [..., oldroot, x, newroot]: oldroot and x become the children pair of newroot
	nodes = append(nodes, x, nr)
	return fixedtree.NewProof(nodes)
}

// the sub-path that ends at the key's own node: [child0, child1, node(key)]
func c13trunc(p fixedtree.Proof, key string) (fixedtree.Proof, bool) {
	nodes := p.Nodes()
	if len(nodes) <= 3 {
		return fixedtree.Proof{}, false
	}
	for i := 2; i < 4; i++ {
		if nodes[i] != nil && nodes[i].Key() == key {
			return fixedtree.NewProof([]fixedtree.Node{nodes[0], nodes[1], nodes[i]}), true
		}
	}
	return fixedtree.Proof{}, false
}

// c13renamed: a genuine path of another member in which one off-path node (a child, sibling or uncle: its hash is
// carried, never recomputed) is renamed to newKey.
func c13renamed(p fixedtree.Proof, pathKeys map[string]bool, newKey string) (fixedtree.Proof, bool) {
	nodes := append([]fixedtree.Node(nil), p.Nodes()...)
	for i := 0; i < len(nodes)-1; i++ {
		n := nodes[i]
		if n == nil || n.IsEmpty() || pathKeys[n.Key()] {
			continue
		}
		nodes[i] = fixedtree.NewBaseNode(newKey).SetHash(n.Hash())
		return fixedtree.NewProof(nodes), true
	}
	return fixedtree.Proof{}, false
}

func c13pathKeys(members []base.State, pos int) map[string]bool {
	m := map[string]bool{}
	for i := pos; ; i = (i - 1) / 2 {
		m[members[i].Hash().String()] = true
		if i == 0 {
			break
		}
	}
	return m
}

func c13keyIn(p fixedtree.Proof, key string) bool {
	for _, n := range p.Nodes() {
		if n != nil && !n.IsEmpty() && n.Key() == key {
			return true
		}
	}
	return false
}

func c13in(tr fixedtree.Tree, key string) bool {
	found := false
	_ = tr.Traverse(func(_ uint64, n fixedtree.Node) (bool, error) {
		if n.Key() == key {
			found = true
			return false, nil
		}
		return true, nil
	})
	return found
}

func c13rotate[T any](s []T, k int) []T {
	k %= len(s)
	return append(append([]T(nil), s[k:]...), s[:k]...)
}

func TestVerifC13(t *testing.T) {
	r := vlib.Start("C13")
	defer r.Finish()
	_, replaying := r.Replaying()

	r.Rule("contexts = block height h in 0..3 x own states tree size s x position of the suffrage state in it; per context the full product of " +
		"carried map {own, foreign-root, nil-root, other-height} x state {real, alternative successor, suffrage-height gap, block-height skip, non-suffrage, neighbour heights} x " +
		"proof {own-tree path, foreign-tree path, re-rooted, truncated to the state's node, path of another member} x previous {correct, nil, wrong hash, non-adjacent, same/higher height}. " +
		"non-trivial = any case where at least one component is not the honest one (a forgery), plus honest cases that combine foreign pieces consistently")
	r.Assume("signatures, state hashes and manifests are the real implementations; fixedtree.Proof.Prove is trusted to decide 'is a hash path for this key' (checked by C12)")
	r.Assume("every component is individually well-formed; malformed components (bad signature, wrong state hash) are the business of their own IsValid and are not enumerated")

	smax := vlib.Pick(r, 4, 8)
	r.Set("heights", "0..3")
	r.Set("own_tree_sizes", fmt.Sprintf("1..%d", smax))

	c := c13newchain(t)

	type ctxid struct{ h, s, pos int }
	var ctxs []ctxid
	for h := 0; h < 4; h++ {
		for s := 1; s <= smax; s++ {
			for pos := 0; pos < s; pos++ {
				ctxs = append(ctxs, ctxid{h, s, pos})
			}
		}
	}
	r.Set("contexts", len(ctxs))

	for ci, cx := range ctxs {
		if !r.Mine(ci) {
			continue
		}
		if r.Expired() {
			break
		}
		h, s, pos := cx.h, cx.s, cx.pos

		// ---- candidate states
		states := []c13named[base.State]{{"real", c.st[h]}, {"alt", c.alt[h]}}
		if h >= 2 {
			states = append(states, c13named[base.State]{"gap", c.gap[h]}, c13named[base.State]{"skip", c.skip[h]})
		}
		if h < 3 {
			states = append(states, c13named[base.State]{"real-up", c.st[h+1]})
		}
		if h > 0 {
			states = append(states, c13named[base.State]{"real-down", c.st[h-1]})
		}
		dummy0 := c13dummy(h, "d0")
		states = append(states, c13named[base.State]{"nonsuffrage", dummy0})

		// ---- trees: own (size s, real state at pos), foreign (all candidates + s dummies, rotated)
		own := make([]base.State, s)
		di := 0
		for i := range own {
			switch {
			case i == pos:
				own[i] = c.st[h]
			case di == 0:
				own[i] = dummy0
				di++
			default:
				own[i] = c13dummy(h, fmt.Sprintf("d%d", di))
				di++
			}
		}
		t1 := c13tree(t, own)
		var foreign []base.State
		for i := range states {
			foreign = append(foreign, states[i].v)
		}
		for i := 0; i < s; i++ {
			foreign = append(foreign, c13dummy(h, fmt.Sprintf("e%d", i)))
		}
		t2 := c13tree(t, c13rotate(foreign, pos+1))

		// ---- carried maps
		var prevSuf util.Hash
		if h > 0 {
			prevSuf = c.st[h-1].Hash()
		}
		maps := []c13named[BlockMap]{
			{"own", c.blockmap(t, h, t1.Root(), prevSuf, "own")},
			{"foreign", c.blockmap(t, h, t2.Root(), prevSuf, "foreign")},
			{"nilroot", c.blockmap(t, h, nil, prevSuf, "nilroot")},
		}
		// ground truth: the tree each carried map commits to
		committedTree := func(mapname string) (fixedtree.Tree, bool) {
			switch {
			case mapname == "own":
				return t1, true
			case strings.HasPrefix(mapname, "foreign"):
				return t2, true
			default:
				return fixedtree.Tree{}, false
			}
		}
		if h < 3 {
			maps = append(maps, c13named[BlockMap]{"foreign-up", c.blockmap(t, h+1, t2.Root(), c.st[h].Hash(), "foreign-up")})
		}
		if h > 0 {
			var ps util.Hash
			if h > 1 {
				ps = c.st[h-2].Hash()
			}
			maps = append(maps, c13named[BlockMap]{"foreign-down", c.blockmap(t, h-1, t2.Root(), ps, "foreign-down")})
		}

		// ---- previous candidates
		prevs := []c13named[base.State]{{"nil", nil}, {"same", c.st[h]}}
		if h > 0 {
			prevs = append(prevs, c13named[base.State]{"st-1", c.st[h-1]}, c13named[base.State]{"alt-1", c.alt[h-1]})
		}
		if h > 1 {
			prevs = append(prevs, c13named[base.State]{"st-2", c.st[h-2]})
		}
		if h < 3 {
			prevs = append(prevs, c13named[base.State]{"st+1", c.st[h+1]})
		}

		for _, S := range states {
			key := S.v.Hash().String()
			// ---- proof candidates for this state
			var proofs []c13proof
			for _, tr := range []c13named[fixedtree.Tree]{{"t1", t1}, {"t2", t2}} {
				if !c13in(tr.v, key) {
					continue
				}
				p, err := tr.v.Proof(key)
				if err != nil {
					t.Fatal(err)
				}
				proofs = append(proofs, c13proof{tr.name, p, true})
				proofs = append(proofs, c13proof{tr.name + "-reroot", c13reroot(p, tr.name), true})
				if tp, ok := c13trunc(p, key); ok {
					proofs = append(proofs, c13proof{tr.name + "-trunc", tp, true})
				}
			}
			{
				// a valid path of ANOTHER member of the own tree (or of the foreign tree when the own tree has no other member)
				var other fixedtree.Proof
				var err error
				switch {
				case S.name != "real":
					other, err = t1.Proof(c.st[h].Hash().String())
				case s > 1:
					other, err = t1.Proof(dummy0.Hash().String())
				default:
					other, err = t2.Proof(dummy0.Hash().String())
				}
				if err != nil {
					t.Fatal(err)
				}
				proofs = append(proofs, c13proof{"other-member", other, false})
			}
			if !c13in(t1, key) {
				// the state is NOT in the own tree: a genuine own-tree path (of the real state) with one off-path node renamed to it
				if p, err := t1.Proof(c.st[h].Hash().String()); err != nil {
					t.Fatal(err)
				} else if rp, ok := c13renamed(p, c13pathKeys(own, pos), key); ok {
					proofs = append(proofs, c13proof{"t1-offpath-renamed", rp, false})
				}
			}

			for _, M := range maps {
				for _, P := range proofs {
					base3 := fmt.Sprintf("h=%d/s=%d/pos=%d/M=%s/S=%s/P=%s", h, s, pos, M.name, S.name, P.name)
					if replaying {
						if rid, _ := r.Replaying(); !strings.HasPrefix(rid, base3+"/") {
							continue
						}
					}
					sp := NewSuffrageProof(M.v, S.v, P.p)
					verr := sp.IsValid(c13NetworkID)
					r.Trace()

					// ---- reference, from the statement
					manifest := M.v.Manifest()
					_, sverr := base.LoadSuffrageNodesStateValue(S.v)
					structural := sverr == nil && S.v.Height() == manifest.Height()
					pnodes := P.p.Nodes()
					proot := pnodes[len(pnodes)-1].Hash()
					rootMatches := manifest.StatesTree() != nil && proot.Equal(manifest.StatesTree())
					inCommittedTree := false
					if tr, ok := committedTree(M.name); ok {
						inCommittedTree = c13in(tr, key)
					}
					keyInProof := c13keyIn(P.p, key)

					for _, V := range prevs {
						id := base3 + "/prev=" + V.name
						if !r.Want(id) {
							continue
						}
						r.Eval()
						r.StatesN(1)
						honest := M.name == "own" && S.name == "real" && P.name == "t1" && ((h == 0 && V.name == "nil") || V.name == "st-1")
						if !honest {
							r.NontrivialN(1)
						}

						chained := false
						switch {
						case manifest.Height() == base.GenesisHeight:
							chained = V.v == nil && S.v.Height() == base.GenesisHeight
						case V.v == nil:
						case !structural:
						default:
							pv, perr := base.LoadSuffrageNodesStateValue(V.v)
							cv, _ := base.LoadSuffrageNodesStateValue(S.v)
							chained = perr == nil && S.v.Previous() != nil && S.v.Previous().Equal(V.v.Hash()) &&
								S.v.Height() > V.v.Height() && cv.Height() == pv.Height()+1
						}
						// the statement: accepted only if committed and chained; a state or path that does not lead to the
						// manifest's states-tree root is rejected. A genuine path to the manifest's root of a chained state is valid.
						mustAccept := structural && chained && rootMatches && P.pathValid
						mustReject := !structural || !chained || !rootMatches || !inCommittedTree || !keyInProof
						if mustAccept && mustReject {
							t.Fatalf("harness bug: contradictory reference for %s", id)
						}
						want := mustAccept

						var perr error
						stage := "isvalid"
						if verr == nil {
							stage = "prove"
							r.Trace()
							if V.v == nil && manifest.Height() != base.GenesisHeight {
								// Prove(nil) off genesis dereferences the nil previous state: a panic is a rejection here
								// (C13 says nothing about panics); counted, not hidden.
								if panicked, msg := vlib.Catch(func() { perr = sp.Prove(V.v) }); panicked {
									perr = fmt.Errorf("panic: %s", msg)
									r.Add("prove_nil_previous_off_genesis_panicked", 1)
								}
							} else {
								perr = sp.Prove(V.v)
							}
						}
						got := verr == nil && perr == nil

						switch {
						case !mustAccept && !mustReject:
							// the state really is in the committed tree and the path leads to the manifest's root, but the
							// state's node is only an off-path node of another member's path: the statement allows either answer
							r.Outcome(fmt.Sprintf("either-allowed:member-as-offpath-node:accepted=%v", got))
						case got && want:
							r.Outcome("accepted-as-expected")
							if !honest {
								r.Outcome("accepted-as-expected:recombined-consistently")
							}
						case !got && !want:
							r.Outcome("rejected-as-expected:" + stage)
						case got && !want:
							r.Outcome("ACCEPTED-FORGED")
							r.Violation(id, map[string]any{"kind": "forged-proof-accepted", "structural": structural, "path_valid": P.pathValid,
								"root_matches_manifest": rootMatches, "state_in_committed_tree": inCommittedTree, "chained": chained},
								fmt.Sprintf("block height %d, own tree size %d, state at %d: map=%s (states tree %v) state=%s proof=%s (root %v) previous=%s: IsValid == nil and Prove == nil, "+
									"but structural=%v path_valid=%v root_matches_manifest=%v state_in_committed_tree=%v chained=%v", h, s, pos, M.name, manifest.StatesTree(), S.name, P.name, proot, V.name,
									structural, P.pathValid, rootMatches, inCommittedTree, chained),
								map[string]any{"h": h, "s": s, "pos": pos, "map": M.name, "state": S.name, "proof": P.name, "previous": V.name})
						default:
							e := verr
							if e == nil {
								e = perr
							}
							r.Outcome("REJECTED-VALID")
							r.Violation(id, map[string]any{"kind": "valid-proof-rejected", "stage": stage},
								fmt.Sprintf("%s: expected acceptance, got %v", id, e), nil)
						}
						if h == 1 && s == 2 && pos == 0 && S.name == "real" && V.name == "st-1" && (M.name == "own" || M.name == "foreign") && (P.name == "t1" || P.name == "t2") {
							r.Sample(map[string]any{"case": id, "want_accept": want, "accepted": got, "isvalid": fmt.Sprint(verr), "prove": fmt.Sprint(perr)})
						}
					}
				}
			}
		}

		// ---- the same forgeries through the sync path: SuffrageStateBuilder.Build -> prove()
		if h == 3 {
			c.builder(t, r, s, pos, t1, t2, replaying)
		}
	}
}

// builder drives isaac.SuffrageStateBuilder.Build (which calls the unexported prove) over the 4-proof chain
// with one proof replaced by a forgery. The remote callbacks validate like the real ones in launch do.
func (c *c13chain) builder(t *testing.T, r *vlib.Run, s, pos int, _ fixedtree.Tree, _ fixedtree.Tree, replaying bool) {
	// honest chain: block j commits to a tree of size s holding st[j] at pos
	type piece struct {
		own, foreign fixedtree.Tree
		m, mforeign  BlockMap
		members      []base.State
	}
	var ps [4]piece
	for j := 0; j < 4; j++ {
		own := make([]base.State, s)
		for i := range own {
			if i == pos {
				own[i] = c.st[j]
			} else {
				own[i] = c13dummy(j, fmt.Sprintf("b%d", i))
			}
		}
		foreign := append([]base.State{c.alt[j], c.st[j]}, own...)
		foreign[pos+2] = c13dummy(j, "bx")
		var prevSuf util.Hash
		if j > 0 {
			prevSuf = c.st[j-1].Hash()
		}
		ps[j].own = c13tree(t, own)
		ps[j].members = own
		ps[j].foreign = c13tree(t, foreign)
		ps[j].m = c.blockmap(t, j, ps[j].own.Root(), prevSuf, "b-own")
		ps[j].mforeign = c.blockmap(t, j, ps[j].foreign.Root(), prevSuf, "b-foreign")
	}
	mk := func(m BlockMap, st base.State, tr fixedtree.Tree) base.SuffrageProof {
		p, err := tr.Proof(st.Hash().String())
		if err != nil {
			t.Fatal(err)
		}
		return NewSuffrageProof(m, st, p)
	}
	type variant struct {
		name      string
		committed bool
		mk        func(j int) base.SuffrageProof
	}
	variants := []variant{
		{"honest", true, func(j int) base.SuffrageProof { return mk(ps[j].m, c.st[j], ps[j].own) }},
		{"honest-foreign-map", true, func(j int) base.SuffrageProof { return mk(ps[j].mforeign, c.st[j], ps[j].foreign) }},
		{"foreign-tree-path", false, func(j int) base.SuffrageProof { return mk(ps[j].m, c.st[j], ps[j].foreign) }},
		{"swapped-state-with-foreign-path", false, func(j int) base.SuffrageProof { return mk(ps[j].m, c.alt[j], ps[j].foreign) }},
		{"offpath-node-renamed-to-swapped-state", false, func(j int) base.SuffrageProof {
			p, _ := ps[j].own.Proof(c.st[j].Hash().String())
			rp, ok := c13renamed(p, c13pathKeys(ps[j].members, pos), c.alt[j].Hash().String())
			if !ok {
				return nil
			}
			return NewSuffrageProof(ps[j].m, c.alt[j], rp)
		}},
		{"rerooted", false, func(j int) base.SuffrageProof {
			p, _ := ps[j].own.Proof(c.st[j].Hash().String())
			return NewSuffrageProof(ps[j].m, c.st[j], c13reroot(p, "b"))
		}},
	}
	for j := 0; j < 4; j++ {
		for _, v := range variants {
			id := fmt.Sprintf("builder/s=%d/pos=%d/j=%d/%s", s, pos, j, v.name)
			forged := v.mk(j)
			if forged == nil { // variant not constructible in this tree shape (no off-path node)
				continue
			}
			if !r.Want(id) {
				continue
			}
			r.Eval()
			r.StatesN(1)
			r.Trace()
			if v.name != "honest" {
				r.NontrivialN(1)
			}
			chain := make([]base.SuffrageProof, 4)
			for k := range chain {
				chain[k] = variants[0].mk(k)
			}
			chain[j] = forged
			want := v.committed
			b := isaac.NewSuffrageStateBuilder(c13NetworkID,
				func(context.Context) (base.Height, base.SuffrageProof, bool, error) {
					return base.Height(3), chain[3], true, nil
				},
				func(_ context.Context, sufheight base.Height) (base.SuffrageProof, bool, error) {
					i := int(sufheight.Int64())
					if i < 0 || i > 3 {
						return nil, false, nil
					}
					if err := chain[i].IsValid(c13NetworkID); err != nil {
						return nil, false, err
					}
					return chain[i], true, nil
				},
				func(context.Context) (base.State, bool, error) { return nil, false, nil },
			)
			_, proofs, _, err := b.Build(context.Background(), nil)
			got := err == nil && len(proofs) > 0
			switch {
			case got && want:
				r.Outcome("builder-accepted-as-expected")
			case !got && !want:
				r.Outcome("builder-rejected-as-expected")
			case got && !want:
				r.Outcome("BUILDER-ACCEPTED-FORGED")
				r.Violation(id, map[string]any{"kind": "builder-accepted-forged-chain", "forgery": v.name, "last_in_chain": j == 3},
					fmt.Sprintf("SuffrageStateBuilder.Build accepted a 4-proof chain whose proof #%d is %q (state not committed in the carried block's states tree); own tree size %d, state at %d", j, v.name, s, pos),
					map[string]any{"s": s, "pos": pos, "j": j, "variant": v.name})
			default:
				r.Outcome("BUILDER-REJECTED-VALID")
				r.Violation(id, map[string]any{"kind": "builder-rejected-valid-chain", "variant": v.name}, fmt.Sprintf("%s: %v", id, err), nil)
			}
			_ = replaying
		}
	}
}
